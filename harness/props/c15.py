"""C15 correspondence: pypose.module.dynamics (System/LTI/LTV/NLS) and bmv/bvv/bvmv vs Model/Dynamics.v.

Exact route (Q, vm_compute, equality): time traces of random operation interleavings on real LTI / LTV /
NLS objects; bmv/bvv/bvmv and LTI steps on dyadic data, batched with broadcasting (compared per batch
item); whole LTV traces (docstring subclass with `_t % T` indexing, optional stacked c1/c2); NLS objects
whose transition / observation functions are random POLYNOMIAL expression trees compiled to Python
closures - every output of calls, direct calls and A,B,C,D,c1,c2 reads along a random history.
Enclosure route (R, interval): NLS with polynomial/trigonometric trees - A,B,C,D,c1,c2 of the
implementation (torch autograd) vs the model's symbolic derivative, |diff| <= 256 eps * magnitude.
Property oracle (independent of the Coq model): time = last assigned + calls since (plain loop), sympy
Jacobians at the recorded reference point, exact rationals / 50-digit evaluation.
Round 5: (a) twins - a live object is duplicated (copy.deepcopy / pickle round trip) in the middle of a
history and both objects go on, interleaved; each must behave as ONE object that lived through its own
operations (own clock, own equations at its own time, own last state / reference point), judged by the same
oracle and the same Coq evaluators as single objects, plus the final times of both; (b) reference points that
are special by value (fixed points g(x*,u*,t*) == x* / f == x*, echoed input, exact zeros, zero state / input /
time) of systems that are not special as functions, on both routes."""
import math
from ..common import *

K_EPS = 256
EPS = 2.0 ** -52
RULE = ('time traces: kind in {LTI,LTV,NLS} x random op lists (call, direct forward/state_transition/observation/reads, reset(t), systime=t (int/tensor), '
        'set_refpoint(t given / None)), length 1..40, integer times -8..40, directed block = every op after every op; '
        'products / LTI: dims 1..4, entries k/4 (|k|<=8), batch shapes (), (2,), (2,1)x(1,3) broadcast, with/without c1,c2; '
        'LTV: period T 1..4, stacked matrices entries in {-1,-1/2,0,1/2,1}, traces of 3..14 ops incl. negative times; '
        'NLS: nx,nu in 1..3, component trees over {const k/4, x_i, u_j, t, +, *, sin, cos} depth<=4 (polynomial trees degree<=4 for the exact route), '
        'histories of 4..14 ops (call, direct, reset, systime, set_refpoint with given/None state,input,t, reads); '
        'special reference points: components base + sum (factor vanishing at the point) * tree with base in {x_i (fixed point by value), u_i, 0, const}, '
        'zero state / zero input / t*=0 with probability ~1/3 each, reached explicitly, through the clock or through a call, never as first operation; '
        'twins: copy.deepcopy / pickle round trip of a live LTI/LTV/NLS object after 0..8 ops, both objects then run 1..8 more ops interleaved, each judged as one object that lived through its own history; '
        'a case = one op of a trace / one batch item / one linearisation read; non-trivial = non-zero data; distinct by value')



def shard(items, n):
    return [items[k:k + n] for k in range(0, len(items), n)]


def dy(rng, den=4, lim=8):
    return rng.randint(-lim, lim) / den


def dyvec(rng, n, den=4, lim=8):
    return [dy(rng, den, lim) for _ in range(n)]


def dymat(rng, r, c, den=4, lim=8):
    return [dyvec(rng, c, den, lim) for _ in range(r)]


def qmat(M):
    return coq_list(qlist(r) for r in M)


def qopt(v, f=qlist):
    return 'None' if v is None else '(Some %s)' % f(v)


def zb(b):
    return 'true' if b else 'false'


# ------------------------------------------------------------------------------------ expression trees
# ('c', v) | ('x', i) | ('u', j) | ('t',) | ('+', a, b) | ('*', a, b) | ('sin', a) | ('cos', a)
def gen_tree(rng, nx, nu, depth, deg, trig):
    """deg = remaining polynomial degree budget (products split it); trig = allow sin/cos"""
    if depth == 0 or rng.random() < 0.22:
        k = rng.random()
        if k < 0.22:
            return ('c', dy(rng))
        if k < 0.60 or deg < 1:
            return ('x', rng.randrange(nx)) if deg >= 1 else ('c', dy(rng))
        if k < 0.85:
            return ('u', rng.randrange(nu))
        return ('t',)
    k = rng.random()
    if trig and k < 0.3:
        return (rng.choice(['sin', 'cos']), gen_tree(rng, nx, nu, depth - 1, max(deg, 2), trig))
    if k < 0.62 and deg >= 2:
        d1 = rng.randint(1, deg - 1)
        return ('*', gen_tree(rng, nx, nu, depth - 1, d1, trig), gen_tree(rng, nx, nu, depth - 1, deg - d1, trig))
    return ('+', gen_tree(rng, nx, nu, depth - 1, deg, trig), gen_tree(rng, nx, nu, depth - 1, deg, trig))


def t_poly(e):
    return e[0] not in ('sin', 'cos') and all(t_poly(a) for a in e[1:] if isinstance(a, tuple))


def t_src(e):
    k = e[0]
    if k == 'c':
        return 'K(%r)' % float(e[1])
    if k == 'x':
        return 'x[%d]' % e[1]
    if k == 'u':
        return 'u[%d]' % e[1]
    if k == 't':
        return 'tt'
    if k in '+*':
        return '(%s %s %s)' % (t_src(e[1]), k, t_src(e[2]))
    return 'torch.%s(%s)' % (k, t_src(e[1]))


def t_coq(e, lit):
    k = e[0]
    if k == 'c':
        return '(EConst %s)' % lit(e[1])
    if k == 'x':
        return '(EX %d)' % e[1]
    if k == 'u':
        return '(EU %d)' % e[1]
    if k == 't':
        return 'ET'
    if k in '+*':
        return '(%s %s %s)' % ('EAdd' if k == '+' else 'EMul', t_coq(e[1], lit), t_coq(e[2], lit))
    return '(%s %s)' % ('ESin' if k == 'sin' else 'ECos', t_coq(e[1], lit))


def t_sym(e, X, U, T):
    import sympy as sp
    k = e[0]
    if k == 'c':
        return sp.Rational(Fraction(e[1]).numerator, Fraction(e[1]).denominator)
    if k == 'x':
        return X[e[1]]
    if k == 'u':
        return U[e[1]]
    if k == 't':
        return T
    if k == '+':
        return t_sym(e[1], X, U, T) + t_sym(e[2], X, U, T)
    if k == '*':
        return t_sym(e[1], X, U, T) * t_sym(e[2], X, U, T)
    return (sp.sin if k == 'sin' else sp.cos)(t_sym(e[1], X, U, T))


def t_mag(e, x, u, t):
    """(magnitude bound of the value, magnitude bound of any first partial derivative) computed with
    absolute values - the scale of the rounding error of a float evaluation"""
    k = e[0]
    if k == 'c':
        return abs(e[1]), 0.0
    if k == 'x':
        return abs(x[e[1]]), 1.0
    if k == 'u':
        return abs(u[e[1]]), 1.0
    if k == 't':
        return abs(t), 0.0
    if k == '+':
        a, b = t_mag(e[1], x, u, t), t_mag(e[2], x, u, t)
        return a[0] + b[0], a[1] + b[1]
    if k == '*':
        a, b = t_mag(e[1], x, u, t), t_mag(e[2], x, u, t)
        return a[0] * b[0], a[1] * b[0] + a[0] * b[1]
    a = t_mag(e[1], x, u, t)        # sin / cos: the argument's rounding error passes through with factor <= 1
    return 1.0 + a[0], a[1] * (1.0 + a[0])


def t_size(e):
    return 1 + sum(t_size(a) for a in e[1:] if isinstance(a, tuple))


def make_nls(pp, torch, fs, gs):
    """an NLS subclass whose state_transition / observation are the compiled trees"""
    K = lambda v: torch.tensor(v, dtype=torch.float64)          # constants are 0-dim tensors
    F_ = eval('lambda x, u, tt, torch, K: (%s,)' % ', '.join(t_src(f) for f in fs))
    G_ = eval('lambda x, u, tt, torch, K: (%s,)' % ', '.join(t_src(g) for g in gs))

    class Tree(pp.module.NLS):
        def state_transition(self, x, u, t=None):
            tt = torch.as_tensor(t).to(x.dtype).reshape(-1)[0]
            return torch.stack([torch.as_tensor(e, dtype=x.dtype) for e in F_(x, u, tt, torch, K)])

        def observation(self, x, u, t=None):
            tt = torch.as_tensor(t).to(x.dtype).reshape(-1)[0]
            return torch.stack([torch.as_tensor(e, dtype=x.dtype) for e in G_(x, u, tt, torch, K)])
    return Tree()


def read_lin(s):
    out = []
    for m in (s.A, s.B, s.C, s.D, s.c1, s.c2):
        out += tolist(m)
    return out


# ------------------------------------------------------------------------------------ twins of live systems
# A case of kind time / ltv / nls may carry  twin = dict(how, at, ops2, sched):  after `at` operations of
# c['ops'] a second object is made from the live one (copy.deepcopy, or a pickle round trip as torch.save /
# torch.load do); from then on the original runs ops[at:], the twin runs ops2, interleaved by `sched`
# (a string of '0' = original / '1' = twin).  Both are systems of the property: the twin must behave as ONE
# object that lived through ops[:at] ++ ops2, the original as one that lived through ops - own clock, own
# stored state / reference point - so the oracle (and the Coq model) of a single object judges each of them.
TWIN_HOWS = ('deepcopy', 'pickle')


def fork_system(s, how):
    import copy
    import pickle
    import sys
    if how == 'deepcopy':
        return copy.deepcopy(s)
    cls = type(s)
    if cls.__module__ == __name__:         # classes made inside make_ltv / make_nls: give pickle a module-level name
        cls.__qualname__ = '_Twin_' + cls.__name__
        setattr(sys.modules[__name__], cls.__qualname__, cls)
    return pickle.loads(pickle.dumps(s))


def drive(step, m, ops, twin=None):
    """m: dict with the live object under 's' (+ whatever the driver carries along, e.g. the current state);
    step(m, op) -> trace entry.  -> (trace of the original, trace of the twin incl. the shared prefix,
    (final time of the original, final time of the twin)); the last two are None without a twin"""
    if not twin:
        return [step(m, o) for o in ops], None, None
    at = twin['at']
    tr = [step(m, o) for o in ops[:at]]
    m2 = dict(m)
    m2['s'] = fork_system(m['s'], twin['how'])
    trs, ms, q = [tr, list(tr)], [m, m2], [list(ops[at:]), [tuple(o) for o in twin['ops2']]]
    for w in [int(ch) for ch in twin['sched']] + [0] * len(q[0]) + [1] * len(q[1]):
        if q[w]:
            trs[w].append(step(ms[w], q[w].pop(0)))
    return trs[0], trs[1], (int(m['s'].systime), int(m2['s'].systime))


def twin_parts(c):
    """[(who, the operations that object lives through)]"""
    ops = [tuple(o) for o in c['ops']]
    tw = c.get('twin')
    if not tw:
        return [('', ops)]
    return [('original', ops), ('twin', ops[:tw['at']] + [tuple(o) for o in tw['ops2']])]


def twin_desc(c, who):
    tw = c.get('twin')
    if not tw:
        return ''
    other = [tuple(o) for o in tw['ops2']] if who == 'original' else [tuple(o) for o in c['ops'][tw['at']:]]
    return ' [this is the %s of a pair: twin made by %s after the first %d ops, turns %r (0 = original, 1 = twin), meanwhile the other object ran %s]' % (
        who, tw['how'], tw['at'], tw['sched'], other)


def twin_raise(c, e, ignore):
    key = 'twin:%s:raises' % c['twin']['how']
    if key in ignore:
        return None
    return key, '%s of a live %s system after ops %s raised %r' % (c['twin']['how'], c.get('sys', c['kind']), [tuple(o) for o in c['ops'][:c['twin']['at']]], e)


def gen_twin(rng, n, ops2):
    return dict(how=rng.choice(TWIN_HOWS), at=rng.randint(0, n), ops2=ops2, sched=''.join(rng.choice('01') for _ in range(12)))


# ------------------------------------------------------------------------------------ time traces
# op = ('call',) | ('direct', how) | ('reset', v, as_tensor) | ('settime', v, as_tensor) | ('setref', v or None)
def coq_op(o):
    k = o[0]
    if k == 'call':
        return 'Call'
    if k == 'direct':
        return 'Direct'
    if k == 'reset':
        return '(Reset %s%%Z)' % zlit(o[1])
    if k == 'settime':
        return '(SetTime %s%%Z)' % zlit(o[1])
    return '(SetRef None)' if o[1] is None else '(SetRef (Some %s%%Z))' % zlit(o[1])


def gen_top(rng, kind):
    k = rng.random()
    if k < 0.34:
        return ('call',)
    if k < 0.52:
        return ('direct', rng.choice(['forward', 'st', 'obs', 'read', 'bad', 'bad']))
    # values repeat often, so that a time tensor the caller keeps is assigned more than once
    tv = lambda: rng.choice([0, 3, 7]) if rng.random() < 0.6 else rng.randint(-8, 40)
    if k < 0.66:
        return ('reset', tv(), rng.random() < 0.4)
    if k < 0.80:
        return ('settime', tv(), rng.random() < 0.5)
    return ('setref', None if rng.random() < 0.3 else tv())


def mk_system(pp, torch, kind):
    f64 = torch.float64
    A = torch.tensor([[1.0, 0.5], [0.0, 1.0]], dtype=f64)
    B = torch.tensor([[0.5], [1.0]], dtype=f64)
    C = torch.eye(2, dtype=f64)
    D = torch.zeros(2, 1, dtype=f64)
    if kind == 'LTI':
        s = pp.module.LTI(A, B, C, D)
    elif kind == 'LTV':
        s = pp.module.LTV(A, B, C, D)
    else:
        s = make_nls(pp, torch, [('+', ('*', ('x', 0), ('t',)), ('u', 0)), ('x', 1)], [('x', 0)])
    return s, torch.tensor([0.5, -1.0], dtype=f64), torch.tensor([0.25], dtype=f64)


def apply_top(torch, kind, s, x, u, o, cache=None):
    """execute one time-machine op on the real object; returns True iff it raised (or changed a time
    tensor owned by the caller).  Time tensors handed to reset / systime / set_refpoint are kept alive
    in `cache` and REUSED whenever the same value is assigned again, as a caller holding on to its
    tensors would: an implementation that aliases them instead of copying their value is then visible."""
    cache = {} if cache is None else cache

    def tt(v):
        if v not in cache:
            cache[v] = torch.tensor(v)
        return cache[v]
    try:
        k = o[0]
        if k == 'call':
            s(x, u)
        elif k == 'direct':
            how = o[1]
            if how == 'forward':
                s.forward(x, u)
            elif how == 'st':
                s.state_transition(x, u, s.systime) if kind == 'NLS' else s.state_transition(x, u)
            elif how == 'obs':
                s.observation(x, u, s.systime) if kind == 'NLS' else s.observation(x, u)
            elif how == 'bad':
                # a call that fails inside forward (malformed state) and is caught by the caller, who goes on using the
                # object: no step was completed, so - like the other direct uses - it must leave the time alone
                try:
                    s(None, u)
                except Exception:
                    pass
            else:
                int(s.systime)
                if kind != 'NLS':
                    s.A, s.B, s.C, s.D, s.c1, s.c2
        elif k == 'reset':
            s.reset(tt(o[1]) if o[2] else o[1])
        elif k == 'settime':
            s.systime = tt(o[1]) if o[2] else o[1]
        else:
            t = None if o[1] is None else tt(o[1])
            r = s.set_refpoint(x, u, t)
            assert r is s
        return any(int(v) != key for key, v in cache.items())
    except Exception:
        return True


def run_time_impl(pp, torch, kind, t0, ops, twin=None):
    """-> trace [(time, raised)] ; with a twin: (trace of the original, trace of the twin, final times)"""
    s, x, u = mk_system(pp, torch, kind)
    s.reset(t0)
    cache = {}                                  # the caller's time tensors: one caller drives both objects of a pair

    def step(m, o):
        raised = apply_top(torch, kind, m['s'], x, u, o, cache)
        return (int(m['s'].systime), raised)
    r = drive(step, dict(s=s), ops, twin)
    return r if twin else r[0]


def doc_time(kind, t0, ops):
    """the property text: every call advances the time by one, reset / systime assignment (and the
    time-assigning LTV.set_refpoint(t)) set it, nothing else touches it, nothing raises"""
    base, calls, tr = t0, 0, []
    for o in ops:
        if o[0] == 'call':
            calls += 1
        elif o[0] in ('reset', 'settime'):
            base, calls = o[1], 0
        elif o[0] == 'setref' and kind == 'LTV' and o[1] is not None:
            base, calls = o[1], 0
        tr.append((base + calls, False))
    return tr


def check_time_doc(pp, torch, c, ignore=()):
    """returns (key, description) of the first departure from the documented behaviour, or None"""
    parts, tw = twin_parts(c), c.get('twin')
    try:
        got = run_time_impl(pp, torch, c['sys'], c['t0'], parts[0][1], tw)
    except Exception as e:
        if not tw:
            raise
        return twin_raise(c, e, ignore)
    pre = 'twin:' if tw else ''
    for (who, ops), tr in zip(parts, got[:2] if tw else [got]):
        exp = doc_time(c['sys'], c['t0'], ops)
        for i, (g, e) in enumerate(zip(tr, exp)):
            if g != e:
                o = ops[i]
                what = 'raises' if g[1] else 'leaves systime=%d, documented %d' % (g[0], e[0])
                key = pre + 'time:%s:%s%s' % (c['sys'], o[0], ':raises' if g[1] else '')
                if key in ignore:
                    continue
                return key, '%s from t0=%d after ops %s: op %s %s%s' % (c['sys'], c['t0'], ops[:i], o, what, twin_desc(c, who))
    if tw and 'twin:time:final' not in ignore:
        fin = tuple(([(c['t0'], False)] + doc_time(c['sys'], c['t0'], ops))[-1][0] for _, ops in parts)
        if tuple(got[2]) != fin:
            return 'twin:time:final', '%s from t0=%d: original ran %s, its %s twin (made after %d ops, turns %r) ran %s: final times (original, twin) = %s, documented %s' % (
                c['sys'], c['t0'], parts[0][1], tw['how'], tw['at'], tw['sched'], [tuple(o) for o in tw['ops2']], tuple(got[2]), fin)
    return None


# ------------------------------------------------------------------------------------ products, LTI
BSHAPES = [((), ()), ((), ()), ((2,), (2,)), ((2, 1), (1, 3)), ((), (3,)), ((2,), ()), ((1,), (2,))]


def rand_t(torch, rng, shape, den=4, lim=8):
    n = 1
    for d in shape:
        n *= d
    return torch.tensor([dy(rng, den, lim) for _ in range(n)], dtype=torch.float64).reshape(shape)


def items(torch, t, bshape, core):
    """the tensor broadcast to bshape + its last `core` dims, as a list of per-item nested lists"""
    cs = tuple(t.shape[len(t.shape) - core:])
    full = torch.broadcast_to(t, tuple(bshape) + cs).reshape((-1,) + cs)
    return [full[i].tolist() for i in range(full.shape[0])]


def gen_lin_case(torch, rng):
    kind = rng.randrange(3)
    sa, sb = rng.choice(BSHAPES)
    n, m = rng.randint(1, 4), rng.randint(1, 4)
    bs = tuple(torch.broadcast_shapes(sa, sb))
    if kind == 0:
        return dict(kind='lin', op=0, M=rand_t(torch, rng, sa + (n, m)).tolist(), l=None, r=rand_t(torch, rng, sb + (m,)).tolist(), sa=sa, sb=sb)
    if kind == 1:
        return dict(kind='lin', op=1, M=None, l=rand_t(torch, rng, sa + (n,)).tolist(), r=rand_t(torch, rng, sb + (m,)).tolist(), sa=sa, sb=sb)
    sc = rng.choice([sa, sb, bs])
    return dict(kind='lin', op=2, M=rand_t(torch, rng, sc + (n, m)).tolist(), l=rand_t(torch, rng, sa + (n,)).tolist(),
                r=rand_t(torch, rng, sb + (m,)).tolist(), sa=sa, sb=sb)


def run_lin_impl(pp, torch, c):
    """-> list of per-item dicts (M, l, r, out) ; raises if the implementation raises"""
    f64 = torch.float64
    M = None if c['M'] is None else torch.tensor(c['M'], dtype=f64)
    l = None if c['l'] is None else torch.tensor(c['l'], dtype=f64)
    r = torch.tensor(c['r'], dtype=f64)
    if c['op'] == 0:
        out = pp.bmv(M, r)
        bs = tuple(out.shape[:-1])
        Ms, rs, os_ = items(torch, M, bs, 2), items(torch, r, bs, 1), items(torch, out, bs, 1)
        return [dict(M=Ms[i], l=[], r=rs[i], out=os_[i]) for i in range(len(os_))]
    if c['op'] == 1:
        out = pp.bvv(l, r)
        bs = tuple(out.shape[:-2])
        ls, rs, os_ = items(torch, l, bs, 1), items(torch, r, bs, 1), items(torch, out, bs, 2)
        return [dict(M=[], l=ls[i], r=rs[i], out=[v for row in os_[i] for v in row]) for i in range(len(os_))]
    out = pp.bvmv(l, M, r)
    bs = tuple(torch.broadcast_shapes(tuple(l.shape[:-1]), tuple(M.shape[:-2]), tuple(r.shape[:-1])))
    o = out.reshape(-1).tolist() if bs else out.reshape(-1).tolist()
    Ms, ls, rs = items(torch, M, bs, 2), items(torch, l, bs, 1), items(torch, r, bs, 1)
    assert len(o) == len(Ms), (out.shape, bs)
    return [dict(M=Ms[i], l=ls[i], r=rs[i], out=[o[i]]) for i in range(len(o))]


def doc_lin(op, it):
    M, l, r = it['M'], it['l'], it['r']
    if op == 0:
        return [sum(F(a) * F(b) for a, b in zip(row, r)) for row in M]
    if op == 1:
        return [F(a) * F(b) for a in l for b in r]
    return [sum(F(l[i]) * F(M[i][j]) * F(r[j]) for i in range(len(l)) for j in range(len(r)))]


def check_lin_doc(pp, torch, c):
    try:
        its = run_lin_impl(pp, torch, c)
    except Exception as e:
        return 'linalg:%s:raises' % ['bmv', 'bvv', 'bvmv'][c['op']], '%s raised %r on shapes %s %s' % (['bmv', 'bvv', 'bvmv'][c['op']], e, c['sa'], c['sb'])
    for k, it in enumerate(its):
        exp = doc_lin(c['op'], it)
        if [F(v) for v in it['out']] != exp:
            return ('linalg:%s:value' % ['bmv', 'bvv', 'bvmv'][c['op']],
                    '%s batch item %d: got %s, sum-of-products definition gives %s (l=%s M=%s r=%s)' % (['bmv', 'bvv', 'bvmv'][c['op']], k, it['out'], [float(v) for v in exp], it['l'], it['M'], it['r']))
    return None


def gen_lti_case(torch, rng):
    sa, sb = rng.choice(BSHAPES)
    n, p, q = rng.randint(1, 4), rng.randint(1, 3), rng.randint(1, 3)
    bs = tuple(torch.broadcast_shapes(sa, sb))
    c = dict(kind='lti', sa=sa, sb=sb,
             A=rand_t(torch, rng, sa + (n, n)).tolist(), B=rand_t(torch, rng, sa + (n, p)).tolist(),
             C=rand_t(torch, rng, sa + (q, n)).tolist(), D=rand_t(torch, rng, sa + (q, p)).tolist(),
             c1=rand_t(torch, rng, rng.choice([(), sa, bs]) + (n,)).tolist() if rng.random() < 0.6 else None,
             c2=rand_t(torch, rng, rng.choice([(), sa, bs]) + (q,)).tolist() if rng.random() < 0.6 else None,
             x=rand_t(torch, rng, sb + (n,), 8, 16).tolist(), u=rand_t(torch, rng, rng.choice([(), sb]) + (p,), 8, 16).tolist(),
             scalar=False)
    if n == 1 and p == 1 and sb == () and rng.random() < 0.5:
        c['x'], c['u'], c['scalar'] = dy(rng, 8, 16), dy(rng, 8, 16), True      # 0-dim state and input
    return c


def run_lti_impl(pp, torch, c):
    f64 = torch.float64
    T = lambda v: None if v is None else torch.tensor(v, dtype=f64)
    A, B, C, D, c1, c2, x, u = (T(c[k]) for k in ('A', 'B', 'C', 'D', 'c1', 'c2', 'x', 'u'))
    s = pp.module.LTI(A, B, C, D, c1, c2)
    nx, y = s(x, u)
    assert int(s.systime) == 1
    x1, u1 = torch.atleast_1d(x), torch.atleast_1d(u)
    bs = tuple(nx.shape[:-1])
    assert tuple(y.shape[:-1]) == bs, (nx.shape, y.shape)
    nb = 1
    for d in bs:
        nb *= d
    g = lambda t, core: [None] * nb if t is None else items(torch, t, bs, core)
    As, Bs, Cs, Ds, c1s, c2s = g(A, 2), g(B, 2), g(C, 2), g(D, 2), g(c1, 1), g(c2, 1)
    xs, us, nxs, ys = g(x1, 1), g(u1, 1), g(nx, 1), g(y, 1)
    return [dict(A=As[i], B=Bs[i], C=Cs[i], D=Ds[i], c1=c1s[i], c2=c2s[i], x=xs[i], u=us[i], nx=nxs[i], y=ys[i]) for i in range(len(nxs))]


def doc_affine(M, N, c, x, u):
    return [sum(F(a) * F(b) for a, b in zip(M[i], x)) + sum(F(a) * F(b) for a, b in zip(N[i], u)) + (F(c[i]) if c is not None else 0) for i in range(len(M))]


def check_lti_doc(pp, torch, c):
    try:
        its = run_lti_impl(pp, torch, c)
    except Exception as e:
        return 'lti:raises', 'LTI(A,B,C,D,c1,c2)(x,u) raised %r (batch shapes %s %s)' % (e, c['sa'], c['sb'])
    for k, it in enumerate(its):
        e1, e2 = doc_affine(it['A'], it['B'], it['c1'], it['x'], it['u']), doc_affine(it['C'], it['D'], it['c2'], it['x'], it['u'])
        if [F(v) for v in it['nx']] != e1:
            return 'lti:state-equation', 'LTI batch item %d: next state %s, A x + B u + c1 = %s (%s)' % (k, it['nx'], [float(v) for v in e1], it)
        if [F(v) for v in it['y']] != e2:
            return 'lti:observation-equation', 'LTI batch item %d: observation %s, C x + D u + c2 = %s (%s)' % (k, it['y'], [float(v) for v in e2], it)
    return None


# ------------------------------------------------------------------------------------ LTV traces
# lop = ('call', u) | ('direct', u) | ('reset', v) | ('settime', v) | ('setref', v or None)
def make_ltv(pp, torch, c):
    f64 = torch.float64
    T_ = lambda v: None if v is None else torch.tensor(v, dtype=f64)

    class MyLTV(pp.module.LTV):                 # the subclass pattern of the LTV docstring
        def __init__(self, A, B, C, D, c1, c2, T):
            super().__init__(A, B, C, D, c1, c2)
            self.T = T

        @property
        def A(self):
            return self._A[..., self._t % self.T, :, :]

        @property
        def B(self):
            return self._B[..., self._t % self.T, :, :]

        @property
        def C(self):
            return self._C[..., self._t % self.T, :, :]

        @property
        def D(self):
            return self._D[..., self._t % self.T, :, :]

        @property
        def c1(self):
            return None if self._c1 is None else self._c1[..., self._t % self.T, :]

        @property
        def c2(self):
            return None if self._c2 is None else self._c2[..., self._t % self.T, :]
    return MyLTV(T_(c['A']), T_(c['B']), T_(c['C']), T_(c['D']), T_(c['c1']), T_(c['c2']), c['T'])


def gen_ltv_case(torch, rng):
    T, n, p, q = rng.randint(1, 4), rng.randint(1, 3), rng.randint(1, 2), rng.randint(1, 2)
    b = rng.choice([None, None, 2])
    pre = () if b is None else (b,)
    m = lambda *sh: rand_t(torch, rng, pre + sh, 2, 2).tolist()
    c = dict(kind='ltv', T=T, b=b, A=m(T, n, n), B=m(T, n, p), C=m(T, q, n), D=m(T, q, p),
             c1=m(T, n) if rng.random() < 0.5 else None, c2=m(T, q) if rng.random() < 0.5 else None,
             t0=rng.randint(-6, 12), x0=rand_t(torch, rng, pre + (n,), 4, 8).tolist())
    c['ops'] = gen_ltv_ops(torch, rng, pre, p, rng.randint(3, 14))
    return c


def gen_ltv_ops(torch, rng, pre, p, n):
    ops, ncall = [], 0
    for _ in range(n):
        k = rng.random()
        if k < 0.45 and ncall < 9:
            ops.append(('call', rand_t(torch, rng, rng.choice([(), pre]) + (p,), 4, 8).tolist()))
            ncall += 1
        elif k < 0.6:
            ops.append(('direct', rand_t(torch, rng, pre + (p,), 4, 8).tolist()))
        elif k < 0.72:
            ops.append(('reset', rng.randint(-9, 20)))
        elif k < 0.84:
            ops.append(('settime', rng.randint(-9, 20)))
        else:
            ops.append(('setref', None if rng.random() < 0.25 else rng.randint(-9, 20)))
    return ops


def run_ltv_impl(pp, torch, c):
    """-> trace [(time, raised, out per batch item)] ; with c['twin']: (trace of the original, of the twin, final times)"""
    f64 = torch.float64
    s = make_ltv(pp, torch, c)
    s.reset(c['t0'])
    nb = 1 if c['b'] is None else c['b']

    def step(m, o):
        s, x = m['s'], m['x']
        raised, out = False, [[] for _ in range(nb)]
        try:
            if o[0] == 'call':
                u = torch.tensor(o[1], dtype=f64)
                nx, y = s(x, u)
                m['x'] = nx
                out = [a + b for a, b in zip(nx.reshape(nb, -1).tolist(), torch.broadcast_to(y, nx.shape[:-1] + y.shape[-1:]).reshape(nb, -1).tolist())]
            elif o[0] == 'direct':
                u = torch.tensor(o[1], dtype=f64)
                nx, y = s.state_transition(x, u), s.observation(x, u)
                out = [a + b for a, b in zip(nx.reshape(nb, -1).tolist(), y.reshape(nb, -1).tolist())]
            elif o[0] == 'reset':
                s.reset(o[1])
            elif o[0] == 'settime':
                s.systime = o[1]
            else:
                s.set_refpoint(t=None if o[1] is None else torch.tensor(o[1]))
        except Exception:
            raised = True
        return (int(s.systime), raised, out)
    tw = c.get('twin')
    r = drive(step, dict(s=s, x=torch.tensor(c['x0'], dtype=f64)), [tuple(o) for o in c['ops']], tw)
    return r if tw else r[0]


def coq_lop(o, b, nb):
    """the op as seen by batch item b"""
    if o[0] in ('call', 'direct'):
        u = o[1]
        if nb > 1 and isinstance(u[0], list):
            u = u[b]
        return '(%s %s)' % ('LCall' if o[0] == 'call' else 'LDirect', qlist(u))
    if o[0] == 'reset':
        return '(LReset %s%%Z)' % zlit(o[1])
    if o[0] == 'settime':
        return '(LSetTime %s%%Z)' % zlit(o[1])
    return '(LSetRef None)' if o[1] is None else '(LSetRef (Some %s%%Z))' % zlit(o[1])


def doc_ltv(c, b):
    """property text: x' = A_t x + B_t u + c1_t, y = C_t x + D_t u + c2_t with t the current time, index t mod T"""
    nb = 1 if c['b'] is None else c['b']
    sel = (lambda v: v) if c['b'] is None else (lambda v: None if v is None else v[b])
    A, B, C, D, c1, c2 = (sel(c[k]) for k in ('A', 'B', 'C', 'D', 'c1', 'c2'))
    x, t, tr = [F(v) for v in sel(c['x0'])], c['t0'], []
    for o in c['ops']:
        out = []
        if o[0] in ('call', 'direct'):
            u = o[1][b] if (nb > 1 and isinstance(o[1][0], list)) else o[1]
            i = t % c['T']
            nx = doc_affine(A[i], B[i], None if c1 is None else c1[i], x, u)
            y = doc_affine(C[i], D[i], None if c2 is None else c2[i], x, u)
            out = nx + y
            if o[0] == 'call':
                x, t = nx, t + 1
        elif o[0] in ('reset', 'settime'):
            t = o[1]
        elif o[1] is not None:
            t = o[1]
        tr.append((t, False, out))
    return tr


def check_ltv_doc(pp, torch, c, ignore=()):
    parts, tw = twin_parts(c), c.get('twin')
    try:
        got = run_ltv_impl(pp, torch, c)
    except Exception as e:
        if not tw:
            raise
        return twin_raise(c, e, ignore)
    pre = 'twin:' if tw else ''
    nb = 1 if c['b'] is None else c['b']
    for (who, ops), tr in zip(parts, got[:2] if tw else [got]):
        d = dict(c, ops=ops)
        for b in range(nb):
            exp = doc_ltv(d, b)
            for i, (g, e) in enumerate(zip(tr, exp)):
                gg = (g[0], g[1], [F(v) for v in g[2][b]])
                if gg != e:
                    o = ops[i]
                    if pre + 'ltv:%s' % o[0] in ignore:
                        continue
                    return pre + 'ltv:%s' % o[0], 'time-indexed LTV (T=%d) batch item %d op %d %s of %s: got (time, raised, next++obs)=%s, equations give %s%s' % (
                        c['T'], b, i, o, ops, (g[0], g[1], g[2][b]), (e[0], e[1], [float(v) for v in e[2]]), twin_desc(c, who))
    if tw and 'twin:time:final' not in ignore:
        fin = tuple(([(c['t0'],)] + doc_ltv(dict(c, ops=ops), 0))[-1][0] for _, ops in parts)
        if tuple(got[2]) != fin:
            return 'twin:time:final', 'time-indexed LTV from t0=%d: original ran %s, its %s twin (made after %d ops, turns %r) ran %s: final times (original, twin) = %s, documented %s' % (
                c['t0'], parts[0][1], tw['how'], tw['at'], tw['sched'], [tuple(o) for o in tw['ops2']], tuple(got[2]), fin)
    return None


# ------------------------------------------------------------------------------------ NLS histories
# nop = ('call', x, u) | ('direct', x, u, t) | ('reset', v) | ('settime', v) | ('setref', ox, ou, ot) | ('read',)
#       ot = None | ('i', int) (int64 tensor) | ('f', dyadic) (float64 tensor)
def gen_nls_case(rng, trig=False):
    nx, nu = rng.randint(1, 3), rng.randint(1, 3)
    nf, ng = nx, rng.randint(1, 2)
    depth = rng.randint(1, 3) if trig else rng.randint(1, 4)
    fs = [gen_tree(rng, nx, nu, depth, rng.randint(1, 4), trig) for _ in range(nf)]
    gs = [gen_tree(rng, nx, nu, depth, rng.randint(1, 4), trig) for _ in range(ng)]
    return dict(kind='nls', nx=nx, nu=nu, fs=fs, gs=gs, t0=rng.randint(-3, 8))


def gen_nls_ops(rng, c, n):
    nx, nu = c['nx'], c['nu']
    ops, called, hasref = [], False, False
    for _ in range(n):
        k = rng.random()
        if k < 0.25:
            ops.append(('call', dyvec(rng, nx), dyvec(rng, nu)))
            called = True
        elif k < 0.33:
            ops.append(('direct', dyvec(rng, nx), dyvec(rng, nu), rng.choice([float(rng.randint(-4, 12)), dy(rng)])))
        elif k < 0.42:
            ops.append(('reset', rng.randint(-4, 12)))
        elif k < 0.50:
            ops.append(('settime', rng.randint(-4, 12)))
        elif k < 0.72:
            both = rng.random() < 0.5
            if called and not both:
                ox = dyvec(rng, nx) if rng.random() < 0.5 else None
                ou = dyvec(rng, nu) if rng.random() < 0.5 else None
            elif both or rng.random() < 0.8:
                ox, ou = dyvec(rng, nx), dyvec(rng, nu)
            else:
                ox, ou = None, None          # nothing to fall back on: raises before anything is stored
            ot = rng.choice([None, None, ('i', rng.randint(-4, 12)), ('f', dy(rng))])
            ops.append(('setref', ox, ou, ot))
            hasref = hasref or called or ox is not None
        else:
            ops.append(('read',))
    return ops


# ---- special reference points: points where a value-based shortcut of the linearisation could fire
def gen_special_nls(rng, trig=False):
    """A system from the tree language together with a reference point (x*, u*, t*) that is special BY VALUE
    although the functions are not: components of f / g are   base + sum_k v_k * h_k   (trig: base * cos(v) +
    sin(v) * h) with v_k a factor that vanishes at the reference point (x_j - x*_j, u_k - u*_k, t - t*) and h_k
    random trees, base in {x_i (fixed point: g(x*,u*,t*) == x*, f(x*,u*,t*) == x*), u_i (the input is echoed),
    nothing (the value is exactly 0), a constant}; independently the point itself is often the zero state /
    zero input / time 0.  The Jacobians there are NOT those of the base (identity / zero): they contain h_k(x*,u*,t*).
    -> (case without ops, x*, u*, t*)"""
    nx, nu = rng.randint(1, 3), rng.randint(1, 3)
    xs = [0.0] * nx if rng.random() < 0.25 else [0.0 if rng.random() < 0.2 else dy(rng) for _ in range(nx)]
    us = [0.0] * nu if rng.random() < 0.3 else [0.0 if rng.random() < 0.2 else dy(rng) for _ in range(nu)]
    ts = 0 if rng.random() < 0.35 else rng.randint(-3, 9)

    def vanish():
        k = rng.randrange(3)
        var, a = (('x', rng.randrange(nx)), None) if k == 0 else ((('u', rng.randrange(nu)), None) if k == 1 else (('t',), float(ts)))
        if a is None:
            a = (xs if var[0] == 'x' else us)[var[1]]
        return var if a == 0 else ('+', var, ('c', -a))

    def comp(base):
        e = base
        for _ in range(rng.randint(1, 2)):
            v, h = vanish(), gen_tree(rng, nx, nu, rng.randint(1, 2), rng.randint(1, 2), trig)
            if trig and rng.random() < 0.7:
                if e is not None and rng.random() < 0.5:
                    e = ('*', e, ('cos', v))
                v = ('sin', v)
            term = ('*', v, h)
            e = term if e is None else ('+', e, term)
        return e

    def family(flavour, n):
        if flavour == 'fix':
            return [comp(('x', i)) for i in range(nx)]
        if flavour == 'echo':
            return [comp(('u', i)) for i in range(nu)]
        if flavour == 'zero':
            return [comp(None) for _ in range(n)]
        if flavour == 'const':
            return [comp(('c', dy(rng))) for _ in range(n)]
        return [gen_tree(rng, nx, nu, rng.randint(1, 3), rng.randint(1, 4), trig) for _ in range(n)]
    ff = rng.choice(['fix', 'fix', 'zero', 'const', 'generic', 'generic'] + (['echo'] if nu == nx else []))
    gf = rng.choice(['fix', 'fix', 'fix', 'echo', 'zero', 'const', 'generic'])
    c = dict(kind='nls', nx=nx, nu=nu, fs=family(ff, nx), gs=family(gf, rng.randint(1, 2)), t0=rng.randint(-3, 8), special='f:%s,g:%s' % (ff, gf))
    return c, xs, us, ts


def special_ops(rng, c, xs, us, ts):
    """histories that linearise at the special point - given explicitly, through the clock (reset / systime
    then t=None) or through a call made there (state, input, t all None) - never as the first thing the object
    does, and read again after the object has moved on"""
    X, U = lambda: dyvec(rng, c['nx']), lambda: dyvec(rng, c['nu'])
    ops = []
    if rng.random() < 0.6:
        ops += [('setref', X(), U(), ('i', rng.randint(-3, 9))), ('read',)]
    else:
        ops += [('call', X(), U())]
    k = rng.randrange(3)
    if k == 0:
        ops += [('setref', list(xs), list(us), rng.choice([('i', ts), ('f', float(ts))]))]
    elif k == 1:
        ops += [(rng.choice(['reset', 'settime']), ts), ('setref', list(xs), list(us), None)]
    else:
        ops += [(rng.choice(['reset', 'settime']), ts - 1), ('call', list(xs), list(us)), ('setref', None, None, None)]
    ops += [('read',)]
    if rng.random() < 0.5:
        ops += [('call', X(), U()), ('read',)]
    return ops


def run_nls_impl(pp, torch, c, ops, twin=None):
    """-> [(time, raised, flat outputs)] ; with a twin: (trace of the original, of the twin, final times)"""
    f64 = torch.float64
    s = make_nls(pp, torch, c['fs'], c['gs'])
    s.reset(c['t0'])
    V = lambda v: torch.tensor(v, dtype=f64)

    def step(m, o):
        s = m['s']
        raised, out = False, []
        try:
            if o[0] == 'call':
                nx, y = s(V(o[1]), V(o[2]))
                out = tolist(nx) + tolist(y)
            elif o[0] == 'direct':
                t = V(o[3])
                out = tolist(s.state_transition(V(o[1]), V(o[2]), t)) + tolist(s.observation(V(o[1]), V(o[2]), t))
            elif o[0] == 'reset':
                s.reset(o[1])
            elif o[0] == 'settime':
                s.systime = o[1]
            elif o[0] == 'setref':
                ot = o[3]
                t = None if ot is None else (torch.tensor(int(ot[1])) if ot[0] == 'i' else V(ot[1]))
                s.set_refpoint(None if o[1] is None else V(o[1]), None if o[2] is None else V(o[2]), t)
            else:
                out = read_lin(s)
        except Exception:
            raised = True
        return (int(s.systime), raised, out)
    r = drive(step, dict(s=s), [tuple(o) for o in ops], twin)
    return r if twin else r[0]


def coq_nop(o, lit):
    vl = lambda v: coq_list(lit(a) for a in v)
    k = o[0]
    if k == 'call':
        return '(NCall %s %s)' % (vl(o[1]), vl(o[2]))
    if k == 'direct':
        return '(NDirect %s %s %s)' % (vl(o[1]), vl(o[2]), lit(o[3]))
    if k == 'reset':
        return '(NReset %s%%Z)' % zlit(o[1])
    if k == 'settime':
        return '(NSetTime %s%%Z)' % zlit(o[1])
    if k == 'setref':
        ot = 'None' if o[3] is None else '(Some %s)' % lit(o[3][1])
        return '(NSetRef %s %s %s)' % ('None' if o[1] is None else '(Some %s)' % vl(o[1]), 'None' if o[2] is None else '(Some %s)' % vl(o[2]), ot)
    return 'NRead'


def sym_lin(c, x, u, t):
    """sympy: (A, B, C, D, f, g) at the point, exact when the data are rationals and the trees polynomial"""
    import sympy as sp
    X = sp.symbols('x0:%d' % c['nx'])
    U = sp.symbols('u0:%d' % c['nu'])
    T = sp.Symbol('t')
    R = lambda v: sp.Rational(F(v).numerator, F(v).denominator)
    sub = dict(zip(X, map(R, x)))
    sub.update(zip(U, map(R, u)))
    sub[T] = R(t)
    fs = [t_sym(f, X, U, T) for f in c['fs']]
    gs = [t_sym(g, X, U, T) for g in c['gs']]
    J = lambda es, vs: [[sp.diff(e, v).subs(sub) for v in vs] for e in es]
    return J(fs, X), J(fs, U), J(gs, X), J(gs, U), [e.subs(sub) for e in fs], [e.subs(sub) for e in gs]


def check_nls_doc(pp, torch, c, ops, exact=True, ignore=()):
    """the property, checked on the implementation along the history: at every read, A,B,C,D are the
    Jacobians at the reference point (x*, u*, t* = the given t or the time when set_refpoint ran) and
    A x* + B u* + c1 = f(x*,u*,t*), C x* + D u* + c2 = g(x*,u*,t*); times follow the counter; documented
    calls do not raise"""
    import sympy as sp
    c = dict(c, ops=ops)
    parts, tw = twin_parts(c), c.get('twin')
    try:
        got_all = run_nls_impl(pp, torch, c, parts[0][1], tw)
    except Exception as e:
        if not tw:
            raise
        return twin_raise(c, e, ignore)
    pre = 'twin:' if tw else ''

    def compare(ops, got, who):
        t, last, ref = c['t0'], None, None
        for i, (o, g) in enumerate(zip(ops, got)):
            expect_raise = False
            if o[0] == 'call':
                last, t = (o[1], o[2]), t + 1
            elif o[0] in ('reset', 'settime'):
                t = o[1]
            elif o[0] == 'setref':
                rx = o[1] if o[1] is not None else (last[0] if last else None)
                ru = o[2] if o[2] is not None else (last[1] if last else None)
                if rx is None or ru is None:
                    expect_raise = True          # no state / input to take: an error is the documented outcome
                else:
                    ref = (rx, ru, t if o[3] is None else o[3][1], o[3] is None, t)
            elif o[0] == 'read' and ref is None:
                expect_raise = True
            if g[0] != t and (not tw or pre + 'time:NLS:%s' % o[0] not in ignore):
                return pre + 'time:NLS:%s' % o[0], 'NLS history %s: systime=%d, documented %d%s' % (ops[:i + 1], g[0], t, twin_desc(c, who))
            if g[1] != expect_raise and (not tw or pre + 'nls:%s:raises' % o[0] not in ignore):
                return pre + 'nls:%s:raises' % o[0], 'NLS history %s: last op %s%s' % (ops[:i + 1], 'raised' if g[1] else 'did not raise', twin_desc(c, who))
            if o[0] == 'read' and not g[1]:
                rx, ru, rt, dflt, tset = ref
                A, B, C, D, f, gg = sym_lin(c, rx, ru, rt)
                nx, nu, nf, ng = c['nx'], c['nu'], len(c['fs']), len(c['gs'])
                out = g[2]
                k = 0
                imp = {}
                for name, r_, c_ in (('A', nf, nx), ('B', nf, nu), ('C', ng, nx), ('D', ng, nu)):
                    imp[name] = [[out[k + a * c_ + b] for b in range(c_)] for a in range(r_)]
                    k += r_ * c_
                imp['c1'], imp['c2'] = out[k:k + nf], out[k + nf:k + nf + ng]
                tol = lambda scale: 0 if exact else 4 * K_EPS * EPS * max(1.0, scale)
                xs = sum(abs(v) for v in rx) + sum(abs(v) for v in ru)
                for name, ref_m, es in (('A', A, c['fs']), ('B', B, c['fs']), ('C', C, c['gs']), ('D', D, c['gs'])):
                    for a, row in enumerate(ref_m):
                        sc = t_mag(es[a], rx, ru, rt)[1]
                        for b, v in enumerate(row):
                            d = abs(sp.Rational(F(imp[name][a][b]).numerator, F(imp[name][a][b]).denominator) - v)
                            if (d != 0) if exact else (float(sp.N(d, 30)) > tol(sc)):
                                key = pre + 'nls:jacobian:%s' % name
                                if key in ignore:
                                    continue
                                return key, ('NLS f=%s g=%s after history %s: %s[%d][%d]=%r but the Jacobian at the reference point (x*=%s,u*=%s,t*=%s) is %s'
                                             % ([t_src(e) for e in c['fs']], [t_src(e) for e in c['gs']], ops[:i + 1], name, a, b, imp[name][a][b], rx, ru, rt, sp.N(v, 20))
                                             + ('; set_refpoint ran with t=None at time %d, the time is now %d' % (tset, t) if dflt else '') + twin_desc(c, who))
                for name, M, N, cv, val, es in (('c1', imp['A'], imp['B'], imp['c1'], f, c['fs']), ('c2', imp['C'], imp['D'], imp['c2'], gg, c['gs'])):
                    aff = doc_affine(M, N, cv, rx, ru)
                    for a in range(len(val)):
                        m = t_mag(es[a], rx, ru, rt)
                        d = abs(sp.Rational(aff[a].numerator, aff[a].denominator) - val[a])
                        if (d != 0) if exact else (float(sp.N(d, 30)) > tol(m[0] + m[1] * xs) * 4):
                            key = pre + 'nls:affine:%s' % name
                            if key in ignore:
                                continue
                            return key, ('NLS f=%s g=%s after history %s: affine model at the reference point gives %s for component %d, the function value there is %s (%s)'
                                         % ([t_src(e) for e in c['fs']], [t_src(e) for e in c['gs']], ops[:i + 1], float(aff[a]), a, sp.N(val[a], 20), name) + twin_desc(c, who))
        return None
    for (who, ops_w), tr in zip(parts, got_all[:2] if tw else [got_all]):
        r = compare(ops_w, tr, who)
        if r is not None:
            return r
    if tw and 'twin:time:final' not in ignore:
        fin = []
        for _, ops_w in parts:
            t = c['t0']
            for o in ops_w:
                t = t + 1 if o[0] == 'call' else (o[1] if o[0] in ('reset', 'settime') else t)
            fin.append(t)
        if tuple(got_all[2]) != tuple(fin):
            return 'twin:time:final', 'NLS f=%s g=%s from t0=%d: original ran %s, its %s twin (made after %d ops, turns %r) ran %s: final times (original, twin) = %s, documented %s' % (
                [t_src(e) for e in c['fs']], [t_src(e) for e in c['gs']], c['t0'], parts[0][1], tw['how'], tw['at'], tw['sched'], [tuple(o) for o in tw['ops2']], tuple(got_all[2]), tuple(fin))
    return None


def nls_tols(c, x, u, t):
    """[(component index in the flat read, tolerance)]"""
    nx, nu = c['nx'], c['nu']
    xs = sum(abs(v) for v in x) + sum(abs(v) for v in u)
    tl = []
    for es, ncol in ((c['fs'], nx), (c['fs'], nu), (c['gs'], nx), (c['gs'], nu)):
        for e in es:
            tl += [K_EPS * EPS * max(1.0, t_mag(e, x, u, t)[1])] * ncol
    for es in (c['fs'], c['gs']):
        for e in es:
            m = t_mag(e, x, u, t)
            tl.append(K_EPS * EPS * max(1.0, m[0] + m[1] * xs))
    return tl


# ------------------------------------------------------------------------------------ directed regression cases
# the two defects repaired in /repo 6b6eb73 (LTV.set_refpoint() raised; NLS.set_refpoint(t=None) aliased the
# live time buffer): ordinary directed cases now - if a defect returns it is reported as a VIOLATION
REGRESSION_NLS = dict(kind='nls', nx=1, nu=1, fs=[('*', ('t',), ('x', 0))], gs=[('x', 0)], t0=1,
                      ops=[('setref', [1.0], [0.0], None), ('call', [1.0], [0.0]), ('read',)])
REGRESSION_TIME = dict(kind='time', sys='LTV', t0=4, ops=[('call',), ('setref', None), ('call',)])


def doc_check(pp, torch, c, ignore=()):
    k = c['kind']
    if k == 'time':
        return check_time_doc(pp, torch, c, ignore)
    if k == 'lin':
        return check_lin_doc(pp, torch, c)
    if k == 'lti':
        return check_lti_doc(pp, torch, c)
    if k == 'ltv':
        return check_ltv_doc(pp, torch, c, ignore)
    if k == 'nls':
        return check_nls_doc(pp, torch, c, c['ops'], exact=all(t_poly(tuple_tree(e)) for e in c['fs'] + c['gs']), ignore=ignore)
    return None


def departures(pp, torch, c):
    """every distinct departure from the documented behaviour on this case (one departure early in a
    history must not hide a different one later)"""
    res, ignore = [], set()
    for _ in range(4):
        r = doc_check(pp, torch, c, ignore)
        if r is None:
            break
        res.append(r)
        ignore.add(r[0])
    return res


def shrink(pp, torch, c, key):
    """shortest prefix of the history that still shows the departure `key`"""
    if c.get('kind') not in ('time', 'ltv', 'nls') or c.get('twin'):
        return c
    for n in range(1, len(c['ops'])):
        d = dict(c, ops=list(c['ops'][:n]))
        if any(r[0] == key for r in departures(pp, torch, d)):
            return d
    return c


def tuple_tree(e):
    return tuple(tuple_tree(a) if isinstance(a, (list, tuple)) else a for a in e)


def norm_case(c):
    """undo the JSON round trip (lists -> tuples for trees)"""
    c = dict(c)
    if c.get('kind') == 'nls':
        c['fs'] = [tuple_tree(e) for e in c['fs']]
        c['gs'] = [tuple_tree(e) for e in c['gs']]
    return c


def replay(ctx, case):
    pp = import_pypose()
    import torch
    c = norm_case(case)
    key = c.get('key')
    for r in departures(pp, torch, c):
        if key is None or r[0] == key:
            return r[1]
    return None


# ------------------------------------------------------------------------------------ the check
HDR = 'From PV Require Import Base.Num Model.Dynamics.\nFrom Coq Require Import List ZArith QArith Bool. Import ListNotations.\n'
REP_OPS = [('call',), ('direct', 'forward'), ('direct', 'st'), ('direct', 'obs'), ('direct', 'read'), ('reset', 5, False), ('reset', -2, True),
           ('settime', 7, False), ('settime', 3, True), ('setref', None), ('setref', 9)]


def coq_trace(tr):
    return coq_list('(%s%%Z, %s, %s)' % (zlit(t), zb(r), qlist(o)) for t, r, o in tr)


def run(ctx):
    pp = import_pypose()
    import torch
    ctx.rule = RULE
    rng = ctx.rng
    rng2 = type(rng)('C15 twins and special reference points, seed %r' % (ctx.seed,))   # own stream: the older families keep their inputs
    files, table = [], {}

    def report_all(case, rs=None):
        """report every departure of the documented behaviour on this case; True iff there was one"""
        case = {k: v for k, v in case.items() if k not in ('trace', 'components')}
        rs = departures(pp, torch, case) if rs is None else rs
        for key, what in rs:
            if key in ctx.known_hit or any(v['key'] == key for v in ctx.violations):
                continue                      # one replay per key
            ctx.violation(key, what, dict(shrink(pp, torch, case, key), key=key))
        return bool(rs)

    # ---------------------------------------------------------------- 1. time traces
    tcases = [dict(REGRESSION_TIME)]
    for kind in ('LTI', 'LTV', 'NLS'):
        for a in REP_OPS:                      # directed: every operation after every operation
            for b in REP_OPS:
                tcases.append(dict(kind='time', sys=kind, t0=2, ops=[a, b]))
        for _ in range(ctx.scale(40, 600)):
            tcases.append(dict(kind='time', sys=kind, t0=rng.randint(-8, 40), ops=[gen_top(rng, kind) for _ in range(rng.randint(1, 40))]))
    for kind in ('LTI', 'LTV', 'NLS'):         # twins of live objects: directed (a twin of a fresh / of a running object, both go on), then random
        for how in TWIN_HOWS:
            tcases.append(dict(kind='time', sys=kind, t0=2, ops=[('call',), ('call',), ('call',), ('direct', 'read')],
                               twin=dict(how=how, at=2, ops2=[('call',), ('direct', 'read'), ('call',), ('call',), ('direct', 'read')], sched='10101010')))
            tcases.append(dict(kind='time', sys=kind, t0=5, ops=[('call',), ('settime', 3, True), ('call',)],
                               twin=dict(how=how, at=0, ops2=[('reset', 7, False), ('call',), ('settime', 3, True), ('call',)], sched='1101001')))
        for _ in range(ctx.scale(8, 120)):
            ops = [gen_top(rng2, kind) for _ in range(rng2.randint(1, 8))]
            tcases.append(dict(kind='time', sys=kind, t0=rng2.randint(-8, 40), ops=ops,
                               twin=gen_twin(rng2, len(ops), [gen_top(rng2, kind) for _ in range(rng2.randint(1, 8))])))
    lines, tmeta = [], []
    for c in tcases:
        tw = c.get('twin')
        if report_all(c) and tw:
            continue                           # a twin that departs from the documented behaviour: reported with its input
        tr = run_time_impl(pp, torch, c['sys'], c['t0'], c['ops'], tw)
        c['trace'] = tr[0] if tw else tr
        for (who, ops), tr in list(zip(twin_parts(c), tr[:2] if tw else [tr])):
            for k, (o, (t, r)) in enumerate(zip(ops, tr)):
                ctx.case(('time', c['sys'], c['t0'], repr(ops[:k + 1])) + ((who, repr(tw)) if tw else ()), nontrivial=True,
                         branch='time:%s:%s%s%s' % (c['sys'], o[0], ':raised' if r else '', (':%s:%s' % (who, tw['how'])) if tw else ''))
            ctx.traces += 1
            lines.append('(%d%%nat, (K%s, %s%%Z, %s, %s))' % (len(tmeta), c['sys'], zlit(c['t0']), coq_list(coq_op(o) for o in ops),
                                                           coq_list('(%s%%Z, %s)' % (zlit(t), zb(r)) for t, r in tr)))
            tmeta.append(c)
    for k, sh in enumerate(shard(lines, 150)):
        files.append(('time_%03d' % k, HDR + 'Eval vm_compute in time_bad %s.\n' % coq_list(sh)))
    table['time'] = tmeta
    last = [c for c in tcases if not c.get('twin')][-1]
    ctx.samples.append(dict(kind='time', sys=last['sys'], t0=last['t0'], ops=last['ops'][:6], trace=last['trace'][:6]))

    # ---------------------------------------------------------------- 2. bmv / bvv / bvmv
    lmeta, lines = [], []
    for _ in range(ctx.scale(150, 2500)):
        c = gen_lin_case(torch, rng)
        try:
            its = run_lin_impl(pp, torch, c)
        except Exception as e:
            ctx.mismatch('lin', c, 'raised %r' % (e,))
            continue
        for it in its:
            i = len(lmeta)
            lmeta.append(c)
            ctx.case(('lin', c['op'], repr(it)), nontrivial=any(v != 0 for v in it['out']), branch='%s:batch=%s,%s' % (['bmv', 'bvv', 'bvmv'][c['op']], c['sa'], c['sb']))
            lines.append('(%d%%nat, (%d%%nat, %s, %s, %s, %s))' % (i, c['op'], qmat(it['M']), qlist(it['l']), qlist(it['r']), qlist(it['out'])))
    for k, sh in enumerate(shard(lines, 300)):
        files.append(('lin_%03d' % k, HDR + 'Eval vm_compute in lin_bad %s.\n' % coq_list(sh)))
    table['lin'] = lmeta

    # ---------------------------------------------------------------- 3. LTI steps
    smeta, lines = [], []
    for _ in range(ctx.scale(120, 2000)):
        c = gen_lti_case(torch, rng)
        try:
            its = run_lti_impl(pp, torch, c)
        except Exception as e:
            ctx.mismatch('lti', c, 'raised %r' % (e,))
            continue
        for it in its:
            i = len(smeta)
            smeta.append(c)
            ctx.case(('lti', repr(it)), nontrivial=any(v != 0 for v in it['nx'] + it['y']),
                     branch='lti:batch=%s,%s:c1=%s:c2=%s%s' % (c['sa'], c['sb'], c['c1'] is not None, c['c2'] is not None, ':0-dim' if c['scalar'] else ''))
            lines.append('(%d%%nat, ((%s, %s, %s, %s, %s, %s), %s, %s, %s, %s))' % (
                i, qmat(it['A']), qmat(it['B']), qmat(it['C']), qmat(it['D']), qopt(it['c1']), qopt(it['c2']),
                qlist(it['x']), qlist(it['u']), qlist(it['nx']), qlist(it['y'])))
        if len(smeta) % 97 == 1:
            ctx.samples.append(dict(kind='lti', item=its[0]))
    for k, sh in enumerate(shard(lines, 200)):
        files.append(('lti_%03d' % k, HDR + 'Eval vm_compute in lti_bad %s.\n' % coq_list(sh)))
    table['lti'] = smeta

    # ---------------------------------------------------------------- 4. LTV traces
    vmeta, lines = [], []
    vcases = [gen_ltv_case(torch, rng) for _ in range(ctx.scale(60, 800))]
    for _ in range(ctx.scale(12, 150)):        # twins of live time-indexed systems: each follows its own clock and state
        c = gen_ltv_case(torch, rng2)
        while c['T'] < 2:
            c = gen_ltv_case(torch, rng2)
        c['ops'] = c['ops'][:8]
        pre, p = (() if c['b'] is None else (c['b'],)), len(c['D'][0][0] if c['b'] is None else c['D'][0][0][0])
        c['twin'] = gen_twin(rng2, len(c['ops']), gen_ltv_ops(torch, rng2, pre, p, rng2.randint(2, 8)))
        vcases.append(c)
    for c in vcases:
        tw = c.get('twin')
        if tw and report_all(c):
            continue
        tr_all = run_ltv_impl(pp, torch, c)
        nb = 1 if c['b'] is None else c['b']
        sel = (lambda v, b: v) if c['b'] is None else (lambda v, b: None if v is None else v[b])
        for (who, ops), tr in zip(twin_parts(c), tr_all[:2] if tw else [tr_all]):
            for b in range(nb):
                i = len(vmeta)
                vmeta.append(c)
                q3 = lambda v: coq_list(qmat(m) for m in v)
                lines.append('(%d%%nat, ((%s%%Z, %s, %s, %s, %s, %s, %s), %s%%Z, %s, %s, %s))' % (
                    i, zlit(c['T']), q3(sel(c['A'], b)), q3(sel(c['B'], b)), q3(sel(c['C'], b)), q3(sel(c['D'], b)),
                    qopt(sel(c['c1'], b), qmat), qopt(sel(c['c2'], b), qmat), zlit(c['t0']), qlist(sel(c['x0'], b)),
                    coq_list(coq_lop(o, b, nb) for o in ops), coq_trace([(t, r, o[b]) for t, r, o in tr])))
            for o, (t, r, out) in zip(ops, tr):
                ctx.case(('ltv', len(vmeta), t, repr(out)), nontrivial=True,
                         branch='ltv:%s%s%s%s' % (o[0], ':raised' if r else '', ':batched' if c['b'] else '', (':%s:%s' % (who, tw['how'])) if tw else ''))
            ctx.traces += 1
    for k, sh in enumerate(shard(lines, 40)):
        files.append(('ltv_%03d' % k, HDR + 'Eval vm_compute in ltv_bad %s.\n' % coq_list(sh)))
    table['ltv'] = vmeta

    # ---------------------------------------------------------------- 5. NLS histories, polynomial trees (exact)
    nmeta, lines = [], []
    ncases = [dict(REGRESSION_NLS)]
    d = gen_nls_case(rng)                      # directed: every op kind, both raising situations, every t flavour
    X, U = lambda: dyvec(rng, d['nx']), lambda: dyvec(rng, d['nu'])
    d['ops'] = [('read',), ('setref', None, None, None), ('setref', X(), U(), ('i', 3)), ('read',), ('call', X(), U()), ('read',),
                ('setref', None, None, None), ('read',), ('reset', 6), ('read',), ('setref', X(), None, ('f', 0.75)), ('settime', -2), ('read',),
                ('direct', X(), U(), 2.5), ('setref', None, U(), None), ('read',), ('call', X(), U()), ('read',)]
    ncases.append(d)
    for _ in range(ctx.scale(120, 1200)):
        c = gen_nls_case(rng)
        c['ops'] = gen_nls_ops(rng, c, rng.randint(4, 14))
        ncases.append(c)
    for _ in range(ctx.scale(40, 400)):        # reference points that are special by value (fixed points of f / g, zeros, zero state / input / time)
        c, xs, us, ts = gen_special_nls(rng2)
        c['ops'] = special_ops(rng2, c, xs, us, ts)
        ncases.append(c)
    for _ in range(ctx.scale(12, 150)):        # twins of live systems: own clock, own last state / input, own reference point
        c = gen_nls_case(rng2)
        c['ops'] = gen_nls_ops(rng2, c, rng2.randint(2, 8))
        c['twin'] = gen_twin(rng2, len(c['ops']), gen_nls_ops(rng2, c, rng2.randint(2, 8)))
        ncases.append(c)
    for i, c in enumerate(ncases):
        tw = c.get('twin')
        if report_all(c) and tw:
            continue
        tr_all = run_nls_impl(pp, torch, c, c['ops'], tw)
        tr = tr_all[0] if tw else tr_all
        for (who, ops), tr_w in zip(twin_parts(c), tr_all[:2] if tw else [tr_all]):
            for o, (t, r, out) in zip(ops, tr_w):
                ctx.case(('nls', i, t, repr(out)) + ((who,) if tw else ()), nontrivial=bool(out) or o[0] != 'read',
                         branch='nls:%s%s%s%s' % (o[0] + ((':t=' + ('None' if o[3] is None else o[3][0]) + (':x=last' if o[1] is None else '')) if o[0] == 'setref' else ''), ':raised' if r else '',
                                                  (':%s:%s' % (who, tw['how'])) if tw else '', (':special(%s)' % c['special'].split(',')[1]) if o[0] == 'read' and 'special' in c else ''))
            ctx.traces += 1
            lines.append('(%d%%nat, (%s, %s, %s%%Z, %s, %s))' % (len(nmeta), coq_list(t_coq(e, qlit) for e in c['fs']), coq_list(t_coq(e, qlit) for e in c['gs']),
                                                                zlit(c['t0']), coq_list(coq_nop(o, qlit) for o in ops), coq_trace(tr_w)))
            nmeta.append(c)
        if i in (1, 5):
            ctx.samples.append(dict(kind='nls', fs=[t_src(e) for e in c['fs']], gs=[t_src(e) for e in c['gs']], ops=c['ops'][:4], trace=tr[:4]))
    for k, sh in enumerate(shard(lines, 25)):
        files.append(('nls_%03d' % k, HDR + 'Eval vm_compute in nls_bad %s.\n' % coq_list(sh)))
    table['nls'] = nmeta

    # ---------------------------------------------------------------- run Coq (exact route)
    res = run_case_files('C15', files, timeout=600)
    for name, (rc, out) in sorted(res.items()):
        ev = parse_evals(out)
        if rc != 0 or len(ev) != 1:
            ctx.obligation_broken('correspondence-file:' + name, out[-1500:])
            continue
        fam = name.split('_')[0]
        for i in parse_nat_list(ev[0]):
            c = table[fam][i]
            ctx.mismatch(fam, {k: v for k, v in c.items() if k != 'trace'})

    # ---------------------------------------------------------------- 6. NLS linearisation, trig trees (enclosure)
    emeta, ecases = [], []
    nspecial = ctx.scale(12, 150)
    for j in range(ctx.scale(60, 900) + nspecial):
        if j < nspecial:                       # trigonometric systems at reference points that are special by value
            c, x, u, ts = gen_special_nls(rng2, trig=True)
            ot = rng2.choice([('i', ts), ('f', float(ts))])
        else:
            c = gen_nls_case(rng, trig=(j % 6 != 0))
            x, u = dyvec(rng, c['nx']), dyvec(rng, c['nu'])
            ot = rng.choice([('i', rng.randint(-3, 9)), ('f', dy(rng))])
        c['ops'] = [('setref', x, u, ot), ('read',)]
        if j < nspecial and report_all(c):
            continue
        tr = run_nls_impl(pp, torch, c, c['ops'])
        if tr[1][1] or any(not math.isfinite(v) for v in tr[1][2]):
            ctx.mismatch('nls-enc', c, 'read raised / non-finite')
            continue
        out, tl = tr[1][2], nls_tols(c, x, u, ot[1])
        assert len(out) == len(tl), (len(out), len(tl))
        i = len(emeta)
        emeta.append(c)
        ctx.case(('nls-enc', repr(c['fs']), repr(c['gs']), tuple(x), tuple(u), ot), nontrivial=any(v != 0 for v in out),
                 branch='nls-lin:%s%s' % ('trig' if not all(t_poly(e) for e in c['fs'] + c['gs']) else 'poly', (':special(%s)' % c['special'].split(',')[1]) if 'special' in c else ''),
                 sample=dict(kind='nls-lin', fs=[t_src(e) for e in c['fs']], gs=[t_src(e) for e in c['gs']], x=x, u=u, t=ot[1], impl=out) if i == 2 else None)
        ecases.append(dict(idx=i, expr='nls_lin_l %s %s %s %s %s' % (coq_list(t_coq(e, rlit) for e in c['fs']), coq_list(t_coq(e, rlit) for e in c['gs']),
                                                                     rlist(x), rlist(u), rlit(ot[1])),
                           comps=[(k, out[k], tl[k]) for k in range(len(out))]))
    r = run_enclosure('C15', 'Model.Dynamics', ecases, prec=120, per_file=6, timeout_goal=120)
    for name, out in r['broken']:
        ctx.obligation_broken('correspondence-file:' + name, out)
    ctx.notes.append('enclosure: %d linearisations proved within %d eps * magnitude, %d proved outside, %d undecided' % (len(r['ok']), K_EPS, len(set(i for i, _ in r['bad'])), len(r['undecided'])))
    ctx.hist['nls-lin:undecided'] = len(r['undecided'])
    ctx.traces += len(r['ok'])
    if len(r['undecided']) > max(3, len(ecases) // 10):
        ctx.obligation_broken('enclosure-undecided', '%d of %d cases neither proved nor refuted, e.g. %s' % (len(r['undecided']), len(ecases), [emeta[i] for i in r['undecided'][:2]]))
    for i in sorted(set(i for i, _ in r['bad'])):
        ctx.mismatch('nls-enc', dict(emeta[i], components=[k for j, k in r['bad'] if j == i]))

    # ---------------------------------------------------------------- search: the property itself, on the implementation
    perfam = {}
    for m in ctx.mismatches:
        perfam.setdefault(m['family'], []).append(m)
    for m in [x for fam in perfam.values() for x in fam[:20]]:
        c = m['case']
        if m['family'] == 'nls-enc':
            rr = check_nls_doc(pp, torch, c, c['ops'], exact=False)
            found = report_all(c, [] if rr is None else [rr])
        else:
            found = report_all(c)
        if found:
            m['explained'] = True
