"""C11 correspondence: matrix / Euler conversions (pypose/lietensor/convert.py, LieTensor.euler) vs
coq/Model/Convert.v.

Routes
* exact (Q, vm_compute): mat2SO3 / mat2SE3 / from_matrix on dyadic matrices whose selected radicand is a
  power of 4 (check=False: the model needs no orthogonality, every float64 / float32 operation is exact)
  and on the signed permutation matrices of the Hurwitz quaternions (check=True); the raise / no-raise
  decision and the message of the check=True predicates on batches of perturbed matrices (away from
  the tolerance boundary); the scaled groups on an empty batch.
* enclosure (R, interval): mat2SO3 / mat2SE3 / mat2RxSO3 / mat2Sim3 / from_matrix on the float matrix the
  implementation was given, through the evaluation lemmas of Proofs/Convert.v (the case file proves the
  ten tolerance tests, the mask conditions, the sign of the radicand and then bounds the closed form of
  the selected branch); euler2SO3 and LieTensor.euler with the generic branch-deciding tactic.
  The inputs are universally quantified reals pinned by  v <= x <= v  (keeps the terms small).
* raise codes of the scaled variants (rank test, negative determinant, shear) over R through proved lemmas;
  valid Sim3 / RxSO3 batches of every shape incl. lshape (2,3), (2,3,4), (0,), (2,0) as directed regression
  cases of the rank-test defects repaired in /repo 988caf7.
* the property's own statement evaluated on the implementation (independent oracle: Fractions /
  mpmath), on the enclosure inputs and on a larger sweep: this is the search of section 3.5.
* call forms and histories (round 4): the tolerance arguments rtol / atol are rotated (rtol != atol, one of
  them zero / left at its default, keyword and positional form) in the check=True tie over Q, in the sweep and
  in a directed block whose expectation is the documented inequality evaluated in 50-digit arithmetic; every
  LieTensor whose conversion is judged is an object with a history (conversions of ANOTHER value were taken
  from it, then it was given its value in place) and X.matrix() is judged against [[s R(q), t], [0, 1]] of
  the raw components in exact arithmetic; sequences of in-place updates (copy_, item assignment, add_,
  identity_, writes through .data / tensor()) each followed by the conversions; the same input tensor reused,
  overwritten in place, handed over non-contiguous / expanded; every tensor argument compared bit for bit
  before and after each call (keys mutation:<function>).
"""
import math, itertools, zlib, copy
from ..common import *
from ..lie import *

K_EPS, K_SQRT = 256, 64
ATOL = 1e-5
EULER_EPS = 2e-4
FNAME = {'SO3': 'mat2SO3', 'SE3': 'mat2SE3', 'RxSO3': 'mat2RxSO3', 'Sim3': 'mat2Sim3'}
RULE = ('X = (unit quaternion, translation, scale): quaternion uniform on S^3 or directed into each of the four regions of the extraction '
        '(dominant x / y / z / w), angle pi +- 1e-12..1e-3 and exactly pi about random and coordinate axes, coordinate-axis rotations, '
        'mask boundary m22 ~ atol, exact ties m00 = m11 / m00 = -m11, identity; translation 0 or 1e-3..1e3; scale 1e-3..1e3 incl. end points; '
        'layouts 3x3 / 3x4 / 4x4; check on / off; direct call and from_matrix; float64 and float32; batch shapes () (n,) (n,n) (a,b) (a,b,c) (0,). '
        'tolerance arguments: defaults or rtol != atol from 0 .. 0.05 (one of them zero / left at its default; keyword and positional form), matrices s (I + E) R '
        'with the defect E (one off-diagonal entry, one or all diagonal entries, dense, a reflection, none) sized between the thresholds atol, rtol, atol + rtol and the defaults, '
        'expectation = the documented inequalities in 50-digit arithmetic (5 %% away from a boundary); every LieTensor is an object with a history (decoy value converted, '
        'then the value installed by copy_ / item assignment / tensor() / .data / deepcopy), X.matrix() judged against the exact matrix of the components; '
        'update sequences of 1-3 steps from copy_, item / slice assignment, add_, identity_, writes through tensor() / .data, deepcopy, each followed by all conversions; '
        'input tensors contiguous / transposed storage / strided sub-block / stride-0 expanded / reused / overwritten in place, compared bit for bit after every call. '
        'A case is (function, group, dtype, layout, check, X); non-trivial = rotation not the identity; distinct by value. '
        'Tolerances: %d eps (quaternion, scale relative), Euler angles %d eps / cos(pitch) (pitch: min(that, %d sqrt(eps))).' % (K_EPS, K_EPS, K_SQRT))

KEY_SHAPE = '%s:rank-test:batch-shape-not-broadcastable'
KEY_EMPTY = '%s:rank-test:empty-batch'


# ------------------------------------------------------------------------------ small helpers
def dt(torch, dname):
    return torch.float64 if dname == 'float64' else torch.float32


def feps(dname):
    return 2.0 ** -52 if dname == 'float64' else 2.0 ** -23


def natl(xs):
    return '[' + '; '.join('%d%%nat' % v for v in xs) + ']'


def bl(b):
    return 'true' if b else 'false'


def fr_mat(rows):
    return [[Fraction(float(v)) for v in r] for r in rows]


def fdet3(A):
    return (A[0][0] * (A[1][1] * A[2][2] - A[1][2] * A[2][1]) - A[0][1] * (A[1][0] * A[2][2] - A[1][2] * A[2][0])
            + A[0][2] * (A[1][0] * A[2][1] - A[1][1] * A[2][0]))


def branch_of(A, atol=Fraction(ATOL)):
    """region of the quaternion extraction selected for the 3x3 block A (exact arithmetic on what is given)"""
    # rmat_t = A^T : its diagonal is the diagonal of A
    if A[2][2] < atol:
        return 0 if A[0][0] > A[1][1] else 1
    return 2 if A[0][0] < -A[1][1] else 3


def direction(rng):
    while True:
        v = [rng.gauss(0, 1) for _ in range(3)]
        n = math.sqrt(sum(a * a for a in v))
        if n > 1e-3:
            return [a / n for a in v]


AXES = [[1.0, 0, 0], [0, 1.0, 0], [0, 0, 1.0], [-1.0, 0, 0], [0, -1.0, 0], [0, 0, -1.0]]
QKINDS = ['uniform', 'c0', 'c1', 'c2', 'c3', 'near-pi', 'pi', 'axis', 'd2-boundary', 'tie', 'identity', 'tiny']


def gen_quat(rng, kind):
    """[x, y, z, w], unit up to rounding"""
    if kind == 'uniform':
        v = [rng.gauss(0, 1) for _ in range(4)]
    elif kind in ('c0', 'c1', 'c2', 'c3'):
        k = int(kind[1])
        v = [rng.gauss(0, 0.25) for _ in range(4)]
        v[k] = rng.choice([1.0, -1.0]) * rng.uniform(0.8, 1.2)
    elif kind in ('near-pi', 'pi', 'axis', 'tiny'):
        ax = rng.choice(AXES) if (kind == 'axis' or rng.random() < 0.4) else direction(rng)
        if kind == 'near-pi':
            th = math.pi + rng.choice([1, -1]) * 10 ** rng.uniform(-12, -3)
        elif kind == 'pi':
            return [float(a) for a in ax] + [0.0]
        elif kind == 'tiny':
            th = 10 ** rng.uniform(-12, -6)
        else:
            th = rng.choice([math.pi / 2, math.pi / 3, 2.0, 3.0, math.pi - 1e-6, 1e-8, 1.0, 2.5, -1.2, 3.1, math.pi])
        v = [math.sin(th / 2) * a for a in ax] + [math.cos(th / 2)]
    elif kind == 'd2-boundary':
        # m22 = 1 - 2 (x^2 + y^2) = atol + delta
        delta = rng.choice([1, -1]) * 10 ** rng.uniform(-9, -5.5)
        r2 = (1 - ATOL - delta) / 2
        a, b = rng.uniform(0, 2 * math.pi), rng.uniform(0, 2 * math.pi)
        v = [math.sqrt(r2) * math.cos(a), math.sqrt(r2) * math.sin(a), math.sqrt(1 - r2) * math.cos(b), math.sqrt(1 - r2) * math.sin(b)]
    elif kind == 'tie':
        a, b, c = rng.uniform(0.5, 1), rng.uniform(-0.3, 0.3), rng.uniform(-0.3, 0.3)
        v = rng.choice([[a, a, b, c], [a, -a, b, c], [b, c, a, a], [b, c, a, -a]])
    elif kind == 'identity':
        return [0.0, 0.0, 0.0, rng.choice([1.0, -1.0])]
    else:
        raise ValueError(kind)
    n = math.sqrt(sum(a * a for a in v))
    return [a / n for a in v]


def gen_t(rng):
    r = rng.random()
    if r < 0.15:
        return [0.0, 0.0, 0.0]
    return [rng.choice([1, -1]) * 10 ** rng.uniform(-3, 3) for _ in range(3)]


def gen_s(rng):
    r = rng.random()
    if r < 0.2:
        return rng.choice([1e-3, 1e3, 1.0, 0.5, 2.0, 8.0, 0.125])
    return 10 ** rng.uniform(-3, 3)


# ---- objects with a history.  A LieTensor whose conversion is judged is never fresh: conversions of ANOTHER
# value (the decoy) were taken from the very object, then it received its value through an in-place update.
HIST_SET = ['copy_', 'setitem', 'setitem-rows', 'tensor-view', 'data', 'deepcopy+copy_']
HIST_TEXT = {'copy_': 'X.copy_(Y)', 'setitem': 'X[...] = Y', 'setitem-rows': 'item / slice assignment X[i] = Y[i]', 'tensor-view': 'X.tensor().copy_(Y)',
             'data': 'X.data.copy_(Y)', 'deepcopy+copy_': 'X = copy.deepcopy(X0); X.copy_(Y)', 'fresh': 'construction'}
INSTALL_FAILED = []


def decoy_row(g, k=0):
    """a fixed valid element unlike any generated one (rotation by 1 + k rad about (1,2,3)/sqrt 14)"""
    a, n = 1.0 + k, math.sqrt(14.0)
    q = [math.sin(a / 2) * 1 / n, math.sin(a / 2) * 2 / n, math.sin(a / 2) * 3 / n, math.cos(a / 2)]
    return join_elt(g, [0.5 + k, -1.25, 2.0], q, 1.5 + k)


def hist_of(data):
    return HIST_SET[zlib.crc32(repr(data).encode()) % len(HIST_SET)]


def query_all(pp, X):
    """every conversion the property speaks about, called for whatever it leaves behind on the object"""
    for name in ('matrix', 'euler', 'rotation', 'translation', 'scale'):
        try:
            getattr(X, name)()
        except Exception:
            pass


def LTH(pp, torch, g, data, dname, op=None):
    """LieTensor of type g holding `data` (nested lists, any batch shape) on an object with a history;
    op: one of HIST_SET, 'fresh', or None = chosen from the data (deterministic, so a replay repeats it)"""
    G, d = getattr(pp, g + '_type'), dt(torch, dname)
    T = data.detach().clone().to(d) if torch.is_tensor(data) else torch.tensor(data, dtype=d)
    op = op or hist_of(T.tolist())
    if op == 'fresh':
        return pp.LieTensor(T, ltype=G)
    X = pp.LieTensor(torch.tensor(decoy_row(g), dtype=d).expand(T.shape).clone(), ltype=G)
    query_all(pp, X)
    Y = pp.LieTensor(T.clone(), ltype=G)
    if op == 'deepcopy+copy_':
        if X.numel() > 0:               # (deepcopy of an EMPTY LieTensor raises in torch's default __deepcopy__: not a conversion, not judged here)
            X0, X = X, copy.deepcopy(X)
        X.copy_(Y)
    elif op == 'copy_':
        X.copy_(Y)
    elif op == 'setitem':
        X[...] = Y
    elif op == 'setitem-rows':
        if X.dim() == 1:
            X[:2] = T[:2]
            X[2:] = T[2:]
        else:
            for i in range(X.shape[0]):
                X[i] = Y[i]
    elif op == 'tensor-view':
        X.tensor().copy_(T)
    elif op == 'data':
        X.data.copy_(T)
    else:
        raise ValueError(op)
    if not torch.equal(X.tensor(), T) and len(INSTALL_FAILED) < 5:
        INSTALL_FAILED.append(dict(kind='install', g=g, dtype=dname, op=op, x=T.tolist()))
    return X


def make_X(pp, torch, g, q, t, s, dname, op=None):
    data = {'SO3': q, 'SE3': t + q, 'RxSO3': q + [s], 'Sim3': t + q + [s]}[g]
    return LTH(pp, torch, g, data, dname, op)


def textbook_matrix(g, xf):
    """[[s R(q), t], [0, 1]] (3x3 R for SO3), row-major, exact; R(q) = the textbook quaternion rotation matrix
    (homogeneous form: a quaternion that is unit up to rounding gives R up to the same rounding)"""
    t, q, sc = split_elt(g, [Fraction(v) for v in xf])
    x, y, z, w = q
    xx, yy, zz, ww, xy, xz, xw, yz, yw, zw = x * x, y * y, z * z, w * w, x * y, x * z, x * w, y * z, y * w, z * w
    R = [[ww + xx - yy - zz, 2 * (xy - zw), 2 * (xz + yw)],
         [2 * (xy + zw), ww - xx + yy - zz, 2 * (yz - xw)],
         [2 * (xz - yw), 2 * (yz + xw), ww - xx - yy + zz]]
    R = [[sc * v for v in row] for row in R]
    if g == 'SO3':
        return [v for row in R for v in row]
    return [v for i in range(3) for v in R[i] + [t[i]]] + [0, 0, 0, 1]


def matrix_defect(torch, g, X, M, dname):
    """X.matrix() against the documented representation [[s R(q), t], [0, 1]] (3x3 R for SO3) evaluated in exact
    rational arithmetic on the raw components of X, item by item.  Returns a description or None."""
    eps = feps(dname)
    n = 3 if g == 'SO3' else 4
    if tuple(M.shape) != tuple(X.shape[:-1]) + (n, n):
        return 'X.matrix() has shape %s for lshape %s' % (tuple(M.shape), tuple(X.shape[:-1]))
    xs = X.tensor().reshape(-1, X.shape[-1]).tolist()
    ms = M.reshape(-1, n * n).tolist()
    seen = set()
    for i, (x, m) in enumerate(zip(xs, ms)):
        if any(not math.isfinite(v) for v in x) or (tuple(x), tuple(m)) in seen:
            continue
        seen.add((tuple(x), tuple(m)))
        ref = textbook_matrix(g, x)
        sc = abs(x[-1]) if g in ('RxSO3', 'Sim3') else 1.0
        for k, (a, b) in enumerate(zip(m, ref)):
            r_, c_ = divmod(k, n)
            tol = 32 * eps * sc if (r_ < 3 and c_ < 3) else 0.0
            if not (abs(Fraction(a) - b) <= tol):
                return ('item %d: entry (%d,%d) of X.matrix() is %.17g but [[s R(q), t], [0, 1]] of the components %s of X has %.17g there'
                        % (i, r_, c_, a, x, float(b)))
    return None


def full_matrix(pp, torch, g, X, t, M=None):
    """4x4 matrix carrying the rotation (and scale) of X; SO3 is embedded with translation t"""
    M = X.matrix() if M is None else M
    if g == 'SO3':
        M4 = torch.eye(4, dtype=M.dtype).repeat(M.shape[:-2] + (1, 1))
        M4[..., :3, :3] = M
        M4[..., :3, 3] = torch.tensor(t, dtype=M.dtype)
        return M4
    return M


def layout(M4, lay):
    if lay == '4x4':
        return M4
    if lay == '3x4':
        return M4[..., :3, :]
    return M4[..., :3, :3]


ERR_CODES = [('Input size must be', 1), ('not all orthogonal', 2), ('determinant', 3), ('not full rank', 4), ('ltype must be', 5)]


MUTATED = []     # (function, via, g, check, tol, form, input before, input after) of calls that changed their argument


def call(pp, torch, via, g, M, check, tol=None, form='kw'):
    """-> ('value', tensor) | ('raise', code, text); codes as Model/Convert.v outcome_code.
    tol = None (tolerances left at their defaults) | (rtol, atol), an entry None = left at its default;
    form 'kw' = rtol= / atol= keywords, 'pos' = positional (check, rtol, atol).
    The argument is compared bit for bit before / after the call (C06's non-mutation clause, reported by run)."""
    snap = M.detach().clone() if torch.is_tensor(M) else None
    args, kw = [check], {}
    if tol is not None:
        rt, at = tol
        if form == 'pos' and rt is not None and at is not None:
            args += [rt, at]
        else:
            if rt is not None:
                kw['rtol'] = rt
            if at is not None:
                kw['atol'] = at
    if form == 'kw':
        kw['check'] = args.pop(0)
    try:
        try:
            if via == 'from_matrix':
                Y = pp.from_matrix(M, getattr(pp, g + '_type'), *args, **kw)
            else:
                Y = getattr(pp, FNAME[g])(M, *args, **kw)
            return ('value', Y)
        except ValueError as e:
            for pat, code in ERR_CODES:
                if pat in str(e):
                    return ('raise', code, str(e)[:120])
            return ('raise', -1, 'ValueError: ' + str(e)[:120])
        except RuntimeError as e:
            return ('raise', 100, 'RuntimeError: ' + str(e)[:120])
        except Exception as e:  # anything else is not modelled
            return ('raise', -2, '%s: %s' % (type(e).__name__, str(e)[:120]))
    finally:
        if snap is not None and len(MUTATED) < 20 and (tuple(M.shape) != tuple(snap.shape) or not torch.equal(torch.nan_to_num(M.detach(), nan=12345.0), torch.nan_to_num(snap, nan=12345.0))):
            MUTATED.append(dict(kind='mutation', via=via, g=g, check=check, tol=list(tol) if tol else None, form=form,
                                dtype='float64' if snap.dtype == torch.float64 else 'float32', M=snap.tolist()))


# ------------------------------------------------------------------------------ the property's oracle
def mp_num(v):
    import mpmath as mp
    f = Fraction(float(v))
    return mp.mpf(f.numerator) / mp.mpf(f.denominator)


MEM_SET = ['contiguous', 'contiguous', 'transposed-storage', 'sub-block', 'expanded', 'reused', 'overwritten']


def relayout(torch, Min, mem, nb):
    """the same values in another memory layout; nb = number of batch dimensions of Min"""
    if mem == 'transposed-storage':
        return Min.mT.contiguous().mT
    if mem == 'sub-block':
        big = torch.full(tuple(Min.shape[:-2]) + (Min.shape[-2] + 3, 2 * Min.shape[-1] + 1), 7.0, dtype=Min.dtype)
        big[..., 2:2 + Min.shape[-2], 1:1 + 2 * Min.shape[-1]:2] = Min
        return big[..., 2:2 + Min.shape[-2], 1:1 + 2 * Min.shape[-1]:2]
    if mem == 'expanded' and nb > 0 and Min.numel() > 0:
        one = Min.reshape((-1,) + tuple(Min.shape[-2:]))[0]
        if bool((Min == one).all()):
            return one.expand(Min.shape)           # stride 0 along the batch
    return Min


def fname_of(via, g):
    return 'from_matrix' if via == 'from_matrix' else FNAME[g]


def tol_text(tol, form):
    if tol is None:
        return ''
    return ', ' + ', '.join('%s%r' % ('' if form == 'pos' and None not in tol else n + '=', v) for n, v in zip(('rtol', 'atol'), tol) if v is not None)


def oracle_roundtrip(pp, torch, via, g, dname, lay, check, q, t, s, shape=(), tol=None, form='kw', mem=None):
    """property clause 1 on the implementation: from_matrix / mat2X of X.matrix() has the same matrix, a
    unit quaternion and the same scale.  X is an object with a history (make_X), X.matrix() is judged against
    the exact matrix of the components, the call uses the tolerances `tol` in the form `form` (every float
    matrix of a valid element is within them) and a memory layout / reuse pattern `mem` of the input.
    Returns a description of the failure or None."""
    eps = feps(dname)
    data = make_X(pp, torch, g, q, t, s, dname, 'fresh').tensor()
    if shape != ():
        data = data.expand(tuple(shape) + data.shape)
    X = LTH(pp, torch, g, data, dname)
    hop = hist_of(X.tensor().tolist())
    Mx = X.matrix()
    M4 = full_matrix(pp, torch, g, X, t, Mx)
    why = matrix_defect(torch, g, X, Mx, dname)
    if why:
        return 'X.matrix() of a %s %s that received its value by %s after conversions of another value had been taken from the object: %s' % (dname, g, HIST_TEXT[hop], why)
    Min = layout(M4, lay)
    mem = mem or MEM_SET[zlib.crc32(repr((q, t, s)).encode()) % len(MEM_SET)]
    fn = fname_of(via, g)
    if mem in ('reused', 'overwritten'):
        # the same tensor object is handed over twice; in between ('overwritten') it holds another valid matrix
        Mobj = Min.clone()
        if mem == 'overwritten':
            Mobj.copy_(layout(full_matrix(pp, torch, g, LTH(pp, torch, g, torch.tensor(decoy_row(g, 1), dtype=Min.dtype).expand(X.shape), dname, 'fresh'), [3.0, 1.0, -2.0]), lay))
        r0 = call(pp, torch, via, g, Mobj, check, tol, form)
        if r0[0] == 'raise':
            return '%s(%s matrix of a valid %s, check=%s%s) raised %s' % (fn, lay, g, check, tol_text(tol, form), r0[2])
        if mem == 'overwritten':
            Mobj.copy_(Min)
        r = call(pp, torch, via, g, Mobj, check, tol, form)
        r1 = call(pp, torch, via, g, Min.clone(), check, tol, form)
        if r[0] == 'value' and r1[0] == 'value' and not torch.equal(r[1].tensor(), r1[1].tensor()):
            return ('%s on a tensor object that was converted before%s returns %s, on a fresh tensor with the same values %s'
                    % (fn, ' and then overwritten in place (M.copy_)' if mem == 'overwritten' else '', r[1].tensor().reshape(-1, r[1].shape[-1])[0].tolist(),
                       r1[1].tensor().reshape(-1, r1[1].shape[-1])[0].tolist()))
    else:
        Min = relayout(torch, Min, mem, len(shape))
        r = call(pp, torch, via, g, Min, check, tol, form)
    if r[0] == 'raise':
        return '%s(%s matrix of a valid %s, lshape %s, %s memory, check=%s%s) raised %s' % (fn, lay, g, tuple(shape), mem, check, tol_text(tol, form), r[2])
    Y = r[1]
    if tuple(Y.shape) != tuple(X.shape):
        return 'result shape %s, expected %s' % (tuple(Y.shape), tuple(X.shape))
    if Y.numel() == 0:
        return None
    yd = Y.tensor().reshape(-1, Y.shape[-1])
    if not bool(torch.isfinite(yd).all()):
        return 'non-finite result %s' % yd[0].tolist()
    exp4 = M4.clone()
    if lay == '3x3' or g in ('SO3', 'RxSO3'):
        exp4[..., :3, 3] = 0
    got4 = full_matrix(pp, torch, g, Y, [0.0, 0.0, 0.0])
    if g == 'SO3':
        exp4[..., :3, 3] = 0
    sc = abs(s) if g in ('RxSO3', 'Sim3') else 1.0
    err_r = float((got4[..., :3, :3] - exp4[..., :3, :3]).abs().max())
    if err_r > 4 * K_EPS * eps * sc:
        return 'rotation/scale block of the result differs from the input matrix by %.3g (tolerance %.3g)' % (err_r, 4 * K_EPS * eps * sc)
    err_t = float((got4[..., :3, 3] - exp4[..., :3, 3]).abs().max())
    if err_t > 0:
        return 'translation of the result differs from the input by %.3g' % err_t
    qi = {'SO3': 0, 'SE3': 3, 'RxSO3': 0, 'Sim3': 3}[g]
    for row in yd.tolist():
        n2 = sum(Fraction(v) * Fraction(v) for v in row[qi:qi + 4])
        if abs(float(n2) - 1) > 2 * K_EPS * eps:
            return 'quaternion of the result has squared norm %.17g' % float(n2)
        if g in ('RxSO3', 'Sim3') and abs(row[-1] - s) > K_EPS * eps * abs(s) + abs(s - float(torch.tensor(s, dtype=dt(torch, dname)))):
            return 'scale of the result %.17g differs from %.17g' % (row[-1], s)
    return None


def mp_quat_matrix(q):
    import mpmath as mp
    x, y, z, w = q
    n = x * x + y * y + z * z + w * w
    return [[1 - 2 * (y * y + z * z) / n, 2 * (x * y - z * w) / n, 2 * (x * z + y * w) / n],
            [2 * (x * y + z * w) / n, 1 - 2 * (x * x + z * z) / n, 2 * (y * z - x * w) / n],
            [2 * (x * z - y * w) / n, 2 * (y * z + x * w) / n, 1 - 2 * (x * x + y * y) / n]]


def mp_zyx(r, p, y):
    import mpmath as mp
    cr, sr, cp, sp, cy, sy = mp.cos(r), mp.sin(r), mp.cos(p), mp.sin(p), mp.cos(y), mp.sin(y)
    return [[cy * cp, cy * sp * sr - sy * cr, cy * sp * cr + sy * sr],
            [sy * cp, sy * sp * sr + cy * cr, sy * sp * cr - cy * sr],
            [-sp, cp * sr, cp * cr]]


def oracle_euler2SO3(pp, torch, dname, e):
    """euler2SO3(roll, pitch, yaw) is Rz(yaw) Ry(pitch) Rx(roll) (60-digit reference), unit quaternion"""
    import mpmath as mp
    mp.mp.dps = 40
    eps = feps(dname)
    et = torch.tensor(e, dtype=dt(torch, dname))
    try:
        Q = pp.euler2SO3(et)
    except Exception as ex:
        return 'euler2SO3 raised %r' % (ex,)
    q = [mp_num(v) for v in Q.tensor().tolist()]
    n2 = sum(a * a for a in q)
    if abs(n2 - 1) > 2 * K_EPS * eps:
        return 'euler2SO3 quaternion has squared norm %s' % mp.nstr(n2, 17)
    R = mp_quat_matrix(q)
    Z = mp_zyx(*[mp_num(v) for v in et.tolist()])
    err = max(abs(R[i][j] - Z[i][j]) for i in range(3) for j in range(3))
    if err > 4 * K_EPS * eps:
        return 'matrix of euler2SO3(%s) differs from Rz Ry Rx by %s' % (et.tolist(), mp.nstr(err, 3))
    return None


def euler_geometry(qf):
    """(t2 = sin pitch, cos pitch) of the float quaternion, in exact / high precision arithmetic"""
    x, y, z, w = [Fraction(float(v)) for v in qf]
    n = x * x + y * y + z * z + w * w
    t2 = 2 * (w * y - z * x) / n
    c = math.sqrt(max(0.0, float(1 - t2 * t2)))
    return float(t2), c


def oracle_euler(pp, torch, g, dname, x):
    """X.euler(): principal ranges; euler2SO3(X.euler()) is the rotation of X when |sin pitch| < 1 - eps"""
    import mpmath as mp
    mp.mp.dps = 40
    eps = feps(dname)
    X = LTH(pp, torch, g, x, dname)           # an object with a history
    try:
        e = X.euler()
    except Exception as ex:
        return 'euler raised %r' % (ex,)
    ev = e.tolist()
    if any(not math.isfinite(v) for v in ev):
        return 'euler returned %s' % ev
    pi = math.pi * (1 + 4 * eps)
    qf = split_elt(g, X.tensor().tolist())[1]          # the raw quaternion, not what rotation() hands out
    t2, c = euler_geometry(qf)
    main = abs(t2) < 1 - EULER_EPS - 1e-6
    # principal ranges are claimed (and proved) on the main branch; on the gimbal branch the code returns
    # roll = 0 and yaw = -+2 atan2(x, w), which lies in (-2 pi, 2 pi]
    if not (abs(ev[0]) <= pi and abs(ev[1]) <= pi / 2 and abs(ev[2]) <= (pi if main else 2 * pi)):
        return 'euler angles %s outside their principal ranges' % ev
    if abs(t2) < 1 - EULER_EPS - 1e-6:
        R = mp_quat_matrix([mp_num(v) for v in qf])
        Q = pp.euler2SO3(e)
        R2 = mp_quat_matrix([mp_num(v) for v in Q.tensor().tolist()])
        err = max(abs(R[i][j] - R2[i][j]) for i in range(3) for j in range(3))
        tol = 8 * K_EPS * eps / max(c, 1e-2)
        if err > tol:
            return 'euler2SO3(X.euler()) differs from the rotation of X by %s (tolerance %.3g, sin pitch = %.6g)' % (mp.nstr(err, 3), tol, t2)
    return None


def oracle_euler_batch(pp, torch, g, dname, xs, shp):
    """X.euler() on a batch equals, item by item, X_i.euler() on the single elements (which oracle_euler judges)"""
    G = getattr(pp, g + '_type')
    Xb = LTH(pp, torch, g, torch.tensor(xs, dtype=dt(torch, dname)).reshape(tuple(shp) + (len(xs[0]),)), dname)
    try:
        eb = Xb.euler()
    except Exception as ex:
        return 'euler of a batch of shape %s raised %r' % (tuple(shp), ex)
    if tuple(eb.shape) != tuple(shp) + (3,):
        return 'euler of a batch of lshape %s returned shape %s' % (tuple(shp), tuple(eb.shape))
    eb = eb.reshape(-1, 3)
    for i, x in enumerate(xs):
        ei = pp.LieTensor(torch.tensor(x, dtype=dt(torch, dname)), ltype=G).euler()
        if not torch.allclose(eb[i], ei, rtol=0, atol=64 * feps(dname), equal_nan=True):
            one = oracle_euler(pp, torch, g, dname, x)
            return ('item %d of a batch of lshape %s (batch holds gimbal-locked and ordinary elements): euler gives %s inside the batch but %s for the single element x=%s%s'
                    % (i, tuple(shp), eb[i].tolist(), ei.tolist(), x, '' if one else ' (the single-element result satisfies the round trip)'))
    return None


def oracle_reject(pp, torch, via, g, dname, M, expect_raise, tol=None, form='kw'):
    """check=True: matrices beyond the tolerances raise ValueError, valid ones do not"""
    Mt = torch.tensor(M, dtype=dt(torch, dname))
    r = call(pp, torch, via, g, Mt, True, tol, form)
    if expect_raise and r[0] == 'value':
        return 'check=True%s accepted a matrix that is not a (scaled) rotation beyond the tolerances' % tol_text(tol, form)
    if expect_raise and not (1 <= r[1] <= 5):
        return 'check=True raised %s instead of ValueError' % r[2]
    if not expect_raise and r[0] == 'raise':
        return 'check=True%s raised on a valid matrix: %s' % (tol_text(tol, form), r[2])
    return None


# ------------------------------------------------------------------------------ Coq case files
HDR = ('From Coq Require Import Reals List ZArith Lra.\nFrom Interval Require Import Tactic.\n'
       'From PV Require Import Base.Num Base.Enclose Model.LieGroup Model.Convert Proofs.Convert.\nImport ListNotations.\nOpen Scope R_scope.\n'
       '#[local] Remove Hints NumQ NumZ : typeclass_instances.\n'
       'Lemma le_by_sub a b : 0 <= b - a -> a <= b. Proof. lra. Qed.\n'
       'Lemma lt_by_sub a b : 0 < b - a -> a < b. Proof. lra. Qed.\n'
       'Lemma div_le_div s a b : 0 < s -> a <= b -> a / s <= b / s. Proof. intros H1 H2. unfold Rdiv. apply Rmult_le_compat_r; [left; now apply Rinv_0_lt_compat | exact H2]. Qed.\n'
       'Lemma ndiv_le_div s a b : 0 < s -> - a <= b -> - (a / s) <= b / s. Proof. intros H1 H2. replace (- (a / s)) with ((- a) / s) by (unfold Rdiv; ring). now apply div_le_div. Qed.\n'
       'Ltac ivl0 prec := first [ interval with (i_prec prec) | apply le_by_sub; interval with (i_prec prec) | apply lt_by_sub; interval with (i_prec prec) ].\n'
       'Ltac ivl prec := first [ ivl0 prec | apply div_le_div; [ lra | ivl0 prec ] | apply ndiv_le_div; [ lra | ivl0 prec ] ].\n'
       'Ltac decide_v prec :=\n'
       '  repeat (match goal with\n'
       '  | |- context [Rlt_dec ?a ?b] => tryif (first [has_dec a | has_dec b]) then fail else\n'
       '      (let H := fresh "Hb" in destruct (Rlt_dec a b) as [H|H];\n'
       '       [ try (exfalso; revert H; apply Rle_not_lt; ivl prec) | try (exfalso; apply H; ivl prec) ])\n'
       '  | |- context [Rle_dec ?a ?b] => tryif (first [has_dec a | has_dec b]) then fail else\n'
       '      (let H := fresh "Hb" in destruct (Rle_dec a b) as [H|H];\n'
       '       [ try (exfalso; revert H; apply Rlt_not_le; ivl prec) | try (exfalso; apply H; ivl prec) ])\n'
       '  | |- context [Req_EM_T ?a ?b] => tryif (first [has_dec a | has_dec b]) then fail else\n'
       '      (let H := fresh "Hb" in destruct (Req_EM_T a b) as [H|H];\n'
       '       [ try (exfalso; revert H; apply Rlt_not_eq; ivl prec); try (exfalso; revert H; apply Rgt_not_eq; ivl prec)\n'
       '       | try (exfalso; apply H; first [lra | apply Rle_antisym; ivl prec]) ])\n'
       '  end; cbv iota beta).\n'
       'Ltac side prec := model_cbv; repeat split; ivl prec.\n'
       'Ltac fin prec := model_cbv; repeat split; interval with (i_prec prec).\n'
       'Ltac evalv prec := model_cbv; decide_v prec; reflexivity.\n')
PREC = 200


def run_files(pid, files, timeout=900):
    """run_case_files; files that failed only because a library of the dependency cone was being
    rebuilt by a concurrent check (thorough tier deletes and rebuilds .vo files) are retried"""
    res = run_case_files(pid, files, timeout=timeout)
    for attempt in range(4):
        again = [(n, t) for n, t in files if res[n][0] != 0 and ('Cannot find library' in res[n][1] or 'Compiled library' in res[n][1] or 'bad version number' in res[n][1])]
        if not again:
            break
        time.sleep(30)
        res.update(run_case_files(pid, again, timeout=timeout))
    return res


def eval_script(c, k):
    """tactic establishing  <model expression> = ?r  for a mat2X case through the evaluation lemmas"""
    g, check, rows, cols = c['g'], c['check'], c['rows'], c['cols']
    data = '[%s]' % '; '.join(c['names'])
    args = '%s %s %s %d%%nat %d%%nat %s' % (rlit(F(ATOL)), rlit(F(ATOL)), bl(check), rows, cols, data)
    pre = 'rewrite from_matrix_is_mat2X by (repeat constructor); ' if c['via'] == 'from_matrix' else ''
    if g in ('SO3', 'SE3'):
        return pre + 'apply (eval_item_%s %s %d%%nat); [ reflexivity | idtac | side P ]; (intros Hc; first [ discriminate Hc | side P ])' % (g, args, k)
    return pre + ('apply (eval_item_%s %s %d%%nat) with (s := s); [ reflexivity | side P | reflexivity | clearbody s; side P '
                  '| idtac | clearbody s; side P ]; (intros Hc; first [ discriminate Hc | clearbody s; side P ])' % (g, args, k))


def goal_text(c, final, tagnum):
    """one Goal; final = conjunction over the result list r"""
    names = c['names']
    hyps = ' -> '.join('%s <= %s <= %s' % (rlit(v), n, rlit(v)) for n, v in zip(names, c['inputs']))
    if c['kind'] == 'mat2x':
        ks = [c['k']] + [k for k in range(4) if k != c['k']]
        ev = 'first [ %s ]' % ' | '.join('(%s)' % eval_script(c, k) for k in ks)
        if c['g'] in ('RxSO3', 'Sim3'):
            lo, hi = c['sb']
            pre = ('pose (s := exp (ln (mdet3 (in_rot (parse_in %d%%nat %d%%nat [%s]))) / 3)); '
                   'assert (Hsb : %s <= s <= %s) by (unfold s; model_cbv; interval with (i_prec P)); ' % (c['rows'], c['cols'], '; '.join(names), rlit(lo), rlit(hi)))
            script = pre + 'eexists; split; [ %s | clearbody s; fin P ]' % ev
        else:
            script = 'eexists; split; [ %s | fin P ]' % ev
    else:
        script = 'eexists; split; [ evalv P | fin P ]'
    script = script.replace('i_prec P', 'i_prec %d' % PREC)
    for tac in ('side', 'fin', 'evalv'):
        script = script.replace('%s P' % tac, '%s %d%%positive' % (tac, PREC))
    return ('Goal forall %s : R, %s -> exists r, %s = r /\\ (%s).\nProof. intros. first [ timeout %d (solve [ %s ]); idtac "OK" "%d" | idtac "BAD" "%d" ]. Abort.\n'
            % (' '.join(names), hyps, c['expr'], final, c.get('timeout', 240), script, tagnum, tagnum))


def run_goals(pid, cases, per_file, tag):
    """phase 1: all components within tolerance; phase 2 (cases not proved): a component proved outside.
    -> dict(ok, bad=[(idx, comp)], undecided, broken)"""
    byidx = {c['idx']: c for c in cases}
    files = []
    for k, sh in enumerate(shard(cases, per_file)):
        txt = HDR
        for c in sh:
            conj = ' /\\ '.join('Rabs (nth %d r 0 - %s) <= %s' % (i, rlit(v), rlit(t)) for i, v, t in c['comps'])
            txt += goal_text(c, conj, c['idx'])
        files.append(('%s1_%03d' % (tag, k), txt))
    res = run_files(pid, files, timeout=per_file * 260 + 300)
    ok, notok, broken = set(), set(), []
    for name, (rc, out) in res.items():
        t = parse_tags(out)
        ok.update(t['OK'])
        notok.update(t['BAD'])
        if rc != 0:
            broken.append((name, out[-800:]))
    notok.update(c['idx'] for c in cases if c['idx'] not in ok | notok)
    bad, undecided = [], []
    if notok:
        goals, enc = [], {}
        for idx in sorted(notok):
            c = byidx[idx]
            for (i, v, t) in c['comps']:
                code = idx * 100 + i
                enc[code] = (idx, i)
                goals.append(goal_text(c, '%s < Rabs (nth %d r 0 - %s)' % (rlit(t), i, rlit(v)), code))
        files2 = [('%s2_%03d' % (tag, k), HDR + ''.join(sh)) for k, sh in enumerate(shard(goals, per_file))]
        res2 = run_files(pid, files2, timeout=per_file * 260 + 300)
        proved = set()
        for name, (rc, out) in res2.items():
            proved.update(parse_tags(out)['OK'])
        badidx = set()
        for code in proved:
            bad.append(enc[code])
            badidx.add(enc[code][0])
        undecided = sorted(notok - badidx)
    return dict(ok=sorted(ok), bad=sorted(bad), undecided=undecided, broken=broken)


def scale_hint(A):
    """tight rational bounds of cbrt(det A) (a hint: Coq re-proves them with interval)"""
    import mpmath as mp
    mp.mp.dps = 60
    d = fdet3(A)
    if d <= 0:
        return None
    s = mp.cbrt(mp.mpf(d.numerator) / mp.mpf(d.denominator))
    p = 160 - int(mp.floor(mp.log(s, 2)))
    lo = Fraction(int(mp.floor(s * (1 - mp.mpf(10) ** -32) * mp.mpf(2) ** p)), 2 ** p)
    hi = Fraction(int(mp.ceil(s * (1 + mp.mpf(10) ** -32) * mp.mpf(2) ** p)), 2 ** p)
    return lo, hi, s


# ------------------------------------------------------------------------------ enclosure block
def enclosure_block(ctx, pp, torch):
    rng = ctx.rng
    cases, meta = [], []
    plan = []
    lays = {'SO3': ['3x3', '3x4', '4x4'], 'SE3': ['4x4', '3x4', '3x3'], 'RxSO3': ['4x4', '3x3', '3x4'], 'Sim3': ['4x4', '3x4', '3x3']}
    # directed: every region / special rotation for every group (layouts, dtypes, check, call path rotate)
    n = 0
    for g in GROUPS:
        for kind in QKINDS:
            n += 1
            dnames = ('float64', 'float32') if (ctx.thorough or (g == 'SO3' and kind in ('c0', 'c1', 'c2', 'c3', 'pi'))) else (('float64',) if n % 4 else ('float32',))
            for dname in dnames:
                plan.append((g, kind, dname, lays[g][n % 3], n % 3 == 0, 'from_matrix' if n % 4 == 1 else 'direct'))
    extra = {'SO3': ctx.scale(10, 400), 'SE3': ctx.scale(4, 200), 'RxSO3': ctx.scale(4, 150), 'Sim3': ctx.scale(6, 200)}
    for g in GROUPS:
        for _ in range(extra[g]):
            plan.append((g, rng.choice(QKINDS), 'float64' if rng.random() < 0.65 else 'float32', rng.choice(lays[g]),
                         rng.random() < 0.35, 'from_matrix' if rng.random() < 0.3 else 'direct'))
    for (g, kind, dname, lay, check, via) in plan:
        eps = feps(dname)
        q, t, s = gen_quat(rng, kind), gen_t(rng), gen_s(rng)
        X = make_X(pp, torch, g, q, t, s, dname)
        M4 = full_matrix(pp, torch, g, X, t)
        Min = layout(M4, lay)
        # the implementation sees a batch (shape varies); the Coq case is the item
        shape = rng.choice([(), (), (1,), (3,), (2, 2)])
        Mb = Min.expand(tuple(shape) + Min.shape).clone() if shape else Min
        r = call(pp, torch, via, g, Mb, check)
        rec = dict(kind='mat2x', via=via, g=g, dtype=dname, lay=lay, check=check, q=q, t=t, s=s, qkind=kind)
        if r[0] == 'raise':
            why = oracle_roundtrip(pp, torch, via, g, dname, lay, check, q, t, s)
            mm = dict(family='mat2x:' + g, case=rec, detail='implementation raised %s on a valid input' % r[2])
            ctx.mismatches.append(mm)
            if why:
                mm['explained'] = True
                ctx.violation('roundtrip:%s:%s:%s' % (FNAME[g], dname, kind), why, rec)
            continue
        out = r[1].tensor().reshape(-1, r[1].shape[-1])[-1].tolist()
        rows, cols = Min.shape[-2], Min.shape[-1]
        inputs = [float(v) for v in Min.reshape(-1).tolist()]
        A = fr_mat(Min[:3, :3].tolist())
        sb = None
        if g in ('RxSO3', 'Sim3'):
            h = scale_hint(A)
            if h is None:
                continue
            sb = (h[0], h[1])
            sf = h[0]
            A = [[v / sf for v in row] for row in A]
        k = branch_of(A)
        i = len(meta)
        names = ['x%d' % j for j in range(len(inputs))]
        fn = 'from_matrix_l' if via == 'from_matrix' else 'mat2X_l'
        expr = 'outcome_item (%s %s %s %d%%nat %s %d%%nat %d%%nat [[%s]]) 0%%nat' % (
            fn, rlit(F(ATOL)), rlit(F(ATOL)), GID[g], bl(check), rows, cols, '; '.join(names))
        comps = []
        qi = {'SO3': 0, 'SE3': 3, 'RxSO3': 0, 'Sim3': 3}[g]
        for j, v in enumerate(out):
            if qi <= j < qi + 4:
                comps.append((j, v, K_EPS * eps))
            elif j < qi:
                comps.append((j, v, K_EPS * eps * abs(v)))
            else:
                comps.append((j, v, K_EPS * eps * abs(v)))
        if any(not math.isfinite(v) for v in out):
            ctx.violation('roundtrip:%s:%s:%s' % (FNAME[g], dname, kind), 'non-finite result %s' % out, rec)
            continue
        nontriv = abs(abs(q[3]) - 1) > 1e-12
        ctx.case((via, g, dname, lay, check, tuple(inputs)), nontrivial=nontriv,
                 branch='enc:%s:%s:c%d:%s:check=%s' % (g, dname, k, lay, check),
                 sample=dict(rec, impl=out) if i % 97 == 3 else None)
        ctx.count('qkind:' + kind)
        meta.append(dict(rec, impl=out, k=k))
        cases.append(dict(idx=i, kind='mat2x', via=via, g=g, check=check, rows=rows, cols=cols, names=names, inputs=inputs,
                          expr=expr, comps=comps, k=k, sb=sb))
    # euler2SO3 and euler
    ne = ctx.scale(16, 300)
    for j in range(ne):
        dname = 'float64' if rng.random() < 0.7 else 'float32'
        eps = feps(dname)
        kind = rng.choice(['generic', 'generic', 'zero', 'big', 'gimbal'])
        if kind == 'generic':
            e = [rng.uniform(-math.pi, math.pi), rng.uniform(-math.pi / 2, math.pi / 2), rng.uniform(-math.pi, math.pi)]
        elif kind == 'zero':
            e = [rng.choice([0.0, rng.uniform(-3, 3)]) for _ in range(3)]
        elif kind == 'big':
            e = [rng.uniform(-7, 7) for _ in range(3)]
        else:
            e = [rng.uniform(-3, 3), rng.choice([1, -1]) * (math.pi / 2 - rng.choice([0.0, 1e-9, 1e-4, 1e-2])), rng.uniform(-3, 3)]
        et = torch.tensor(e, dtype=dt(torch, dname))
        e = [float(v) for v in et.tolist()]
        sh = rng.choice([(), (2,), (2, 3)])
        eb = et.expand(tuple(sh) + (3,)).clone() if sh else et
        try:
            Q = pp.euler2SO3(eb)
            out = Q.tensor().reshape(-1, 4)[-1].tolist()
            if tuple(Q.shape) != tuple(sh) + (4,):
                ctx.violation('euler2SO3:shape', 'euler2SO3 of shape %s returned shape %s' % (tuple(eb.shape), tuple(Q.shape)), dict(kind='e2s', dtype=dname, e=e))
        except Exception as ex:
            ctx.violation('euler2SO3:raises', 'euler2SO3(%s) raised %r' % (e, ex), dict(kind='e2s', dtype=dname, e=e))
            continue
        i = len(meta)
        names = ['x0', 'x1', 'x2']
        ctx.case(('e2s', dname, tuple(e)), nontrivial=any(v != 0 for v in e), branch='enc:euler2SO3:%s' % dname,
                 sample=dict(kind='e2s', dtype=dname, e=e, impl=out) if j == 1 else None)
        meta.append(dict(kind='e2s', dtype=dname, e=e, impl=out))
        cases.append(dict(idx=i, kind='e2s', names=names, inputs=e, expr='euler2SO3_l [x0; x1; x2]',
                          comps=[(c, out[c], K_EPS * eps) for c in range(4)]))
    nu = ctx.scale(30, 350)
    ek = ['uniform', 'uniform', 'near-pi', 'pi', 'axis', 'gimbal', 'gimbal-near', 'flag-boundary', 'identity', 'nonunit']
    for j in range(nu):
        dname = 'float64' if rng.random() < 0.7 else 'float32'
        eps = feps(dname)
        kind = ek[j % len(ek)] if j < 2 * len(ek) else rng.choice(ek)
        g = rng.choice(GROUPS) if j % 3 == 0 else 'SO3'
        q = gen_euler_quat(rng, kind)
        t, s = gen_t(rng), gen_s(rng)
        X = make_X(pp, torch, g, q, t, s, dname)
        x = [float(v) for v in X.tensor().tolist()]
        qf = split_elt(g, x)[1]
        geo = euler_safe(qf, dname)
        if geo is None:
            continue
        t2, c, flag = geo
        try:
            ev = X.euler().tolist()
        except Exception as ex:
            ctx.violation('euler:raises', 'euler raised %r' % (ex,), dict(kind='euler', g=g, dtype=dname, x=x))
            continue
        tol_p = max(K_EPS * eps, min(K_EPS * eps / max(c, 1e-300), K_SQRT * math.sqrt(eps)))
        tol_ry = K_EPS * eps / max(c, 1e-2) if flag else K_EPS * eps
        i = len(meta)
        names = ['x%d' % a for a in range(len(x))]
        ctx.case(('euler', g, dname, tuple(x)), nontrivial=True, branch='enc:euler:%s:%s' % (dname, 'main' if flag else 'gimbal'),
                 sample=dict(kind='euler', g=g, dtype=dname, x=x, impl=ev) if j == 2 else None)
        meta.append(dict(kind='euler', g=g, dtype=dname, x=x, impl=ev))
        cases.append(dict(idx=i, kind='euler', names=names, inputs=x,
                          expr='euler_l %s %d%%nat [%s]' % (rlit(F(EULER_EPS)), GID[g], '; '.join(names)),
                          comps=[(0, ev[0], tol_ry), (1, ev[1], tol_p), (2, ev[2], tol_ry)]))
    r = run_goals('C11', cases, per_file=ctx.scale(9, 25), tag='enc')
    for name, out in r['broken']:
        ctx.obligation_broken('correspondence-file:' + name, out)
    ctx.notes.append('enclosure: %d proved within tolerance, %d proved outside, %d undecided' % (len(r['ok']), len(set(i for i, _ in r['bad'])), len(r['undecided'])))
    ctx.hist['undecided'] = len(r['undecided'])
    if len(r['undecided']) > max(5, len(cases) // 20):
        ctx.obligation_broken('enclosure-undecided', '%d of %d cases could be neither proved nor refuted, e.g. %s' % (len(r['undecided']), len(cases), [meta[i] for i in r['undecided'][:3]]))
    for i in sorted(set(i for i, _ in r['bad'])):
        m = meta[i]
        mm = dict(family='enclosure:' + m['kind'], case=dict(m, components=[c for j, c in r['bad'] if j == i]), detail='')
        ctx.mismatches.append(mm)
        why = replay(ctx, m)
        if why:
            mm['explained'] = True
            ctx.violation(key_for(m), why, m)
    ctx.traces += len(r['ok'])
    # the property's statement on every enclosure input as well (cheap)
    for m in meta:
        why = replay(ctx, m)
        if why:
            ctx.violation(key_for(m), why, m)


def gen_euler_quat(rng, kind):
    if kind in ('uniform', 'near-pi', 'pi', 'axis', 'identity'):
        return gen_quat(rng, kind)
    if kind == 'nonunit':
        f = rng.uniform(0.5, 2.0)
        return [f * v for v in gen_quat(rng, 'uniform')]
    # pitch close to +-pi/2: q = euler2SO3(roll, pitch, yaw) in double
    if kind == 'gimbal':
        p = rng.choice([1, -1]) * (math.pi / 2 - rng.choice([0.0, 1e-12, 1e-8, 1e-5, 1e-3, 0.015]))
    elif kind == 'gimbal-near':
        p = rng.choice([1, -1]) * (math.pi / 2 - rng.uniform(0.021, 0.2))
    else:  # |sin pitch| = 1 - eps +- delta
        sp = 1 - EULER_EPS + rng.choice([1, -1]) * 10 ** rng.uniform(-6.5, -4.5)
        p = rng.choice([1, -1]) * math.asin(sp)
    r, y = rng.uniform(-3, 3), rng.uniform(-3, 3)
    cy, sy, cp, sp, cr, sr = math.cos(y / 2), math.sin(y / 2), math.cos(p / 2), math.sin(p / 2), math.cos(r / 2), math.sin(r / 2)
    return [sr * cp * cy - cr * sp * sy, cr * sp * cy + sr * cp * sy, cr * cp * sy - sr * sp * cy, cr * cp * cy + sr * sp * sy]


def euler_safe(qf, dname):
    """(t2, cos pitch, flag) or None when the input sits on a discontinuity of atan2 / on the flag
    boundary (there implementation and exact model may legitimately differ by 2 pi / take another branch)"""
    x, y, z, w = [Fraction(float(v)) for v in qf]
    n = x * x + y * y + z * z + w * w
    if n == 0:
        return None
    t0, t1 = 2 * (w * x + y * z), (w * w + z * z) - (x * x + y * y)
    t2 = 2 * (w * y - z * x) / n
    t3, t4 = 2 * (w * z + x * y), (w * w + x * x) - (y * y + z * z)
    margin = 1e-4 if dname == 'float32' else 1e-9
    if abs(float(abs(t2)) - (1 - EULER_EPS)) < margin:
        return None
    flag = abs(t2) < 1 - Fraction(EULER_EPS)
    cut = 1e-5 * float(n)
    if flag:
        if (t1 <= 0 and abs(t0) < cut) or (t4 <= 0 and abs(t3) < cut):
            return None
    else:
        if w <= 0 and abs(x) < cut:
            return None
    c = math.sqrt(max(0.0, float(1 - t2 * t2)))
    return float(t2), c, flag


# ------------------------------------------------------------------------------ exact block
def dy6(rng, lim=2.0):
    return rng.randint(-int(lim * 64), int(lim * 64)) / 64.0


def gen_disc_matrix(rng, k):
    """dyadic 3x3 matrix whose masks select region k and whose radicand t_k is a power of 4"""
    while True:
        m = [[dy6(rng) for _ in range(3)] for _ in range(3)]
        if k in (0, 1):
            t = rng.choice([4.0, 16.0])
            m22 = -rng.randint(0, int((t - 1) * 64) - 1) / 64.0
            if k == 0:
                m11 = dy6(rng)
                m00 = t - 1 + m11 + m22
                ok = m00 > m11
            else:
                m00 = dy6(rng)
                m11 = t - 1 + m00 + m22
                ok = m00 <= m11
        else:
            m22 = rng.randint(1, 128) / 64.0
            if k == 2:
                t = rng.choice([4.0, 16.0])
                m00 = dy6(rng)
                m11 = 1 + m22 - t - m00          # t = 1 - m00 - m11 + m22
                ok = m00 < -m11
            else:
                t = rng.choice([0.25, 1.0, 4.0, 16.0, 0.0625])
                m00 = dy6(rng)
                m11 = t - 1 - m22 - m00          # t = 1 + m00 + m11 + m22
                ok = m00 >= -m11
        if not ok or max(abs(m00), abs(m11)) > 64:
            continue
        m[0][0], m[1][1], m[2][2] = m00, m11, m22
        return m, t


def perm_matrices():
    """the 12 rotation matrices of the Hurwitz quaternions (exact)"""
    seen, res = set(), []
    for q in HURWITZ:
        R = ref_matrix('SO3', [Fraction(v) for v in q])
        key = tuple(R)
        if key not in seen:
            seen.add(key)
            res.append(([[float(R[3 * i + j]) for j in range(3)] for i in range(3)], list(q)))
    return res


def embed(rng, R, lay):
    if lay == '3x3':
        return [list(r) for r in R]
    t = [dy6(rng, 4.0) for _ in range(3)]
    rows = [list(R[i]) + [t[i]] for i in range(3)]
    if lay == '4x4':
        rows.append([0.0, 0.0, 0.0, 1.0])
    return rows


def exact_block(ctx, pp, torch):
    rng = ctx.rng
    conv, cmeta, conv_extra = [], [], []

    def add_conv(g, via, lay, check, dname, items, tol=None, form='kw'):
        Mt = torch.tensor(items, dtype=dt(torch, dname))
        single = rng.random() < 0.3 and len(items) == 1
        r = call(pp, torch, via, g, Mt[0] if single else Mt, check, tol, form)
        rt, at = [ATOL if v is None else v for v in (tol or (None, None))]
        rows, cols = len(items[0]), len(items[0][0])
        i = len(cmeta)
        if r[0] == 'value':
            outs = r[1].tensor().reshape(-1, r[1].shape[-1]).tolist()
            if any(not math.isfinite(v) for o in outs for v in o):
                return
            exp = (0, outs)
        else:
            exp = (r[1], [])
        cmeta.append(dict(kind='exact', g=g, via=via, lay=lay, check=check, dtype=dname, items=items, impl=exp, tol=list(tol) if tol else None, form=form))
        flat = [[v for row in it for v in row] for it in items]
        conv.append('(%d%%nat, (%d%%nat, %s, %d%%nat, %d%%nat), (%s, %s), %s, (%d%%nat, %s))' % (
            i, GID[g], bl(check), rows, cols, qlit(F(rt)), qlit(F(at)), coq_list(qlist(f) for f in flat),
            exp[0] if exp[0] >= 0 else 77, coq_list(qlist(o) for o in exp[1])))
        return i

    nper = ctx.scale(40, 900)
    for k in range(4):
        for j in range(nper):
            g = 'SO3' if j % 2 == 0 else 'SE3'
            lay = ['3x3', '3x4', '4x4'][j % 3]
            nb = rng.choice([1, 1, 2, 3])
            items = [embed(rng, gen_disc_matrix(rng, k)[0], lay) for _ in range(nb)]
            dname = 'float64' if j % 4 else 'float32'
            # the absolute tolerance doubles as the threshold of the m22 mask: rotate it (m22 <= 0 or >= 1/64 here)
            tol, form = (None, 'kw') if j % 3 == 0 else ((rng.choice(TIE_TOL64), rng.choice(CONV_ATOL)), rng.choice(['kw', 'pos']))
            i = add_conv(g, 'from_matrix' if j % 5 == 0 else 'direct', lay, False, dname, items, tol, form)
            if i is not None:
                ctx.case(('exact', g, lay, dname, str(items), str(tol)), nontrivial=True, branch='exact:c%d:%s:%s' % (k, dname, 'default-tol' if tol is None else 'atol=%g' % tol[1]),
                         sample=dict(cmeta[i]) if (k, j) == (1, 0) else None)
    perms = perm_matrices()
    for (R, q) in perms:
        for g in ('SO3', 'SE3'):
            for lay in ('3x3', '3x4', '4x4'):
                for dname in ('float64', 'float32'):
                    tol, form = pick_tol(rng, TIE_TOL64 + [0.0], CONV_ATOL)        # exact matrices: every tolerance >= 0 accepts them
                    i = add_conv(g, rng.choice(['direct', 'from_matrix']), lay, True, dname, [embed(rng, R, lay)], tol, form)
                    if i is not None:
                        ctx.case(('exact-perm', g, lay, dname, str(R), str(tol)), nontrivial=q != [0.0, 0.0, 0.0, 1.0], branch='exact:hurwitz:%s:%s' % (dname, tol_class(tol)))
    # unaccepted shapes / unknown ltype
    for (rows, cols) in [(2, 2), (3, 2), (4, 3), (2, 4), (5, 5), (3, 5)]:
        for g in GROUPS[:2]:
            items = [[[1.0 if a == b else 0.0 for b in range(cols)] for a in range(rows)]]
            for via in ('direct', 'from_matrix'):
                i = add_conv(g, via, '%dx%d' % (rows, cols), True, 'float64', items)
                ctx.case(('exact-shape', g, rows, cols, via), nontrivial=False, branch='exact:bad-shape')
    files = [('conv_%03d' % k, LIE_HEADER.replace('Model.LieGroup.', 'Model.LieGroup Model.Convert.') + 'Eval vm_compute in conv_bad %s.\n' % coq_list(sh))
             for k, sh in enumerate(shard(conv, 150))]
    # check=True predicates on batches of perturbed matrices
    chk, kmeta = [], []
    ncheck = ctx.scale(400, 6000)
    for j in range(ncheck):
        nb = rng.choice([1, 1, 2, 3])
        dname = 'float64' if j % 3 else 'float32'
        items, cls = [], []
        pool = TIE_TOL64 if dname == 'float64' else TIE_TOL32
        tol, form = pick_tol(rng, pool + ([0.0] if dname == 'float64' else []), pool)
        rt, at = [ATOL if v is None else v for v in (tol or (None, None))]
        for _ in range(nb):
            it, c = gen_check_item(rng, perms, lambda M, dn=dname: torch.tensor(M, dtype=dt(torch, dn)).tolist(),
                                   Fraction(1, 1000) if dname == 'float64' else Fraction(1, 8), Fraction(rt), Fraction(at),
                                   Fraction((16 if dname == 'float64' else 8) * feps(dname)))
            if it is None:
                break
            items.append(it)
            cls.append(c)
        if len(items) != nb:
            continue
        code = 2 if 'orth' in cls else (3 if 'det' in cls else 0)
        Mt = torch.tensor(items, dtype=dt(torch, dname))
        via, g = rng.choice([('direct', 'SO3'), ('direct', 'SE3'), ('from_matrix', 'SO3')])
        r = call(pp, torch, via, g, Mt, True, tol, form)
        got = 0 if r[0] == 'value' else r[1]
        i = len(kmeta)
        kmeta.append(dict(kind='check', g=g, via=via, dtype=dname, items=items, classes=cls, impl=got, tol=list(tol) if tol else None, form=form))
        ctx.case(('check', dname, str(items), str(tol)), nontrivial=True, branch='check:%s:%s:%s' % ('+'.join(sorted(set(cls))), 'raise' if got else 'pass', tol_class(tol)),
                 sample=dict(kmeta[i]) if j == 5 else None)
        flat = [[v for row in it for v in row] for it in items]
        chk.append('(%d%%nat, (%s, %s), %s, %d%%nat)' % (i, qlit(F(rt)), qlit(F(at)), coq_list(qlist(f) for f in flat), got if got >= 0 else 77))
        if got != code:
            # generator's exact classification disagrees with the implementation: the property's clause itself
            exp_raise = code != 0
            why = oracle_reject(pp, torch, via, g, dname, items, exp_raise, tol, form)
            if why:
                ctx.violation('check:%s:%s' % (FNAME[g], 'accepts-invalid' if exp_raise else 'rejects-valid'), why + ' (batch classes %s)' % cls,
                              dict(kind='check', g=g, via=via, dtype=dname, items=items, expect_raise=exp_raise, tol=list(tol) if tol else None, form=form))
    files += [('chk_%03d' % k, LIE_HEADER.replace('Model.LieGroup.', 'Model.LieGroup Model.Convert.') + 'Eval vm_compute in check_bad %s.\n' % coq_list(sh))
              for k, sh in enumerate(shard(chk, 200))]
    # the scaled groups on an empty batch (regression of the empty-batch defect repaired in 988caf7): the model
    # returns the empty batch; no cube root is evaluated
    for g in ('RxSO3', 'Sim3'):
        for via in ('direct', 'from_matrix'):
            for check in (True, False):
                r = call(pp, torch, via, g, torch.zeros((0, 4, 4), dtype=torch.float64), check)
                i = len(cmeta)
                exp = (0, []) if r[0] == 'value' and r[1].numel() == 0 else ((r[1] if r[0] == 'raise' else 78), [])
                cmeta.append(dict(kind='shape', g=g, via=via, shape=[0], impl=exp))
                conv_extra.append('(%d%%nat, (%d%%nat, %s, 4%%nat, 4%%nat), (%s, %s), [], (%d%%nat, []))' % (
                    i, GID[g], bl(check), qlit(F(ATOL)), qlit(F(ATOL)), exp[0] if exp[0] >= 0 else 77))
                ctx.case(('exact-empty', g, via, check), nontrivial=False, branch='exact:empty-batch:%s' % g)
    files.append(('conv_empty', LIE_HEADER.replace('Model.LieGroup.', 'Model.LieGroup Model.Convert.') + 'Eval vm_compute in conv_bad %s.\n' % coq_list(conv_extra)))
    shapes = [(), (1,), (3,), (2, 3), (3, 3), (2, 1), (1, 2), (0,), (2, 0), (2, 3, 4), (2, 2, 2), (1, 1), (4, 1, 1), (3, 1, 3), (5,), (2, 2)]
    shape_block(ctx, pp, torch, shapes)
    res = run_files('C11', files)
    for name, (rc, out) in sorted(res.items()):
        ev = parse_evals(out)
        if rc != 0 or len(ev) != 1:
            ctx.obligation_broken('correspondence-file:' + name, out[-1500:])
            continue
        bad = parse_nat_list(ev[0])
        metas = cmeta if name.startswith('conv') else kmeta
        ctx.traces += (150 if name.startswith('conv') else 200) - len(bad)
        for i in bad:
            m = metas[i]
            mm = dict(family=('exact:' if name.startswith('conv') else 'check:') + m['g'], case=m, detail='model (vm_compute over Q) and implementation disagree')
            ctx.mismatches.append(mm)
            why = replay(ctx, m)
            if why:
                mm['explained'] = True
                ctx.violation(key_for(m), why, m)


def gen_check_item(rng, perms, rnd, margin, rt=Fraction(ATOL), at=Fraction(ATOL), slack=Fraction(0)):
    """(3x3 dyadic-ish matrix, class) with class in {'ok', 'orth', 'det'} decided in exact arithmetic by the
    documented inequalities  |M M^T - I|_ij <= atol + rtol I_ij,  |det M - 1| <= atol + rtol,  away from the
    tolerance boundary (relative margin, plus the rounding of the floating evaluation unless the matrix is a
    signed permutation matrix, for which the evaluation is exact and even zero tolerances are decided)"""
    for _ in range(50):
        R, _q = rng.choice(perms)
        kind = rng.choice(['exact', 'perturb', 'perturb', 'perturb', 'reflect', 'scaled', 'random'])
        M = [list(r) for r in R]
        if kind == 'perturb':
            mag = 2.0 ** -rng.randint(10, 30)
            for _ in range(rng.choice([1, 2, 9])):
                M[rng.randrange(3)][rng.randrange(3)] += rng.choice([1, -1, 3, -5]) * mag
        elif kind == 'reflect':
            a = rng.randrange(3)
            M[a] = [-v for v in M[a]]
        elif kind == 'scaled':
            f = 1 + rng.choice([1, -1]) * 2.0 ** -rng.randint(12, 26)
            M = [[v * f for v in r] for r in M]
        elif kind == 'random':
            M = [[dy6(rng) for _ in range(3)] for _ in range(3)]
        M = rnd(M)
        A = fr_mat(M)
        sl = 0 if kind in ('exact', 'reflect') else slack
        near = False
        orth = False
        for i in range(3):
            for j in range(3):
                e = sum(A[i][k] * A[j][k] for k in range(3)) - (1 if i == j else 0)
                thr = at + (rt if i == j else 0)
                if abs(abs(e) - thr) < thr * margin + sl:
                    near = True
                if abs(e) > thr:
                    orth = True
        d = abs(fdet3(A) - 1)
        if abs(d - (at + rt)) < (at + rt) * margin + sl:
            near = True
        if near:
            continue
        return M, ('orth' if orth else ('det' if d > at + rt else 'ok'))
    return None, None


# tolerance arguments: exactly representable (every float is a rational: the model receives the very numbers)
TIE_TOL64 = [1e-5, 2.0 ** -12, 2.0 ** -17, 2.0 ** -22, 2.0 ** -27, 1e-7, 1e-3, 3e-6]
TIE_TOL32 = [1e-5, 2.0 ** -12, 2.0 ** -14, 1e-4, 1e-3, 3e-5]
CONV_ATOL = [1e-5, 2.0 ** -10, 2.0 ** -20, 1e-3, 2.0 ** -7, 1e-9]


def pick_tol(rng, rpool, apool):
    """(tol, form): a third of the calls leave the tolerances at their defaults, the others pass rtol != atol
    (or only one of them) by keyword or by position"""
    r = rng.random()
    if r < 0.3:
        return None, rng.choice(['kw', 'pos'])
    rt, at = rng.choice(rpool), rng.choice(apool)
    while rt == at and r < 0.9:
        rt = rng.choice(rpool)
    if r > 0.93:
        return rng.choice([(rt, None), (None, at)]), 'kw'
    return (rt, at), rng.choice(['kw', 'pos'])


def tol_class(tol):
    if tol is None:
        return 'tol=default'
    rt, at = tol
    if rt is None or at is None:
        return 'tol=one-given'
    return 'rtol%satol' % ('<' if rt < at else ('>' if rt > at else '='))


def shape_block(ctx, pp, torch, shapes):
    """valid Sim3 / RxSO3 batches of every shape (directed regression of the rank-test defects repaired in
    /repo 988caf7: lshape (2,3), (2,3,4), (0,), (2,0) ...): the model does not look at the batch shape and
    returns (C11_mat2Sim3_roundtrip, C11_empty_batch_returns), so must the implementation"""
    for g in ('Sim3', 'RxSO3'):
        for sh in shapes:
            n = 1
            for v in sh:
                n *= v
            for via in ('direct', 'from_matrix'):
                rec = dict(kind='shape', g=g, via=via, shape=list(sh))
                X = getattr(pp, 'randn_' + g)(*sh, dtype=torch.float64) if sh else getattr(pp, 'randn_' + g)(dtype=torch.float64)
                r = call(pp, torch, via, g, X.matrix(), True)
                got = 0 if r[0] == 'value' else r[1]
                ctx.case(('shape', g, sh, via), nontrivial=n > 1, branch='shape:%s:%s' % (g, {0: 'value', 4: 'not-full-rank', 100: 'RuntimeError'}.get(got, got)))
                mm = None
                if got != 0:
                    mm = dict(family='shape:' + g, case=rec, detail='model returns, implementation %s' % (r[1:],))
                    ctx.mismatches.append(mm)
                why = replay(ctx, rec)
                if why:
                    if mm:
                        mm['explained'] = True
                    ctx.violation(key_for(rec), why, rec)


# ------------------------------------------------------------------------------ raise codes of the scaled variants over R
def code_block(ctx, pp, torch):
    """raise codes of mat2RxSO3 / mat2Sim3 on one 3x3 item through the lemmas code_rank_small,
    code_rank_singular, code_negdet, code_not_orth of Proofs/Convert.v: the case file proves the facts
    the model tests (sign of the determinant, size of the scale, an entry beyond the tolerance)"""
    rng = ctx.rng
    goals, meta = [], []
    tolr = rlit(F(ATOL))

    def add(g, check, M, cls):
        Mt = torch.tensor(M, dtype=torch.float64)
        r = call(pp, torch, 'direct', g, Mt, check)
        got = 0 if r[0] == 'value' else r[1]
        i = len(meta)
        data = rlist([v for row in M for v in row])
        args = '%s %s %s 3%%nat 3%%nat %s %d%%nat' % (tolr, tolr, bl(check), data, GID[g])
        hg = ('left' if g == 'RxSO3' else 'right') + '; reflexivity'
        A = fr_mat(M)
        pose = ''
        if cls in ('tiny', 'shear'):
            lo, hi, sv = scale_hint(A)
            pose = ('pose (s := exp (ln (mdet3 (in_rot (parse_in 3%%nat 3%%nat %s))) / 3)); '
                    'assert (Hsb : %s <= s <= %s) by (unfold s; model_cbv; interval with (i_prec %d)); ' % (data, rlit(lo), rlit(hi), PREC))
        if cls == 'tiny':
            script = pose + 'apply (code_rank_small %s) with (s := s); [ reflexivity | %s | side P | reflexivity | clearbody s; side P ]' % (args, hg)
        elif cls == 'singular':
            script = 'apply (code_rank_singular %s); [ reflexivity | %s | model_cbv; lra | lra ]' % (args, hg)
        elif cls == 'reflect':
            script = 'apply (code_negdet %s); [ reflexivity | %s | side P ]' % (args, hg)
        else:
            # an entry of (M/s)(M/s)^T beyond the tolerance, found in exact arithmetic
            sf = Fraction(lo)
            N = [[v / sf for v in row] for row in A]
            at = Fraction(ATOL)
            ij = None
            for a_ in range(3):
                for b_ in range(3):
                    e = sum(N[a_][k] * N[b_][k] for k in range(3)) - (1 if a_ == b_ else 0)
                    if abs(e) > (at + (at if a_ == b_ else 0)) * Fraction(11, 10):
                        ij = (a_, b_)
            if ij is None:
                return
            script = pose + ('apply (code_not_orth %s) with (s := s) (i := %d%%nat) (j := %d%%nat); [ reflexivity | %s | side P | reflexivity '
                             '| clearbody s; side P | reflexivity | repeat constructor | repeat constructor | clearbody s; side P ]' % (args, ij[0], ij[1], hg))
        script = script.replace('side P', 'side %d%%positive' % PREC)
        goals.append('Goal outcome_code (mat2X_l %s %s %d%%nat %s 3%%nat 3%%nat [%s]) = %d%%nat.\nProof. first [ timeout 200 (solve [ %s ]); idtac "OK" "%d" | idtac "BAD" "%d" ]. Abort.\n'
                     % (tolr, tolr, GID[g], bl(check), data, got if got >= 0 else 77, script, i, i))
        meta.append(dict(kind='code', g=g, check=check, M=M, impl=got, cls=cls))
        ctx.case(('code', g, check, str(M)), nontrivial=True, branch='code:%s:%s:check=%s:%s' % (g, cls, check, got))

    for g in ('Sim3', 'RxSO3'):
        for check in (False, True):
            for rep in range(ctx.scale(1, 20)):
                u = 10 ** rng.uniform(-8, -5.3)
                add(g, check, [[u, 0.0, 0.0], [0.0, u, 0.0], [0.0, 0.0, u]], 'tiny')
                add(g, check, [[1.0, 0.0, 0.0], [0.0, rng.choice([1.0, 2.0]), 0.0], [0.0, 0.0, 0.0]], 'singular')
                f = rng.choice([0.5, 1.0, 2.0, 3.0])
                add(g, check, [[f, 0.0, 0.0], [0.0, f, 0.0], [0.0, 0.0, -f]], 'reflect')
            if check:
                for rep in range(ctx.scale(2, 30)):
                    a = rng.choice([1, -1]) * 10 ** rng.uniform(-3, 0)
                    f = rng.choice([0.5, 1.0, 2.0])
                    add(g, True, [[f, f * a, 0.0], [0.0, f, 0.0], [0.0, 0.0, f]], 'shear')
    files = [('code_%03d' % k, HDR + ''.join(sh)) for k, sh in enumerate(shard(goals, 8))]
    res = run_files('C11', files, timeout=2000)
    okset = set()
    for name, (rc, out) in res.items():
        okset.update(parse_tags(out)['OK'])
        if rc != 0:
            ctx.obligation_broken('correspondence-file:' + name, out[-800:])
    for k, m in enumerate(meta):
        if k in okset:
            ctx.traces += 1
            continue
        mm = dict(family='code:' + m['g'], case=m, detail='the model does not evaluate to the implementation\'s outcome code %s' % m['impl'])
        ctx.mismatches.append(mm)
        if m['check'] and m['cls'] in ('reflect', 'shear', 'singular', 'tiny'):
            rec = dict(kind='check', g=m['g'], via='direct', dtype='float64', items=[m['M']], expect_raise=True)
            why = replay(ctx, rec)
            if why:
                mm['explained'] = True
                ctx.violation(key_for(rec), why, rec)


# ------------------------------------------------------------------------------ sweep: the property on the implementation
VALID_TOL = {'float64': [(0.0, 1e-9), (1e-3, 1e-11), (1e-10, 1e-2), (0.0, 1e-5), (1e-12, 0.05), (1e-2, 1e-10), (None, 1e-8), (1e-9, None), (1e-7, 1e-3)],
             'float32': [(0.0, 1e-5), (1e-3, 1e-5), (1e-5, 1e-2), (0.0, 1e-3), (1e-2, 2e-5), (None, 1e-4), (1e-3, None), (1e-6, 0.05)]}


def sweep_block(ctx, pp, torch):
    rng = ctx.rng
    n = ctx.scale(4000, 60000)
    shapes = [(), (), (1,), (3,), (2, 2), (1, 3), (3, 1), (4,), (2, 3), (3, 2, 2), (0,), (2, 0)]
    for j in range(n):
        g = GROUPS[j % 4]
        kind = QKINDS[(j // 4) % len(QKINDS)] if j < 8 * len(QKINDS) else rng.choice(QKINDS)
        dname = 'float64' if rng.random() < 0.6 else 'float32'
        lay = rng.choice(['3x3', '3x4', '4x4'])
        via = 'from_matrix' if rng.random() < 0.4 else 'direct'
        check = rng.random() < 0.6
        q, t, s = gen_quat(rng, kind), gen_t(rng), gen_s(rng)
        sh = rng.choice(shapes)
        # tolerances every float matrix of a valid element satisfies (rounding of X.matrix() is a few eps): rtol != atol,
        # one of them zero, one left at its default, by keyword or by position
        # (scaled groups: the documented |s| > atol, scales go down to 1e-3)
        tol, form = (None, 'kw') if j % 2 else (rng.choice([v for v in VALID_TOL[dname] if g in ('SO3', 'SE3') or (v[1] or ATOL) <= 1e-4]), rng.choice(['kw', 'pos']))
        mem = MEM_SET[(j // 4) % len(MEM_SET)] if j < 8 * len(MEM_SET) else rng.choice(MEM_SET)
        rec = dict(kind='mat2x', via=via, g=g, dtype=dname, lay=lay, check=check, q=q, t=t, s=s, qkind=kind, shape=list(sh), tol=list(tol) if tol else None, form=form, mem=mem)
        ctx.case(('sweep', via, g, dname, lay, check, tuple(q), tuple(t), s, sh, tol, form, mem), nontrivial=abs(abs(q[3]) - 1) > 1e-12, branch='sweep:%s:%s' % (g, kind))
        ctx.count('sweep:%s:%s' % (tol_class(tol), form))
        ctx.count('sweep:memory:' + mem)
        why = oracle_roundtrip(pp, torch, via, g, dname, lay, check, q, t, s, sh, tol, form, mem)
        if why:
            ctx.violation(key_for(rec), why, rec)
    for j in range(ctx.scale(1000, 12000)):
        dname = 'float64' if rng.random() < 0.6 else 'float32'
        kind = rng.choice(['uniform', 'uniform', 'near-pi', 'pi', 'axis', 'gimbal', 'gimbal-near', 'flag-boundary', 'identity', 'nonunit'])
        g = rng.choice(GROUPS)
        q = gen_euler_quat(rng, kind)
        X = make_X(pp, torch, g, q, gen_t(rng), gen_s(rng), dname)
        x = [float(v) for v in X.tensor().tolist()]
        rec = dict(kind='euler', g=g, dtype=dname, x=x)
        ctx.case(('sweep-euler', g, dname, tuple(x)), nontrivial=True, branch='sweep:euler:%s' % kind)
        why = oracle_euler(pp, torch, g, dname, x)
        if why:
            ctx.violation(key_for(rec), why, rec)
        e = [rng.uniform(-7, 7) for _ in range(3)]
        rec = dict(kind='e2s', dtype=dname, e=e)
        why = oracle_euler2SO3(pp, torch, dname, e)
        if why:
            ctx.violation(key_for(rec), why, rec)
    # batches mixing ordinary and gimbal-locked elements: euler() of a batch is item by item what it is for single elements
    # (so every ordinary item of any batch still satisfies the round trip checked above)
    for j in range(ctx.scale(80, 800)):
        dname = 'float64' if rng.random() < 0.6 else 'float32'
        g = rng.choice(GROUPS)
        kinds = ['gimbal'] + [rng.choice(['uniform', 'uniform', 'gimbal', 'gimbal-near', 'flag-boundary', 'axis', 'identity']) for _ in range(rng.randint(1, 6))]
        rng.shuffle(kinds)
        items = [make_X(pp, torch, g, gen_euler_quat(rng, k), gen_t(rng), gen_s(rng), dname) for k in kinds]
        xs = [[float(v) for v in X.tensor().tolist()] for X in items]
        B = len(items)
        shp = rng.choice([(B,), (B, 1), (1, B)])
        Xb = pp.LieTensor(torch.tensor(xs, dtype=dt(torch, dname)).reshape(shp + (len(xs[0]),)), ltype=getattr(pp, g + '_type'))
        ctx.case(('euler-batch', g, dname, shp, tuple(map(tuple, xs))), nontrivial=True, branch='sweep:euler-batch')
        rec = dict(kind='euler-batch', g=g, dtype=dname, xs=xs, shape=list(shp))
        why = oracle_euler_batch(pp, torch, g, dname, xs, shp)
        if why:
            ctx.violation('euler:batch:%s:%s' % (g, dname), why, rec)
    # rejection clause on scaled variants: not (scaled) rotations raise ValueError with check=True
    for j in range(ctx.scale(400, 5000)):
        g = rng.choice(['Sim3', 'RxSO3', 'SE3', 'SO3'])
        dname = 'float64' if rng.random() < 0.6 else 'float32'
        Rq = gen_quat(rng, 'uniform')
        R = [[float(v) for v in row] for row in make_X(pp, torch, 'SO3', Rq, [0, 0, 0], 1.0, 'float64').matrix().tolist()]
        s = gen_s(rng) if g in ('Sim3', 'RxSO3') else 1.0
        kind = rng.choice(['shear', 'reflect', 'stretch', 'valid'])
        M = [[s * v for v in row] for row in R]
        if kind == 'shear':
            a = rng.choice([1, -1]) * 10 ** rng.uniform(-3, 0)
            M = [[M[i][k] + a * M[i][(k + 1) % 3] * (1 if k == 0 else 0) for k in range(3)] for i in range(3)]
        elif kind == 'reflect':
            M[1] = [-v for v in M[1]]
        elif kind == 'stretch':
            f = 1 + rng.choice([1, -1]) * 10 ** rng.uniform(-3, -0.5)
            M[2] = [f * v for v in M[2]]
        rec = dict(kind='check', g=g, via=rng.choice(['direct', 'from_matrix']), dtype=dname, items=[M], expect_raise=kind != 'valid')
        ctx.case(('sweep-check', g, dname, str(M)), nontrivial=True, branch='sweep:check:%s:%s' % (g, kind))
        why = replay(ctx, rec)
        if why:
            ctx.violation(key_for(rec), why, rec)


# ------------------------------------------------------------------------------ tolerance arguments (documented inequalities)
TOL64 = [0.0, 1e-12, 1e-9, 1e-7, 1e-6, 1e-5, 2.0 ** -13, 1e-4, 1e-3, 2.0 ** -7, 1e-2, 0.05]
TOL32 = [0.0, 1e-5, 3e-5, 2.0 ** -13, 1e-4, 1e-3, 2.0 ** -7, 1e-2, 0.05]


def mp_classify(g, dname, M, rt, at, exact_eval=False):
    """one 3x3 block (floats) against the documented rule, 50 digits:
         scaled groups: s = cbrt(det M), |s| > atol, N = M / s;  otherwise N = M;
         |N N^T - I|_ij <= atol + rtol I_ij  and  |det N - 1| <= atol + rtol.
    -> ('ok' | 'rank' | 'orth' | 'det' | 'near', worst excess).  'near' = too close to a boundary to be decided
    independently of rounding (5 % relative + 16 eps absolute; nothing absolute when the floating evaluation is exact)"""
    import mpmath as mp
    mp.mp.dps = 50
    eps = feps(dname)
    sl = mp.mpf(0) if exact_eval else mp.mpf(16 * eps)
    rel = mp.mpf(0) if exact_eval else mp.mpf('0.05')
    A = [[mp_num(v) for v in row] for row in M]
    det = (A[0][0] * (A[1][1] * A[2][2] - A[1][2] * A[2][1]) - A[0][1] * (A[1][0] * A[2][2] - A[1][2] * A[2][0])
           + A[0][2] * (A[1][0] * A[2][1] - A[1][1] * A[2][0]))
    rt, at = mp_num(rt), mp_num(at)
    near = False
    if g in ('RxSO3', 'Sim3'):
        if det <= 0:
            return ('orth', None) if det < -sl else ('near', None)      # no positive scale exists: not a scaled rotation
        sc = mp.cbrt(det)
        if abs(sc - at) < at * rel + sl * sc:
            return ('near', None)
        if sc <= at:
            return ('rank', None)
        A = [[v / sc for v in row] for row in A]
        det = mp.mpf(1)
    res = 'ok'
    for i in range(3):
        for j in range(3):
            e = abs(sum(A[i][k] * A[j][k] for k in range(3)) - (1 if i == j else 0))
            thr = at + (rt if i == j else 0)
            if abs(e - thr) < thr * rel + sl:
                near = True
            if e > thr:
                res = 'orth'
    d = abs(det - 1)
    if abs(d - (at + rt)) < (at + rt) * rel + sl and g not in ('RxSO3', 'Sim3'):
        near = True
    if res == 'ok' and d > at + rt:
        res = 'det'
    return ('near', None) if near else (res, None)


def exact_rotation(rng, perms):
    """(3x3 rotation as floats rounded from exact arithmetic - no pypose involved, is it a signed permutation matrix)"""
    if rng.random() < 0.4:
        R, _q = rng.choice(perms)
        return [list(r) for r in R], True
    q = gen_quat(rng, rng.choice(['uniform', 'uniform', 'c0', 'c1', 'c2', 'near-pi', 'axis']))
    n = math.sqrt(sum(Fraction(v) ** 2 for v in q))
    R = ref_matrix('SO3', [Fraction(v / n) for v in q])
    return [[float(R[3 * i + j]) for j in range(3)] for i in range(3)], False


def tol_item(rng, perms, g, rt, at, kind, single):
    """one 3x3 block  s (I + E) R  whose defect E is sized between two of the thresholds the tolerances define
    (atol, rtol, atol + rtol, the defaults), so that exchanging, dropping or defaulting a tolerance changes its class"""
    R, isperm = exact_rotation(rng, perms)
    cands = sorted({v for v in (at, rt, at + rt, ATOL, 2 * ATOL) if v > 0})
    k = rng.randrange(len(cands) + 1)
    if k == 0:
        target = cands[0] / rng.choice([3.0, 10.0, 100.0])
    elif k == len(cands):
        target = cands[-1] * rng.choice([3.0, 10.0])
    else:
        target = math.sqrt(cands[k - 1] * cands[k])
    target = min(target, 0.3)
    E = [[0.0] * 3 for _ in range(3)]
    i, j = rng.sample(range(3), 2)
    sgn = rng.choice([1, -1])
    if kind == 'offdiag':
        E[i][j] = sgn * target
    elif kind == 'diag':
        E[i][i] = sgn * target / 2
    elif kind == 'uniform':
        for a in range(3):
            E[a][a] = sgn * target / 2
    elif kind == 'dense':
        for a in range(3):
            for b in range(3):
                E[a][b] = rng.uniform(-1, 1) * target / 3
    M = [[sum(((1.0 if a == c else 0.0) + E[a][c]) * R[c][b] for c in range(3)) for b in range(3)] for a in range(3)]
    if kind == 'reflect':
        M[i] = [-v for v in M[i]]
    s = 1.0
    if g in ('RxSO3', 'Sim3'):
        s = rng.choice([1.0, 0.5, 2.0, 8.0]) if rng.random() < 0.4 else gen_s(rng)
        if single and at > 0 and rng.random() < 0.25:
            s = at * rng.choice([0.3, 0.6, 2.0, 5.0])          # the documented |s| > atol
        elif not single:
            s = max(s, 4 * at)
        M = [[s * v for v in row] for row in M]
    return M, (isperm and kind in ('valid', 'reflect') and s in (1.0, 0.5, 2.0, 8.0) and g in ('SO3', 'SE3'))


def oracle_tol(pp, torch, c):
    """the rejection / acceptance clause with the caller's tolerances: expectation = documented inequalities
    evaluated in 50-digit arithmetic on the very floats handed over (c['blocks'] 3x3, c['t'] translations)"""
    g, dname, lay, rt, at = c['g'], c['dtype'], c['lay'], c['rtol'], c['atol']
    tol = (None if c.get('rt_default') else rt, None if c.get('at_default') else at)
    if tol == (None, None):
        tol = None
    cls = [mp_classify(g, dname, B, rt, at, ex)[0] for B, ex in zip(c['blocks'], c['exact'])]
    if 'near' in cls:
        return None
    items = []
    for B, t in zip(c['blocks'], c['t']):
        rows = [list(B[i]) + ([t[i]] if lay != '3x3' else []) for i in range(3)]
        if lay == '4x4':
            rows.append([0.0, 0.0, 0.0, 1.0])
        items.append(rows)
    Mt = torch.tensor(items, dtype=dt(torch, dname))
    if c.get('single'):
        Mt = Mt[0]
    fn = fname_of(c['via'], g)
    r = call(pp, torch, c['via'], g, Mt, True, tol, c['form'])
    illegal = [k for k, v in enumerate(cls) if v != 'ok']
    head = '%s(%s %s%s, check=True%s)' % (fn, dname, lay, '' if c.get('single') else ' batch of %d' % len(items), tol_text(tol, c['form']))
    if illegal and r[0] == 'value':
        k = illegal[0]
        return ('%s accepted item %d = %s, which the documented rule (|N N^T - I| <= atol + rtol I, |det N - 1| <= atol + rtol%s) with rtol=%r, atol=%r classifies as "%s"'
                % (head, k, c['blocks'][k], ', |s| > atol, N = M / s' if g in ('RxSO3', 'Sim3') else '', rt, at, cls[k]))
    if illegal and not (1 <= r[1] <= 5):
        return '%s raised %s instead of ValueError' % (head, r[2])
    if not illegal and r[0] == 'raise':
        return '%s raised %s although every item satisfies the documented inequalities with rtol=%r, atol=%r (blocks %s)' % (head, r[2], rt, at, c['blocks'][:2])
    if not illegal:
        Y = r[1]
        yd = Y.tensor().reshape(-1, Y.shape[-1])
        if yd.shape[0] != len(items) or not bool(torch.isfinite(yd).all()):
            return '%s returned %s' % (head, yd.tolist()[:2])
    return None


def tol_block(ctx, pp, torch):
    rng = ctx.rng
    perms = perm_matrices()
    kinds = ['offdiag', 'offdiag', 'diag', 'uniform', 'dense', 'reflect', 'valid']
    n = ctx.scale(1400, 12000)
    decided = 0
    for j in range(n):
        g = GROUPS[j % 4]
        dname = 'float64' if j % 5 else 'float32'
        pool = TOL64 if dname == 'float64' else TOL32
        rt, at = rng.choice(pool), rng.choice(pool)
        while rt == at and rng.random() < 0.9:
            rt = rng.choice(pool)
        if dname == 'float32' and at == 0 and rt == 0:
            at = 1e-5
        form = rng.choice(['kw', 'kw', 'pos'])
        rtd = atd = False
        if rng.random() < 0.12:                 # only one tolerance handed over, the other stays at its documented default
            form = 'kw'
            if rng.random() < 0.5:
                rt, rtd = ATOL, True
            else:
                at, atd = ATOL, True
        nb = rng.choice([1, 1, 1, 2, 3])
        single = nb == 1 and rng.random() < 0.5
        blocks, exact = [], []
        for b in range(nb):
            kind = rng.choice(kinds) if (b == 0 or rng.random() < 0.3) else 'valid'
            B, ex = tol_item(rng, perms, g, rt, at, kind, nb == 1)
            B = torch.tensor(B, dtype=dt(torch, dname)).tolist()
            blocks.append(B)
            exact.append(ex)
        order = list(range(nb))
        rng.shuffle(order)
        blocks, exact = [blocks[k] for k in order], [exact[k] for k in order]
        rec = dict(kind='tol', g=g, via='from_matrix' if rng.random() < 0.4 else 'direct', dtype=dname, lay=rng.choice(['3x3', '3x4', '4x4']),
                   form=form, rtol=rt, atol=at, rt_default=rtd, at_default=atd, single=single, blocks=blocks, exact=exact,
                   t=[torch.tensor(gen_t(rng), dtype=dt(torch, dname)).tolist() for _ in range(nb)])
        cls = [mp_classify(g, dname, B, rt, at, ex)[0] for B, ex in zip(blocks, exact)]
        if 'near' in cls:
            ctx.count('tol:undecidable-skipped')
            continue
        decided += 1
        ctx.case(('tol', g, dname, rt, at, str(blocks)), nontrivial=True,
                 branch='tol:%s:%s:%s' % (g, tol_class((rt, at)) if not (rtd or atd) else 'one-given', '+'.join(sorted(set(cls)))))
        why = oracle_tol(pp, torch, rec)
        if why:
            ctx.violation(key_for(rec), why, rec)
    ctx.notes.append('tolerance block: %d of %d generated batches decided by the documented inequalities' % (decided, n))


# ------------------------------------------------------------------------------ histories on one object
HOPS = ['copy_', 'setitem-all', 'setitem-some', 'setitem-slice', 'add_', 'identity_', 'tensor-view', 'data', 'deepcopy', 'rows-from-self']


def apply_hop(pp, torch, g, X, op, payload, dname):
    """one in-place update of X (payload: nested lists); returns the object to go on with"""
    G, d = getattr(pp, g + '_type'), dt(torch, dname)
    if op == 'copy_':
        X.copy_(pp.LieTensor(torch.tensor(payload, dtype=d).reshape(X.shape), ltype=G))
    elif op == 'setitem-all':
        X[...] = pp.LieTensor(torch.tensor(payload, dtype=d).reshape(X.shape), ltype=G)
    elif op == 'setitem-some':
        for i, row in payload:
            Y = pp.LieTensor(torch.tensor(row, dtype=d), ltype=G)
            if X.dim() > 1:
                idx, rem = [], i
                for v in reversed(X.shape[:-1]):
                    idx.append(rem % v)
                    rem //= v
                X[tuple(reversed(idx))] = Y
            else:
                X[...] = Y
    elif op == 'setitem-slice':
        Y = pp.LieTensor(torch.tensor(payload, dtype=d).reshape(X.shape), ltype=G)
        if X.dim() > 1:
            X[1:] = Y[1:]
            X[:1] = Y[:1]
        else:
            X[:] = Y
    elif op == 'add_':
        X.add_(torch.tensor(payload, dtype=d).reshape(tuple(X.shape[:-1]) + (ADIM[g],)))
    elif op == 'identity_':
        try:
            X.identity_()
        except NotImplementedError:
            X.copy_(G.identity(*X.shape[:-1], dtype=d))
    elif op == 'tensor-view':
        X.tensor().copy_(torch.tensor(payload, dtype=d).reshape(X.shape))
    elif op == 'data':
        X.data.copy_(torch.tensor(payload, dtype=d).reshape(X.shape))
    elif op == 'deepcopy':
        X = copy.deepcopy(X)
        X.copy_(pp.LieTensor(torch.tensor(payload, dtype=d).reshape(X.shape), ltype=G))
    elif op == 'rows-from-self':
        if X.dim() > 1 and X.shape[0] > 1:
            X[0] = X[-1].clone()
    else:
        raise ValueError(op)
    return X


def same_bits(torch, a, b):
    return tuple(a.shape) == tuple(b.shape) and a.dtype == b.dtype and bool(((a == b) | (a.isnan() & b.isnan())).all())


def judge_object(pp, torch, g, X, dname, how):
    """every conversion of X as it is NOW: X.matrix() against the exact matrix of the raw components; matrix / euler /
    rotation / translation / scale bit for bit what a freshly constructed LieTensor with the same components gives;
    from_matrix(X.matrix()) is X (quaternion up to sign, translation, scale)."""
    eps = feps(dname)
    G = getattr(pp, g + '_type')
    raw = X.tensor().clone()
    fresh = pp.LieTensor(raw.clone(), ltype=G)
    try:
        M = X.matrix()
    except Exception as ex:
        return 'X.matrix() %s raised %r' % (how, ex)
    why = matrix_defect(torch, g, X, M, dname)
    if why:
        return 'X.matrix() %s: %s' % (how, why)
    for name in ('matrix', 'euler', 'rotation', 'translation', 'scale'):
        try:
            a, b = getattr(X, name)(), getattr(fresh, name)()
        except Exception as ex:
            return 'X.%s() %s raised %r' % (name, how, ex)
        a, b = torch.Tensor.as_subclass(a, torch.Tensor), torch.Tensor.as_subclass(b, torch.Tensor)
        if not same_bits(torch, a, b):
            k = int((~((a == b) | (a.isnan() & b.isnan()))).reshape(-1).nonzero()[0]) if tuple(a.shape) == tuple(b.shape) else 0
            return ('X.%s() %s gives %s (flat entry %d), a freshly constructed %s with the same components %s gives %s'
                    % (name, how, a.reshape(-1)[k].item() if a.numel() else a.shape, k, g, raw.reshape(-1, raw.shape[-1])[0].tolist(), b.reshape(-1)[k].item() if b.numel() else b.shape))
    if not same_bits(torch, X.tensor(), raw):
        return 'the conversions %s changed the components of X' % how
    if X.numel() == 0:
        return None
    r = call(pp, torch, 'from_matrix', g, M, True)
    if r[0] == 'raise':
        return 'from_matrix(X.matrix()) %s raised %s' % (how, r[2])
    ys, xs = r[1].tensor().reshape(-1, X.shape[-1]).tolist(), raw.reshape(-1, X.shape[-1]).tolist()
    for i, (y, x) in enumerate(zip(ys, xs)):
        ty, qy, sy = split_elt(g, y)
        tx, qx, sx = split_elt(g, x)
        n = math.sqrt(sum(v * v for v in qx))
        eq = min(max(abs(a - b / n) for a, b in zip(qy, qx)), max(abs(a + b / n) for a, b in zip(qy, qx)))
        if not (eq <= K_EPS * eps) or list(ty) != list(tx) or not (abs(sy - sx * n * n) <= 2 * K_EPS * eps * abs(sx)):
            return 'from_matrix(X.matrix()) %s: item %d is %s but X holds %s' % (how, i, y, x)
    return None


def gen_rows(rng, pp, torch, g, dname, n):
    rows = []
    for _ in range(n):
        X = make_X(pp, torch, g, gen_quat(rng, rng.choice(QKINDS)), gen_t(rng), gen_s(rng), dname, 'fresh')
        rows.append([float(v) for v in X.tensor().tolist()])
    return rows


def run_history(pp, torch, c):
    """replayable: c = dict(g, dtype, shape, x0, ops=[[name, payload], ...]); judged after every update"""
    g, dname, shape = c['g'], c['dtype'], tuple(c['shape'])
    G, d = getattr(pp, g + '_type'), dt(torch, dname)
    X = pp.LieTensor(torch.tensor(c['x0'], dtype=d).reshape(shape + (GDIM[g],)), ltype=G)
    why = judge_object(pp, torch, g, X, dname, 'of a new object')
    if why:
        c['failed_at'] = 'new'
        return why
    done = []
    for name, payload in c['ops']:
        X = apply_hop(pp, torch, g, X, name, payload, dname)
        done.append(name)
        why = judge_object(pp, torch, g, X, dname, 'after the conversions were taken and then X was updated in place by %s' % ' -> '.join(done))
        if why:
            c['failed_at'] = name
            return why
    return None


def shrink_history(pp, torch, c):
    """a smaller record that still fails: updates after the failing one dropped, a single element instead of the batch,
    earlier updates dropped one by one (each candidate is re-run; the original is kept when none fails)"""
    def fails(r):
        try:
            return run_history(pp, torch, r) is not None
        except Exception:
            return False
    best = dict(c)
    names = [o[0] for o in best['ops']]
    if best.get('failed_at') in names:
        cand = dict(best, ops=best['ops'][:names.index(best['failed_at']) + 1])
        if fails(cand):
            best = cand
    if best['shape'] != [] and all(o[0] != 'rows-from-self' for o in best['ops']):
        ops = []
        for name, payload in best['ops']:
            if name == 'setitem-some':
                payload = [[0, payload[0][1]]]
            elif payload is not None:
                payload = payload[:1]
            ops.append([name, payload])
        cand = dict(best, shape=[], x0=best['x0'][:1], ops=ops)
        if fails(cand):
            best = cand
    k = 0
    while len(best['ops']) > 1 and k < len(best['ops']) - 1:
        cand = dict(best, ops=best['ops'][:k] + best['ops'][k + 1:])
        if fails(cand):
            best = cand
        else:
            k += 1
    return best


def history_block(ctx, pp, torch):
    rng = ctx.rng
    shapes = [(), (1,), (3,), (4,), (2, 2), (2, 3), (3, 1)]
    for j in range(ctx.scale(260, 2500)):
        g = GROUPS[j % 4]
        dname = 'float64' if j % 3 else 'float32'
        shape = shapes[(j // 4) % len(shapes)] if j < 8 * len(shapes) else rng.choice(shapes)
        n = 1
        for v in shape:
            n *= v
        ops = []
        for k in range(rng.choice([1, 2, 2, 3])):
            name = HOPS[(j + 3 * k) % len(HOPS)] if j < 4 * len(HOPS) else rng.choice(HOPS)
            if name == 'add_':
                payload = [[rng.gauss(0, 0.4) for _ in range(ADIM[g])] for _ in range(n)]
                if g in ('RxSO3', 'Sim3'):
                    for row in payload:
                        row[-1] = rng.uniform(-0.5, 0.5)
            elif name == 'setitem-some':
                payload = [[i, gen_rows(rng, pp, torch, g, dname, 1)[0]] for i in sorted(rng.sample(range(n), rng.randint(1, n)))]
            elif name in ('identity_', 'rows-from-self'):
                payload = None
            else:
                payload = gen_rows(rng, pp, torch, g, dname, n)
            ops.append([name, payload])
        rec = dict(kind='hist', g=g, dtype=dname, shape=list(shape), x0=gen_rows(rng, pp, torch, g, dname, n), ops=ops)
        ctx.case(('hist', g, dname, shape, str(rec['x0']), str(ops)), nontrivial=True, branch='history:%s:%s' % (g, '+'.join(o[0] for o in ops)))
        why = run_history(pp, torch, rec)
        if why:
            if len(ctx.violations) < 40:
                rec = shrink_history(pp, torch, rec)
                why = run_history(pp, torch, rec) or why
            ctx.violation(key_for(rec), why, rec)


# ------------------------------------------------------------------------------ keys, replay, run
def key_for(m):
    k = m['kind']
    if k == 'shape':
        return (KEY_SHAPE if not shape_broadcasts(m['shape']) else KEY_EMPTY) % FNAME[m['g']]
    if k == 'mat2x':
        sh = m.get('shape') or []
        if m['g'] in ('Sim3', 'RxSO3') and sh and not shape_broadcasts(sh):
            return KEY_SHAPE % FNAME[m['g']]
        if m['g'] in ('Sim3', 'RxSO3') and 0 in sh:
            return KEY_EMPTY % FNAME[m['g']]
        return 'roundtrip:%s:%s:%s' % (FNAME[m['g']], m['dtype'], m.get('qkind', 'x'))
    if k == 'tol':
        return 'tolerance:%s:%s:%s' % (fname_of(m['via'], m['g']), m['dtype'], 'one-given' if (m.get('rt_default') or m.get('at_default')) else tol_class((m['rtol'], m['atol'])))
    if k == 'hist':
        return 'history:%s:%s:%s' % (m['g'], m['dtype'], m.get('failed_at') or (m['ops'][-1][0] if m['ops'] else 'new'))
    if k == 'mutation':
        return 'mutation:%s' % fname_of(m['via'], m['g'])
    if k == 'install':
        return 'history:%s:in-place-%s' % (m['g'], m['op'])
    if k in ('exact',):
        return 'exact:%s:%s:%s' % (FNAME[m['g']], m['dtype'], m['lay'])
    if k == 'check':
        exp = m.get('expect_raise', any(c != 'ok' for c in m.get('classes', ['x'])))
        return 'check:%s:%s' % (FNAME[m['g']], 'accepts-invalid' if exp else 'rejects-valid')
    if k == 'euler':
        return 'euler:%s:%s' % (m['g'], m['dtype'])
    if k == 'e2s':
        return 'euler2SO3:%s' % m['dtype']
    return 'c11:' + k


def shape_broadcasts(sh):
    a, b = list(sh) + [1], list(sh)
    for x, y in zip(reversed(a), reversed(b)):
        if not (x == y or x == 1 or y == 1):
            return False
    return True


def replay(ctx, c):
    """the property's own statement on the implementation for the recorded input"""
    pp = import_pypose()
    import torch
    k = c['kind']
    if k == 'mat2x':
        tol = c.get('tol')
        return oracle_roundtrip(pp, torch, c['via'], c['g'], c['dtype'], c['lay'], c['check'], c['q'], c['t'], c['s'], tuple(c.get('shape') or ()),
                                tuple(tol) if tol else None, c.get('form', 'kw'), c.get('mem'))
    if k == 'tol':
        return oracle_tol(pp, torch, c)
    if k == 'hist':
        return run_history(pp, torch, c)
    if k == 'mutation':
        Mt = torch.tensor(c['M'], dtype=dt(torch, c['dtype']))
        before = Mt.clone()
        call(pp, torch, c['via'], c['g'], Mt, c['check'], tuple(c['tol']) if c.get('tol') else None, c.get('form', 'kw'))
        del MUTATED[:]
        if not same_bits(torch, Mt, before):
            k_ = int((~((Mt == before) | (Mt.isnan() & before.isnan()))).reshape(-1).nonzero()[0]) if Mt.shape == before.shape else 0
            return '%s changed its argument in place: flat entry %d was %r, is %r after the call' % (fname_of(c['via'], c['g']), k_, before.reshape(-1)[k_].item(), Mt.reshape(-1)[k_].item())
        return None
    if k == 'install':
        X = LTH(pp, torch, c['g'], c['x'], c['dtype'], c['op'])
        del INSTALL_FAILED[:]
        if not torch.equal(X.tensor(), torch.tensor(c['x'], dtype=dt(torch, c['dtype']))):
            return '%s did not give X the components of Y: X holds %s' % (HIST_TEXT[c['op']], X.tensor().reshape(-1, X.shape[-1])[0].tolist())
        return None
    if k == 'e2s':
        return oracle_euler2SO3(pp, torch, c['dtype'], c['e'])
    if k == 'euler-batch':
        return oracle_euler_batch(pp, torch, c['g'], c['dtype'], c['xs'], tuple(c['shape']))
    if k == 'euler':
        return oracle_euler(pp, torch, c['g'], c['dtype'], c['x'])
    if k == 'shape':
        sh = tuple(c['shape'])
        g = c['g']
        X = getattr(pp, 'randn_' + g)(*sh, dtype=torch.float64) if sh else getattr(pp, 'randn_' + g)(dtype=torch.float64)
        r = call(pp, torch, c['via'], g, X.matrix(), True)
        if r[0] == 'raise':
            return '%s on the matrices of a valid %s batch of lshape %s raised %s' % ('from_matrix' if c['via'] == 'from_matrix' else FNAME[g], g, sh, r[2])
        if tuple(r[1].shape) != tuple(X.shape):
            return 'result shape %s, expected %s' % (tuple(r[1].shape), tuple(X.shape))
        return None
    if k == 'check':
        exp_raise = c.get('expect_raise')
        if exp_raise is None:
            exp_raise = any(x != 'ok' for x in c['classes'])
        return oracle_reject(pp, torch, c['via'], c['g'], c['dtype'], c['items'], exp_raise, tuple(c['tol']) if c.get('tol') else None, c.get('form', 'kw'))
    if k == 'exact':
        # dyadic matrix, check off: exact Fraction evaluation of the documented formula of the selected region
        return oracle_exact(pp, torch, c)
    return None


def oracle_exact(pp, torch, c):
    """independent exact evaluation: for every item the result must reproduce the item's matrix
    relations  q_sel = t_sel / (2 sqrt t_sel)  etc. - here simply: the quaternion returned, re-expanded,
    gives back the symmetric / antisymmetric parts it was read from (the defining equations of the
    Shepperd extraction), for exact rotations the matrix itself"""
    if c['check']:
        Mt = torch.tensor(c['items'], dtype=dt(torch, c['dtype']))
        tol = tuple(c['tol']) if c.get('tol') else None
        r = call(pp, torch, c['via'], c['g'], Mt, True, tol, c.get('form', 'kw'))
        if r[0] == 'raise':
            if c['lay'] in ('3x3', '3x4', '4x4'):
                return '%s(check=True%s) raised %s on exact rotation matrices %s' % (fname_of(c['via'], c['g']), tol_text(tol, c.get('form', 'kw')), r[2], c['items'][:1])
            return None if r[1] == 1 else 'unaccepted shape %s raised %s instead of the size ValueError' % (c['lay'], r[2])
        if c['lay'] not in ('3x3', '3x4', '4x4'):
            return 'unaccepted shape %s was accepted' % c['lay']
        outs = r[1].tensor().reshape(-1, r[1].shape[-1]).tolist()
        qi = 0 if c['g'] == 'SO3' else 3
        for it, o in zip(c['items'], outs):
            R = ref_matrix('SO3', [Fraction(v) for v in o[qi:qi + 4]])
            if [Fraction(it[i][j]) for i in range(3) for j in range(3)] != R:
                return 'result %s does not reproduce the rotation matrix %s' % (o, it)
        return None
    return None


def run(ctx):
    pp = import_pypose()
    import torch
    ctx.rule = RULE
    exact_block(ctx, pp, torch)
    enclosure_block(ctx, pp, torch)
    code_block(ctx, pp, torch)
    sweep_block(ctx, pp, torch)
    tol_block(ctx, pp, torch)
    history_block(ctx, pp, torch)
    # every call above compared its tensor argument before / after; every in-place installation was verified
    for rec in list(MUTATED) + list(INSTALL_FAILED):
        why = replay(ctx, dict(rec))
        if why:
            ctx.violation(key_for(rec), why, rec)
    del MUTATED[:], INSTALL_FAILED[:]
