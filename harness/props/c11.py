"""C11 correspondence: matrix / Euler conversions (pypose/lietensor/convert.py, LieTensor.euler) vs
coq/Model/Convert.v.

Routes
* exact (Q, vm_compute): mat2SO3 / mat2SE3 / from_matrix on dyadic matrices whose selected radicand is a
  power of 4 (check=False: the model needs no orthogonality, every float64 / float32 operation is exact)
  and on the signed permutation matrices of the Hurwitz quaternions (check=True); the raise / no-raise
  decision and the message of the check=True predicates on batches of perturbed matrices (away from
  the tolerance boundary); the scaled groups on an empty batch.
* enclosure (R, interval): mat2SO3 / mat2SE3 / mat2RxSO3 / mat2Sim3 / from_matrix on the float matrix the
  implementation was given, through the evaluation lemmas of Proofs/Convert.v (the case file proves the
  ten tolerance tests, the mask conditions, the sign of the radicand and then bounds the closed form of
  the selected branch); euler2SO3 and LieTensor.euler with the generic branch-deciding tactic.
  The inputs are universally quantified reals pinned by  v <= x <= v  (keeps the terms small).
* raise codes of the scaled variants (rank test, negative determinant, shear) over R through proved lemmas;
  valid Sim3 / RxSO3 batches of every shape incl. lshape (2,3), (2,3,4), (0,), (2,0) as directed regression
  cases of the rank-test defects repaired in /repo 988caf7.
* the property's own statement evaluated on the implementation (independent oracle: Fractions /
  mpmath), on the enclosure inputs and on a larger sweep: this is the search of section 3.5.
"""
import math, itertools
from ..common import *
from ..lie import *

K_EPS, K_SQRT = 256, 64
ATOL = 1e-5
EULER_EPS = 2e-4
FNAME = {'SO3': 'mat2SO3', 'SE3': 'mat2SE3', 'RxSO3': 'mat2RxSO3', 'Sim3': 'mat2Sim3'}
RULE = ('X = (unit quaternion, translation, scale): quaternion uniform on S^3 or directed into each of the four regions of the extraction '
        '(dominant x / y / z / w), angle pi +- 1e-12..1e-3 and exactly pi about random and coordinate axes, coordinate-axis rotations, '
        'mask boundary m22 ~ atol, exact ties m00 = m11 / m00 = -m11, identity; translation 0 or 1e-3..1e3; scale 1e-3..1e3 incl. end points; '
        'layouts 3x3 / 3x4 / 4x4; check on / off; direct call and from_matrix; float64 and float32; batch shapes () (n,) (n,n) (a,b) (a,b,c) (0,). '
        'A case is (function, group, dtype, layout, check, X); non-trivial = rotation not the identity; distinct by value. '
        'Tolerances: %d eps (quaternion, scale relative), Euler angles %d eps / cos(pitch) (pitch: min(that, %d sqrt(eps))).' % (K_EPS, K_EPS, K_SQRT))

KEY_SHAPE = '%s:rank-test:batch-shape-not-broadcastable'
KEY_EMPTY = '%s:rank-test:empty-batch'


# ------------------------------------------------------------------------------ small helpers
def dt(torch, dname):
    return torch.float64 if dname == 'float64' else torch.float32


def feps(dname):
    return 2.0 ** -52 if dname == 'float64' else 2.0 ** -23


def natl(xs):
    return '[' + '; '.join('%d%%nat' % v for v in xs) + ']'


def bl(b):
    return 'true' if b else 'false'


def fr_mat(rows):
    return [[Fraction(float(v)) for v in r] for r in rows]


def fdet3(A):
    return (A[0][0] * (A[1][1] * A[2][2] - A[1][2] * A[2][1]) - A[0][1] * (A[1][0] * A[2][2] - A[1][2] * A[2][0])
            + A[0][2] * (A[1][0] * A[2][1] - A[1][1] * A[2][0]))


def branch_of(A, atol=Fraction(ATOL)):
    """region of the quaternion extraction selected for the 3x3 block A (exact arithmetic on what is given)"""
    # rmat_t = A^T : its diagonal is the diagonal of A
    if A[2][2] < atol:
        return 0 if A[0][0] > A[1][1] else 1
    return 2 if A[0][0] < -A[1][1] else 3


def direction(rng):
    while True:
        v = [rng.gauss(0, 1) for _ in range(3)]
        n = math.sqrt(sum(a * a for a in v))
        if n > 1e-3:
            return [a / n for a in v]


AXES = [[1.0, 0, 0], [0, 1.0, 0], [0, 0, 1.0], [-1.0, 0, 0], [0, -1.0, 0], [0, 0, -1.0]]
QKINDS = ['uniform', 'c0', 'c1', 'c2', 'c3', 'near-pi', 'pi', 'axis', 'd2-boundary', 'tie', 'identity', 'tiny']


def gen_quat(rng, kind):
    """[x, y, z, w], unit up to rounding"""
    if kind == 'uniform':
        v = [rng.gauss(0, 1) for _ in range(4)]
    elif kind in ('c0', 'c1', 'c2', 'c3'):
        k = int(kind[1])
        v = [rng.gauss(0, 0.25) for _ in range(4)]
        v[k] = rng.choice([1.0, -1.0]) * rng.uniform(0.8, 1.2)
    elif kind in ('near-pi', 'pi', 'axis', 'tiny'):
        ax = rng.choice(AXES) if (kind == 'axis' or rng.random() < 0.4) else direction(rng)
        if kind == 'near-pi':
            th = math.pi + rng.choice([1, -1]) * 10 ** rng.uniform(-12, -3)
        elif kind == 'pi':
            return [float(a) for a in ax] + [0.0]
        elif kind == 'tiny':
            th = 10 ** rng.uniform(-12, -6)
        else:
            th = rng.choice([math.pi / 2, math.pi / 3, 2.0, 3.0, math.pi - 1e-6, 1e-8, 1.0, 2.5, -1.2, 3.1, math.pi])
        v = [math.sin(th / 2) * a for a in ax] + [math.cos(th / 2)]
    elif kind == 'd2-boundary':
        # m22 = 1 - 2 (x^2 + y^2) = atol + delta
        delta = rng.choice([1, -1]) * 10 ** rng.uniform(-9, -5.5)
        r2 = (1 - ATOL - delta) / 2
        a, b = rng.uniform(0, 2 * math.pi), rng.uniform(0, 2 * math.pi)
        v = [math.sqrt(r2) * math.cos(a), math.sqrt(r2) * math.sin(a), math.sqrt(1 - r2) * math.cos(b), math.sqrt(1 - r2) * math.sin(b)]
    elif kind == 'tie':
        a, b, c = rng.uniform(0.5, 1), rng.uniform(-0.3, 0.3), rng.uniform(-0.3, 0.3)
        v = rng.choice([[a, a, b, c], [a, -a, b, c], [b, c, a, a], [b, c, a, -a]])
    elif kind == 'identity':
        return [0.0, 0.0, 0.0, rng.choice([1.0, -1.0])]
    else:
        raise ValueError(kind)
    n = math.sqrt(sum(a * a for a in v))
    return [a / n for a in v]


def gen_t(rng):
    r = rng.random()
    if r < 0.15:
        return [0.0, 0.0, 0.0]
    return [rng.choice([1, -1]) * 10 ** rng.uniform(-3, 3) for _ in range(3)]


def gen_s(rng):
    r = rng.random()
    if r < 0.2:
        return rng.choice([1e-3, 1e3, 1.0, 0.5, 2.0, 8.0, 0.125])
    return 10 ** rng.uniform(-3, 3)


def make_X(pp, torch, g, q, t, s, dname):
    data = {'SO3': q, 'SE3': t + q, 'RxSO3': q + [s], 'Sim3': t + q + [s]}[g]
    return pp.LieTensor(torch.tensor(data, dtype=dt(torch, dname)), ltype=getattr(pp, g + '_type'))


def full_matrix(pp, torch, g, X, t):
    """4x4 matrix carrying the rotation (and scale) of X; SO3 is embedded with translation t"""
    M = X.matrix()
    if g == 'SO3':
        M4 = torch.eye(4, dtype=M.dtype).repeat(M.shape[:-2] + (1, 1))
        M4[..., :3, :3] = M
        M4[..., :3, 3] = torch.tensor(t, dtype=M.dtype)
        return M4
    return M


def layout(M4, lay):
    if lay == '4x4':
        return M4
    if lay == '3x4':
        return M4[..., :3, :]
    return M4[..., :3, :3]


ERR_CODES = [('Input size must be', 1), ('not all orthogonal', 2), ('determinant', 3), ('not full rank', 4), ('ltype must be', 5)]


def call(pp, torch, via, g, M, check):
    """-> ('value', tensor) | ('raise', code, text); codes as Model/Convert.v outcome_code"""
    try:
        if via == 'from_matrix':
            Y = pp.from_matrix(M, getattr(pp, g + '_type'), check=check)
        else:
            Y = getattr(pp, FNAME[g])(M, check=check)
        return ('value', Y)
    except ValueError as e:
        for pat, code in ERR_CODES:
            if pat in str(e):
                return ('raise', code, str(e)[:120])
        return ('raise', -1, 'ValueError: ' + str(e)[:120])
    except RuntimeError as e:
        return ('raise', 100, 'RuntimeError: ' + str(e)[:120])
    except Exception as e:  # anything else is not modelled
        return ('raise', -2, '%s: %s' % (type(e).__name__, str(e)[:120]))


# ------------------------------------------------------------------------------ the property's oracle
def mp_num(v):
    import mpmath as mp
    f = Fraction(float(v))
    return mp.mpf(f.numerator) / mp.mpf(f.denominator)


def oracle_roundtrip(pp, torch, via, g, dname, lay, check, q, t, s, shape=()):
    """property clause 1 on the implementation: from_matrix / mat2X of X.matrix() has the same matrix, a
    unit quaternion and the same scale.  Returns a description of the failure or None."""
    eps = feps(dname)
    X = make_X(pp, torch, g, q, t, s, dname)
    if shape != ():
        X = pp.LieTensor(X.tensor().expand(tuple(shape) + X.tensor().shape).clone(), ltype=X.ltype)
    M4 = full_matrix(pp, torch, g, X, t)
    Min = layout(M4, lay)
    r = call(pp, torch, via, g, Min, check)
    if r[0] == 'raise':
        return '%s(%s matrix of a valid %s, lshape %s, check=%s) raised %s' % (via if via == 'from_matrix' else FNAME[g], lay, g, tuple(shape), check, r[2])
    Y = r[1]
    if tuple(Y.shape) != tuple(X.shape):
        return 'result shape %s, expected %s' % (tuple(Y.shape), tuple(X.shape))
    if Y.numel() == 0:
        return None
    yd = Y.tensor().reshape(-1, Y.shape[-1])
    if not bool(torch.isfinite(yd).all()):
        return 'non-finite result %s' % yd[0].tolist()
    exp4 = M4.clone()
    if lay == '3x3' or g in ('SO3', 'RxSO3'):
        exp4[..., :3, 3] = 0
    got4 = full_matrix(pp, torch, g, Y, [0.0, 0.0, 0.0])
    if g == 'SO3':
        exp4[..., :3, 3] = 0
    sc = abs(s) if g in ('RxSO3', 'Sim3') else 1.0
    err_r = float((got4[..., :3, :3] - exp4[..., :3, :3]).abs().max())
    if err_r > 4 * K_EPS * eps * sc:
        return 'rotation/scale block of the result differs from the input matrix by %.3g (tolerance %.3g)' % (err_r, 4 * K_EPS * eps * sc)
    err_t = float((got4[..., :3, 3] - exp4[..., :3, 3]).abs().max())
    if err_t > 0:
        return 'translation of the result differs from the input by %.3g' % err_t
    qi = {'SO3': 0, 'SE3': 3, 'RxSO3': 0, 'Sim3': 3}[g]
    for row in yd.tolist():
        n2 = sum(Fraction(v) * Fraction(v) for v in row[qi:qi + 4])
        if abs(float(n2) - 1) > 2 * K_EPS * eps:
            return 'quaternion of the result has squared norm %.17g' % float(n2)
        if g in ('RxSO3', 'Sim3') and abs(row[-1] - s) > K_EPS * eps * abs(s) + abs(s - float(torch.tensor(s, dtype=dt(torch, dname)))):
            return 'scale of the result %.17g differs from %.17g' % (row[-1], s)
    return None


def mp_quat_matrix(q):
    import mpmath as mp
    x, y, z, w = q
    n = x * x + y * y + z * z + w * w
    return [[1 - 2 * (y * y + z * z) / n, 2 * (x * y - z * w) / n, 2 * (x * z + y * w) / n],
            [2 * (x * y + z * w) / n, 1 - 2 * (x * x + z * z) / n, 2 * (y * z - x * w) / n],
            [2 * (x * z - y * w) / n, 2 * (y * z + x * w) / n, 1 - 2 * (x * x + y * y) / n]]


def mp_zyx(r, p, y):
    import mpmath as mp
    cr, sr, cp, sp, cy, sy = mp.cos(r), mp.sin(r), mp.cos(p), mp.sin(p), mp.cos(y), mp.sin(y)
    return [[cy * cp, cy * sp * sr - sy * cr, cy * sp * cr + sy * sr],
            [sy * cp, sy * sp * sr + cy * cr, sy * sp * cr - cy * sr],
            [-sp, cp * sr, cp * cr]]


def oracle_euler2SO3(pp, torch, dname, e):
    """euler2SO3(roll, pitch, yaw) is Rz(yaw) Ry(pitch) Rx(roll) (60-digit reference), unit quaternion"""
    import mpmath as mp
    mp.mp.dps = 40
    eps = feps(dname)
    et = torch.tensor(e, dtype=dt(torch, dname))
    try:
        Q = pp.euler2SO3(et)
    except Exception as ex:
        return 'euler2SO3 raised %r' % (ex,)
    q = [mp_num(v) for v in Q.tensor().tolist()]
    n2 = sum(a * a for a in q)
    if abs(n2 - 1) > 2 * K_EPS * eps:
        return 'euler2SO3 quaternion has squared norm %s' % mp.nstr(n2, 17)
    R = mp_quat_matrix(q)
    Z = mp_zyx(*[mp_num(v) for v in et.tolist()])
    err = max(abs(R[i][j] - Z[i][j]) for i in range(3) for j in range(3))
    if err > 4 * K_EPS * eps:
        return 'matrix of euler2SO3(%s) differs from Rz Ry Rx by %s' % (et.tolist(), mp.nstr(err, 3))
    return None


def euler_geometry(qf):
    """(t2 = sin pitch, cos pitch) of the float quaternion, in exact / high precision arithmetic"""
    x, y, z, w = [Fraction(float(v)) for v in qf]
    n = x * x + y * y + z * z + w * w
    t2 = 2 * (w * y - z * x) / n
    c = math.sqrt(max(0.0, float(1 - t2 * t2)))
    return float(t2), c


def oracle_euler(pp, torch, g, dname, x):
    """X.euler(): principal ranges; euler2SO3(X.euler()) is the rotation of X when |sin pitch| < 1 - eps"""
    import mpmath as mp
    mp.mp.dps = 40
    eps = feps(dname)
    X = pp.LieTensor(torch.tensor(x, dtype=dt(torch, dname)), ltype=getattr(pp, g + '_type'))
    try:
        e = X.euler()
    except Exception as ex:
        return 'euler raised %r' % (ex,)
    ev = e.tolist()
    if any(not math.isfinite(v) for v in ev):
        return 'euler returned %s' % ev
    pi = math.pi * (1 + 4 * eps)
    qf = X.rotation().tensor().tolist()
    t2, c = euler_geometry(qf)
    main = abs(t2) < 1 - EULER_EPS - 1e-6
    # principal ranges are claimed (and proved) on the main branch; on the gimbal branch the code returns
    # roll = 0 and yaw = -+2 atan2(x, w), which lies in (-2 pi, 2 pi]
    if not (abs(ev[0]) <= pi and abs(ev[1]) <= pi / 2 and abs(ev[2]) <= (pi if main else 2 * pi)):
        return 'euler angles %s outside their principal ranges' % ev
    if abs(t2) < 1 - EULER_EPS - 1e-6:
        R = mp_quat_matrix([mp_num(v) for v in qf])
        Q = pp.euler2SO3(e)
        R2 = mp_quat_matrix([mp_num(v) for v in Q.tensor().tolist()])
        err = max(abs(R[i][j] - R2[i][j]) for i in range(3) for j in range(3))
        tol = 8 * K_EPS * eps / max(c, 1e-2)
        if err > tol:
            return 'euler2SO3(X.euler()) differs from the rotation of X by %s (tolerance %.3g, sin pitch = %.6g)' % (mp.nstr(err, 3), tol, t2)
    return None


def oracle_euler_batch(pp, torch, g, dname, xs, shp):
    """X.euler() on a batch equals, item by item, X_i.euler() on the single elements (which oracle_euler judges)"""
    G = getattr(pp, g + '_type')
    Xb = pp.LieTensor(torch.tensor(xs, dtype=dt(torch, dname)).reshape(tuple(shp) + (len(xs[0]),)), ltype=G)
    try:
        eb = Xb.euler()
    except Exception as ex:
        return 'euler of a batch of shape %s raised %r' % (tuple(shp), ex)
    if tuple(eb.shape) != tuple(shp) + (3,):
        return 'euler of a batch of lshape %s returned shape %s' % (tuple(shp), tuple(eb.shape))
    eb = eb.reshape(-1, 3)
    for i, x in enumerate(xs):
        ei = pp.LieTensor(torch.tensor(x, dtype=dt(torch, dname)), ltype=G).euler()
        if not torch.allclose(eb[i], ei, rtol=0, atol=64 * feps(dname), equal_nan=True):
            one = oracle_euler(pp, torch, g, dname, x)
            return ('item %d of a batch of lshape %s (batch holds gimbal-locked and ordinary elements): euler gives %s inside the batch but %s for the single element x=%s%s'
                    % (i, tuple(shp), eb[i].tolist(), ei.tolist(), x, '' if one else ' (the single-element result satisfies the round trip)'))
    return None


def oracle_reject(pp, torch, via, g, dname, M, expect_raise):
    """check=True: matrices beyond the tolerances raise ValueError, valid ones do not"""
    Mt = torch.tensor(M, dtype=dt(torch, dname))
    r = call(pp, torch, via, g, Mt, True)
    if expect_raise and r[0] == 'value':
        return 'check=True accepted a matrix that is not a (scaled) rotation beyond the tolerances'
    if expect_raise and not (1 <= r[1] <= 5):
        return 'check=True raised %s instead of ValueError' % r[2]
    if not expect_raise and r[0] == 'raise':
        return 'check=True raised on a valid matrix: %s' % r[2]
    return None


# ------------------------------------------------------------------------------ Coq case files
HDR = ('From Coq Require Import Reals List ZArith Lra.\nFrom Interval Require Import Tactic.\n'
       'From PV Require Import Base.Num Base.Enclose Model.LieGroup Model.Convert Proofs.Convert.\nImport ListNotations.\nOpen Scope R_scope.\n'
       '#[local] Remove Hints NumQ NumZ : typeclass_instances.\n'
       'Lemma le_by_sub a b : 0 <= b - a -> a <= b. Proof. lra. Qed.\n'
       'Lemma lt_by_sub a b : 0 < b - a -> a < b. Proof. lra. Qed.\n'
       'Lemma div_le_div s a b : 0 < s -> a <= b -> a / s <= b / s. Proof. intros H1 H2. unfold Rdiv. apply Rmult_le_compat_r; [left; now apply Rinv_0_lt_compat | exact H2]. Qed.\n'
       'Lemma ndiv_le_div s a b : 0 < s -> - a <= b -> - (a / s) <= b / s. Proof. intros H1 H2. replace (- (a / s)) with ((- a) / s) by (unfold Rdiv; ring). now apply div_le_div. Qed.\n'
       'Ltac ivl0 prec := first [ interval with (i_prec prec) | apply le_by_sub; interval with (i_prec prec) | apply lt_by_sub; interval with (i_prec prec) ].\n'
       'Ltac ivl prec := first [ ivl0 prec | apply div_le_div; [ lra | ivl0 prec ] | apply ndiv_le_div; [ lra | ivl0 prec ] ].\n'
       'Ltac decide_v prec :=\n'
       '  repeat (match goal with\n'
       '  | |- context [Rlt_dec ?a ?b] => tryif (first [has_dec a | has_dec b]) then fail else\n'
       '      (let H := fresh "Hb" in destruct (Rlt_dec a b) as [H|H];\n'
       '       [ try (exfalso; revert H; apply Rle_not_lt; ivl prec) | try (exfalso; apply H; ivl prec) ])\n'
       '  | |- context [Rle_dec ?a ?b] => tryif (first [has_dec a | has_dec b]) then fail else\n'
       '      (let H := fresh "Hb" in destruct (Rle_dec a b) as [H|H];\n'
       '       [ try (exfalso; revert H; apply Rlt_not_le; ivl prec) | try (exfalso; apply H; ivl prec) ])\n'
       '  | |- context [Req_EM_T ?a ?b] => tryif (first [has_dec a | has_dec b]) then fail else\n'
       '      (let H := fresh "Hb" in destruct (Req_EM_T a b) as [H|H];\n'
       '       [ try (exfalso; revert H; apply Rlt_not_eq; ivl prec); try (exfalso; revert H; apply Rgt_not_eq; ivl prec)\n'
       '       | try (exfalso; apply H; first [lra | apply Rle_antisym; ivl prec]) ])\n'
       '  end; cbv iota beta).\n'
       'Ltac side prec := model_cbv; repeat split; ivl prec.\n'
       'Ltac fin prec := model_cbv; repeat split; interval with (i_prec prec).\n'
       'Ltac evalv prec := model_cbv; decide_v prec; reflexivity.\n')
PREC = 200


def run_files(pid, files, timeout=900):
    """run_case_files; files that failed only because a library of the dependency cone was being
    rebuilt by a concurrent check (thorough tier deletes and rebuilds .vo files) are retried"""
    res = run_case_files(pid, files, timeout=timeout)
    for attempt in range(4):
        again = [(n, t) for n, t in files if res[n][0] != 0 and ('Cannot find library' in res[n][1] or 'Compiled library' in res[n][1] or 'bad version number' in res[n][1])]
        if not again:
            break
        time.sleep(30)
        res.update(run_case_files(pid, again, timeout=timeout))
    return res


def eval_script(c, k):
    """tactic establishing  <model expression> = ?r  for a mat2X case through the evaluation lemmas"""
    g, check, rows, cols = c['g'], c['check'], c['rows'], c['cols']
    data = '[%s]' % '; '.join(c['names'])
    args = '%s %s %s %d%%nat %d%%nat %s' % (rlit(F(ATOL)), rlit(F(ATOL)), bl(check), rows, cols, data)
    pre = 'rewrite from_matrix_is_mat2X by (repeat constructor); ' if c['via'] == 'from_matrix' else ''
    if g in ('SO3', 'SE3'):
        return pre + 'apply (eval_item_%s %s %d%%nat); [ reflexivity | idtac | side P ]; (intros Hc; first [ discriminate Hc | side P ])' % (g, args, k)
    return pre + ('apply (eval_item_%s %s %d%%nat) with (s := s); [ reflexivity | side P | reflexivity | clearbody s; side P '
                  '| idtac | clearbody s; side P ]; (intros Hc; first [ discriminate Hc | clearbody s; side P ])' % (g, args, k))


def goal_text(c, final, tagnum):
    """one Goal; final = conjunction over the result list r"""
    names = c['names']
    hyps = ' -> '.join('%s <= %s <= %s' % (rlit(v), n, rlit(v)) for n, v in zip(names, c['inputs']))
    if c['kind'] == 'mat2x':
        ks = [c['k']] + [k for k in range(4) if k != c['k']]
        ev = 'first [ %s ]' % ' | '.join('(%s)' % eval_script(c, k) for k in ks)
        if c['g'] in ('RxSO3', 'Sim3'):
            lo, hi = c['sb']
            pre = ('pose (s := exp (ln (mdet3 (in_rot (parse_in %d%%nat %d%%nat [%s]))) / 3)); '
                   'assert (Hsb : %s <= s <= %s) by (unfold s; model_cbv; interval with (i_prec P)); ' % (c['rows'], c['cols'], '; '.join(names), rlit(lo), rlit(hi)))
            script = pre + 'eexists; split; [ %s | clearbody s; fin P ]' % ev
        else:
            script = 'eexists; split; [ %s | fin P ]' % ev
    else:
        script = 'eexists; split; [ evalv P | fin P ]'
    script = script.replace('i_prec P', 'i_prec %d' % PREC)
    for tac in ('side', 'fin', 'evalv'):
        script = script.replace('%s P' % tac, '%s %d%%positive' % (tac, PREC))
    return ('Goal forall %s : R, %s -> exists r, %s = r /\\ (%s).\nProof. intros. first [ timeout %d (solve [ %s ]); idtac "OK" "%d" | idtac "BAD" "%d" ]. Abort.\n'
            % (' '.join(names), hyps, c['expr'], final, c.get('timeout', 240), script, tagnum, tagnum))


def run_goals(pid, cases, per_file, tag):
    """phase 1: all components within tolerance; phase 2 (cases not proved): a component proved outside.
    -> dict(ok, bad=[(idx, comp)], undecided, broken)"""
    byidx = {c['idx']: c for c in cases}
    files = []
    for k, sh in enumerate(shard(cases, per_file)):
        txt = HDR
        for c in sh:
            conj = ' /\\ '.join('Rabs (nth %d r 0 - %s) <= %s' % (i, rlit(v), rlit(t)) for i, v, t in c['comps'])
            txt += goal_text(c, conj, c['idx'])
        files.append(('%s1_%03d' % (tag, k), txt))
    res = run_files(pid, files, timeout=per_file * 260 + 300)
    ok, notok, broken = set(), set(), []
    for name, (rc, out) in res.items():
        t = parse_tags(out)
        ok.update(t['OK'])
        notok.update(t['BAD'])
        if rc != 0:
            broken.append((name, out[-800:]))
    notok.update(c['idx'] for c in cases if c['idx'] not in ok | notok)
    bad, undecided = [], []
    if notok:
        goals, enc = [], {}
        for idx in sorted(notok):
            c = byidx[idx]
            for (i, v, t) in c['comps']:
                code = idx * 100 + i
                enc[code] = (idx, i)
                goals.append(goal_text(c, '%s < Rabs (nth %d r 0 - %s)' % (rlit(t), i, rlit(v)), code))
        files2 = [('%s2_%03d' % (tag, k), HDR + ''.join(sh)) for k, sh in enumerate(shard(goals, per_file))]
        res2 = run_files(pid, files2, timeout=per_file * 260 + 300)
        proved = set()
        for name, (rc, out) in res2.items():
            proved.update(parse_tags(out)['OK'])
        badidx = set()
        for code in proved:
            bad.append(enc[code])
            badidx.add(enc[code][0])
        undecided = sorted(notok - badidx)
    return dict(ok=sorted(ok), bad=sorted(bad), undecided=undecided, broken=broken)


def scale_hint(A):
    """tight rational bounds of cbrt(det A) (a hint: Coq re-proves them with interval)"""
    import mpmath as mp
    mp.mp.dps = 60
    d = fdet3(A)
    if d <= 0:
        return None
    s = mp.cbrt(mp.mpf(d.numerator) / mp.mpf(d.denominator))
    p = 160 - int(mp.floor(mp.log(s, 2)))
    lo = Fraction(int(mp.floor(s * (1 - mp.mpf(10) ** -32) * mp.mpf(2) ** p)), 2 ** p)
    hi = Fraction(int(mp.ceil(s * (1 + mp.mpf(10) ** -32) * mp.mpf(2) ** p)), 2 ** p)
    return lo, hi, s


# ------------------------------------------------------------------------------ enclosure block
def enclosure_block(ctx, pp, torch):
    rng = ctx.rng
    cases, meta = [], []
    plan = []
    lays = {'SO3': ['3x3', '3x4', '4x4'], 'SE3': ['4x4', '3x4', '3x3'], 'RxSO3': ['4x4', '3x3', '3x4'], 'Sim3': ['4x4', '3x4', '3x3']}
    # directed: every region / special rotation for every group (layouts, dtypes, check, call path rotate)
    n = 0
    for g in GROUPS:
        for kind in QKINDS:
            n += 1
            dnames = ('float64', 'float32') if (ctx.thorough or (g == 'SO3' and kind in ('c0', 'c1', 'c2', 'c3', 'pi'))) else (('float64',) if n % 4 else ('float32',))
            for dname in dnames:
                plan.append((g, kind, dname, lays[g][n % 3], n % 3 == 0, 'from_matrix' if n % 4 == 1 else 'direct'))
    extra = {'SO3': ctx.scale(10, 400), 'SE3': ctx.scale(4, 200), 'RxSO3': ctx.scale(4, 150), 'Sim3': ctx.scale(6, 200)}
    for g in GROUPS:
        for _ in range(extra[g]):
            plan.append((g, rng.choice(QKINDS), 'float64' if rng.random() < 0.65 else 'float32', rng.choice(lays[g]),
                         rng.random() < 0.35, 'from_matrix' if rng.random() < 0.3 else 'direct'))
    for (g, kind, dname, lay, check, via) in plan:
        eps = feps(dname)
        q, t, s = gen_quat(rng, kind), gen_t(rng), gen_s(rng)
        X = make_X(pp, torch, g, q, t, s, dname)
        M4 = full_matrix(pp, torch, g, X, t)
        Min = layout(M4, lay)
        # the implementation sees a batch (shape varies); the Coq case is the item
        shape = rng.choice([(), (), (1,), (3,), (2, 2)])
        Mb = Min.expand(tuple(shape) + Min.shape).clone() if shape else Min
        r = call(pp, torch, via, g, Mb, check)
        rec = dict(kind='mat2x', via=via, g=g, dtype=dname, lay=lay, check=check, q=q, t=t, s=s, qkind=kind)
        if r[0] == 'raise':
            why = oracle_roundtrip(pp, torch, via, g, dname, lay, check, q, t, s)
            mm = dict(family='mat2x:' + g, case=rec, detail='implementation raised %s on a valid input' % r[2])
            ctx.mismatches.append(mm)
            if why:
                mm['explained'] = True
                ctx.violation('roundtrip:%s:%s:%s' % (FNAME[g], dname, kind), why, rec)
            continue
        out = r[1].tensor().reshape(-1, r[1].shape[-1])[-1].tolist()
        rows, cols = Min.shape[-2], Min.shape[-1]
        inputs = [float(v) for v in Min.reshape(-1).tolist()]
        A = fr_mat(Min[:3, :3].tolist())
        sb = None
        if g in ('RxSO3', 'Sim3'):
            h = scale_hint(A)
            if h is None:
                continue
            sb = (h[0], h[1])
            sf = h[0]
            A = [[v / sf for v in row] for row in A]
        k = branch_of(A)
        i = len(meta)
        names = ['x%d' % j for j in range(len(inputs))]
        fn = 'from_matrix_l' if via == 'from_matrix' else 'mat2X_l'
        expr = 'outcome_item (%s %s %s %d%%nat %s %d%%nat %d%%nat [[%s]]) 0%%nat' % (
            fn, rlit(F(ATOL)), rlit(F(ATOL)), GID[g], bl(check), rows, cols, '; '.join(names))
        comps = []
        qi = {'SO3': 0, 'SE3': 3, 'RxSO3': 0, 'Sim3': 3}[g]
        for j, v in enumerate(out):
            if qi <= j < qi + 4:
                comps.append((j, v, K_EPS * eps))
            elif j < qi:
                comps.append((j, v, K_EPS * eps * abs(v)))
            else:
                comps.append((j, v, K_EPS * eps * abs(v)))
        if any(not math.isfinite(v) for v in out):
            ctx.violation('roundtrip:%s:%s:%s' % (FNAME[g], dname, kind), 'non-finite result %s' % out, rec)
            continue
        nontriv = abs(abs(q[3]) - 1) > 1e-12
        ctx.case((via, g, dname, lay, check, tuple(inputs)), nontrivial=nontriv,
                 branch='enc:%s:%s:c%d:%s:check=%s' % (g, dname, k, lay, check),
                 sample=dict(rec, impl=out) if i % 97 == 3 else None)
        ctx.count('qkind:' + kind)
        meta.append(dict(rec, impl=out, k=k))
        cases.append(dict(idx=i, kind='mat2x', via=via, g=g, check=check, rows=rows, cols=cols, names=names, inputs=inputs,
                          expr=expr, comps=comps, k=k, sb=sb))
    # euler2SO3 and euler
    ne = ctx.scale(16, 300)
    for j in range(ne):
        dname = 'float64' if rng.random() < 0.7 else 'float32'
        eps = feps(dname)
        kind = rng.choice(['generic', 'generic', 'zero', 'big', 'gimbal'])
        if kind == 'generic':
            e = [rng.uniform(-math.pi, math.pi), rng.uniform(-math.pi / 2, math.pi / 2), rng.uniform(-math.pi, math.pi)]
        elif kind == 'zero':
            e = [rng.choice([0.0, rng.uniform(-3, 3)]) for _ in range(3)]
        elif kind == 'big':
            e = [rng.uniform(-7, 7) for _ in range(3)]
        else:
            e = [rng.uniform(-3, 3), rng.choice([1, -1]) * (math.pi / 2 - rng.choice([0.0, 1e-9, 1e-4, 1e-2])), rng.uniform(-3, 3)]
        et = torch.tensor(e, dtype=dt(torch, dname))
        e = [float(v) for v in et.tolist()]
        sh = rng.choice([(), (2,), (2, 3)])
        eb = et.expand(tuple(sh) + (3,)).clone() if sh else et
        try:
            Q = pp.euler2SO3(eb)
            out = Q.tensor().reshape(-1, 4)[-1].tolist()
            if tuple(Q.shape) != tuple(sh) + (4,):
                ctx.violation('euler2SO3:shape', 'euler2SO3 of shape %s returned shape %s' % (tuple(eb.shape), tuple(Q.shape)), dict(kind='e2s', dtype=dname, e=e))
        except Exception as ex:
            ctx.violation('euler2SO3:raises', 'euler2SO3(%s) raised %r' % (e, ex), dict(kind='e2s', dtype=dname, e=e))
            continue
        i = len(meta)
        names = ['x0', 'x1', 'x2']
        ctx.case(('e2s', dname, tuple(e)), nontrivial=any(v != 0 for v in e), branch='enc:euler2SO3:%s' % dname,
                 sample=dict(kind='e2s', dtype=dname, e=e, impl=out) if j == 1 else None)
        meta.append(dict(kind='e2s', dtype=dname, e=e, impl=out))
        cases.append(dict(idx=i, kind='e2s', names=names, inputs=e, expr='euler2SO3_l [x0; x1; x2]',
                          comps=[(c, out[c], K_EPS * eps) for c in range(4)]))
    nu = ctx.scale(30, 350)
    ek = ['uniform', 'uniform', 'near-pi', 'pi', 'axis', 'gimbal', 'gimbal-near', 'flag-boundary', 'identity', 'nonunit']
    for j in range(nu):
        dname = 'float64' if rng.random() < 0.7 else 'float32'
        eps = feps(dname)
        kind = ek[j % len(ek)] if j < 2 * len(ek) else rng.choice(ek)
        g = rng.choice(GROUPS) if j % 3 == 0 else 'SO3'
        q = gen_euler_quat(rng, kind)
        t, s = gen_t(rng), gen_s(rng)
        X = make_X(pp, torch, g, q, t, s, dname)
        x = [float(v) for v in X.tensor().tolist()]
        qf = X.rotation().tensor().tolist()
        geo = euler_safe(qf, dname)
        if geo is None:
            continue
        t2, c, flag = geo
        try:
            ev = X.euler().tolist()
        except Exception as ex:
            ctx.violation('euler:raises', 'euler raised %r' % (ex,), dict(kind='euler', g=g, dtype=dname, x=x))
            continue
        tol_p = max(K_EPS * eps, min(K_EPS * eps / max(c, 1e-300), K_SQRT * math.sqrt(eps)))
        tol_ry = K_EPS * eps / max(c, 1e-2) if flag else K_EPS * eps
        i = len(meta)
        names = ['x%d' % a for a in range(len(x))]
        ctx.case(('euler', g, dname, tuple(x)), nontrivial=True, branch='enc:euler:%s:%s' % (dname, 'main' if flag else 'gimbal'),
                 sample=dict(kind='euler', g=g, dtype=dname, x=x, impl=ev) if j == 2 else None)
        meta.append(dict(kind='euler', g=g, dtype=dname, x=x, impl=ev))
        cases.append(dict(idx=i, kind='euler', names=names, inputs=x,
                          expr='euler_l %s %d%%nat [%s]' % (rlit(F(EULER_EPS)), GID[g], '; '.join(names)),
                          comps=[(0, ev[0], tol_ry), (1, ev[1], tol_p), (2, ev[2], tol_ry)]))
    r = run_goals('C11', cases, per_file=ctx.scale(9, 25), tag='enc')
    for name, out in r['broken']:
        ctx.obligation_broken('correspondence-file:' + name, out)
    ctx.notes.append('enclosure: %d proved within tolerance, %d proved outside, %d undecided' % (len(r['ok']), len(set(i for i, _ in r['bad'])), len(r['undecided'])))
    ctx.hist['undecided'] = len(r['undecided'])
    if len(r['undecided']) > max(5, len(cases) // 20):
        ctx.obligation_broken('enclosure-undecided', '%d of %d cases could be neither proved nor refuted, e.g. %s' % (len(r['undecided']), len(cases), [meta[i] for i in r['undecided'][:3]]))
    for i in sorted(set(i for i, _ in r['bad'])):
        m = meta[i]
        mm = dict(family='enclosure:' + m['kind'], case=dict(m, components=[c for j, c in r['bad'] if j == i]), detail='')
        ctx.mismatches.append(mm)
        why = replay(ctx, m)
        if why:
            mm['explained'] = True
            ctx.violation(key_for(m), why, m)
    ctx.traces += len(r['ok'])
    # the property's statement on every enclosure input as well (cheap)
    for m in meta:
        why = replay(ctx, m)
        if why:
            ctx.violation(key_for(m), why, m)


def gen_euler_quat(rng, kind):
    if kind in ('uniform', 'near-pi', 'pi', 'axis', 'identity'):
        return gen_quat(rng, kind)
    if kind == 'nonunit':
        f = rng.uniform(0.5, 2.0)
        return [f * v for v in gen_quat(rng, 'uniform')]
    # pitch close to +-pi/2: q = euler2SO3(roll, pitch, yaw) in double
    if kind == 'gimbal':
        p = rng.choice([1, -1]) * (math.pi / 2 - rng.choice([0.0, 1e-12, 1e-8, 1e-5, 1e-3, 0.015]))
    elif kind == 'gimbal-near':
        p = rng.choice([1, -1]) * (math.pi / 2 - rng.uniform(0.021, 0.2))
    else:  # |sin pitch| = 1 - eps +- delta
        sp = 1 - EULER_EPS + rng.choice([1, -1]) * 10 ** rng.uniform(-6.5, -4.5)
        p = rng.choice([1, -1]) * math.asin(sp)
    r, y = rng.uniform(-3, 3), rng.uniform(-3, 3)
    cy, sy, cp, sp, cr, sr = math.cos(y / 2), math.sin(y / 2), math.cos(p / 2), math.sin(p / 2), math.cos(r / 2), math.sin(r / 2)
    return [sr * cp * cy - cr * sp * sy, cr * sp * cy + sr * cp * sy, cr * cp * sy - sr * sp * cy, cr * cp * cy + sr * sp * sy]


def euler_safe(qf, dname):
    """(t2, cos pitch, flag) or None when the input sits on a discontinuity of atan2 / on the flag
    boundary (there implementation and exact model may legitimately differ by 2 pi / take another branch)"""
    x, y, z, w = [Fraction(float(v)) for v in qf]
    n = x * x + y * y + z * z + w * w
    if n == 0:
        return None
    t0, t1 = 2 * (w * x + y * z), (w * w + z * z) - (x * x + y * y)
    t2 = 2 * (w * y - z * x) / n
    t3, t4 = 2 * (w * z + x * y), (w * w + x * x) - (y * y + z * z)
    margin = 1e-4 if dname == 'float32' else 1e-9
    if abs(float(abs(t2)) - (1 - EULER_EPS)) < margin:
        return None
    flag = abs(t2) < 1 - Fraction(EULER_EPS)
    cut = 1e-5 * float(n)
    if flag:
        if (t1 <= 0 and abs(t0) < cut) or (t4 <= 0 and abs(t3) < cut):
            return None
    else:
        if w <= 0 and abs(x) < cut:
            return None
    c = math.sqrt(max(0.0, float(1 - t2 * t2)))
    return float(t2), c, flag


# ------------------------------------------------------------------------------ exact block
def dy6(rng, lim=2.0):
    return rng.randint(-int(lim * 64), int(lim * 64)) / 64.0


def gen_disc_matrix(rng, k):
    """dyadic 3x3 matrix whose masks select region k and whose radicand t_k is a power of 4"""
    while True:
        m = [[dy6(rng) for _ in range(3)] for _ in range(3)]
        if k in (0, 1):
            t = rng.choice([4.0, 16.0])
            m22 = -rng.randint(0, int((t - 1) * 64) - 1) / 64.0
            if k == 0:
                m11 = dy6(rng)
                m00 = t - 1 + m11 + m22
                ok = m00 > m11
            else:
                m00 = dy6(rng)
                m11 = t - 1 + m00 + m22
                ok = m00 <= m11
        else:
            m22 = rng.randint(1, 128) / 64.0
            if k == 2:
                t = rng.choice([4.0, 16.0])
                m00 = dy6(rng)
                m11 = 1 + m22 - t - m00          # t = 1 - m00 - m11 + m22
                ok = m00 < -m11
            else:
                t = rng.choice([0.25, 1.0, 4.0, 16.0, 0.0625])
                m00 = dy6(rng)
                m11 = t - 1 - m22 - m00          # t = 1 + m00 + m11 + m22
                ok = m00 >= -m11
        if not ok or max(abs(m00), abs(m11)) > 64:
            continue
        m[0][0], m[1][1], m[2][2] = m00, m11, m22
        return m, t


def perm_matrices():
    """the 12 rotation matrices of the Hurwitz quaternions (exact)"""
    seen, res = set(), []
    for q in HURWITZ:
        R = ref_matrix('SO3', [Fraction(v) for v in q])
        key = tuple(R)
        if key not in seen:
            seen.add(key)
            res.append(([[float(R[3 * i + j]) for j in range(3)] for i in range(3)], list(q)))
    return res


def embed(rng, R, lay):
    if lay == '3x3':
        return [list(r) for r in R]
    t = [dy6(rng, 4.0) for _ in range(3)]
    rows = [list(R[i]) + [t[i]] for i in range(3)]
    if lay == '4x4':
        rows.append([0.0, 0.0, 0.0, 1.0])
    return rows


def exact_block(ctx, pp, torch):
    rng = ctx.rng
    conv, cmeta, conv_extra = [], [], []

    def add_conv(g, via, lay, check, dname, items):
        Mt = torch.tensor(items, dtype=dt(torch, dname))
        single = rng.random() < 0.3 and len(items) == 1
        r = call(pp, torch, via, g, Mt[0] if single else Mt, check)
        rows, cols = len(items[0]), len(items[0][0])
        i = len(cmeta)
        if r[0] == 'value':
            outs = r[1].tensor().reshape(-1, r[1].shape[-1]).tolist()
            if any(not math.isfinite(v) for o in outs for v in o):
                return
            exp = (0, outs)
        else:
            exp = (r[1], [])
        cmeta.append(dict(kind='exact', g=g, via=via, lay=lay, check=check, dtype=dname, items=items, impl=exp))
        flat = [[v for row in it for v in row] for it in items]
        conv.append('(%d%%nat, (%d%%nat, %s, %d%%nat, %d%%nat), (%s, %s), %s, (%d%%nat, %s))' % (
            i, GID[g], bl(check), rows, cols, qlit(F(ATOL)), qlit(F(ATOL)), coq_list(qlist(f) for f in flat),
            exp[0] if exp[0] >= 0 else 77, coq_list(qlist(o) for o in exp[1])))
        return i

    nper = ctx.scale(40, 900)
    for k in range(4):
        for j in range(nper):
            g = 'SO3' if j % 2 == 0 else 'SE3'
            lay = ['3x3', '3x4', '4x4'][j % 3]
            nb = rng.choice([1, 1, 2, 3])
            items = [embed(rng, gen_disc_matrix(rng, k)[0], lay) for _ in range(nb)]
            dname = 'float64' if j % 4 else 'float32'
            i = add_conv(g, 'from_matrix' if j % 5 == 0 else 'direct', lay, False, dname, items)
            if i is not None:
                ctx.case(('exact', g, lay, dname, str(items)), nontrivial=True, branch='exact:c%d:%s' % (k, dname),
                         sample=dict(cmeta[i]) if (k, j) == (1, 0) else None)
    perms = perm_matrices()
    for (R, q) in perms:
        for g in ('SO3', 'SE3'):
            for lay in ('3x3', '3x4', '4x4'):
                for dname in ('float64', 'float32'):
                    i = add_conv(g, rng.choice(['direct', 'from_matrix']), lay, True, dname, [embed(rng, R, lay)])
                    if i is not None:
                        ctx.case(('exact-perm', g, lay, dname, str(R)), nontrivial=q != [0.0, 0.0, 0.0, 1.0], branch='exact:hurwitz:%s' % dname)
    # unaccepted shapes / unknown ltype
    for (rows, cols) in [(2, 2), (3, 2), (4, 3), (2, 4), (5, 5), (3, 5)]:
        for g in GROUPS[:2]:
            items = [[[1.0 if a == b else 0.0 for b in range(cols)] for a in range(rows)]]
            for via in ('direct', 'from_matrix'):
                i = add_conv(g, via, '%dx%d' % (rows, cols), True, 'float64', items)
                ctx.case(('exact-shape', g, rows, cols, via), nontrivial=False, branch='exact:bad-shape')
    files = [('conv_%03d' % k, LIE_HEADER.replace('Model.LieGroup.', 'Model.LieGroup Model.Convert.') + 'Eval vm_compute in conv_bad %s.\n' % coq_list(sh))
             for k, sh in enumerate(shard(conv, 150))]
    # check=True predicates on batches of perturbed matrices
    chk, kmeta = [], []
    ncheck = ctx.scale(400, 6000)
    for j in range(ncheck):
        nb = rng.choice([1, 1, 2, 3])
        dname = 'float64' if j % 3 else 'float32'
        items, cls = [], []
        for _ in range(nb):
            it, c = gen_check_item(rng, perms, lambda M, dn=dname: torch.tensor(M, dtype=dt(torch, dn)).tolist(),
                                   Fraction(1, 1000) if dname == 'float64' else Fraction(1, 8))
            if it is None:
                break
            items.append(it)
            cls.append(c)
        if len(items) != nb:
            continue
        code = 2 if 'orth' in cls else (3 if 'det' in cls else 0)
        Mt = torch.tensor(items, dtype=dt(torch, dname))
        via, g = rng.choice([('direct', 'SO3'), ('direct', 'SE3'), ('from_matrix', 'SO3')])
        r = call(pp, torch, via, g, Mt, True)
        got = 0 if r[0] == 'value' else r[1]
        i = len(kmeta)
        kmeta.append(dict(kind='check', g=g, via=via, dtype=dname, items=items, classes=cls, impl=got))
        ctx.case(('check', dname, str(items)), nontrivial=True, branch='check:%s:%s' % ('+'.join(sorted(set(cls))), 'raise' if got else 'pass'),
                 sample=dict(kmeta[i]) if j == 5 else None)
        flat = [[v for row in it for v in row] for it in items]
        chk.append('(%d%%nat, (%s, %s), %s, %d%%nat)' % (i, qlit(F(ATOL)), qlit(F(ATOL)), coq_list(qlist(f) for f in flat), got if got >= 0 else 77))
        if got != code:
            # generator's exact classification disagrees with the implementation: the property's clause itself
            exp_raise = code != 0
            why = oracle_reject(pp, torch, via, g, dname, items, exp_raise)
            if why:
                ctx.violation('check:%s:%s' % (FNAME[g], 'accepts-invalid' if exp_raise else 'rejects-valid'), why + ' (batch classes %s)' % cls,
                              dict(kind='check', g=g, via=via, dtype=dname, items=items, expect_raise=exp_raise))
    files += [('chk_%03d' % k, LIE_HEADER.replace('Model.LieGroup.', 'Model.LieGroup Model.Convert.') + 'Eval vm_compute in check_bad %s.\n' % coq_list(sh))
              for k, sh in enumerate(shard(chk, 200))]
    # the scaled groups on an empty batch (regression of the empty-batch defect repaired in 988caf7): the model
    # returns the empty batch; no cube root is evaluated
    for g in ('RxSO3', 'Sim3'):
        for via in ('direct', 'from_matrix'):
            for check in (True, False):
                r = call(pp, torch, via, g, torch.zeros((0, 4, 4), dtype=torch.float64), check)
                i = len(cmeta)
                exp = (0, []) if r[0] == 'value' and r[1].numel() == 0 else ((r[1] if r[0] == 'raise' else 78), [])
                cmeta.append(dict(kind='shape', g=g, via=via, shape=[0], impl=exp))
                conv_extra.append('(%d%%nat, (%d%%nat, %s, 4%%nat, 4%%nat), (%s, %s), [], (%d%%nat, []))' % (
                    i, GID[g], bl(check), qlit(F(ATOL)), qlit(F(ATOL)), exp[0] if exp[0] >= 0 else 77))
                ctx.case(('exact-empty', g, via, check), nontrivial=False, branch='exact:empty-batch:%s' % g)
    files.append(('conv_empty', LIE_HEADER.replace('Model.LieGroup.', 'Model.LieGroup Model.Convert.') + 'Eval vm_compute in conv_bad %s.\n' % coq_list(conv_extra)))
    shapes = [(), (1,), (3,), (2, 3), (3, 3), (2, 1), (1, 2), (0,), (2, 0), (2, 3, 4), (2, 2, 2), (1, 1), (4, 1, 1), (3, 1, 3), (5,), (2, 2)]
    shape_block(ctx, pp, torch, shapes)
    res = run_files('C11', files)
    for name, (rc, out) in sorted(res.items()):
        ev = parse_evals(out)
        if rc != 0 or len(ev) != 1:
            ctx.obligation_broken('correspondence-file:' + name, out[-1500:])
            continue
        bad = parse_nat_list(ev[0])
        metas = cmeta if name.startswith('conv') else kmeta
        ctx.traces += (150 if name.startswith('conv') else 200) - len(bad)
        for i in bad:
            m = metas[i]
            mm = dict(family=('exact:' if name.startswith('conv') else 'check:') + m['g'], case=m, detail='model (vm_compute over Q) and implementation disagree')
            ctx.mismatches.append(mm)
            why = replay(ctx, m)
            if why:
                mm['explained'] = True
                ctx.violation(key_for(m), why, m)


def gen_check_item(rng, perms, rnd, margin):
    """(3x3 dyadic-ish matrix, class) with class in {'ok', 'orth', 'det'} decided in exact arithmetic,
    away from the tolerance boundary (relative margin 1e-3)"""
    for _ in range(50):
        R, _q = rng.choice(perms)
        kind = rng.choice(['exact', 'perturb', 'perturb', 'perturb', 'reflect', 'scaled', 'random'])
        M = [list(r) for r in R]
        if kind == 'perturb':
            mag = 2.0 ** -rng.randint(10, 30)
            for _ in range(rng.choice([1, 2, 9])):
                M[rng.randrange(3)][rng.randrange(3)] += rng.choice([1, -1, 3, -5]) * mag
        elif kind == 'reflect':
            a = rng.randrange(3)
            M[a] = [-v for v in M[a]]
        elif kind == 'scaled':
            f = 1 + rng.choice([1, -1]) * 2.0 ** -rng.randint(12, 26)
            M = [[v * f for v in r] for r in M]
        elif kind == 'random':
            M = [[dy6(rng) for _ in range(3)] for _ in range(3)]
        M = rnd(M)
        A = fr_mat(M)
        at = Fraction(ATOL)
        near = False
        orth = False
        for i in range(3):
            for j in range(3):
                e = sum(A[i][k] * A[j][k] for k in range(3)) - (1 if i == j else 0)
                thr = at + (at if i == j else 0)
                if abs(abs(e) - thr) < thr * margin:
                    near = True
                if abs(e) > thr:
                    orth = True
        d = abs(fdet3(A) - 1)
        if abs(d - 2 * at) < 2 * at * margin:
            near = True
        if near:
            continue
        return M, ('orth' if orth else ('det' if d > 2 * at else 'ok'))
    return None, None


def shape_block(ctx, pp, torch, shapes):
    """valid Sim3 / RxSO3 batches of every shape (directed regression of the rank-test defects repaired in
    /repo 988caf7: lshape (2,3), (2,3,4), (0,), (2,0) ...): the model does not look at the batch shape and
    returns (C11_mat2Sim3_roundtrip, C11_empty_batch_returns), so must the implementation"""
    for g in ('Sim3', 'RxSO3'):
        for sh in shapes:
            n = 1
            for v in sh:
                n *= v
            for via in ('direct', 'from_matrix'):
                rec = dict(kind='shape', g=g, via=via, shape=list(sh))
                X = getattr(pp, 'randn_' + g)(*sh, dtype=torch.float64) if sh else getattr(pp, 'randn_' + g)(dtype=torch.float64)
                r = call(pp, torch, via, g, X.matrix(), True)
                got = 0 if r[0] == 'value' else r[1]
                ctx.case(('shape', g, sh, via), nontrivial=n > 1, branch='shape:%s:%s' % (g, {0: 'value', 4: 'not-full-rank', 100: 'RuntimeError'}.get(got, got)))
                mm = None
                if got != 0:
                    mm = dict(family='shape:' + g, case=rec, detail='model returns, implementation %s' % (r[1:],))
                    ctx.mismatches.append(mm)
                why = replay(ctx, rec)
                if why:
                    if mm:
                        mm['explained'] = True
                    ctx.violation(key_for(rec), why, rec)


# ------------------------------------------------------------------------------ raise codes of the scaled variants over R
def code_block(ctx, pp, torch):
    """raise codes of mat2RxSO3 / mat2Sim3 on one 3x3 item through the lemmas code_rank_small,
    code_rank_singular, code_negdet, code_not_orth of Proofs/Convert.v: the case file proves the facts
    the model tests (sign of the determinant, size of the scale, an entry beyond the tolerance)"""
    rng = ctx.rng
    goals, meta = [], []
    tolr = rlit(F(ATOL))

    def add(g, check, M, cls):
        Mt = torch.tensor(M, dtype=torch.float64)
        r = call(pp, torch, 'direct', g, Mt, check)
        got = 0 if r[0] == 'value' else r[1]
        i = len(meta)
        data = rlist([v for row in M for v in row])
        args = '%s %s %s 3%%nat 3%%nat %s %d%%nat' % (tolr, tolr, bl(check), data, GID[g])
        hg = ('left' if g == 'RxSO3' else 'right') + '; reflexivity'
        A = fr_mat(M)
        pose = ''
        if cls in ('tiny', 'shear'):
            lo, hi, sv = scale_hint(A)
            pose = ('pose (s := exp (ln (mdet3 (in_rot (parse_in 3%%nat 3%%nat %s))) / 3)); '
                    'assert (Hsb : %s <= s <= %s) by (unfold s; model_cbv; interval with (i_prec %d)); ' % (data, rlit(lo), rlit(hi), PREC))
        if cls == 'tiny':
            script = pose + 'apply (code_rank_small %s) with (s := s); [ reflexivity | %s | side P | reflexivity | clearbody s; side P ]' % (args, hg)
        elif cls == 'singular':
            script = 'apply (code_rank_singular %s); [ reflexivity | %s | model_cbv; lra | lra ]' % (args, hg)
        elif cls == 'reflect':
            script = 'apply (code_negdet %s); [ reflexivity | %s | side P ]' % (args, hg)
        else:
            # an entry of (M/s)(M/s)^T beyond the tolerance, found in exact arithmetic
            sf = Fraction(lo)
            N = [[v / sf for v in row] for row in A]
            at = Fraction(ATOL)
            ij = None
            for a_ in range(3):
                for b_ in range(3):
                    e = sum(N[a_][k] * N[b_][k] for k in range(3)) - (1 if a_ == b_ else 0)
                    if abs(e) > (at + (at if a_ == b_ else 0)) * Fraction(11, 10):
                        ij = (a_, b_)
            if ij is None:
                return
            script = pose + ('apply (code_not_orth %s) with (s := s) (i := %d%%nat) (j := %d%%nat); [ reflexivity | %s | side P | reflexivity '
                             '| clearbody s; side P | reflexivity | repeat constructor | repeat constructor | clearbody s; side P ]' % (args, ij[0], ij[1], hg))
        script = script.replace('side P', 'side %d%%positive' % PREC)
        goals.append('Goal outcome_code (mat2X_l %s %s %d%%nat %s 3%%nat 3%%nat [%s]) = %d%%nat.\nProof. first [ timeout 200 (solve [ %s ]); idtac "OK" "%d" | idtac "BAD" "%d" ]. Abort.\n'
                     % (tolr, tolr, GID[g], bl(check), data, got if got >= 0 else 77, script, i, i))
        meta.append(dict(kind='code', g=g, check=check, M=M, impl=got, cls=cls))
        ctx.case(('code', g, check, str(M)), nontrivial=True, branch='code:%s:%s:check=%s:%s' % (g, cls, check, got))

    for g in ('Sim3', 'RxSO3'):
        for check in (False, True):
            for rep in range(ctx.scale(1, 20)):
                u = 10 ** rng.uniform(-8, -5.3)
                add(g, check, [[u, 0.0, 0.0], [0.0, u, 0.0], [0.0, 0.0, u]], 'tiny')
                add(g, check, [[1.0, 0.0, 0.0], [0.0, rng.choice([1.0, 2.0]), 0.0], [0.0, 0.0, 0.0]], 'singular')
                f = rng.choice([0.5, 1.0, 2.0, 3.0])
                add(g, check, [[f, 0.0, 0.0], [0.0, f, 0.0], [0.0, 0.0, -f]], 'reflect')
            if check:
                for rep in range(ctx.scale(2, 30)):
                    a = rng.choice([1, -1]) * 10 ** rng.uniform(-3, 0)
                    f = rng.choice([0.5, 1.0, 2.0])
                    add(g, True, [[f, f * a, 0.0], [0.0, f, 0.0], [0.0, 0.0, f]], 'shear')
    files = [('code_%03d' % k, HDR + ''.join(sh)) for k, sh in enumerate(shard(goals, 8))]
    res = run_files('C11', files, timeout=2000)
    okset = set()
    for name, (rc, out) in res.items():
        okset.update(parse_tags(out)['OK'])
        if rc != 0:
            ctx.obligation_broken('correspondence-file:' + name, out[-800:])
    for k, m in enumerate(meta):
        if k in okset:
            ctx.traces += 1
            continue
        mm = dict(family='code:' + m['g'], case=m, detail='the model does not evaluate to the implementation\'s outcome code %s' % m['impl'])
        ctx.mismatches.append(mm)
        if m['check'] and m['cls'] in ('reflect', 'shear', 'singular', 'tiny'):
            rec = dict(kind='check', g=m['g'], via='direct', dtype='float64', items=[m['M']], expect_raise=True)
            why = replay(ctx, rec)
            if why:
                mm['explained'] = True
                ctx.violation(key_for(rec), why, rec)


# ------------------------------------------------------------------------------ sweep: the property on the implementation
def sweep_block(ctx, pp, torch):
    rng = ctx.rng
    n = ctx.scale(4000, 60000)
    shapes = [(), (), (1,), (3,), (2, 2), (1, 3), (3, 1), (4,), (2, 3), (3, 2, 2), (0,), (2, 0)]
    for j in range(n):
        g = GROUPS[j % 4]
        kind = QKINDS[(j // 4) % len(QKINDS)] if j < 8 * len(QKINDS) else rng.choice(QKINDS)
        dname = 'float64' if rng.random() < 0.6 else 'float32'
        lay = rng.choice(['3x3', '3x4', '4x4'])
        via = 'from_matrix' if rng.random() < 0.4 else 'direct'
        check = rng.random() < 0.6
        q, t, s = gen_quat(rng, kind), gen_t(rng), gen_s(rng)
        sh = rng.choice(shapes)
        rec = dict(kind='mat2x', via=via, g=g, dtype=dname, lay=lay, check=check, q=q, t=t, s=s, qkind=kind, shape=list(sh))
        ctx.case(('sweep', via, g, dname, lay, check, tuple(q), tuple(t), s, sh), nontrivial=abs(abs(q[3]) - 1) > 1e-12, branch='sweep:%s:%s' % (g, kind))
        why = oracle_roundtrip(pp, torch, via, g, dname, lay, check, q, t, s, sh)
        if why:
            ctx.violation(key_for(rec), why, rec)
    for j in range(ctx.scale(1000, 12000)):
        dname = 'float64' if rng.random() < 0.6 else 'float32'
        kind = rng.choice(['uniform', 'uniform', 'near-pi', 'pi', 'axis', 'gimbal', 'gimbal-near', 'flag-boundary', 'identity', 'nonunit'])
        g = rng.choice(GROUPS)
        q = gen_euler_quat(rng, kind)
        X = make_X(pp, torch, g, q, gen_t(rng), gen_s(rng), dname)
        x = [float(v) for v in X.tensor().tolist()]
        rec = dict(kind='euler', g=g, dtype=dname, x=x)
        ctx.case(('sweep-euler', g, dname, tuple(x)), nontrivial=True, branch='sweep:euler:%s' % kind)
        why = oracle_euler(pp, torch, g, dname, x)
        if why:
            ctx.violation(key_for(rec), why, rec)
        e = [rng.uniform(-7, 7) for _ in range(3)]
        rec = dict(kind='e2s', dtype=dname, e=e)
        why = oracle_euler2SO3(pp, torch, dname, e)
        if why:
            ctx.violation(key_for(rec), why, rec)
    # batches mixing ordinary and gimbal-locked elements: euler() of a batch is item by item what it is for single elements
    # (so every ordinary item of any batch still satisfies the round trip checked above)
    for j in range(ctx.scale(80, 800)):
        dname = 'float64' if rng.random() < 0.6 else 'float32'
        g = rng.choice(GROUPS)
        kinds = ['gimbal'] + [rng.choice(['uniform', 'uniform', 'gimbal', 'gimbal-near', 'flag-boundary', 'axis', 'identity']) for _ in range(rng.randint(1, 6))]
        rng.shuffle(kinds)
        items = [make_X(pp, torch, g, gen_euler_quat(rng, k), gen_t(rng), gen_s(rng), dname) for k in kinds]
        xs = [[float(v) for v in X.tensor().tolist()] for X in items]
        B = len(items)
        shp = rng.choice([(B,), (B, 1), (1, B)])
        Xb = pp.LieTensor(torch.tensor(xs, dtype=dt(torch, dname)).reshape(shp + (len(xs[0]),)), ltype=getattr(pp, g + '_type'))
        ctx.case(('euler-batch', g, dname, shp, tuple(map(tuple, xs))), nontrivial=True, branch='sweep:euler-batch')
        rec = dict(kind='euler-batch', g=g, dtype=dname, xs=xs, shape=list(shp))
        why = oracle_euler_batch(pp, torch, g, dname, xs, shp)
        if why:
            ctx.violation('euler:batch:%s:%s' % (g, dname), why, rec)
    # rejection clause on scaled variants: not (scaled) rotations raise ValueError with check=True
    for j in range(ctx.scale(400, 5000)):
        g = rng.choice(['Sim3', 'RxSO3', 'SE3', 'SO3'])
        dname = 'float64' if rng.random() < 0.6 else 'float32'
        Rq = gen_quat(rng, 'uniform')
        R = [[float(v) for v in row] for row in make_X(pp, torch, 'SO3', Rq, [0, 0, 0], 1.0, 'float64').matrix().tolist()]
        s = gen_s(rng) if g in ('Sim3', 'RxSO3') else 1.0
        kind = rng.choice(['shear', 'reflect', 'stretch', 'valid'])
        M = [[s * v for v in row] for row in R]
        if kind == 'shear':
            a = rng.choice([1, -1]) * 10 ** rng.uniform(-3, 0)
            M = [[M[i][k] + a * M[i][(k + 1) % 3] * (1 if k == 0 else 0) for k in range(3)] for i in range(3)]
        elif kind == 'reflect':
            M[1] = [-v for v in M[1]]
        elif kind == 'stretch':
            f = 1 + rng.choice([1, -1]) * 10 ** rng.uniform(-3, -0.5)
            M[2] = [f * v for v in M[2]]
        rec = dict(kind='check', g=g, via=rng.choice(['direct', 'from_matrix']), dtype=dname, items=[M], expect_raise=kind != 'valid')
        ctx.case(('sweep-check', g, dname, str(M)), nontrivial=True, branch='sweep:check:%s:%s' % (g, kind))
        why = replay(ctx, rec)
        if why:
            ctx.violation(key_for(rec), why, rec)


# ------------------------------------------------------------------------------ keys, replay, run
def key_for(m):
    k = m['kind']
    if k == 'shape':
        return (KEY_SHAPE if not shape_broadcasts(m['shape']) else KEY_EMPTY) % FNAME[m['g']]
    if k == 'mat2x':
        sh = m.get('shape') or []
        if m['g'] in ('Sim3', 'RxSO3') and sh and not shape_broadcasts(sh):
            return KEY_SHAPE % FNAME[m['g']]
        if m['g'] in ('Sim3', 'RxSO3') and 0 in sh:
            return KEY_EMPTY % FNAME[m['g']]
        return 'roundtrip:%s:%s:%s' % (FNAME[m['g']], m['dtype'], m.get('qkind', 'x'))
    if k in ('exact',):
        return 'exact:%s:%s:%s' % (FNAME[m['g']], m['dtype'], m['lay'])
    if k == 'check':
        exp = m.get('expect_raise', any(c != 'ok' for c in m.get('classes', ['x'])))
        return 'check:%s:%s' % (FNAME[m['g']], 'accepts-invalid' if exp else 'rejects-valid')
    if k == 'euler':
        return 'euler:%s:%s' % (m['g'], m['dtype'])
    if k == 'e2s':
        return 'euler2SO3:%s' % m['dtype']
    return 'c11:' + k


def shape_broadcasts(sh):
    a, b = list(sh) + [1], list(sh)
    for x, y in zip(reversed(a), reversed(b)):
        if not (x == y or x == 1 or y == 1):
            return False
    return True


def replay(ctx, c):
    """the property's own statement on the implementation for the recorded input"""
    pp = import_pypose()
    import torch
    k = c['kind']
    if k == 'mat2x':
        return oracle_roundtrip(pp, torch, c['via'], c['g'], c['dtype'], c['lay'], c['check'], c['q'], c['t'], c['s'], tuple(c.get('shape') or ()))
    if k == 'e2s':
        return oracle_euler2SO3(pp, torch, c['dtype'], c['e'])
    if k == 'euler-batch':
        return oracle_euler_batch(pp, torch, c['g'], c['dtype'], c['xs'], tuple(c['shape']))
    if k == 'euler':
        return oracle_euler(pp, torch, c['g'], c['dtype'], c['x'])
    if k == 'shape':
        sh = tuple(c['shape'])
        g = c['g']
        X = getattr(pp, 'randn_' + g)(*sh, dtype=torch.float64) if sh else getattr(pp, 'randn_' + g)(dtype=torch.float64)
        r = call(pp, torch, c['via'], g, X.matrix(), True)
        if r[0] == 'raise':
            return '%s on the matrices of a valid %s batch of lshape %s raised %s' % ('from_matrix' if c['via'] == 'from_matrix' else FNAME[g], g, sh, r[2])
        if tuple(r[1].shape) != tuple(X.shape):
            return 'result shape %s, expected %s' % (tuple(r[1].shape), tuple(X.shape))
        return None
    if k == 'check':
        exp_raise = c.get('expect_raise')
        if exp_raise is None:
            exp_raise = any(x != 'ok' for x in c['classes'])
        return oracle_reject(pp, torch, c['via'], c['g'], c['dtype'], c['items'], exp_raise)
    if k == 'exact':
        # dyadic matrix, check off: exact Fraction evaluation of the documented formula of the selected region
        return oracle_exact(pp, torch, c)
    return None


def oracle_exact(pp, torch, c):
    """independent exact evaluation: for every item the result must reproduce the item's matrix
    relations  q_sel = t_sel / (2 sqrt t_sel)  etc. - here simply: the quaternion returned, re-expanded,
    gives back the symmetric / antisymmetric parts it was read from (the defining equations of the
    Shepperd extraction), for exact rotations the matrix itself"""
    if c['check']:
        Mt = torch.tensor(c['items'], dtype=dt(torch, c['dtype']))
        r = call(pp, torch, c['via'], c['g'], Mt, True)
        if r[0] == 'raise':
            if c['lay'] in ('3x3', '3x4', '4x4'):
                return 'raised %s on exact rotation matrices' % r[2]
            return None if r[1] == 1 else 'unaccepted shape %s raised %s instead of the size ValueError' % (c['lay'], r[2])
        if c['lay'] not in ('3x3', '3x4', '4x4'):
            return 'unaccepted shape %s was accepted' % c['lay']
        outs = r[1].tensor().reshape(-1, r[1].shape[-1]).tolist()
        qi = 0 if c['g'] == 'SO3' else 3
        for it, o in zip(c['items'], outs):
            R = ref_matrix('SO3', [Fraction(v) for v in o[qi:qi + 4]])
            if [Fraction(it[i][j]) for i in range(3) for j in range(3)] != R:
                return 'result %s does not reproduce the rotation matrix %s' % (o, it)
        return None
    return None


def run(ctx):
    pp = import_pypose()
    import torch
    ctx.rule = RULE
    exact_block(ctx, pp, torch)
    enclosure_block(ctx, pp, torch)
    code_block(ctx, pp, torch)
    sweep_block(ctx, pp, torch)
