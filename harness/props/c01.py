"""C01 correspondence (enclosure route): Exp on so3 / se3 / rxso3 / sim3 vs Model/LieExp.v.

For concrete inputs Coq proves |model(x)_i - impl(x)_i| <= tol_i with `interval` (model evaluated in
exact real arithmetic), tol = the accuracy the property grants.  Because the model's closed-form
branches are proved to be the exponential (Proofs/LieExp.v) a proved excess is a candidate
violation; it is confirmed against an independent 60-digit mpmath expm of the generator matrix."""
import math
from ..common import *
from ..lie import *

K_EPS, K_SQRT = 256, 64
RULE = ('x = blocks (rotation, translation, log-scale) drawn independently from {0, 1e-30..1e-3 log-uniform, ladder around eps and sqrt(eps), O(1), '
        'rotation up to 7 pi, |sigma| <= 8}; a case is (type, dtype, x) or (type, dtype, mixed batch of 10, twin); non-trivial = x != 0; distinct by value; directed block first covers every '
        'branch combination (theta<=eps / >eps x |sigma|<=eps / >eps); tolerances: %d eps (rotation, scale), %d sqrt(eps) (translation block, relative to its norm)' % (K_EPS, K_SQRT))


def mag(rng, eps, kind):
    se = math.sqrt(eps)
    if kind == 'zero':
        return 0.0
    if kind == 'tiny':
        return 10 ** rng.uniform(-30, -3)
    if kind == 'eps':
        return eps * rng.choice([0.25, 0.5, 1 - 2 ** -20, 1 + 2 ** -20, 2, 4, 16, 2 ** 10, 2 ** 18, 2 ** 26])
    if kind == 'sqrteps':
        return se * rng.choice([0.25, 0.5, 1, 2, 4, 64])
    if kind == 'one':
        return rng.uniform(0.05, 3.0)
    if kind == 'large':
        return rng.uniform(3.0, 7 * math.pi)
    raise ValueError(kind)


def direction(rng):
    while True:
        v = [rng.gauss(0, 1) for _ in range(3)]
        n = math.sqrt(sum(a * a for a in v))
        if n > 1e-3:
            return [a / n for a in v]


def gen_x(rng, alg, eps, kinds):
    kr, kt, ks = kinds
    d = direction(rng) if rng.random() < 0.8 else rng.choice([[1.0, 0, 0], [0, 1.0, 0], [0, 0, -1.0]])
    rot = [mag(rng, eps, kr) * a for a in d]
    dt = direction(rng)
    tm = mag(rng, eps, kt) if kt != 'large' else 10 ** rng.uniform(0, 6)
    tr = [tm * a for a in dt]
    sg = [mag(rng, eps, ks) * rng.choice([1, -1])] if ks != 'large' else [rng.uniform(-8, 8)]
    return {'so3': rot, 'se3': tr + rot, 'rxso3': rot + sg, 'sim3': tr + rot + sg}[alg]


def regime(v, eps):
    """magnitude class; 'cancel' is the zone eps < v <= sqrt(eps)/16 in which e^v - 1 (and 1 - cos v)
    lose all their digits relative to the sqrt(eps) tolerance"""
    v = abs(v)
    if v == 0:
        return 'zero'
    if v <= eps:
        return 'le-eps'
    if v <= math.sqrt(eps) / 16:
        return 'cancel'
    if v < 0.05:
        return 'small'
    return 'O(1)+'


def key_of(alg, dname, x, eps):
    rot = {'so3': x[0:3], 'se3': x[3:6], 'rxso3': x[0:3], 'sim3': x[3:6]}[alg]
    th = math.sqrt(sum(a * a for a in rot))
    sg = x[-1] if alg in ('rxso3', 'sim3') else 0.0
    if alg == 'sim3' and regime(sg, eps) == 'cancel' and th <= math.sqrt(eps) / 16:
        # one call site, one mechanism: rxso3_Ws with BOTH the rotation angle and the log-scale tiny (but |sigma| > eps)
        # evaluates the K / K^2 coefficients by closed forms that cancel (1 - e^s cos(theta), 1 + (s-1) e^s, ...)
        return 'exp-accuracy:sim3:%s:rxso3_Ws:eps<|sigma|<=sqrt(eps)/16:theta<=sqrt(eps)/16' % dname
    return 'exp-accuracy:%s:%s:theta=%s:sigma=%s' % (alg, dname, regime(th, eps), regime(sg, eps))


def branch_of(alg, dname, x, eps):
    rot = {'so3': x[0:3], 'se3': x[3:6], 'rxso3': x[0:3], 'sim3': x[3:6]}[alg]
    th = math.sqrt(sum(a * a for a in rot))
    sg = x[-1] if alg in ('rxso3', 'sim3') else 0.0
    return '%s:%s:theta=%s:sigma=%s' % (alg, dname, regime(th, eps), regime(sg, eps))


def tolerances(alg, out, eps):
    """[(component index, tol)]"""
    se = math.sqrt(eps)
    comps = []
    if alg == 'so3':
        return [(i, K_EPS * eps) for i in range(4)]
    if alg == 'rxso3':
        return [(i, K_EPS * eps) for i in range(4)] + [(4, K_EPS * eps * abs(out[4]))]
    tn = max(abs(v) for v in out[:3])
    tt = K_SQRT * se * max(tn, 1e-300)
    comps = [(i, tt) for i in range(3)] + [(3 + i, K_EPS * eps) for i in range(4)]
    if alg == 'sim3':
        comps.append((7, K_EPS * eps * abs(out[7])))
    return comps


def mp_reference(alg, x):
    """60-digit reference: expm of the 4x4 (3x3) generator; returns (R 3x3 scaled, t, s) as mp numbers"""
    import mpmath as mp
    mp.mp.dps = 60
    X = [mp.mpf(Fraction(v).numerator) / mp.mpf(Fraction(v).denominator) for v in x]
    if alg == 'so3':
        phi, tau, sg = X, [0, 0, 0], 0
    elif alg == 'se3':
        tau, phi, sg = X[:3], X[3:], 0
    elif alg == 'rxso3':
        phi, tau, sg = X[:3], [0, 0, 0], X[3]
    else:
        tau, phi, sg = X[:3], X[3:6], X[6]
    G = mp.matrix(4, 4)
    K = [[0, -phi[2], phi[1]], [phi[2], 0, -phi[0]], [-phi[1], phi[0], 0]]
    for i in range(3):
        for j in range(3):
            G[i, j] = K[i][j] + (sg if i == j else 0)
        G[i, 3] = tau[i]
    # scale the matrix down for accuracy of expm when entries are large
    E = mp.expm(G)
    return E


_HIST = []


def grad_history(pp, torch):
    """Once per process, before the first judged call (so a replay in a fresh process takes the same route): gradient passes
    through Exp, matrix(), Log and Inv on OTHER objects - every algebra type, both dtypes, unbatched and batched.  The property
    is about every x however the process got there; module-level state written by a backward pass (caches, scratch buffers)
    must not leak into later forward calls."""
    if _HIST:
        return
    _HIST.append(1)
    for dt in (torch.float64, torch.float32):
        for alg, n in (('so3', 3), ('se3', 6), ('rxso3', 4), ('sim3', 7)):
            for shape in ((), (2,), (1, 3)):
                for scale in (0.0, 0.07):      # generic last: what a pass leaves behind is that of a generic element
                    xt = (torch.arange(1, n + 1, dtype=dt) * scale).expand(shape + (n,)).clone().requires_grad_(True)
                    X = pp.LieTensor(xt, ltype=getattr(pp, alg + '_type')).Exp()
                    (X.tensor().sum() + X.matrix().sum() + X.Log().tensor().sum() + X.Inv().tensor().sum()).backward()


def impl_matrix(pp, torch, alg, x, dtype, shape=()):
    """Exp and matrix() of x, evaluated as the last item of a batch of the given lshape (all items equal x)"""
    grad_history(pp, torch)
    xt = torch.tensor(x, dtype=dtype)
    shape = tuple(shape)
    xb = xt.expand(shape + xt.shape).clone() if shape else xt
    X = pp.LieTensor(xb, ltype=getattr(pp, alg + '_type')).Exp()
    M = X.matrix()
    n = M.shape[-1]
    M = M.reshape(-1, n, n)[-1]
    raw = X.tensor().reshape(-1, X.tensor().shape[-1])[-1]
    return [[float(M[i, j]) for j in range(n)] for i in range(n)], raw.tolist()


def mp_raw_reference(alg, x):
    """60-digit reference of the raw group tensor: quaternion (sin(th/2)/th phi, cos(th/2)), scale e^sigma,
    translation = last column of expm(generator)"""
    import mpmath as mp
    mp.mp.dps = 60
    X = [mp.mpf(Fraction(v).numerator) / mp.mpf(Fraction(v).denominator) for v in x]
    phi = {'so3': X[0:3], 'se3': X[3:6], 'rxso3': X[0:3], 'sim3': X[3:6]}[alg]
    th = mp.sqrt(sum(a * a for a in phi))
    f = mp.mpf(1) / 2 if th == 0 else mp.sin(th / 2) / th
    q = [f * a for a in phi] + [mp.cos(th / 2)]
    if alg == 'so3':
        return q
    if alg == 'rxso3':
        return q + [mp.exp(X[3])]
    E = mp_reference(alg, x)
    t = [E[i, 3] for i in range(3)]
    return t + q + ([mp.exp(X[6])] if alg == 'sim3' else [])


_REF = {}


def references(alg, x):
    """(raw reference, expm of the generator) at 60 digits, cached by value"""
    k = (alg, tuple(x))
    if k not in _REF:
        if len(_REF) > 20000:
            _REF.clear()
        _REF[k] = (mp_raw_reference(alg, x), mp_reference(alg, x))
    return _REF[k]


def judge(alg, eps, x, M, raw):
    """is (raw group tensor, matrix) - what the implementation returned for Exp(x) - outside the property's
    tolerance w.r.t. the true exponential?  Same component tolerances as the enclosure check (99 % of them, so
    that a proved excess is always confirmed), measured against an independent 60-digit reference."""
    import mpmath as mp
    if any(not math.isfinite(v) for v in raw):
        return 'non-finite output %s' % raw
    if any(not math.isfinite(v) for row in M for v in row):
        return 'non-finite matrix() %s' % M
    ref, E = references(alg, x)
    worst = []
    names = {'so3': ['q'] * 4, 'se3': ['t'] * 3 + ['q'] * 4, 'rxso3': ['q'] * 4 + ['s'], 'sim3': ['t'] * 3 + ['q'] * 4 + ['s']}[alg]
    if len(raw) != len(names) or len(M) not in ((3, 4) if alg in ('so3', 'rxso3') else (4,)):
        return 'Exp(x) has %d components and a %dx%d matrix' % (len(raw), len(M), len(M))
    for j, tol in tolerances(alg, raw, eps):
        err = abs(mp.mpf(raw[j]) - ref[j])
        if err > 0.99 * tol:
            blockname = {'t': 'translation', 'q': 'rotation quaternion', 's': 'scale'}[names[j]]
            worst.append('%s component %d off by %.3g (tolerance %.3g = %s)' % (blockname, j, float(err), tol,
                         ('%d sqrt(eps) x |t|' % K_SQRT) if names[j] == 't' else ('%d eps' % K_EPS)))
    q = {'so3': raw[0:4], 'se3': raw[3:7], 'rxso3': raw[0:4], 'sim3': raw[3:7]}[alg]
    qn = math.sqrt(sum(Fraction(v) * Fraction(v) for v in q))
    if abs(qn - 1) > K_EPS * eps:
        worst.append('quaternion norm off by %.3g' % abs(qn - 1))
    # the matrix the library builds from it vs expm of the generator (blockwise, relative)
    n = len(M)
    blk = max(abs(E[i, j]) for i in range(3) for j in range(3))
    err_rs = max(abs(mp.mpf(M[i][j]) - E[i, j]) for i in range(3) for j in range(3))
    if err_rs > 4 * K_EPS * eps * blk:
        worst.append('rotation/scale block of matrix() off by %.3g relative' % float(err_rs / blk))
    if n == 4:
        tb = max(abs(E[i, 3]) for i in range(3))
        et = max(abs(mp.mpf(M[i][3]) - E[i, 3]) for i in range(3))
        if tb > 0 and et > 2 * K_SQRT * math.sqrt(eps) * tb:
            worst.append('translation block of matrix() off by %.3g relative (sqrt(eps) = %.3g)' % (float(et / tb), math.sqrt(eps)))
        if tb == 0 and et > 0:
            worst.append('translation block of matrix() is %s for a zero translation part' % [M[i][3] for i in range(3)])
        last = [0.0, 0.0, 0.0, 1.0]
        if [float(v) for v in M[3]] != last:
            worst.append('last row of matrix() is %s' % M[3])
    return '; '.join(worst) if worst else None


def confirm(pp, torch, alg, dname, x, shape=()):
    """Exp(x) on the implementation (as the last item of a batch of lshape `shape`), judged against the reference"""
    dtype = torch.float64 if dname == 'float64' else torch.float32
    eps = float(torch.finfo(dtype).eps)
    M, raw = impl_matrix(pp, torch, alg, x, dtype, shape)
    return judge(alg, eps, x, M, raw)


# ---------------------------------------------------------------- twins
# The property quantifies over EVERY Lie-algebra LieTensor of the four types, however the object came to be:
# restored from a checkpoint / sent through a DataLoader worker (copy.deepcopy, pickle, torch.save + load: the
# .ltype attribute is then a fresh LieType instance, not the module-level singleton), wrapped as a Parameter,
# sliced, cloned, converted, re-laid-out, refilled in place after an earlier call.  Each maker takes the
# LieTensor x (lshape (n,)) and returns the twin; the twin is judged on ITS OWN data against the reference.

def _roundtrip_pickle(pp, torch, x):
    import pickle
    return pickle.loads(pickle.dumps(x))


def _roundtrip_save(pp, torch, x):
    import io
    b = io.BytesIO()
    torch.save(x, b)
    b.seek(0)
    return torch.load(b, weights_only=False)


def _deepcopy(pp, torch, x):
    import copy
    return copy.deepcopy(x)


def _module_deepcopy(pp, torch, x):
    import copy
    m = torch.nn.Module()
    m.pose = pp.Parameter(x)
    return copy.deepcopy(m).pose


def _state_dict(pp, torch, x):
    m, m2 = torch.nn.Module(), torch.nn.Module()
    m.pose = pp.Parameter(x)
    m2.pose = pp.Parameter(pp.LieTensor(torch.zeros_like(x.tensor()), ltype=x.ltype))
    m2.pose.Exp()
    m2.load_state_dict(_roundtrip_save(pp, torch, m.state_dict()))
    return m2.pose


def _fresh_ltype(pp, torch, x):
    import copy
    return pp.LieTensor(x.tensor().clone(), ltype=copy.deepcopy(x.ltype))


def _refilled(pp, torch, x):
    """an object that already served an Exp call with other data, then refilled in place"""
    y = pp.LieTensor(torch.zeros_like(x.tensor()), ltype=x.ltype)
    y.Exp().matrix()
    y.tensor().add_(1.0)
    y.Exp()
    y.tensor().copy_(x.tensor())
    return y


def _transposed(pp, torch, x):
    t = x.tensor()
    return pp.LieTensor(t.t().contiguous().t(), ltype=x.ltype)


def _strided(pp, torch, x):
    t = x.tensor()
    big = torch.full((t.shape[0] * 2, t.shape[1] + 3), 7.5, dtype=t.dtype)
    big[::2, 1:1 + t.shape[1]] = t
    return pp.LieTensor(big[::2, 1:1 + t.shape[1]], ltype=x.ltype)


def _other_dtype(pp, torch, x):
    return x.to(torch.float32 if x.dtype == torch.float64 else torch.float64)


TWINS = [
    ('original', lambda pp, torch, x: x),
    ('copy.deepcopy', _deepcopy),
    ('pickle round trip', _roundtrip_pickle),
    ('torch.save + torch.load', _roundtrip_save),
    ('copy.copy', lambda pp, torch, x: __import__('copy').copy(x)),
    ('deepcopy of a deepcopy', lambda pp, torch, x: _deepcopy(pp, torch, _deepcopy(pp, torch, x))),
    ('slice of a deepcopy', lambda pp, torch, x: _deepcopy(pp, torch, x)[1:]),
    ('deepcopy of a slice', lambda pp, torch, x: _deepcopy(pp, torch, x[1:])),
    ('LieTensor(data, ltype=deepcopy(ltype))', _fresh_ltype),
    ('pp.Parameter', lambda pp, torch, x: pp.Parameter(x)),
    ('deepcopy of pp.Parameter', lambda pp, torch, x: _deepcopy(pp, torch, pp.Parameter(x))),
    ('Parameter of a deep-copied nn.Module', _module_deepcopy),
    ('Parameter filled by load_state_dict', _state_dict),
    ('slice [1:]', lambda pp, torch, x: x[1:]),
    ('slice [::2]', lambda pp, torch, x: x[::2]),
    ('index by tensor', lambda pp, torch, x: x[torch.tensor([x.shape[0] - 1, 0, 1])]),
    ('single item [k]', lambda pp, torch, x: x[x.shape[0] // 2]),
    ('clone', lambda pp, torch, x: x.clone()),
    ('detach', lambda pp, torch, x: x.detach()),
    ('clone().requires_grad_()', lambda pp, torch, x: x.clone().requires_grad_()),
    ('.to(same dtype)', lambda pp, torch, x: x.to(x.dtype)),
    ('.to(other dtype)', _other_dtype),
    ('.cpu().contiguous()', lambda pp, torch, x: x.cpu().contiguous()),
    ('lview(n, 1)', lambda pp, torch, x: x.lview(x.shape[0], 1)),
    ('torch.cat([x, x])', lambda pp, torch, x: torch.cat([x, x])),
    ('torch.stack([x, x])', lambda pp, torch, x: torch.stack([x, x])),
    ('transposed memory layout', _transposed),
    ('strided view into a larger buffer', _strided),
    ('refilled in place after earlier calls', _refilled),
]
TWIN = dict(TWINS)
# what is done to the GROUP tensor Exp(x) before its matrix is taken
OUT_TWINS = [('direct', lambda pp, torch, X: X), ('copy.deepcopy', _deepcopy), ('pickle round trip', _roundtrip_pickle),
             ('torch.save + torch.load', _roundtrip_save), ('clone', lambda pp, torch, X: X.clone()),
             ('slice [1:]', lambda pp, torch, X: X[1:])]
OUT_TWIN = dict(OUT_TWINS)


def twin_batch(rng, alg, eps):
    """mixed batch: rotation from exact 0 over both sides of the switch-over to beyond 3 pi, log-scale 0 / <= eps / O(1)
    (the listed finding's zone eps < |sigma| <= sqrt(eps)/16 with a tiny rotation is left to the main sample)"""
    se = math.sqrt(eps)
    rots = [0.0, 0.5 * eps, 3 * eps, se, 1e-3, rng.uniform(0.2, 1.0), rng.uniform(1.5, 3.0), rng.uniform(3.2, 4.0), 7.0, 11.0]
    sigs = [0.0, 0.5 * eps, -0.5 * eps, rng.uniform(0.1, 1.5), -rng.uniform(0.1, 1.5), rng.uniform(-3, 3)]
    xs = []
    for k, r in enumerate(rots):
        d = direction(rng)
        rot = [r * a for a in d]
        tr = [rng.choice([1.0, 0.01, 30.0]) * a for a in direction(rng)] if k != 4 else [0.0, 0.0, 0.0]
        sg = [sigs[(k + rng.randrange(len(sigs))) % len(sigs)] if k else 0.0]
        xs.append({'so3': rot, 'se3': tr + rot, 'rxso3': rot + sg, 'sim3': tr + rot + sg}[alg])
    return xs


def _items(t):
    return t.reshape(-1, t.shape[-1]).tolist()


def twin_check(pp, torch, alg, dname, xs, twin, out_twin='direct', form=0, skip=()):
    """Exp + matrix() on the twin `twin` of the batch xs.  Returns (kind, text, item) describing the first failure, or None.
    kind: 'unavailable' (the twin itself cannot be built - not a statement about Exp), 'raises', 'repeat', 'mutation',
    'accuracy'.  Items whose value is in `skip` are not judged."""
    dtype = torch.float64 if dname == 'float64' else torch.float32
    x0 = pp.LieTensor(torch.tensor(xs, dtype=dtype), ltype=getattr(pp, alg + '_type'))
    keep = x0.tensor().clone()
    try:
        y = TWIN[twin](pp, torch, x0)
        ok = isinstance(y, pp.LieTensor) and type(y.ltype) is type(x0.ltype) and y.shape[-1] == x0.shape[-1]
    except Exception as e:
        return ('unavailable', 'building the twin raised %r' % (e,), None)
    if not ok:
        return ('unavailable', 'the twin is not a %s LieTensor: %s %s' % (alg, type(y).__name__, type(getattr(y, 'ltype', None)).__name__), None)
    ydt = y.dtype
    eps = float(torch.finfo(ydt).eps)
    before = y.tensor().detach().clone()
    try:
        X1 = y.Exp() if form == 0 else pp.Exp(y)
        X = pp.Exp(y) if form == 0 else y.Exp()          # the judged call is the second one on this object
        Xo = OUT_TWIN[out_twin](pp, torch, X)
        M = Xo.matrix()
        # matrix() taken from the algebra element itself is documented as the matrix of Exp(x): judged as well
        M2 = (y.matrix() if form == 0 else pp.matrix(y)) if out_twin == 'direct' else None
        Mt = X.tensor().detach()
        if out_twin == 'slice [1:]':
            Mt, before_j = Mt[1:], before[1:]
        else:
            before_j = before
    except Exception as e:
        import traceback
        where = traceback.extract_tb(e.__traceback__)[-1]
        return ('raises', '%s: %s (%s:%d %s)' % (type(e).__name__, e, where.filename.split('/')[-1], where.lineno, where.name), None)
    if not (isinstance(X, pp.LieTensor) and type(X.ltype).__name__ == {'so3': 'SO3Type', 'se3': 'SE3Type', 'rxso3': 'RxSO3Type', 'sim3': 'Sim3Type'}[alg]):
        return ('accuracy', 'Exp returned %s with ltype %s' % (type(X).__name__, type(getattr(X, 'ltype', None)).__name__), None)
    if not torch.equal(X1.tensor(), X.tensor()):
        return ('repeat', 'two calls of Exp on the same object returned different tensors', None)
    if not (torch.equal(y.tensor().detach(), before) and torch.equal(x0.tensor(), keep)):
        return ('mutation', 'Exp / matrix() changed its input', None)
    if tuple(M.shape[:-2]) != tuple(before_j.shape[:-1]) or tuple(Mt.shape[:-1]) != tuple(before_j.shape[:-1]):
        return ('accuracy', 'Exp / matrix() of lshape %s returned shapes %s / %s' % (tuple(before_j.shape[:-1]), tuple(Mt.shape), tuple(M.shape)), None)
    if M2 is not None and tuple(M2.shape) != tuple(M.shape):
        return ('accuracy', 'x.matrix() has shape %s, x.Exp().matrix() has shape %s' % (tuple(M2.shape), tuple(M.shape)), None)
    n = M.shape[-1]
    Ms = M.detach().reshape(-1, n, n).tolist()
    M2s = M2.detach().reshape(-1, n, n).tolist() if M2 is not None else [None] * len(Ms)
    for xi, Mi, M2i, ri in zip(_items(before_j), Ms, M2s, _items(Mt)):
        if tuple(xi) in skip:
            continue
        why = judge(alg, eps, xi, Mi, ri)
        if why:
            return ('accuracy', why, xi)
        why = judge(alg, eps, xi, M2i, ri) if M2i is not None else None
        if why:
            return ('accuracy', 'x.matrix() taken from the algebra element: ' + why, xi)
    return None


def twins(ctx, pp, torch):
    rng = ctx.rng
    for rep in range(ctx.scale(1, 3)):
        for alg in ALGS:
            for dname in ('float64', 'float32'):
                dtype = torch.float64 if dname == 'float64' else torch.float32
                eps = float(torch.finfo(dtype).eps)
                xs = torch.tensor(twin_batch(rng, alg, eps), dtype=dtype).tolist()
                # the plain object first: a failure there is an ordinary accuracy failure of Exp, reported as such
                skip = set()
                for xi in xs:
                    why = confirm(pp, torch, alg, dname, xi, ())
                    if why:
                        skip.add(tuple(xi))
                        ctx.violation(key_of(alg, dname, xi, eps), 'Exp(%s) [%s %s]: %s' % (xi, alg, dname, why), dict(alg=alg, dtype=dname, x=xi))
                todo = [(t, 'direct') for t, _ in TWINS] + [('original', o) for o, _ in OUT_TWINS[1:]] + [('copy.deepcopy', 'copy.deepcopy'), ('pp.Parameter', 'pickle round trip')]
                for k, (twin, out) in enumerate(todo):
                    form = (k + rep) % 2
                    ctx.case((alg, dname, tuple(map(tuple, xs)), twin, out), branch='twin:%s:%s' % (alg, dname))
                    r = twin_check(pp, torch, alg, dname, xs, twin, out, form, skip)
                    if r is None:
                        continue
                    kind, text, xi = r
                    label = 'x = %s' % twin + ('' if out == 'direct' else ', matrix() of Exp(x) after %s' % out)
                    rep_d = dict(alg=alg, dtype=dname, xs=xs, twin=twin, out_twin=out, form=form, skip=[list(v) for v in skip])
                    if kind == 'unavailable':
                        ctx.obligation_broken('twin-construction:%s:%s' % (alg, twin), text)
                    elif kind == 'accuracy' and xi is not None:
                        ctx.violation(key_of(alg, dname, xi, eps) + ':twin', 'Exp on the batch xs [%s %s, %s]: item x=%s: %s' % (alg, dname, label, xi, text), rep_d)
                    else:
                        ctx.violation('exp-%s:twin:%s' % (kind, twin if out == 'direct' else twin + ', matrix() after ' + out),
                                      'Exp / matrix() on the batch xs [%s %s, %s]: %s' % (alg, dname, label, text), rep_d)


def run(ctx):
    pp = import_pypose()
    import torch
    ctx.rule = RULE
    rng = ctx.rng
    kindsR = ['zero', 'tiny', 'eps', 'sqrteps', 'one', 'large']
    kindsT = ['zero', 'tiny', 'one', 'large']
    kindsS = ['zero', 'tiny', 'eps', 'sqrteps', 'one', 'large']
    cases, meta = [], []
    plan = []
    counts = {'so3': ctx.scale(300, 6000), 'se3': ctx.scale(300, 6000), 'rxso3': ctx.scale(200, 4000), 'sim3': ctx.scale(400, 8000)}
    for alg in ALGS:
        # directed: every combination of rotation / scale regimes (translation generic); dtypes alternate
        # in the quick tier and are both taken in the thorough tier
        k = 0
        for kr in kindsR:
            for ks in (kindsS if alg in ('rxso3', 'sim3') else ['zero']):
                k += 1
                for dname in ('float64', 'float32'):
                    plan.append((alg, dname, (kr, rng.choice(['one', 'large', 'tiny']), ks)))
        if alg == 'sim3':
            # directed: rotation at / below the threshold against log-scales just above it, translation across the axis
            for dname in ('float64', 'float32'):
                for tf in (0.0, 0.5, 1.0, 16.0, 2.0 ** 14):
                    for sf in (1.0001, 2.0, 16.0, 512.0, 2048.0, 2.0 ** 14, 2.0 ** 18):
                        plan.append((alg, dname, ('thr', tf, sf * rng.choice([1, -1]))))
        for _ in range(counts[alg]):
            plan.append((alg, 'float64' if rng.random() < 0.7 else 'float32',
                         (rng.choice(kindsR), rng.choice(kindsT), rng.choice(kindsS))))
    # evaluate the implementation in batches of mixed shapes
    for (alg, dname, kinds) in plan:
        dtype = torch.float64 if dname == 'float64' else torch.float32
        eps = float(torch.finfo(dtype).eps)
        if kinds[0] == 'thr':
            d = rng.choice([[1.0, 0, 0], [0, 0, 1.0], direction(rng)])
            x = [rng.uniform(-2, 2), rng.uniform(-2, 2), rng.uniform(-2, 2)] + [kinds[1] * eps * a for a in d] + [kinds[2] * eps]
        else:
            x = gen_x(rng, alg, eps, kinds)
        xt = torch.tensor(x, dtype=dtype)
        x = [float(v) for v in xt.tolist()]          # the values the implementation really sees
        shape = rng.choice([(), (1,), (3,), (2, 1, 3), (3, 2), (4, 3, 1), (2,), (5,)])
        xb = xt.expand(shape + xt.shape).clone() if shape else xt
        try:
            out = pp.LieTensor(xb, ltype=getattr(pp, alg + '_type')).Exp().tensor()
            out = out.reshape(-1, out.shape[-1])[-1]
            o = [float(v) for v in out.tolist()]
        except Exception as e:
            ctx.violation('exp-raises:%s' % alg, 'Exp raised %r' % (e,), dict(alg=alg, dtype=dname, x=x))
            continue
        if any(not math.isfinite(v) for v in o):
            ctx.violation(key_of(alg, dname, x, eps), 'Exp returned a non-finite value %s' % o, dict(alg=alg, dtype=dname, x=x))
            continue
        i = len(meta)
        br = branch_of(alg, dname, x, eps)
        ctx.case((alg, dname, tuple(x)), nontrivial=any(v != 0 for v in x), branch=br,
                 sample=dict(alg=alg, dtype=dname, x=x, impl=o) if i % 211 == 7 else None)
        meta.append(dict(alg=alg, dtype=dname, x=x, impl=o, kinds=kinds, shape=list(shape)))
        epsl = 'E64' if dname == 'float64' else 'E32'
        cases.append(dict(idx=i, expr='exp_l (NF:=@NF@) (TF:=TransIv) %s %d %s' % (epsl, ALGS.index(alg), ivlist(x)),
                          comps=[(j, o[j], t) for j, t in tolerances(alg, o, eps)]))
    r = run_interval('C01', 'Model.LieGroup Model.LieExp', cases)
    for name, out in r['broken']:
        ctx.obligation_broken('correspondence-file:' + name, out)
    ctx.notes.append('enclosure: %d proved within tolerance, %d proved outside, %d undecided' % (len(r['ok']), len(set(i for i, _ in r['bad'])), len(r['undecided'])))
    ctx.hist['undecided'] = len(r['undecided'])
    if len(r['undecided']) > max(5, len(cases) // 20):
        ctx.obligation_broken('enclosure-undecided', '%d of %d cases could be neither proved nor refuted, e.g. %s' % (len(r['undecided']), len(cases), [meta[i] for i in r['undecided'][:3]]))
    badidx = sorted(set(i for i, _ in r['bad']))
    for i in badidx:
        m = meta[i]
        comps = [c for j, c in r['bad'] if j == i]
        mm = dict(family='exp:' + m['alg'], case=dict(m, components=comps), detail='')
        ctx.mismatches.append(mm)
        why = confirm(pp, torch, m['alg'], m['dtype'], m['x'], m.get('shape', ()))
        if why:
            mm['explained'] = True
            eps = 2.0 ** -52 if m['dtype'] == 'float64' else 2.0 ** -23
            ctx.violation(key_of(m['alg'], m['dtype'], m['x'], eps), 'Exp(%s) [%s %s, as the last item of a batch of lshape %s]: %s' % (m['x'], m['alg'], m['dtype'], tuple(m.get('shape', ())), why), dict(alg=m['alg'], dtype=m['dtype'], x=m['x'], shape=m.get('shape', [])))
    # known findings are replayed on their recorded witnesses even when this run's sample missed them
    for key, text in ctx.known.items():
        if key in ctx.known_hit:
            continue
        w = KNOWN_WITNESS.get(key)
        if w and confirm(pp, torch, *w):
            ctx.known_hit[key] = 'witness still fails'
    for key, w in FIXED_WITNESS.items():
        why = confirm(pp, torch, *w)
        if why:
            ctx.violation(key, 'repaired defect is back: Exp(%s) [%s %s]: %s' % (w[2], w[0], w[1], why), dict(alg=w[0], dtype=w[1], x=w[2]))
    twins(ctx, pp, torch)
    ctx.traces = len(r['ok'])


# recorded witnesses of the listed findings: (alg, dtype, x)
KNOWN_WITNESS = {
    'exp-accuracy:sim3:float64:rxso3_Ws:eps<|sigma|<=sqrt(eps)/16:theta<=sqrt(eps)/16':
        ('sim3', 'float64', [0.0, 1.0, 0.0, 2.220446049250313e-16, 0.0, 0.0, 2.331690396317754e-16]),
    'exp-accuracy:sim3:float32:rxso3_Ws:eps<|sigma|<=sqrt(eps)/16:theta<=sqrt(eps)/16':
        ('sim3', 'float32', [0.0, 1.0, 0.0, 1.1920928955078125e-07, 0.0, 0.0, 1.2518167125108448e-07]),
}
# witnesses of repaired defects (known_findings.txt `fixed:` lines): replayed on every run, reported under
# their own keys, never suppressed
FIXED_WITNESS = {
    'exp-accuracy:sim3:float64:rxso3_Ws:expm1-cancellation':
        ('sim3', 'float64', [1.0, -2.0, 0.5, 0.3, -0.2, 0.5, 3e-16]),
    'exp-accuracy:sim3:float32:rxso3_Ws:expm1-cancellation':
        ('sim3', 'float32', [1.0, -2.0, 0.5, 0.3, -0.2, 0.5, 3.0000001424923539e-07]),
    'exp-accuracy:sim3:float64:rxso3_Ws:B-coefficient-theta<=eps<|sigma|':
        ('sim3', 'float64', [0.0, 1.0, 0.0, 2.0 ** -52, 0.0, 0.0, 2.0 ** -51]),      # returned t_y = 0.75
    'exp-accuracy:sim3:float32:rxso3_Ws:B-coefficient-theta<=eps<|sigma|':
        ('sim3', 'float32', [0.0, 1.0, 0.0, 2.0 ** -23, 0.0, 0.0, 2.0 ** -22]),
}


def replay(ctx, c):
    pp = import_pypose()
    import torch
    if 'twin' in c:
        r = twin_check(pp, torch, c['alg'], c['dtype'], c['xs'], c['twin'], c.get('out_twin', 'direct'), c.get('form', 0),
                       set(tuple(v) for v in c.get('skip', [])))
        return None if r is None else '%s: %s%s' % (r[0], r[1], '' if r[2] is None else ' (item x=%s)' % r[2])
    return confirm(pp, torch, c['alg'], c['dtype'], c['x'], c.get('shape', ()))
