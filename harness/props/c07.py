"""C07 correspondence: one GaussNewton.step / the trials of one LevenbergMarquardt.step vs Model/Optim.v.

A recording solver, a recording strategy and recording correctors are handed to the REAL optimizers
(pp.optim.GN / pp.optim.LM on a torch.nn.Module with 1-3 parameters of mixed kinds: Euclidean
tensors, Lie-algebra and Lie-group pp.Parameter, and 1-2 residual outputs of shape (d), (N,d),
(B,N,d)).  They capture, for every trial: the A and b the solver was given, the damping at that moment,
the step D it returned, the parameter values before / after update_parameter and after the undo of a
rejected trial.  The Jacobian blocks J[i][j] and the residuals are taken from
pp.optim.functional.modjac / the RobustModel on the same parameters (their correctness is C04).

(1) tie (Coq, vm_compute over Q): Model/Optim.v computes A_k, b and the updated parameters from the same
    J, R, weights, corrector table, dampings and D; exact route (equality) on models whose residuals are
    polynomial in dyadic data with power-of-two dampings and dyadic scripted steps, relative tolerance
    2^-40 otherwise (real solvers, kernels, Exp in the group retraction).  The weight expansion of
    normalize_RWJ is tied separately on every documented weight shape (and a few undocumented ones).
(2) property oracle (python, independent of the Coq model, written from the property text): the weight is
    broadcast with torch.expand, the corrector of every residual is derived from the CONFIGURATION (kernel K = scaling
    by sqrt(rho'(|R_i|^2)) computed here by autograd, None entry = untouched, one entry serves all residuals; never from
    the list the optimizer object holds), the documented system W J d = -W R resp. (clampdiag(J^T W J) prod(1+lam))
    d = -J^T W R is built with numpy from modjac's J and the configured corrector; A, b seen by the solver
    must equal it, D must solve it (least squares / min-norm for PINV / linear solve), every parameter
    must have moved by its slice: addition for Euclidean / algebra, expm(hat(d[:k])) @ X in the matrix
    representation (mpmath) for groups; frozen parameters must be bit-identical and the trainable ones must
    have moved by the solution of the system restricted to them.
Frozen parameters (repaired in /repo a845d9f: before, any parameter with requires_grad=False made GN.step /
LM.step raise in update_parameter): the witnesses of that defect are directed regression cases, both parameter
orders and both optimizers; a recurrence is a VIOLATION (tie: raise-disagreement; oracle: frozen-raises).
Expanded weights (repaired in /repo f84fc28: normalize_RWJ raised for a documented B*N*d*d weight with stride 0): witnesses are
regression cases under the key normalize_RWJ:expanded-weight; stride-0 weights of every documented shape are generated.
Entry points (round 5): the judged step is made through optimizer.step or through its documented equivalents - StopOnPlateau.optimize(input,
target, weight) ("the above arguments are sent to optimizers") and the documented loop `while scheduler.continual(): loss = optimizer.step(...);
scheduler.step(loss)` - with a budget of 1 or 2 optimizer steps; with 2, a hook on the optimizer object re-reads J, R and the parameters and
empties the recorders right before every further step, so the judged step is the last one of the call (same oracle, keys scheduler.<entry>:...)."""
import io, contextlib, math, random, json
import math
from ..common import *
from .. import lie

RULE = ('case = (optimizer GN|LM, 1-3 parameters of kinds Euclid / algebra so3,se3,rxso3,sim3 / group SO3,SE3,RxSO3,Sim3 with 1-2 items, '
        '1-2 residuals of shape (d),(N,d),(B,N,d) with d in 1..3 built from linear + bilinear (exact) or sin / Exp / Log / Act (real) features, '
        'weight in every documented shape suf+(d,d) given at construction / at step() / both, kernels x correctors (auto FastTriggs, FastTriggs, Triggs, '
        'user scale correctors, lists / tuples with None in every position), solvers (the optimizer\'s own default, PINV, LSTSQ, Cholesky, CG with every '
        'optional constructor argument: upper, atol / rtol / hermitian, rcond / driver, maxiter / tol; scripted dyadic steps), strategies (LM\'s own default, '
        'Constant, Adaptive, TrustRegion, with / without bounds of their own) with damping 2^-30..2^10, min/max/reject given or left to their defaults, clamps '
        'active / inactive, vectorize on/off, target on/off, input as tensor / tuple / list / dict, step() arguments positional / keyword / omitted, '
        'contiguous / strided / expanded storage of parameters, targets and weights, judged call = first or second call on the optimizer object (after a '
        'call with another step weight / target), entry point = optimizer.step | StopOnPlateau.optimize(input, target, weight) | the documented '
        'scheduler loop, with a budget of 1-2 optimizer steps (judged: the last one)); every argument tensor is compared bit for bit after the call; directed block first, '
        'then random; one evaluation per trial of a call; non-trivial = a trial with a non-zero step; distinct by full spec')

ALG = ['so3', 'se3', 'rxso3', 'sim3']
GRP = ['SO3', 'SE3', 'RxSO3', 'Sim3']
ADIM = [3, 6, 4, 7]
REL = Fraction(1, 2 ** 40)


# =============================================================================================
#  building the real model / optimizer from a spec
# =============================================================================================
def pw(p):
    return 1 if p['kind'] == 'E' else (ADIM[p['g']] if p['kind'] == 'A' else ADIM[p['g']] + 1)


def feat_len(p):
    n = len(p['data'])
    if p['feat'] == 'raw':
        return n
    items = n // pw(p)
    if p['feat'] in ('act', 'expact'):
        return 3 * items
    return ADIM[p['g']] * items      # log


def small_mat(rr, rows, cols, vals, pzero):
    return [[0 if rr.random() < pzero else rr.choice(vals) for _ in range(cols)] for _ in range(rows)]


def build(pp, torch, spec):
    """-> (net, input, target)"""
    rr = random.Random(spec['cseed'])
    T = lambda x: torch.tensor(x, dtype=torch.float64)
    plist = spec['params']
    res = spec['res']
    mats = []
    for k, r in enumerate(res):
        n = 1
        for s in r['shape']:
            n *= s
        lin = [small_mat(rr, n, feat_len(p), [-1, 1, 2, 0.5], 0.55) for p in plist]
        # every parameter is seen by the first residual at least once
        for j, p in enumerate(plist):
            if k == 0 and not any(any(row) for row in lin[j]):
                lin[j][0][0] = 1
        quad = None
        if r['nl'] in ('quad', 'sinquad'):
            j = rr.randrange(len(plist))
            l = rr.randrange(len(plist))
            quad = (j, l, small_mat(rr, n, feat_len(plist[j]), [-1, 1], 0.7), small_mat(rr, n, feat_len(plist[l]), [-1, 1, 0.5], 0.7))
        const = [rr.randint(-8, 8) / 4.0 for _ in range(n)]
        mats.append((lin, quad, const))
    pts = [[[rr.randint(-4, 4) / 4.0 for _ in range(3)] for _ in range(len(p['data']) // pw(p))] for p in plist]

    class Net(torch.nn.Module):
        def __init__(self):
            super().__init__()
            for j, p in enumerate(plist):
                shape = p['shape']
                t = T(p['data']).reshape(shape)
                if spec.get('layout') == 'strided' and len(shape) >= 2:
                    t = t.mT.contiguous().mT      # same values, non-contiguous memory
                if p['kind'] == 'E':
                    q = torch.nn.Parameter(t, requires_grad=p['req'])
                elif p['kind'] == 'A':
                    q = pp.Parameter(pp.LieTensor(t, ltype=getattr(pp, ALG[p['g']] + '_type')), requires_grad=p['req'])
                else:
                    q = pp.Parameter(pp.LieTensor(t, ltype=getattr(pp, GRP[p['g']] + '_type')), requires_grad=p['req'])
                setattr(self, 'p%d' % j, q)

        def feats(self):
            fs = []
            for j, p in enumerate(plist):
                q = getattr(self, 'p%d' % j)
                if p['feat'] == 'raw':
                    f = (q.tensor() if p['kind'] != 'E' else q).reshape(-1)
                elif p['feat'] == 'act':
                    f = q.Act(T(pts[j]).reshape(tuple(p['shape'][:-1]) + (3,))).reshape(-1)
                elif p['feat'] == 'expact':
                    f = q.Exp().Act(T(pts[j]).reshape(tuple(p['shape'][:-1]) + (3,))).reshape(-1)
                else:
                    f = q.Log().tensor().reshape(-1)
                fs.append(f)
            return fs

        def forward(self, x):
            fs = self.feats()
            outs = []
            for (lin, quad, const), r in zip(mats, res):
                o = T(const) * x
                for j in range(len(plist)):
                    o = o + T(lin[j]) @ fs[j]
                if r['nl'] == 'sin' or r['nl'] == 'sinquad':
                    o = o + 0.5 * torch.sin(o)
                if quad is not None:
                    j, l, D, E = quad
                    o = o + (T(D) @ fs[j]) * (T(E) @ fs[l])
                outs.append(o.reshape(r['shape']))
            return outs[0] if (len(outs) == 1 and spec.get('single_out', True)) else tuple(outs)
    net = Net()
    inp = T(1.0)
    target = None
    if spec.get('target'):
        tg = []
        for r in res:
            n = 1
            for s in r['shape']:
                n *= s
            tg.append(T([rr.randint(-4, 4) / 2.0 for _ in range(n)]).reshape(r['shape']))
            if spec.get('layout') == 'strided' and len(r['shape']) >= 2:
                tg[-1] = tg[-1].mT.contiguous().mT
        target = tg[0] if (len(tg) == 1 and spec.get('single_out', True)) else tuple(tg)
    return net, inp, target


def make_kernel(pp, k):
    if k is None:
        return None
    K = pp.optim.kernel
    name, delta = k
    return getattr(K, name)(delta) if name != 'Tolerant' else K.Tolerant(delta, -1.0)


class Raise(Exception):
    pass


def make_optimizer(pp, torch, spec, net):
    """-> (opt, solver recorder, strategy recorder, corrector recorders, step-weight)"""
    T = lambda x: torch.tensor(x, dtype=torch.float64)
    S = pp.optim.solver

    class ScaleCorr(torch.nn.Module):          # a user corrector: exact for power-of-two c
        def __init__(self, c):
            super().__init__()
            self.c = c

        def forward(self, R, J):
            return self.c * R, self.c * J
    kspec = spec.get('kernel')                 # None | [k | None, ...] ; 'kernel_single': pass the object itself
    kernels = None if kspec is None else [make_kernel(pp, k) for k in kspec]
    cspec = spec.get('corrector')              # None | [ ('Fast', kidx) | ('Triggs', kidx) | ('Scale', c) | None ]
    user_corr = None
    if cspec is not None:
        user_corr = []
        for c in cspec:
            if c is None:
                user_corr.append(None)
            elif c[0] == 'Scale':
                user_corr.append(ScaleCorr(c[1]))
            else:
                kk = make_kernel(pp, c[1])
                user_corr.append(pp.optim.corrector.FastTriggs(kk) if c[0] == 'Fast' else pp.optim.corrector.Triggs(kk))
    seq = tuple if spec.get('seq_form') == 'tuple' else list          # documented: list or tuple containers
    karg = None if kernels is None else (kernels[0] if spec.get('kernel_single') else seq(kernels))
    carg = None if user_corr is None else (user_corr[0] if spec.get('corrector_single') else seq(user_corr))

    def wlayout(t):
        # memory layouts of the same weight values: transposed storage, stride 2 in the last dimension, stride 0 (expand)
        L = spec.get('w_layout')
        if L == 'mT':
            return t.mT.contiguous().mT
        if L == 'stride2':
            big = torch.zeros(tuple(t.shape[:-1]) + (2 * t.shape[-1],), dtype=t.dtype)
            big[..., ::2] = t
            return big[..., ::2]
        if L == 'expand' and t.dim() >= 3 and all(torch.equal(t[0], t[i]) for i in range(t.shape[0])):
            return t[0].expand(t.shape)           # stride 0 in the leading batch dimension: N*d*d from d*d, B*N*d*d from N*d*d
        if L == 'expand_all' and t.dim() >= 3:
            blocks = t.reshape(-1, t.shape[-2], t.shape[-1])
            if all(torch.equal(blocks[0], blocks[i]) for i in range(blocks.shape[0])):
                return blocks[0].expand(t.shape)  # stride 0 in every batch dimension
        return t

    def weights(ws):
        if ws is None:
            return None
        l = [wlayout(T(w['data']).reshape(w['shape'])) for w in ws]
        return l[0] if (len(l) == 1 and spec.get('weight_single')) else seq(l)
    w_init = weights(spec.get('w_init'))
    w_step = weights(spec.get('w_step'))
    script = spec.get('script')

    class RecSolver(torch.nn.Module):
        def __init__(self, inner):
            super().__init__()
            self.inner, self.log, self.opt, self.failed = inner, [], None, 0

        def forward(self, A, b):
            e = dict(A=A.detach().clone(), b=b.detach().clone(), before=snapshot(net),
                     damping=(self.opt.param_groups[0].get('damping') if self.opt is not None else None))
            if script is not None:
                k = len(self.log)
                d = script[k] if k < len(script) else [0.0] * A.shape[-1]
                if d is None:
                    self.failed += 1
                    raise Raise('scripted solver failure')
                D = T(d).reshape(-1, 1)
            else:
                try:
                    D = self.inner(A=A, b=b)
                except Exception:
                    self.failed += 1
                    raise
            e['D'] = D.detach().clone()
            self.log.append(e)
            return D
    sname = spec.get('solver')
    inner = None
    if script is None and sname is not None:
        # the solver object is built with the spec's optional constructor arguments (Cholesky(upper), PINV(atol, rtol,
        # hermitian), LSTSQ(rcond, driver), CG(maxiter, tol)); solver None = the optimizer's OWN default, wrapped below
        inner = {'PINV': S.PINV, 'LSTSQ': S.LSTSQ, 'Cholesky': S.Cholesky, 'CG': S.CG}[sname](**(spec.get('solver_args') or {}))
    rs = RecSolver(inner)
    own_solver = script is None and sname is None
    kw = dict(solver=None if own_solver else rs, kernel=karg, corrector=carg, weight=w_init)
    for k in ('kernel', 'corrector', 'weight', 'solver'):       # an omitted keyword and an explicit None are both call forms
        if kw[k] is None and spec.get('omit_none'):
            del kw[k]
    if not (spec['vectorize'] and spec.get('omit_defaults')):
        kw['vectorize'] = spec['vectorize']
    rst = None
    if spec['opt'] == 'GN':
        opt = pp.optim.GN(net, **kw)
    else:
        st = spec.get('strategy')              # None | ('Constant', damping) | ('Adaptive', damping) | ('TrustRegion', radius)
        ST = pp.optim.strategy
        sbounds = {} if spec.get('strategy_own_bounds') else dict(min=2.0 ** -40, max=2.0 ** 40)
        if st is None:
            strat = None                       # LM's own default strategy, wrapped below
        elif st[0] == 'Constant':
            strat = ST.Constant(damping=st[1])
        elif st[0] == 'Adaptive':
            strat = ST.Adaptive(damping=st[1], **sbounds)
        else:
            strat = ST.TrustRegion(radius=st[1], **sbounds)

        class RecStrategy(object):
            def __init__(self, inner):
                self.inner, self.defaults, self.log = inner, inner.defaults, []

            def update(self, pg, *a, **kw):
                self.log.append(snapshot(net))
                return self.inner.update(pg, *a, **kw)
        if strat is not None:
            rst = RecStrategy(strat)
            kw['strategy'] = rst
        elif not spec.get('omit_none'):
            kw['strategy'] = None
        for k in ('reject', 'min', 'max'):     # the documented defaults (16, 1e-6, 1e32) are left to LM when the spec has none
            if k in spec:
                kw[k] = spec[k]
        opt = pp.optim.LM(net, **kw)
        if strat is None:
            rst = RecStrategy(opt.strategy)
            opt.strategy = rst
    if own_solver:
        rs.inner = opt.solver
        opt.solver = rs
    rs.opt = opt
    # label and wrap the correctors the optimizer ended up with
    recs = []

    class RecCorr(torch.nn.Module):
        def __init__(self, inner, label):
            super().__init__()
            self.inner, self.label, self.log = inner, label, []

        def forward(self, R, J):
            r, j = self.inner(R=R, J=J)
            self.log.append((R.detach().clone(), r.detach().clone(), j.detach().clone()))
            return r, j
    from pypose.optim.optimizer import Trivial
    wrapped = []
    for j, c in enumerate(opt.corrector):
        if isinstance(c, Trivial):
            label = 'CTrivial'
        elif user_corr is not None and any(c is u for u in user_corr):
            label = 'CUser %d%%nat' % [i for i, u in enumerate(user_corr) if c is u][0]
        else:
            label = 'CFast (Some %d%%nat)' % j if (kspec is not None and kspec[j] is not None) else 'CFast None'
        rc = RecCorr(c, label)
        recs.append(rc)
        wrapped.append(rc)
    opt.corrector = wrapped
    return opt, rs, rst, recs, w_step


def snapshot(net):
    return [[float(v) for v in q.detach().reshape(-1).tolist()] for q in net.parameters()]


def _tensors(x):
    """the tensors inside an argument (tensor / None / list / tuple / dict)"""
    if x is None:
        return []
    if isinstance(x, dict):
        return [t for v in x.values() for t in _tensors(v)]
    if isinstance(x, (list, tuple)):
        return [t for v in x for t in _tensors(v)]
    return [x]


def call_step(opt, spec, inp, target, weight, steps=1):
    """opt.step (or its documented equivalents scheduler.optimize / the scheduler loop, spec['entry']) in the spec's call form:
    positional (input[, target]) + weight keyword, or everything by keyword; an absent target / weight is omitted or given as
    an explicit None"""
    def call(f):
        if spec.get('call_form') == 'kw':
            kw = dict(input=inp, target=target, weight=weight)
            if spec.get('omit_none'):
                kw = {k: v for k, v in kw.items() if v is not None}
            return f(**kw)
        if spec.get('call_form') == 'pos3':
            return f(inp, target, weight)
        if weight is not None:
            return f(inp, target, weight=weight)
        return f(inp, target) if (target is not None or not spec.get('omit_none')) else f(inp)
    entry = spec.get('entry') or 'step'
    with contextlib.redirect_stdout(io.StringIO()):
        if entry == 'step':
            return float(call(opt.step))
        # the documented second entry points: a StopOnPlateau scheduler driving the same optimizer, either through
        # scheduler.optimize(input, target, weight) ("the above arguments are sent to optimizers") or through the documented
        # user loop `while scheduler.continual(): loss = optimizer.step(...); scheduler.step(loss)`; `steps` optimizer steps
        # at most (fewer when the controller stops earlier), every one of them with the SAME arguments
        from pypose.optim.scheduler import StopOnPlateau
        skw = dict(spec.get('sched_args') or {})
        sch = StopOnPlateau(opt, steps, **skw) if spec.get('call_form') == 'pos3' else StopOnPlateau(optimizer=opt, steps=steps, **skw)
        if entry == 'optimize':
            call(sch.optimize)
        else:
            n = 0
            while sch.continual() and n < steps + 2:
                loss = call(opt.step)
                sch.step(loss)
                n += 1
        return float(opt.loss)


def execute(pp, torch, spec):
    """run one step() of the real optimizer with the recorders; -> record dict"""
    net, inp, target = build(pp, torch, spec)
    opt, rs, rst, recs, w_step = make_optimizer(pp, torch, spec, net)
    # the documented forms of `input`: a tensor, a tuple / list of positional arguments, a dict of keyword arguments
    form = spec.get('inp_form')
    if form == 'tuple':
        inp = (inp,)
    elif form == 'list':
        inp = [inp]
    elif form == 'dict':
        inp = {'x': inp}
    if isinstance(target, tuple) and spec.get('seq_form') == 'tuple' and spec.get('target_list'):
        target = list(target)
    w_init = opt.weight
    raised = None
    warm = spec.get('warm')
    if warm:
        # the judged call is the second call on the optimizer object; the first one is made with OTHER arguments
        # (another weight given at step(), another target) - nothing of it may survive except the parameter values
        # (and, for LM, the strategy's damping, which the recorders read at every trial)
        r3 = random.Random(spec['cseed'] + 1)
        try:
            with torch.no_grad():
                R0 = opt.model(inp, target)
            ww = None
            if warm.get('weight'):
                ww = [torch.tensor(gen_weight(r3, list(r.shape), 0, spec['exact'])['data'], dtype=torch.float64).reshape(r.shape[-1], r.shape[-1]) for r in R0]
                ww = ww[0] if (len(ww) == 1 and r3.random() < 0.5) else ww
            wt = target
            if warm.get('target'):
                tg = [torch.tensor([r3.randint(-4, 4) / 2.0 for _ in range(r.numel())], dtype=torch.float64).reshape(r.shape) for r in R0]
                wt = tg[0] if (len(tg) == 1 and spec.get('single_out', True)) else tuple(tg)
            call_step(opt, spec, inp, wt, ww)
        except Raise:
            raised = 'scripted'
        except Exception as e:       # noqa
            raised = 'first call: %s: %s' % (type(e).__name__, str(e)[:160])
        if raised is None:
            rs.log, rs.failed = [], 0
            if rst is not None:
                rst.log = []
            for rc in recs:
                rc.log = []
    J = pp.optim.functional.modjac(opt.model, input=(inp, target), flatten=False, vectorize=spec['vectorize'])
    with torch.no_grad():
        R = opt.model(inp, target)
    # the recorders have not been called yet (RobustModel.forward does not touch the correctors)
    rec = dict(J=[[j.detach().clone() for j in Jr] for Jr in J], R=[r.detach().clone() for r in R], P0=snapshot(net),
               raised=raised, net=net, opt=opt, recs=recs, inp=inp, target=target)
    # non-mutation: every tensor handed to the optimizer (input, target, both weights) is bit-identical afterwards
    args = dict(input=_tensors(inp), target=_tensors(target), weight_init=_tensors(w_init), weight_step=_tensors(w_step))
    snaps = {k: [t.detach().clone() for t in v] for k, v in args.items()}
    nsteps = spec.get('sched_steps', 1) if (spec.get('entry') or 'step') != 'step' else 1
    if nsteps > 1:
        # several optimizer steps inside one scheduler call: the judged step is the LAST one the scheduler made; right before
        # every further optimizer.step the Jacobian / residuals / parameters are re-read and the recorders are emptied
        orig_step, made = opt.step, [0]

        def hooked(*a, **k):
            made[0] += 1
            if made[0] > nsteps:
                raise RuntimeError('the scheduler asked for optimizer step %d with a budget of steps=%d' % (made[0], nsteps))
            if made[0] > 1:
                try:
                    with torch.enable_grad():
                        J2 = pp.optim.functional.modjac(opt.model, input=(inp, target), flatten=False, vectorize=spec['vectorize'])
                    R2 = opt.model(inp, target)
                    bad = any(not bool(torch.isfinite(t).all()) for Jr in J2 for t in Jr) or any(not bool(torch.isfinite(t).all()) for t in R2)
                except AssertionError:      # modjac: 'Jacobian contains Nan! Check your model and input!'
                    bad = True
                if bad:
                    # the EARLIER step of this scheduler call (the solver's answer on its system) left parameters at which the
                    # model itself is not finite (e.g. a log-scale of 1e8): the step that follows is outside the property's
                    # quantifier, whatever it does (same class as a retraction that overflows, see _oracle)
                    rec['later_step_starts_nonfinite'] = True
                    return orig_step(*a, **k)
                rec.update(J=[[j.detach().clone() for j in Jr] for Jr in J2], R=[r.detach().clone() for r in R2], P0=snapshot(net))
                rs.log, rs.failed = [], 0
                if rst is not None:
                    rst.log = []
                for rc in recs:
                    rc.log = []
            return orig_step(*a, **k)
        opt.step = hooked
    if raised is None:
        try:
            rec['ret'] = call_step(opt, spec, inp, target, w_step, steps=nsteps)
        except Raise:
            rec['raised'] = 'scripted'
        except Exception as e:       # noqa
            rec['raised'] = '%s: %s' % (type(e).__name__, str(e)[:160])
    rec['mutated'] = [k for k in args if any(a.shape != b.shape or not torch.equal(a.detach(), b) for a, b in zip(args[k], snaps[k]))]
    rec['final'] = snapshot(net)
    rec['solves'] = rs.log
    rec['solver_failed'] = rs.failed
    rec['after'] = rst.log if rst is not None else None
    rec['corr'] = [(rc.label, rc.log) for rc in recs]
    return rec


# =============================================================================================
#  Coq literals
# =============================================================================================
def nat(n):
    return '%d%%nat' % n


def natl(l):
    return coq_list(nat(n) for n in l)


def tens_lit(shape, data):
    return '(%s, %s)' % (natl(shape), qlist(data))


def opt_lit(x, f):
    return 'None' if x is None else 'Some ' + f(x)


def mat_lit(M):
    return coq_list(qlist(row) for row in M)


def plist_lit(P):
    return coq_list(qlist(p) for p in P)


EXPMAX = [1.0]


def exp_entries(pp, torch, spec, D, sign):
    """the Exp calls update_parameter(sign*D) makes on group parameters: (g, key, value)"""
    out = []
    off = 0
    for p in spec['params']:
        n = len(p['data'])
        if not p['req']:
            continue                      # frozen parameters have no slice of the step
        if p['kind'] == 'G':
            w, k = pw(p), ADIM[p['g']]
            for t in range(n // w):
                key = [sign * D[off + t * w + i] for i in range(k)]
                x = pp.LieTensor(torch.tensor(key, dtype=torch.float64), ltype=getattr(pp, ALG[p['g']] + '_type'))
                ev = tolist(x.Exp().tensor())
                EXPMAX[0] = max([EXPMAX[0]] + [abs(v) for v in ev])
                out.append('(%s, %s, %s)' % (nat(p['g']), qlist(key), qlist(ev)))
        off += n
    return out


def case_lit(pp, torch, idx, spec, rec, tolA, tolP):
    EXPMAX[0] = 1.0
    kcode = {'E': 0, 'A': 1, 'G': 2}
    params = coq_list('(%s, %s, %s, %s)' % (nat(kcode[p['kind']]), nat(p.get('g', 0)), qlist(p0), 'true' if p['req'] else 'false')
                      for p, p0 in zip(spec['params'], rec['P0']))
    Rl = coq_list(tens_lit(list(r.shape), tolist(r)) for r in rec['R'])
    Jl = coq_list(coq_list(qlist(tolist(j)) for j in Jr) for Jr in rec['J'])

    def wl(ws):
        return opt_lit(ws, lambda ws: coq_list(tens_lit(w['shape'], w['data']) for w in ws))
    ks = spec.get('kernel')
    kl = opt_lit(ks, lambda ks: coq_list(('None' if k is None else 'Some ' + nat(i)) for i, k in enumerate(ks)))
    cs = spec.get('corrector')
    cl = opt_lit(cs, lambda cs: coq_list(('None' if c is None else 'Some ' + nat(i)) for i, c in enumerate(cs)))
    ctab = []
    for label, log in rec['corr']:
        if label == 'CTrivial':
            continue
        for (rin, rout, jout) in log:
            ctab.append('(%s, %s, %s, %s)' % (label, qlist(tolist(rin)), tens_lit(list(rout.shape), tolist(rout)),
                                               mat_lit([tolist(row) for row in jout.reshape(-1, jout.shape[-1])])))
    etab = []
    trials = rec['solves']
    if spec['opt'] == 'GN':
        if rec['raised'] is None and trials:
            e = trials[0]
            D = tolist(e['D'])
            etab += exp_entries(pp, torch, spec, D, 1.0)
            impl = 'IGN (Some (%s, %s, %s, %s))' % (mat_lit([tolist(r) for r in e['A']]), qlist(tolist(e['b'])), qlist(D), plist_lit(rec['final']))
        else:
            impl = 'IGN None'
    else:
        lam0 = spec['lam0']
        if rec['raised'] is None:
            tl = []
            for k, e in enumerate(trials):
                D = tolist(e['D'])
                etab += exp_entries(pp, torch, spec, D, 1.0)
                Pa = rec['after'][k]
                nxt = trials[k + 1]['before'] if k + 1 < len(trials) else (rec['final'] if rec['solver_failed'] else None)
                if nxt is not None and max([abs(v) for v in D] + [0.0]) > 4.0 and any(p['kind'] == 'G' for p in spec['params']):
                    nxt = None      # the undo of a large group step amplifies rounding by e^|sigma| (restoration is C08's clause)
                if nxt is not None:
                    etab += exp_entries(pp, torch, spec, D, -1.0)
                tl.append('(%s, %s, %s, %s, %s, %s, %s)' % (qlit(e['damping']), plist_lit(e['before']), mat_lit([tolist(r) for r in e['A']]),
                                                          qlist(tolist(e['b'])), qlist(D), plist_lit(Pa), opt_lit(nxt, plist_lit)))
            impl = 'ILM %s %s %s (Some %s)' % (qlit(spec.get('min', 1e-6)), qlit(spec.get('max', 1e32)), qlit(lam0), coq_list(tl))
        else:
            impl = 'ILM %s %s %s None' % (qlit(spec.get('min', 1e-6)), qlit(spec.get('max', 1e32)), qlit(lam0))
    etab = sorted(set(etab))
    oc = ('{| oc_params := %s; oc_R := %s; oc_J := %s; oc_selfW := %s; oc_stepW := %s; oc_kernel := %s; oc_corrector := %s; '
          'oc_corr := %s; oc_exp := %s; oc_tolA := (%s, %s); oc_tolP := (%s, %s) |}'
          % (params, Rl, Jl, wl(spec.get('w_init')), wl(spec.get('w_step')), kl, cl, coq_list(ctab), coq_list(etab),
             qlit(tolA[0]), qlit(tolA[1]), qlit(tolP[0]), qlit(tolP[1] * Fraction(EXPMAX[0]) if tolP[1] else tolP[1])))
    return '(%s, %s, %s)' % (nat(idx), oc, impl)


HDR = ('From PV Require Import Base.Num Base.Mat Model.LieGroup Model.Optim.\n'
       'From Coq Require Import List ZArith QArith Bool. Import ListNotations.\n')


def shard(items, n):
    return [items[k:k + n] for k in range(0, len(items), n)]


# =============================================================================================
#  the property oracle (independent of the Coq model)
# =============================================================================================
def hat(g, x):
    """matrix of the algebra element in the representation of lie.ref_matrix (3x3 for so3, else 4x4)"""
    import mpmath as mp
    def skew(p):
        return [[0, -p[2], p[1]], [p[2], 0, -p[0]], [-p[1], p[0], 0]]
    if g == 0:
        return mp.matrix(skew(x))
    if g == 1:
        tau, phi, sig = x[0:3], x[3:6], 0.0
    elif g == 2:
        tau, phi, sig = [0, 0, 0], x[0:3], x[3]
    else:
        tau, phi, sig = x[0:3], x[3:6], x[6]
    K = skew(phi)
    M = [[K[i][j] + (sig if i == j else 0) for j in range(3)] + [tau[i]] for i in range(3)] + [[0, 0, 0, 0]]
    return mp.matrix(M)


def group_moved_ok(g, before, after, d, tol=1e-9):
    import mpmath as mp
    mp.mp.dps = 30
    n = 3 if g == 0 else 4
    Mb = mp.matrix(n, n)
    Ma = mp.matrix(n, n)
    rb = lie.ref_matrix(GRP[g], [Fraction(v) for v in before])
    ra = lie.ref_matrix(GRP[g], [Fraction(v) for v in after])
    for i in range(n):
        for j in range(n):
            Mb[i, j] = mp.mpf(rb[i * n + j].numerator) / rb[i * n + j].denominator
            Ma[i, j] = mp.mpf(ra[i * n + j].numerator) / ra[i * n + j].denominator
    E = mp.expm(hat(g, [mp.mpf(v) for v in d])) * Mb
    err = max(abs(E[i, j] - Ma[i, j]) for i in range(n) for j in range(n))
    scale = max(1.0, max(abs(E[i, j]) for i in range(n) for j in range(n)))
    return err <= tol * scale, float(err)


def moved_by(spec, before, after, D, train_only):
    """each parameter moved by its slice of D (slices over the trainable parameters when train_only)"""
    off = 0
    for j, p in enumerate(spec['params']):
        n = len(p['data'])
        if not p['req']:
            if before[j] != after[j]:
                return 'update:frozen-touched: parameter %d (requires_grad=False) changed from %r to %r' % (j, before[j], after[j])
            if train_only:
                continue
            off += n
            continue
        sl = D[off:off + n]
        off += n
        if p['kind'] in ('E', 'A'):
            for i in range(n):
                exp = before[j][i] + sl[i]
                if abs(after[j][i] - exp) > 1e-12 * max(1.0, abs(exp)):
                    return 'update:%s: parameter %d entry %d: before %r + slice %r = %r, got %r' % (
                        'euclid' if p['kind'] == 'E' else 'algebra', j, i, before[j][i], sl[i], exp, after[j][i])
        else:
            w, k = pw(p), ADIM[p['g']]
            for t in range(n // w):
                ok, err = group_moved_ok(p['g'], before[j][t * w:(t + 1) * w], after[j][t * w:(t + 1) * w], sl[t * w:t * w + k])
                if not ok:
                    return 'update:group: parameter %d item %d is not expm(hat(d[:%d])) @ X (matrix error %.3g); X=%r d=%r got %r' % (
                        j, t, k, err, before[j][t * w:(t + 1) * w], sl[t * w:(t + 1) * w], after[j][t * w:(t + 1) * w])
    if off != len(D):
        return 'update:split: the step has %d entries, the %s parameters have %d elements' % (len(D), 'trainable' if train_only else '', off)
    return None


def documented_correctors(pp, torch, spec):
    """the corrector of every residual, from the CONFIGURATION (not from what the optimizer object ended up holding):
    `corrector` wins over `kernel`; a kernel K stands for FastTriggs(K): R_i, J_i scaled by sqrt(rho'(|R_i|^2)); a None
    entry of either list means "leave this residual alone"; a single object / one-element list serves every residual"""
    ident = lambda R, J: (R, J)

    def fast(k):
        kern = make_kernel(pp, k)

        def f(R, J):
            with torch.enable_grad():
                x = R.detach().square().sum(-1, keepdim=True).requires_grad_(True)
                g, = torch.autograd.grad(kern(x).sum(), x)
            sc = g.detach().sqrt()
            return sc * R, sc.expand_as(R).reshape(-1, 1) * J
        return f

    def user(c):
        if c[0] == 'Scale':
            return lambda R, J: (c[1] * R, c[1] * J)
        kk = make_kernel(pp, c[1])
        obj = pp.optim.corrector.FastTriggs(kk) if c[0] == 'Fast' else pp.optim.corrector.Triggs(kk)     # a fresh object of the user's class
        return lambda R, J: obj(R=R, J=J)
    cs, ks = spec.get('corrector'), spec.get('kernel')
    if cs is not None:
        out = [ident if c is None else user(c) for c in cs]
    elif ks is not None:
        out = [ident if k is None else fast(k) for k in ks]
    else:
        out = [ident]
    return out


def documented_system(pp, torch, np, spec, rec):
    """(J, R, W) of the property text: modjac's J (trainable columns), configured corrector, broadcast weight"""
    Rs, Js = rec['R'], rec['J']
    plist = spec['params']
    cors = documented_correctors(pp, torch, spec)
    Jc, Rc = [], []
    for i, (r, Jr) in enumerate(zip(Rs, Js)):
        cols = [j.reshape(r.numel(), -1) for j, p in zip(Jr, plist) if p['req']]
        Ji = torch.cat(cols, 1)
        c = cors[0] if len(cors) == 1 else cors[i]
        with torch.no_grad():
            r2, j2 = c(r.clone(), Ji.clone())
        Rc.append(r2.reshape(-1))
        Jc.append(j2.reshape(r.numel(), -1))
    Jn = torch.cat(Jc, 0).numpy()
    Rn = torch.cat(Rc).numpy()
    ws = spec.get('w_step') if spec.get('w_step') is not None else spec.get('w_init')
    W = None
    if ws is not None:
        blocks = []
        for w, r in zip(ws, Rs):
            d = r.shape[-1]
            wt = torch.tensor(w['data'], dtype=torch.float64).reshape(w['shape'])
            full = wt.expand(tuple(r.shape[:-1]) + (d, d)).reshape(-1, d, d)       # broadcasting over the batch dimensions
            blocks += [full[t] for t in range(full.shape[0])]
        W = torch.block_diag(*blocks).numpy()
    return Jn, Rn, W


def close_arr(np, got, exp, rel=1e-12, mag=None):
    """entrywise comparison; `mag` = the sum of the magnitudes of the terms of every entry (|W||J|, |J|^T|W||R|, ...): an entry that
    is the result of cancellation (b = -J^T W R at a stationary point, e.g. the second step of a scheduler call on a linear model) is
    only defined up to the forward error n eps mag of the product, in whatever order it is summed"""
    got, exp = np.asarray(got, dtype=float), np.asarray(exp, dtype=float)
    if got.shape != exp.shape:
        return False
    tol = rel * (np.abs(exp) + np.max(np.abs(exp), initial=0.0) * 1e-2) + 1e-300
    if mag is not None:
        tol = tol + 3e-14 * np.asarray(mag, dtype=float).reshape(exp.shape)
    return bool(np.all(np.abs(got - exp) <= tol))


def oracle(pp, torch, spec, rec=None):
    """the clauses of C07 checked directly on the implementation; None if they hold"""
    why = _oracle(pp, torch, spec, rec)
    if why and (spec.get('entry') or 'step') != 'step':
        why += ' [the step was made through the documented equivalent entry point %s of StopOnPlateau(optimizer, steps=%d%s) with the same input / target / weight]' % (
            'scheduler.optimize(input, target, weight)' if spec['entry'] == 'optimize' else '`while scheduler.continual(): loss = optimizer.step(...); scheduler.step(loss)`',
            spec.get('sched_steps', 1), ''.join(', %s=%r' % kv for kv in sorted((spec.get('sched_args') or {}).items())))
    return why


def _oracle(pp, torch, spec, rec=None):
    import numpy as np
    rec = rec or execute(pp, torch, spec)
    name = spec['opt']
    frozen = any(not p['req'] for p in spec['params'])
    if rec.get('later_step_starts_nonfinite'):
        return None     # see execute(): the judged step starts where the model is not finite - outside the quantifier
    if rec['raised'] is not None and rec['raised'] != 'scripted':
        fin = rec.get('final') or []
        nonfinite = any(not math.isfinite(v) for q in fin for v in q)
        # a log-scale step beyond the exponent range also leaves a scale of exactly 0 (underflow): not a group element
        for q, pspec in zip(fin, spec['params']):
            if pspec.get('kind') == 'G' and pspec.get('g') in (2, 3):
                w = 5 if pspec['g'] == 2 else 8
                if any(q[i] <= 0.0 for i in range(w - 1, len(q), w)):
                    nonfinite = True
        if nonfinite and rec.get('solves'):
            # a (numerically singular) system made the solver answer with a step so large that the retraction overflows
            # (e.g. exp of a log-scale step of 3e3); what raises is the loss evaluation at the resulting non-finite
            # parameters.  The step handed to update_parameter IS the solver's answer: outside the property's quantifier.
            return None
        if frozen:
            return 'frozen-raises: %s.step raised %s with requires_grad=False on parameter(s) %r' % (
                name, rec['raised'], [j for j, p in enumerate(spec['params']) if not p['req']])
        return 'step-raises: %s.step raised %s' % (name, rec['raised'])
    if rec.get('mutated'):
        return 'mutation: %s.step changed its argument(s) %s in place' % (name, ', '.join(rec['mutated']))
    Jn, Rn, W = documented_system(pp, torch, np, spec, rec)
    scripted = spec.get('script') is not None
    sname = spec.get('solver')
    trials = rec['solves']
    if name == 'GN':
        if not trials:
            return None
        e = trials[0]
        A = Jn if W is None else W @ Jn
        b = -Rn if W is None else -(W @ Rn)
        aW = None if W is None else np.abs(W)
        if not close_arr(np, e['A'].numpy(), A, mag=(np.abs(Jn) if W is None else aW @ np.abs(Jn))):
            return 'system:A: the matrix given to the solver is not W J'
        if not close_arr(np, e['b'].numpy().reshape(-1), b, mag=(np.abs(Rn) if W is None else aW @ np.abs(Rn))):
            return 'system:b: the right-hand side given to the solver is not -W R'
        D = e['D'].numpy().reshape(-1)
        judged = not scripted
        atol = (spec.get('solver_args') or {}).get('atol') if sname == 'PINV' else None
        if judged and atol:
            # a configured ABSOLUTE cut-off (PINV(atol): singular values below it are treated as zero) is meant to lie far below the
            # scale of the system; where a kernel has scaled W J down to the cut-off (e.g. sqrt(rho') ~ 1e-21 far out in the tail of a
            # redescending kernel) the configured solver truncates on purpose and "D solves W J d = -W R" is not what it documents
            sv = np.linalg.svd(A, compute_uv=False)
            live = [x for x in sv if x > 1e-15 * (sv[0] if len(sv) else 0.0) * max(A.shape)]
            if not live or min(live) < 1e3 * atol:
                judged = False
        if judged:
            g = A.T @ (A @ D - b)
            nA = np.linalg.norm(A, 2)
            if np.linalg.norm(g) > 1e-7 * (nA * nA * np.linalg.norm(D) + nA * np.linalg.norm(b)) + 1e-300:
                return 'solve:gn-lsq: D is not a least-squares solution of W J d = -W R (|A^T(A d - b)| = %.3g)' % np.linalg.norm(g)
            if sname in (None, 'PINV'):
                # minimum norm = no component in null(A); judged only when the numerical rank is unambiguous
                U, S, Vt = np.linalg.svd(A, full_matrices=True)
                smax = S[0] if len(S) else 0.0
                sure_null = [i for i in range(Vt.shape[0]) if i >= len(S) or S[i] <= 1e-15 * smax * max(A.shape)]
                gray = [i for i in range(len(S)) if 1e-15 * smax * max(A.shape) < S[i] < 1e-6 * smax]
                if sure_null and not gray:
                    comp = np.linalg.norm(Vt[sure_null] @ D)
                    # the computed minimum-norm solution carries round-off of the order eps |b| / s_min(A) in every direction
                    # (it is all there is when the parameters already are at the minimum: second step on a linear model)
                    smin = min(x for x in S if x > 1e-15 * smax * max(A.shape)) if smax > 0 else 1.0
                    if comp > 1e-6 * max(np.linalg.norm(D), 1e-300) + 1e-9 * np.linalg.norm(b) / smin:
                        return 'solve:gn-minnorm: D is not the minimum-norm least-squares solution (component in null(A): %.3g of |D| = %.3g)' % (comp, np.linalg.norm(D))
        why = moved_by(spec, rec['P0'], rec['final'], [float(v) for v in D], train_only=True)
        return why
    # LM
    JT = Jn.T if W is None else Jn.T @ W
    aJT = np.abs(Jn).T if W is None else np.abs(Jn).T @ np.abs(W)
    magA0, magb = aJT @ np.abs(Jn), aJT @ np.abs(Rn)
    A0 = JT @ Jn
    dg = np.clip(np.diag(A0).copy(), spec.get('min', 1e-6), spec.get('max', 1e32))
    b = -(JT @ Rn)
    mult = 1.0
    for k, e in enumerate(trials):
        mult = mult * (1.0 + e['damping'])
        A = A0.copy()
        np.fill_diagonal(A, dg * mult)
        if not close_arr(np, e['A'].numpy(), A, mag=magA0 * mult):
            return 'system:A: trial %d: the matrix given to the solver is not clampdiag(J^T W J) with the diagonal times prod(1+lambda)' % (k + 1)
        if not close_arr(np, e['b'].numpy().reshape(-1), b, mag=magb):
            return 'system:b: trial %d: the right-hand side given to the solver is not -J^T W R' % (k + 1)
        D = e['D'].numpy().reshape(-1)
        if not scripted:
            tol = 1e-7
            if sname == 'CG':
                # documented stopping rule |A d - b| < tol |b| (default 1e-5) within maxiter (default 10 n) iterations;
                # held to the configured tol only where CG converges for sure (well conditioned SPD A)
                ev = np.linalg.eigvalsh((A + A.T) / 2)
                sargs = spec.get('solver_args') or {}
                sure = ev[0] > 0 and ev[-1] / ev[0] < 1e3 and sargs.get('maxiter', 10 * len(b)) >= 10 * len(b)
                tol = max(1e-7, 100 * sargs.get('tol', 1e-5)) if sure else 1e-3
            res = np.linalg.norm(A @ D - b)
            if res > tol * (np.linalg.norm(A, 2) * np.linalg.norm(D) + np.linalg.norm(b)) + 1e-300:
                return 'solve:lm: trial %d: D does not solve A_k d = -J^T W R (residual %.3g)' % (k + 1, res)
        why = moved_by(spec, e['before'], rec['after'][k], [float(v) for v in D], train_only=True)
        if why:
            return why
    if trials and not rec['solver_failed']:
        # the last trial is the one that is kept (accepted, or the rejection budget is exhausted)
        if rec['final'] != rec['after'][len(trials) - 1]:
            # a rejected last trial (budget not exhausted) would have been followed by another solve
            return 'update:final: parameters after step() are not those of the last trial'
    return None


def viol_key(spec, why):
    parts = why.split(':')
    head = parts[0].strip()
    if head in ('system', 'solve', 'update') and len(parts) > 1:
        head += ':' + parts[1].strip().split(' ')[0]
    entry = spec.get('entry') or 'step'
    return '%s%s.step:%s' % ('' if entry == 'step' else 'scheduler.%s:' % entry, spec['opt'], head)


# =============================================================================================
#  generators
# =============================================================================================
def dy(rng, den, lim):
    return rng.randint(-lim * den, lim * den) / float(den)


def gen_param(rng, kind, exact, req=True):
    if kind == 'E':
        shape = rng.choice([[2], [3], [1], [2, 2], [1, 3]])
        n = 1
        for s in shape:
            n *= s
        return dict(kind='E', g=0, shape=shape, data=[dy(rng, 4, 2) for _ in range(n)], req=req, feat='raw')
    g = rng.randrange(4)
    items = rng.choice([1, 1, 2])
    if kind == 'A':
        shape = [ADIM[g]] if (items == 1 and rng.random() < 0.5) else [items, ADIM[g]]
        n = items * ADIM[g]
        if exact:
            return dict(kind='A', g=g, shape=shape, data=[dy(rng, 4, 1) for _ in range(n)], req=req, feat='raw')
        return dict(kind='A', g=g, shape=shape, data=[rng.uniform(-1, 1) for _ in range(n)], req=req, feat=rng.choice(['raw', 'expact']))
    shape = [ADIM[g] + 1] if (items == 1 and rng.random() < 0.5) else [items, ADIM[g] + 1]
    data = []
    for _ in range(items):
        data += lie.unit_elt(rng, GRP[g]) if exact else lie.generic_elt(rng, GRP[g], None, None)
    if exact:
        # translations on the grid 1/4 in [-1, 1], scales in {1/2, 1, 2}
        for t in range(items):
            w = ADIM[g] + 1
            if g in (1, 3):
                for i in range(3):
                    data[t * w + i] = dy(rng, 4, 1)
            if g in (2, 3):
                data[t * w + w - 1] = rng.choice([0.5, 1.0, 2.0])
    return dict(kind='G', g=g, shape=shape, data=data, req=req, feat='act' if exact else rng.choice(['act', 'log']))


def gen_weight(rng, rshape, m, exact):
    """weight of shape suf + (d, d), suf = the last m batch dimensions of the residual"""
    batch, d = rshape[:-1], rshape[-1]
    suf = batch[len(batch) - m:]
    nb = 1
    for s in suf:
        nb *= s
    data = []
    for _ in range(nb):
        if exact:
            L = [[(rng.randint(-2, 2) / 2.0 if j < i else (rng.choice([0.5, 1.0, 2.0]) if i == j else 0.0)) for j in range(d)] for i in range(d)]
        else:
            L = [[(rng.uniform(-1, 1) if j < i else (rng.uniform(0.5, 2.0) if i == j else 0.0)) for j in range(d)] for i in range(d)]
        Wm = [[sum(L[i][k] * L[j][k] for k in range(d)) for j in range(d)] for i in range(d)]
        data += [v for row in Wm for v in row]
    return dict(shape=list(suf) + [d, d], data=data)


RSHAPES = [[1], [2], [3], [2, 1], [2, 2], [3, 2], [2, 3], [2, 2, 1], [2, 2, 2], [1, 2, 3], [2, 1, 2], [2, 3, 1]]


def gen_spec(rng, opt=None, exact=None, **force):
    exact = rng.random() < 0.5 if exact is None else exact
    opt = opt or rng.choice(['GN', 'LM'])
    kinds = force.get('kinds') or [rng.choice('EAG') for _ in range(rng.choice([1, 2, 2, 3]))]
    cap = force.get('cap', 14 if len(kinds) < 3 else 19)      # keeps the Coq literals small (A is ncols x ncols per trial)
    while True:
        params = [gen_param(rng, k, exact) for k in kinds]
        if sum(len(p['data']) for p in params) <= cap:
            break
    nres = force.get('nres') or rng.choice([1, 1, 2])
    res = []
    for _ in range(nres):
        shape = list(force.get('rshape') or rng.choice(RSHAPES))
        res.append(dict(shape=shape, nl=(rng.choice(['none', 'quad', 'quad']) if exact else rng.choice(['none', 'quad', 'sin', 'sinquad']))))
    spec = dict(kind='step', opt=opt, exact=exact, params=params, res=res, cseed=rng.randrange(10 ** 9), vectorize=rng.random() < 0.5,
                target=rng.random() < 0.4, single_out=rng.random() < 0.5)
    # weights
    wm = force.get('wmode', rng.choice(['none', 'init', 'step', 'both', 'init']))
    if wm != 'none':
        def ws():
            return [gen_weight(rng, r['shape'], force['wm'] if 'wm' in force else rng.randint(0, len(r['shape']) - 1), exact) for r in res]
        if wm in ('init', 'both'):
            spec['w_init'] = ws()
        if wm in ('step', 'both'):
            spec['w_step'] = ws()
        spec['weight_single'] = (nres == 1 and rng.random() < 0.5)
    # kernels / correctors
    cm = force.get('cmode', rng.choice(['none', 'none', 'kernel', 'kernel-list', 'user', 'user-list', 'both']))
    if exact:
        kchoices = [('Scale', 0.25), ('Scale', 1.0), ('Huber', 2.0 ** 20)]      # rho' = 1/4, 1, 1 exactly (|r| < 2^20)
    else:
        kchoices = [('Huber', 1.0), ('PseudoHuber', 1.0), ('Cauchy', 2.0), ('SoftLOne', 1.0), ('Arctan', 2.0), ('Tolerant', 1.0), ('Huber', 0.25)]
    if cm in ('kernel', 'both'):
        spec['kernel'] = [rng.choice(kchoices)]
        spec['kernel_single'] = rng.random() < 0.5
    elif cm == 'kernel-list':
        spec['kernel'] = [rng.choice(kchoices + [None]) for _ in range(nres)]
        if all(k is None for k in spec['kernel']):
            spec['kernel'][0] = kchoices[0]
    if cm in ('user', 'both'):
        if exact:
            spec['corrector'] = [('Scale', rng.choice([0.5, 2.0, 0.25]))]
        else:
            kk = (spec.get('kernel') or [None])[0] or rng.choice(kchoices)
            if kk[0] == 'Scale':
                kk = ('Huber', 1.0)
            spec['corrector'] = [(rng.choice(['Fast', 'Triggs']), kk)]
        spec['corrector_single'] = rng.random() < 0.5
    elif cm == 'user-list':
        spec['corrector'] = []
        for _ in range(nres):
            r = rng.random()
            if r < 0.25:
                spec['corrector'].append(None)
            elif exact or r < 0.5:
                spec['corrector'].append(('Scale', rng.choice([0.5, 2.0, 4.0])))
            else:
                spec['corrector'].append((rng.choice(['Fast', 'Triggs']), rng.choice([k for k in kchoices if k[0] != 'Scale'])))
    # solver / strategy
    ncols = sum(len(p['data']) for p in params)
    sm = force.get('smode', rng.choice(['real', 'real', 'script']))
    if sm == 'script':
        k = rng.choice([1, 2, 3])
        big = [[dy(rng, 4, 6) for _ in range(ncols)] for _ in range(k - 1)]
        good = [[dy(rng, 16, 1) if rng.random() < 0.7 else 0.0 for _ in range(ncols)]]
        spec['script'] = (big + good) if opt == 'LM' else good
    else:
        spec['solver'] = force['solver'] if 'solver' in force else rng.choice([None, 'PINV', 'LSTSQ'] if opt == 'GN' else [None, 'Cholesky', 'PINV', 'LSTSQ', 'CG'])
        if spec['solver'] is not None:
            spec['solver_args'] = force['solver_args'] if 'solver_args' in force else rng.choice(solver_arg_choices(opt, spec['solver']))
    if opt == 'LM':
        e = rng.randint(-4, 3) if exact else rng.randint(-30, 10)
        lam = 2.0 ** e
        st = force.get('strategy', rng.choice([None, 'Constant', 'Adaptive', 'TrustRegion']))
        if st is None and exact:
            st = 'Constant'
        spec['strategy'] = None if st is None else ((st, lam) if st != 'TrustRegion' else (st, 1.0 / lam))
        spec['lam0'] = lam if st is not None else 1e-6
        spec['reject'] = rng.choice([0, 1, 2, 3])
        if spec.get('script') is None and rng.random() < 0.1:
            del spec['reject']                # LM's documented default (16)
        spec['strategy_own_bounds'] = rng.random() < 0.3      # Adaptive / TrustRegion built without min / max of their own
        cl = force.get('clamp', rng.choice(['off', 'off', 'min', 'max', 'both']))
        if cl in ('min', 'both'):
            spec['min'] = rng.choice([0.5, 2.0, 8.0])
        elif exact:
            spec['min'] = 2.0 ** -20
        if cl in ('max', 'both'):
            spec['max'] = rng.choice([16.0, 4.0, 64.0])
        elif exact:
            spec['max'] = 2.0 ** 40
        if (spec.get('solver_args') or {}).get('driver') == 'gels' and 'max' in spec and spec['max'] <= 64:
            spec['solver_args'] = {'driver': 'gelsd'}        # gels assumes full rank; an active max clamp can make A singular
    # call forms (all documented): containers as list / tuple, input as tensor / tuple / list / dict, arguments positional /
    # by keyword, absent optional arguments omitted / explicit None, defaults left to the optimizer
    spec['seq_form'] = rng.choice(['list', 'tuple'])
    spec['target_list'] = rng.random() < 0.5
    spec['inp_form'] = force.get('inp_form') or rng.choice(['tensor', 'tensor', 'tuple', 'list', 'dict'])
    spec['call_form'] = force.get('call_form') or rng.choice(['pos', 'pos', 'kw', 'pos3'])
    spec['omit_none'] = rng.random() < 0.5
    spec['omit_defaults'] = rng.random() < 0.5
    # memory layouts (same values): non-contiguous parameters / targets / weights, expanded (stride 0) weights of every documented batch shape
    spec['layout'] = 'strided' if rng.random() < 0.3 else None
    spec['w_layout'] = rng.choice([None, None, 'mT', 'stride2', 'expand', 'expand_all'])
    if spec['w_layout'] in ('expand', 'expand_all'):
        for w in (spec.get('w_init') or []) + (spec.get('w_step') or []):
            if len(w['shape']) >= 3:
                blk = w['shape'][-1] ** 2 if spec['w_layout'] == 'expand_all' else len(w['data']) // w['shape'][0]
                w['data'] = w['data'][:blk] * (len(w['data']) // blk)
    # history: the judged step() is the second call on the optimizer, after a call with another step weight / target
    wr = force['warm'] if 'warm' in force else (rng.random() < 0.3)
    spec['warm'] = dict(weight=rng.random() < 0.6, target=rng.random() < 0.5) if wr else None
    # entry point: optimizer.step itself, or its documented equivalents scheduler.optimize(input, target, weight) / the scheduler
    # loop (StopOnPlateau with a budget of 1-2 optimizer steps, the judged step being the last one); drawn from a generator of
    # its own so that the stream of the other choices is unchanged
    r2 = random.Random(spec['cseed'] ^ 0x5C4ED)
    spec['entry'] = force.get('entry') or r2.choice(['step', 'step', 'step', 'optimize', 'optimize', 'loop'])
    spec['sched_steps'] = force.get('sched_steps') or r2.choice([1, 1, 2])
    spec['sched_args'] = r2.choice([{}, {}, {'patience': 5}, {'patience': 1, 'decreasing': 1e-3}, {'verbose': True}, {'patience': 3, 'decreasing': 0.0, 'verbose': False}])
    return spec


def solver_arg_choices(opt, sname):
    """the documented optional constructor arguments of the solvers, at values that keep "D solves the system" decidable
    (rank cut-offs far below the data's scale, iteration budgets at least the default)"""
    if sname == 'Cholesky':
        return [{}, {'upper': True}, {'upper': False}]
    if sname == 'PINV':
        ch = [{}, {'rtol': 1e-13}, {'atol': 1e-12, 'rtol': 1e-13}]
        return ch + ([{'hermitian': True}, {'hermitian': True, 'rtol': 1e-13}] if opt == 'LM' else [])
    if sname == 'LSTSQ':
        ch = [{}, {'driver': 'gelsd'}, {'driver': 'gelsy'}, {'driver': 'gelss'}, {'rcond': 1e-13}, {'rcond': 1e-13, 'driver': 'gelsd'}]
        return ch + ([{'driver': 'gels'}] if opt == 'LM' else [])
    if sname == 'CG':
        return [{}, {'tol': 1e-10}, {'maxiter': 400}, {'maxiter': 400, 'tol': 1e-9}]
    return [{}]


def _gm(vals):
    """(denominator of the dyadic grid the values lie on, max magnitude)"""
    g, m = 1, 0.0
    for v in vals:
        if v != 0.0:
            g = max(g, Fraction(v).denominator)
            m = max(m, abs(v))
    return g, m


def exact_guard(spec, rec):
    """sufficient condition for the implementation's float64 matrix products and dampings to be exact in ANY
    summation order: every product is a multiple of a common power of two g and the sum of the magnitudes of
    the terms of every entry stays below 2^53 g.  Only magnitudes / grids of the recorded data are inspected."""
    if any(label != 'CTrivial' and log for label, log in rec['corr']):
        Jv = [v for label, log in rec['corr'] for (_, _, jout) in log for v in tolist(jout)]
        Rv = [v for label, log in rec['corr'] for (_, rout, _) in log for v in tolist(rout)]
        if any(label == 'CTrivial' for label, log in rec['corr']):
            Jv += [v for Jr in rec['J'] for j in Jr for v in tolist(j)]
            Rv += [v for r in rec['R'] for v in tolist(r)]
    else:
        Jv = [v for Jr in rec['J'] for j in Jr for v in tolist(j)]
        Rv = [v for r in rec['R'] for v in tolist(r)]
    gJ, MJ = _gm(Jv)
    gR, MR = _gm(Rv)
    ws = spec.get('w_step') if spec.get('w_step') is not None else spec.get('w_init')
    gW, MW = _gm([v for w in ws for v in w['data']]) if ws is not None else (1, 1.0)
    rows = sum(r.numel() for r in rec['R'])
    lim = 2.0 ** 52
    if spec['opt'] == 'GN':
        return rows * MW * MJ * gW * gJ < lim and rows * MW * MR * gW * gR < lim
    M1 = rows * MJ * MW                      # bound on |J^T W|
    bitsA = rows * M1 * MJ * gJ * gJ * gW      # bound on |A_ii| / grid
    mult = 1.0
    for e in rec['solves']:
        lam = e['damping']
        mult *= (1.0 + lam) * Fraction(lam).denominator
    return bitsA * mult < lim and rows * M1 * MR * gJ * gW * gR < lim


def tolerances(spec):
    exact = spec['exact']
    multi = (spec.get('entry') or 'step') != 'step' and spec.get('sched_steps', 1) > 1      # earlier steps of the same scheduler call
    exactA = exact and not multi     # the judged (last) step starts from the result of an earlier solve: J, R are generic floats there
    exactP = exact and spec.get('script') is not None and all(p['kind'] != 'G' for p in spec['params']) and not spec.get('warm') and not multi
    return ((0, 0) if exactA else (REL, None)), ((0, 0) if exactP else (REL, REL))


# =============================================================================================
#  weight expansion alone
# =============================================================================================
def wexp_cases(rng, n):
    cases = []
    # every documented shape for every residual rank up to 4, d = 1..3
    for batch in [[], [2], [3], [2, 2], [2, 3], [3, 1, 2], [2, 2, 2]]:
        for d in (1, 2, 3):
            for m in range(len(batch) + 1):
                cases.append((batch + [d], batch[len(batch) - m:] + [d, d]))
    # undocumented shapes the code accepts or rejects
    cases += [([2, 3, 1], [3, 1]), ([2, 3, 1], [1]), ([2, 3, 1], [2, 3, 1]), ([4, 1], [4]), ([2, 1], [1, 1, 1]),
              ([3, 2], [2, 2, 2]), ([2, 2], [3]), ([2, 3], [3]), ([6], [2, 3])]
    while len(cases) < n:
        batch = [rng.randint(1, 3) for _ in range(rng.randint(0, 3))]
        d = rng.randint(1, 3)
        m = rng.randint(0, len(batch))
        cases.append((batch + [d], batch[len(batch) - m:] + [d, d]))
    return cases


def wexp_run(pp, torch, rshape, wshape, wdata, expand=False):
    from pypose.optim.optimizer import RobustModel
    rm = RobustModel(torch.nn.Identity())
    n = 1
    for s in rshape:
        n *= s
    r = torch.zeros(rshape, dtype=torch.float64)
    w = torch.tensor(wdata, dtype=torch.float64).reshape(wshape)
    if expand and len(wshape) >= 3:
        w = w[0].expand(wshape)            # stride 0 in the leading batch dimension (wdata repeats its first block)
    try:
        _, wd, _ = rm.normalize_RWJ([r], [w], [torch.zeros(n, 1, dtype=torch.float64)])
        return [[float(v) for v in row] for row in wd.tolist()]
    except Exception:
        return None


def wexp_oracle(pp, torch, rshape, wshape, wdata, expand=False):
    """documented shapes only: the block-diagonal weight equals the broadcast weight"""
    d = rshape[-1]
    batch = rshape[:-1]
    m = len(wshape) - 2
    if m < 0 or wshape[-2:] != [d, d] or wshape[:-2] != batch[len(batch) - m:]:
        return None
    got = wexp_run(pp, torch, rshape, wshape, wdata, expand)
    w = torch.tensor(wdata, dtype=torch.float64).reshape(wshape)
    full = w.expand(tuple(batch) + (d, d)).reshape(-1, d, d)
    exp = torch.block_diag(*[full[t] for t in range(full.shape[0])]).tolist()
    if got != exp:
        return 'weight-expansion: residual shape %r, weight shape %r: normalize_RWJ %s, the broadcast weight is %r' % (
            rshape, wshape, 'raised' if got is None else 'built %r' % got, exp)
    return None


# =============================================================================================
#  run / replay
# =============================================================================================
REGRESSION_SPECS = [
    # witnesses of the repaired frozen-parameter defect (a845d9f): residual linear in (a, c) with c frozen,
    # both parameter orders and both optimizers
    dict(kind='step', opt=o, exact=True, cseed=7, vectorize=False, target=False, single_out=True,
         params=[dict(kind='E', g=0, shape=[2], data=[1.0, 2.0], req=(order == 0), feat='raw'),
                 dict(kind='E', g=0, shape=[1], data=[3.0], req=(order == 1), feat='raw')],
         res=[dict(shape=[3], nl='none')], **({'strategy': ('Constant', 0.5), 'lam0': 0.5, 'reject': 1} if o == 'LM' else {}))
    for o in ('GN', 'LM') for order in (0, 1)]


def _spd(d, k):
    return [[(2.0 + k if i == j else 0.5) for j in range(d)] for i in range(d)]


# witnesses of the repaired expanded-weight defect (f84fc28: normalize_RWJ used w.view, which raised RuntimeError for a weight
# of the documented shape B*N*d*d with stride 0 in B): residual (2,2,3), weight W.expand(2,2,3,3) with W of shape (2,3,3),
# given at construction / at step(), both optimizers; also stride 0 in every batch dimension
REGRESSION_SPECS += [
    dict(kind='step', opt=o, exact=True, cseed=11, vectorize=False, target=False, single_out=True, regression_key='normalize_RWJ:expanded-weight',
         params=[dict(kind='E', g=0, shape=[3], data=[1.0, -0.5, 0.25], req=True, feat='raw')], res=[dict(shape=[2, 2, 3], nl='none')],
         w_layout=lay, **{where: [dict(shape=[2, 2, 3, 3], data=([v for k in range(2) for row in _spd(3, 0 if lay == 'expand_all' else k) for v in row] * 2))]},
         **({'strategy': ('Constant', 0.5), 'lam0': 0.5, 'reject': 1} if o == 'LM' else {}))
    for o in ('GN', 'LM') for where in ('w_init', 'w_step') for lay in ('expand', 'expand_all')]


def directed_specs(rng, thorough):
    specs = []
    # every kind alone and every pair, GN and LM, exact and real
    kindsets = [['E'], ['A'], ['G'], ['E', 'A'], ['E', 'G'], ['A', 'G'], ['G', 'E'], ['E', 'A', 'G'], ['G', 'A', 'E']]
    for ks in kindsets:
        for opt in ('GN', 'LM'):
            for exact in (True, False):
                specs.append(gen_spec(rng, opt=opt, exact=exact, kinds=ks))
    # every documented weight shape for every residual rank
    for rshape in ([2], [2, 2], [3, 1], [2, 2, 2], [2, 3, 1], [1, 2, 3]):
        for m in range(len(rshape)):
            for opt in ('GN', 'LM'):
                specs.append(gen_spec(rng, opt=opt, exact=True, rshape=rshape, wm=m, wmode=rng.choice(['init', 'step', 'both']), nres=rng.choice([1, 2])))
    # correctors / kernels
    for cm in ('kernel', 'kernel-list', 'user', 'user-list', 'both'):
        for opt in ('GN', 'LM'):
            for exact in (True, False):
                specs.append(gen_spec(rng, opt=opt, exact=exact, cmode=cm, nres=2))
    # lists with a None entry on two-residual models: every position, kernels and user correctors that really act
    for opt in ('GN', 'LM'):
        for pos in (0, 1):
            for exact in (True, False):
                sp = gen_spec(rng, opt=opt, exact=exact, cmode='kernel-list', nres=2, warm=False)
                k = ('Scale', 0.25) if exact else rng.choice([('Huber', 0.25), ('Cauchy', 0.5), ('PseudoHuber', 0.5)])
                sp['kernel'] = [k, k]
                sp['kernel'][pos] = None
                specs.append(sp)
            sp = gen_spec(rng, opt=opt, exact=(pos == 0), cmode='user-list', nres=2, warm=False)
            sp['corrector'] = [('Scale', 0.5), ('Scale', 0.5)]
            sp['corrector'][pos] = None
            specs.append(sp)
    # every optional constructor argument of every solver (and the optimizers' own default solver), on systems with several columns
    for opt in ('LM', 'GN'):
        for sname in ([None, 'Cholesky', 'PINV', 'LSTSQ', 'CG'] if opt == 'LM' else [None, 'PINV', 'LSTSQ']):
            for sargs in solver_arg_choices(opt, sname):
                if sargs or sname is None:
                    specs.append(gen_spec(rng, opt=opt, exact=False, smode='real', solver=sname, solver_args=sargs,
                                          kinds=rng.choice([['E', 'G'], ['A', 'E'], ['G'], ['E', 'E']])))
    # every form of `input` and of the step() call, first and second call on the object
    for k, form in enumerate(['tensor', 'tuple', 'list', 'dict']):
        for j, cf in enumerate(['pos', 'kw', 'pos3']):
            specs.append(gen_spec(rng, opt=('GN', 'LM')[(k + j) % 2], inp_form=form, call_form=cf, warm=bool((k + j) % 3 == 0)))
    # documented equivalent entry points: the same step through scheduler.optimize / the scheduler loop, weight absent / at
    # construction / at the call / both, target on and off, budget of 1 and 2 optimizer steps, first and second use of the optimizer
    k = 0
    for opt in ('GN', 'LM'):
        for entry in ('optimize', 'loop'):
            for wmode in ('step', 'both', 'init', 'none'):
                for n in (1, 2):
                    if entry == 'loop' and wmode in ('init', 'none') and n == 1:
                        continue
                    k += 1
                    sp = gen_spec(rng, opt=opt, exact=bool(k % 2), entry=entry, wmode=wmode, sched_steps=n, warm=bool(k % 5 == 0),
                                  call_form=['pos', 'kw', 'pos3'][k % 3], **({'strategy': 'Constant'} if (opt == 'LM' and k % 2) else {}))
                    sp['target'] = bool((k // 2) % 2)
                    specs.append(sp)
    # LM: clamps, strategies, scripted rejections
    for cl in ('off', 'min', 'max', 'both'):
        for st in (None, 'Constant', 'Adaptive', 'TrustRegion'):
            specs.append(gen_spec(rng, opt='LM', exact=True, clamp=cl, strategy=st, smode='script'))
            specs.append(gen_spec(rng, opt='LM', exact=False, clamp=cl, strategy=st, smode='real'))
    return specs


def run_specs(ctx, pp, torch, specs, tag):
    metas, lits = [], []
    for spec in specs:
        try:
            rec = execute(pp, torch, spec)
        except Exception as e:     # building the model / modjac failed: generator problem, not a finding
            ctx.notes.append('skipped spec (%s: %s)' % (type(e).__name__, str(e)[:100]))
            continue
        frozen = any(not p['req'] for p in spec['params'])
        if rec.get('later_step_starts_nonfinite'):
            ctx.count('later-step-starts-nonfinite-skipped')    # see execute(): outside the quantifier, nothing to compare
            continue
        ntrials = len(rec['solves'])
        allv = [v for e in rec['solves'] for t in (e['A'], e['b'], e['D']) for v in tolist(t)] + [v for snap in [rec['final']] + (rec['after'] or []) for q in snap for v in q]
        if not all(math.isfinite(v) for v in allv):
            ctx.count('nonfinite-skipped')      # overflow in Exp of a huge step etc.: nothing to compare exactly
            continue
        nz = any(any(v != 0.0 for v in tolist(e['D'])) for e in rec['solves'])
        kinds = ''.join(p['kind'] for p in spec['params'])
        ctx.evaluations += max(0, ntrials - 1)
        ctx.case(json.dumps(spec, sort_keys=True, default=str), nontrivial=nz, branch='%s-%s' % (spec['opt'], 'exact' if spec['exact'] else 'real'),
                 sample=(dict(spec=spec, trials=ntrials) if len(ctx.samples) < 2 else None))
        ctx.count('kinds-' + kinds)
        ctx.count('trials-%d' % ntrials)
        ctx.count('weight-' + ('none' if (spec.get('w_init') is None and spec.get('w_step') is None) else
                               ('both' if (spec.get('w_init') and spec.get('w_step')) else ('init' if spec.get('w_init') else 'step'))))
        ctx.count('corr-' + ('auto' if (spec.get('kernel') and not spec.get('corrector')) else ('user' if spec.get('corrector') else 'trivial')))
        ctx.count('solver-' + ('script' if spec.get('script') is not None else str(spec.get('solver')) +
                               ''.join('/%s=%s' % kv for kv in sorted((spec.get('solver_args') or {}).items()))))
        ctx.count('input-%s/call-%s%s' % (spec.get('inp_form', 'tensor'), spec.get('call_form', 'pos'), '/second-call' if spec.get('warm') else ''))
        if (spec.get('entry') or 'step') != 'step':
            ctx.count('entry-scheduler.%s/steps=%d/weight-%s' % (spec['entry'], spec.get('sched_steps', 1),
                                                                ('both' if (spec.get('w_init') and spec.get('w_step')) else ('init' if spec.get('w_init') else ('step' if spec.get('w_step') else 'none')))))
        if spec.get('regression_key'):
            ctx.count('regression-' + spec['regression_key'])
        if (spec.get('w_init') or spec.get('w_step')) and spec.get('w_layout'):
            ctx.count('weight-layout-' + spec['w_layout'])
        if spec.get('layout'):
            ctx.count('strided-parameters-targets')
        if any(x is None for x in (spec.get('kernel') or []) + (spec.get('corrector') or [])) and len(spec['res']) > 1:
            ctx.count('list-with-None-on-two-residuals')
        if spec['opt'] == 'LM':
            ctx.count('strategy-' + str((spec.get('strategy') or ['default'])[0]))
            ctx.count('clamp-' + ('min' if 'min' in spec and spec['min'] >= 0.5 else '') + ('max' if 'max' in spec and spec['max'] <= 64 else ''))
            rej = sum(1 for k in range(ntrials - 1)) if ntrials else 0
            ctx.count('rejected-trials', rej)
        if frozen:
            ctx.count('frozen')
        ctx.traces += 1
        # property oracle on every case
        try:
            why = oracle(pp, torch, spec, rec)
        except Exception as e:
            why = None
            ctx.notes.append('oracle error %s: %s' % (type(e).__name__, str(e)[:200]))
        if why:
            ctx.violation(spec.get('regression_key') or viol_key(spec, why), why, spec)
        tolA, tolP = tolerances(spec)
        if tolA[1] == 0 and not exact_guard(spec, rec):
            ctx.count('exact-guard-fallback')
            tolA = (REL, None)
        if tolA[1] is None:
            mx = max([abs(v) for e in rec['solves'] for v in tolist(e['A']) + tolist(e['b'])] + [1.0])
            tolA = (REL, Fraction(mx) / 2 ** 44)
        if tolP[1]:
            mp_ = max([abs(v) for snap in [rec['P0'], rec['final']] + [e['before'] for e in rec['solves']] + (rec['after'] or []) for q in snap for v in q] + [1.0])
            tolP = (REL, Fraction(mp_) / 2 ** 40)
        i = len(metas)
        metas.append(spec)
        lits.append(case_lit(pp, torch, i, spec, rec, tolA, tolP))
    files = [('%s_%03d' % (tag, si), HDR + 'Eval vm_compute in optim_bad %s.\n' % coq_list(sh)) for si, sh in enumerate(shard(lits, 12))]
    res = run_case_files('C07', files, timeout=900)
    codes = {1: 'raise-disagreement', 2: 'A', 3: 'b', 4: 'parameters-after-update', 5: 'parameters-after-undo'}
    for name, (rc, out) in sorted(res.items()):
        ev = parse_evals(out)
        if rc != 0 or len(ev) != 1:
            ctx.obligation_broken('correspondence-file:' + name, out[-1500:])
            continue
        l = parse_nat_list(ev[0])
        for i, code in zip(l[0::2], l[1::2]):
            ctx.mismatch('step-' + codes.get(code, str(code)), metas[i], detail='model and implementation disagree on ' + codes.get(code, str(code)))


def run(ctx):
    pp = import_pypose()
    import torch
    ctx.rule = RULE
    rng = ctx.rng
    # ---------------------------------------------------------------- weight expansion on every documented shape
    wmetas, wlits = [], []
    for rshape, wshape in wexp_cases(rng, ctx.scale(120, 1200)):
        n = 1
        for s in wshape:
            n *= s
        wdata = [dy(rng, 4, 4) for _ in range(n)]
        # every third weight with a batch dimension is stored expanded (stride 0 in the leading dimension)
        expand = len(wshape) >= 3 and wshape[0] > 1 and len(wmetas) % 3 == 0
        if expand:
            wdata = wdata[:n // wshape[0]] * wshape[0]
        out = wexp_run(pp, torch, rshape, wshape, wdata, expand)
        ctx.case(('wexp', tuple(rshape), tuple(wshape), tuple(wdata), expand), branch='weight-expansion' + ('-expanded-storage' if expand else '') + ('' if out is not None else '-raises'))
        c = dict(kind='wexp', rshape=rshape, wshape=wshape, wdata=wdata, expand=expand)
        why = wexp_oracle(pp, torch, rshape, wshape, wdata, expand)
        if why:
            ctx.violation('normalize_RWJ:expanded-weight' if expand else 'normalize_RWJ:weight-expansion', why, c)
        wmetas.append(c)
        wlits.append('(%s, %s, %s, %s)' % (nat(len(wmetas) - 1), natl(rshape), tens_lit(wshape, wdata), opt_lit(out, mat_lit)))
    wfiles = [('wexp_%03d' % si, HDR + 'Eval vm_compute in wexp_bad %s.\n' % coq_list(sh)) for si, sh in enumerate(shard(wlits, 60))]
    for name, (rc, out) in sorted(run_case_files('C07', wfiles, timeout=600).items()):
        ev = parse_evals(out)
        if rc != 0 or len(ev) != 1:
            ctx.obligation_broken('correspondence-file:' + name, out[-1500:])
            continue
        base = int(name.split('_')[1]) * 0
        for i in parse_nat_list(ev[0]):
            ctx.mismatch('weight-expansion', wmetas[i])
    # ---------------------------------------------------------------- steps: directed, frozen, random
    specs = [json.loads(json.dumps(sp)) for sp in REGRESSION_SPECS] + directed_specs(rng, ctx.thorough)
    # frozen parameters: every position, all kinds, exact and real
    for opt in ('GN', 'LM'):
        for ks in (['E', 'E'], ['G', 'E'], ['E', 'A', 'G']):
            for fr in range(len(ks)):
                for ex in (True, False):
                    s = gen_spec(rng, opt=opt, exact=ex, kinds=ks, smode=rng.choice(['real', 'script']) if ex else 'real')
                    s['params'][fr]['req'] = False
                    if s.get('script') is not None:      # one entry per trainable parameter element
                        nt = sum(len(p['data']) for p in s['params'] if p['req'])
                        s['script'] = [d[:nt] for d in s['script']]
                    specs.append(s)
    # random frozen flags
    for _ in range(ctx.scale(10, 200)):
        s = gen_spec(rng, smode='real')
        if len(s['params']) > 1:
            s['params'][rng.randrange(len(s['params']))]['req'] = False
        specs.append(s)
    for _ in range(ctx.scale(70, 1500)):
        specs.append(gen_spec(rng))
    run_specs(ctx, pp, torch, specs, 'step')
    # ---------------------------------------------------------------- search around the mismatches
    for m in ctx.mismatches[:40]:
        c = m['case']
        why = replay(ctx, c)
        if why:
            m['explained'] = True
            key = (('normalize_RWJ:expanded-weight' if c.get('expand') else 'normalize_RWJ:weight-expansion') if c.get('kind') == 'wexp'
                   else (c.get('regression_key') or viol_key(c, why)))
            ctx.violation(key, why, c)
            if key in ctx.known:
                continue
        elif c.get('kind') == 'step':
            # neighbours: same structure, other data / solver / strategy
            r2 = random.Random(c['cseed'])
            for _ in range(20):
                s2 = json.loads(json.dumps(c))
                s2['cseed'] = r2.randrange(10 ** 9)
                s2['vectorize'] = not s2['vectorize'] if r2.random() < 0.5 else s2['vectorize']
                if s2.get('script') is None:
                    s2['exact'] = False
                try:
                    why = oracle(pp, torch, s2)
                except Exception:
                    why = None
                if why:
                    m['explained'] = True
                    ctx.violation(viol_key(s2, why), why, s2)
                    break


def replay(ctx, case):
    pp = import_pypose()
    import torch
    if case.get('kind') == 'wexp':
        return wexp_oracle(pp, torch, case['rshape'], case['wshape'], case['wdata'], case.get('expand', False))
    if case.get('kind') == 'step':
        spec = json.loads(json.dumps(case))
        # tuples became lists in JSON
        for k in ('strategy',):
            if spec.get(k) is not None:
                spec[k] = tuple(spec[k])
        if spec.get('kernel') is not None:
            spec['kernel'] = [None if k is None else tuple(k) for k in spec['kernel']]
        if spec.get('corrector') is not None:
            spec['corrector'] = [None if c is None else ((c[0], tuple(c[1])) if isinstance(c[1], list) else tuple(c)) for c in spec['corrector']]
        return oracle(pp, torch, spec)
    return None
