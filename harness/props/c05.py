"""C05 correspondence: Retr / + / add_ / Jinvp / Jr vs Model/LieTangent.v, Model/LieJac.v, Adj / AdjT vs Model/LieGroup.v
(g_adj) (interval route; exact comparison for the algebra addition), and the defining identities evaluated on the
implementation for every generated case (oracles written from the property text): X@Exp(a) = Exp(Adj(X,a))@X, Exp(a)@X = X@Exp(AdjT(X,a)), Retr = + = Exp(a)@X,
Jinvp = first-order change of Log(Exp(tau)@X), Exp(x+d) = Exp(x)@Exp(Jr d) + o(|d|)."""
import math
from ..common import *
from ..lie import *
from .c01 import K_EPS, K_SQRT, direction, gen_x, regime

K_JAC = 1024
RULE = ('(group, op, X, a) with X a valid group element (unit quaternion up to rounding; generic, no rotation, exact half turn, identity, '
        'w < 0) and a from the C01 block generator (zero, tiny, around eps, O(1), large; single-block tangents: only scale / only translation / '
        'only rotation); ops Retr, +, add_ (with extra trailing components), Adj, AdjT, algebra +, Jinvp (both dtypes), Jr; every case is judged '
        'by an oracle on the implementation (identities as transformations; Adj/AdjT = vee(T a^ T^-1) / vee(T^-1 a^ T) in rational arithmetic; '
        'Jinvp = (sum_n ad^n/(n+1)!)^-1 p at an independent Log X, Sim3 within the documented truncation) and tied to the model; batches: '
        'broadcastable shape pairs x memory layouts, item by item against single-element calls; judged calls are second calls on their object; '
        'arguments snapshotted; carriers: X / a held by pp.Parameter, deepcopy / copy / pickle / torch.save / state_dict twins, judged item by item by the oracles; non-trivial = a != 0; distinct by value; tolerances 256 eps (rotation/scale, Adj), 64 sqrt(eps) (translation block), '
        'Jinvp oracle (1024 + 16 (1 + |t|) / theta^2) eps, at most 64 sqrt(eps)')


def tol_group(g, out, eps):
    se = math.sqrt(eps)
    t, q, s = split_elt(g, out)
    if g == 'SO3':
        return [(i, K_EPS * eps) for i in range(4)]
    if g == 'RxSO3':
        return [(i, K_EPS * eps) for i in range(4)] + [(4, K_EPS * eps * abs(out[4]))]
    tn = max(max(abs(v) for v in out[:3]), 1e-300)
    c = [(i, K_SQRT * se * tn) for i in range(3)] + [(3 + i, K_EPS * eps) for i in range(4)]
    if g == 'Sim3':
        c.append((7, K_EPS * eps * abs(out[7])))
    return c


def laws(pp, torch, g, X, a, dtype, tail=()):
    """the defining identities on the implementation; returns description of the first failure"""
    eps = float(torch.finfo(dtype).eps)
    Xg = pp.LieTensor(torch.tensor(X, dtype=dtype), ltype=getattr(pp, g + '_type'))
    al = pp.LieTensor(torch.tensor(a, dtype=dtype), ltype=getattr(pp, ALGS[GROUPS.index(g)] + '_type'))

    def close(A, B, what):
        A, B = A.tensor(), B.tensor()
        # compare as transformations: quaternion sign is irrelevant
        if g in ('SO3', 'RxSO3'):
            qa, qb = A[..., :4], B[..., :4]
        else:
            qa, qb = A[..., 3:7], B[..., 3:7]
        sgn = 1.0 if float((qa * qb).sum()) >= 0 else -1.0
        dq = float((qa - sgn * qb).abs().max())
        tn = 0.0
        dt = 0.0
        if g in ('SE3', 'Sim3'):
            tn = float(max(A[..., :3].abs().max(), B[..., :3].abs().max()))
            dt = float((A[..., :3] - B[..., :3]).abs().max())
        ds = float((A[..., -1] - B[..., -1]).abs()) / max(1e-300, float(A[..., -1].abs())) if g in ('RxSO3', 'Sim3') else 0.0
        big = float(max(1.0, al.tensor().abs().max(), tn))
        if dq > 8 * K_EPS * eps * big or ds > 8 * K_EPS * eps * big or dt > 8 * K_SQRT * math.sqrt(eps) * max(tn, 1e-300) * big:
            return '%s: quaternion diff %.3g, translation diff %.3g (|t| %.3g), scale rel diff %.3g' % (what, dq, dt, tn, ds)
        return None
    for why in (close(Xg @ al.Exp(), Xg.Adj(al).Exp() @ Xg, 'X@Exp(a) != Exp(Adj(X,a))@X'),
                close(al.Exp() @ Xg, Xg @ Xg.AdjT(al).Exp(), 'Exp(a)@X != X@Exp(AdjT(X,a))'),
                close(Xg.Retr(al), al.Exp() @ Xg, 'Retr(X,a) != Exp(a)@X'),
                close(Xg + al, al.Exp() @ Xg, 'X + a != Exp(a)@X')):
        if why:
            return why
    if tail:
        # components beyond the manifold dimension are ignored by +, pp.add and add_
        wide = torch.tensor(list(a) + list(tail), dtype=dtype)
        ref = al.Exp() @ Xg
        Xc = pp.LieTensor(torch.tensor(X, dtype=dtype), ltype=getattr(pp, g + '_type'))
        for why in (close(Xg + wide, ref, 'X + (a ++ %d extra components) != Exp(a)@X' % len(tail)),
                    close(pp.add(Xg, wide), ref, 'pp.add(X, a ++ extra) != Exp(a)@X'),
                    close(Xc.add_(wide), ref, 'X.add_(a ++ extra) != Exp(a)@X')):
            if why:
                return why
    return None


# ---------------------------------------------------------------------------------------------------------------
# independent references written from the property text (textbook matrix representation, no pypose, no Coq model)
def _hat(g, a):
    """a^ : the generator matrix of the algebra element (3x3 for so3, 4x4 [[Phi + sigma I, tau], [0, 0]] otherwise)"""
    a = list(a)
    if g == 'SO3':
        tau, phi, sg = [0, 0, 0], a, 0
    elif g == 'SE3':
        tau, phi, sg = a[:3], a[3:6], 0
    elif g == 'RxSO3':
        tau, phi, sg = [0, 0, 0], a[:3], a[3]
    else:
        tau, phi, sg = a[:3], a[3:6], a[6]
    K = [[sg, -phi[2], phi[1]], [phi[2], sg, -phi[0]], [-phi[1], phi[0], sg]]
    if g == 'SO3':
        return K
    return [K[i] + [tau[i]] for i in range(3)] + [[0, 0, 0, 0]]


def _mm(A, B):
    n = len(A)
    return [[sum(A[i][k] * B[k][j] for k in range(n)) for j in range(n)] for i in range(n)]


def adj_ref(g, X, a, transposed):
    """Adj(X, a) = vee(T a^ T^-1), AdjT(X, a) = vee(T^-1 a^ T)  with T the matrix of X - exactly the statements
    X Exp(a) X^-1 = Exp(Adj(X, a)) and X^-1 Exp(a) X = Exp(AdjT(X, a)) differentiated; rational arithmetic.
    Returns (reference as floats, magnitude bound of the summed terms)."""
    Xf = [Fraction(v) for v in X]
    af = [Fraction(v) for v in a]
    n = 3 if g == 'SO3' else 4
    sq = lambda flat: [list(flat[i * n:(i + 1) * n]) for i in range(n)]
    T, Ti = sq(ref_matrix(g, Xf)), sq(ref_matrix(g, ref_inv(g, Xf)))
    if transposed:
        T, Ti = Ti, T
    H = _hat(g, af)
    M = _mm(_mm(T, H), Ti)
    ab = lambda A: [[abs(v) for v in r] for r in A]
    B = _mm(_mm(ab(T), ab(H)), ab(Ti))
    phi = [(M[2][1] - M[1][2]) / 2, (M[0][2] - M[2][0]) / 2, (M[1][0] - M[0][1]) / 2]
    sg = (M[0][0] + M[1][1] + M[2][2]) / 3
    tau = [M[i][3] for i in range(3)] if n == 4 else []
    out = {'SO3': phi, 'SE3': tau + phi, 'RxSO3': phi + [sg], 'Sim3': tau + phi + [sg]}[g]
    return [float(v) for v in out], float(max(max(r) for r in B))


def adj_oracle(g, X, a, got, transposed, eps, ref=None):
    """description of the failure of Adj / AdjT against adj_ref, or None"""
    ref, big = ref or adj_ref(g, X, a, transposed)
    tol = K_EPS * eps * big
    bad = [(j, got[j], ref[j]) for j in range(len(ref)) if not abs(got[j] - ref[j]) <= tol]
    if len(got) != len(ref) or bad:
        nm = 'AdjT' if transposed else 'Adj'
        st = 'X^-1 a^ X' if transposed else 'X a^ X^-1'
        return ('%s %s(X, a) is not the algebra element of %s (the first-order form of %s): components (index, got, expected) %s, tolerance %.3g'
                % (g, nm, st, 'Exp(a)@X = X@Exp(AdjT(X,a))' if transposed else 'X@Exp(a) = Exp(Adj(X,a))@X', bad[:4], tol))
    return None


def guarded(f):
    """a crash of an oracle call on the implementation is itself a reportable outcome"""
    try:
        return f()
    except Exception as e:
        return 'raised %r' % (e,)


def _np():
    import numpy
    return numpy


def log_ref(g, X):
    """Log X from the definition: X = [[e^sigma Exp(phi), W tau], [0, 1]], W = sum_n (Phi + sigma I)^n / (n+1)!"""
    np = _np()
    t, q, s = split_elt(g, X)
    v, w = np.array(q[:3], dtype=float), float(q[3])
    if w < 0:
        v, w = -v, -w
    n = float(np.linalg.norm(v))
    phi = v * (2 * math.atan2(n, w) / n) if n > 1e-300 else 2 * v / w
    sg = math.log(s) if g in ('RxSO3', 'Sim3') else 0.0
    if g == 'SO3':
        return list(phi)
    if g == 'RxSO3':
        return list(phi) + [sg]
    A = np.array([[sg, -phi[2], phi[1]], [phi[2], sg, -phi[0]], [-phi[1], phi[0], sg]])
    W, term = np.zeros((3, 3)), np.eye(3)
    for k in range(120):
        W = W + term
        term = term @ A / (k + 2)
    tau = np.linalg.solve(W, np.array(t, dtype=float))
    return list(tau) + list(phi) + ([sg] if g == 'Sim3' else [])


def ad_ref(g, xi):
    """ad(xi): matrix of y -> [xi, y] in the coordinates (tau, phi, sigma)"""
    np = _np()
    sk = lambda p: np.array([[0, -p[2], p[1]], [p[2], 0, -p[0]], [-p[1], p[0], 0]], dtype=float)
    xi = [float(v) for v in xi]
    if g == 'SO3':
        return sk(xi)
    if g == 'RxSO3':
        A = np.zeros((4, 4))
        A[:3, :3] = sk(xi[:3])
        return A
    k = 6 if g == 'SE3' else 7
    A = np.zeros((k, k))
    sg = xi[6] if g == 'Sim3' else 0.0
    A[:3, :3] = sk(xi[3:6]) + sg * np.eye(3)
    A[:3, 3:6] = sk(xi[:3])
    A[3:6, 3:6] = sk(xi[3:6])
    if g == 'Sim3':
        A[:3, 6] = -np.array(xi[:3])
    return A


def bernoulli_tail(r):
    """sum_{n >= 6} |B_n| / n! r^n = 1 - (r/2) cot(r/2) - r^2/12 - r^4/720 for r < 2 pi: bound of what the documented
    truncation (B_0 .. B_4) of the series of the inverse left Jacobian drops"""
    import mpmath as mp
    if r >= 2 * math.pi * 0.98:
        return float('inf')
    if r == 0:
        return 0.0
    with mp.workdps(60):
        x = mp.mpf(r)
        return float(1 - (x / 2) * mp.cot(x / 2) - x ** 2 / 12 - x ** 4 / 720)


def jinvp_oracle(g, X, p, got, eps):
    """Jinvp(X, p) against (i) the inverse of the left Jacobian Jl = sum_n ad^n / (n+1)! at Log X applied to p - for Sim3
    within the bound of the documented truncation - and (ii) for Sim3 the documented series sum_{n<=4} (-1)^n B_n / n! ad^n.
    Returns a description of the failure or None."""
    np = _np()
    xi = log_ref(g, X)
    A = ad_ref(g, xi)
    k = A.shape[0]
    J, term, tmax = np.zeros((k, k)), np.eye(k), 1.0
    for n in range(150):
        J = J + term
        term = term @ A / (n + 2)
        tmax = max(tmax, float(np.abs(term).max()))
    pv = np.array(p, dtype=float)
    exact = np.linalg.solve(J, pv)
    gv = np.array(got, dtype=float)
    sc = max(1.0, float(np.abs(exact).max()), float(np.abs(gv).max()))
    # rounding allowance: K_JAC eps, plus what the cancelling closed-form coefficients of calcQ / Ws^-1 cost when the
    # rotation angle theta (or the log-scale of Sim3) is small but non-zero: (theta^2 + 2 cos theta - 2) / (2 theta^4)
    # carries an absolute error eps / theta^4 and multiplies terms of size theta^2 |t|, i.e. eps |t| / theta^2; capped by
    # the tie's K_SQRT sqrt(eps); plus the rounding of this float64 reference itself
    t_, q_, s_ = split_elt(g, X)
    vn = math.sqrt(sum(float(v) ** 2 for v in q_[:3]))
    z = 2 * math.atan2(vn, abs(float(q_[3])))
    if g == 'Sim3' and float(s_) != 1.0:
        z = min(z, abs(math.log(float(s_)))) if z > 0 else abs(math.log(float(s_)))
    tn = max(abs(float(v)) for v in t_)
    cancel = 16 * (1 + tn) / (z * z) if z > 0 else 0.0
    rnd = min(K_SQRT * math.sqrt(eps), (K_JAC + cancel) * eps) * sc + 64 * 2.0 ** -52 * tmax * k * sc
    r = float(np.linalg.norm(A, 2))
    if g == 'Sim3':
        A2 = A @ A
        doc = (np.eye(k) - A / 2 + A2 / 12 - A2 @ A2 / 720) @ pv
        d = float(np.abs(gv - doc).max())
        rnd_doc = rnd * max(1.0, r ** 4 / 720)
        if not d <= rnd_doc:
            return ('Sim3 Jinvp differs from the documented series (I - ad/2 + ad^2/12 - ad^4/720)(Log X) p by %.3g (rounding allowance %.3g), |ad(Log X)|_2 = %.3g: got %s, expected %s'
                    % (d, rnd_doc, r, [float(v) for v in gv], [float(v) for v in doc]))
        pn = float(np.linalg.norm(pv))
        allow = (bernoulli_tail(r) * pn if pn > 0 else 0.0) + rnd_doc
    else:
        allow = rnd
    d = float(np.abs(gv - exact).max())
    if not d <= allow:
        return ('%s Jinvp differs from Jl(Log X)^-1 p (Jl = sum_n ad^n/(n+1)!) by %.3g, allowed %.3g%s: got %s, expected %s'
                % (g, d, allow, ' (documented truncation bound + rounding)' if g == 'Sim3' else '', [float(v) for v in gv], [float(v) for v in exact]))
    return None


# out-of-place X + a / pp.add / X.add where X's batch shape is smaller than the broadcast shape raised before /repo 455c8c1
# (clone().add_() wrote into X's own shape); regression witnesses are replayed on every run under this key
ADD_BROADCAST_KEY = 'add-broadcast:out-of-place-add-raises-when-X-must-expand'
BATCH_OPS = ('Adj', 'AdjT', 'Retr', 'add', 'X.add', 'pp.add', 'Jinvp')
BATCH_SHAPES = [((2, 1), (1, 3)), ((3,), (3,)), ((1,), (4,)), ((2, 2), (2,)), ((), (3,)), ((3,), ()), ((2, 1), (3,)), ((0,), (0,)), ((0, 1), (1, 2))]
LAYOUTS = ('contiguous', 'strided', 'expanded', 'transposed')


def _layout(torch, rows, shape, width, dtype, layout):
    """tensor of the given batch shape holding rows (row-major) in the requested memory layout; 'expanded' repeats
    row 0 along every batch dimension with stride 0 (so the values differ from `rows`: the caller re-reads them)"""
    n = 1
    for d in shape:
        n *= d
    base = torch.tensor(rows, dtype=dtype).reshape(shape + (width,)) if n else torch.zeros(shape + (width,), dtype=dtype)
    if layout == 'strided':
        buf = torch.full(shape + (2 * width,), 7.5, dtype=dtype)
        v = buf[..., ::2]
        v.copy_(base)
        return v
    if layout == 'expanded' and n:
        return base.reshape(-1, width)[0].expand(shape + (width,))
    if layout == 'transposed' and len(shape) >= 2:
        perm = list(range(len(shape)))
        perm[0], perm[1] = perm[1], perm[0]
        return base.permute(*perm, len(shape)).contiguous().permute(*perm, len(shape))
    return base


def alg_add_check(pp, torch, g, dname, Xrows, arows, bx, ba, layout):
    """algebra element (batch shape bx; values: the first manifold-dimension entries of the X rows) + / .add / pp.add of a
    plain tensor (batch shape ba, one extra trailing component): exactly the vector sum of the first k components, item by item"""
    dtype = torch.float64 if dname == 'float64' else torch.float32
    alg = ALGS[GROUPS.index(g)]
    k = ADIM[g]
    at = getattr(pp, alg + '_type')
    xt = _layout(torch, [r[:k] for r in Xrows], tuple(bx), k, dtype, layout)
    ot = _layout(torch, [list(r) + [3.25] for r in arows], tuple(ba), k + 1, dtype, layout)
    x0, o0 = xt.clone(), ot.clone()
    bs = tuple(torch.broadcast_shapes(tuple(bx), tuple(ba)))
    exp = x0.broadcast_to(bs + (k,)) + o0.broadcast_to(bs + (k + 1,))[..., :k]       # one rounding per entry, as the definition
    for form, f in (('x + t', lambda x, o: x + o), ('x.add(t)', lambda x, o: x.add(o)), ('pp.add(x, t)', lambda x, o: pp.add(x, o))):
        what = '%s %s %s on batch shapes %s x %s (%s)' % (alg, dname, form, tuple(bx), tuple(ba), layout)
        try:
            out = f(pp.LieTensor(xt, ltype=at), ot)
        except Exception as e:
            return '%s raised %r' % (what, e)
        if not (torch.equal(xt, x0) and torch.equal(ot, o0)):
            return '%s changed one of its arguments' % what
        if tuple(out.shape) != bs + (k,) or getattr(out, 'ltype', None) != at:
            return '%s returned shape %s / ltype %s, expected %s / %s' % (what, tuple(out.shape), getattr(out, 'ltype', None), bs + (k,), at)
        if not torch.equal(out.tensor(), exp):
            return '%s is not the sum of the first %d components: x = %s, t = %s, got %s' % (what, k, x0.tolist(), o0.tolist(), out.tensor().tolist())
    return None


def batch_check(pp, torch, g, dname, op, Xrows, arows, bx, ba, layout):
    """op on broadcastable batches (given layouts) item by item against op on the single elements; the single-element
    result is additionally judged by the oracle of its op.  Returns a description of the first failure or None."""
    dtype = torch.float64 if dname == 'float64' else torch.float32
    eps = float(torch.finfo(dtype).eps)
    alg = ALGS[GROUPS.index(g)]
    gt, at = getattr(pp, g + '_type'), getattr(pp, alg + '_type')
    if op == 'alg+':
        return alg_add_check(pp, torch, g, dname, Xrows, arows, bx, ba, layout)
    Xt, at_ = _layout(torch, Xrows, tuple(bx), GDIM[g], dtype, layout), _layout(torch, arows, tuple(ba), ADIM[g], dtype, layout)
    bs = tuple(torch.broadcast_shapes(tuple(bx), tuple(ba)))
    Xb, ab = pp.LieTensor(Xt, ltype=gt), pp.LieTensor(at_, ltype=at)
    X0, a0 = Xt.clone(), at_.clone()
    wide = lambda a: torch.cat([a.tensor(), torch.full(a.shape[:-1] + (1,), 3.25, dtype=a.dtype)], dim=-1)
    f = {'Adj': lambda X, a: X.Adj(a), 'AdjT': lambda X, a: X.AdjT(a), 'Retr': lambda X, a: X.Retr(a), 'add': lambda X, a: X + a,
         'X.add': lambda X, a: X.add(a.tensor()), 'pp.add': lambda X, a: pp.add(X, wide(a)), 'Jinvp': lambda X, a: X.Jinvp(a)}[op]
    what = '%s %s %s on batch shapes %s x %s (%s)' % (g, dname, op, tuple(bx), tuple(ba), layout)
    try:
        out = f(Xb, ab)
    except Exception as e:
        return '%s raised %r' % (what, e)
    if not (torch.equal(Xt, X0) and torch.equal(at_, a0)):
        return '%s changed one of its arguments' % what
    width = ADIM[g] if op in ('Adj', 'AdjT', 'Jinvp') else GDIM[g]
    want_type = at if op in ('Adj', 'AdjT', 'Jinvp') else gt
    if tuple(out.shape) != bs + (width,) or getattr(out, 'ltype', None) != want_type:
        return '%s returned shape %s / ltype %s, expected %s / %s' % (what, tuple(out.shape), getattr(out, 'ltype', None), bs + (width,), want_type)
    Xf = X0.broadcast_to(bs + (GDIM[g],)).reshape(-1, GDIM[g])
    af = a0.broadcast_to(bs + (ADIM[g],)).reshape(-1, ADIM[g])
    of = out.tensor().reshape(-1, width)
    for j in range(Xf.shape[0]):
        Xs, as_ = pp.LieTensor(Xf[j].clone(), ltype=gt), pp.LieTensor(af[j].clone(), ltype=at)
        single = f(Xs, as_).tensor()
        Xl, al = [float(v) for v in Xf[j].tolist()], [float(v) for v in af[j].tolist()]
        got = [float(v) for v in of[j].tolist()]
        sc = max(1.0, float(single.abs().max()))
        d = float((single - of[j]).abs().max())
        if not d <= 64 * eps * sc:
            why = None
            if op in ('Adj', 'AdjT'):
                why = adj_oracle(g, Xl, al, got, op == 'AdjT', eps)
            elif op == 'Jinvp':
                why = jinvp_oracle(g, Xl, al, got, eps)
            return ('%s: item %d (X = %s, a = %s) is %s, the same call on the single elements gives %s (difference %.3g)%s'
                    % (what, j, Xl, al, got, [float(v) for v in single.tolist()], d, ('; ' + why) if why else ''))
        if op in ('Adj', 'AdjT'):
            why = adj_oracle(g, Xl, al, got, op == 'AdjT', eps)
        elif op == 'Jinvp':
            why = jinvp_oracle(g, Xl, al, got, eps)
        else:
            why = laws(pp, torch, g, Xl, al, dtype, tail=(3.25,) if op == 'pp.add' else ())
        if why:
            return '%s: item %d: %s' % (what, j, why)
    return None


# ---------------------------------------------------------------------------------------------------------------
# carriers: the property quantifies over group / algebra ELEMENTS, not over how the object holding one was obtained.
# The same values held by a pp.Parameter, by copies (copy.deepcopy of a Parameter, of a module / list / ParameterList
# holding one, of a plain LieTensor, copy.copy), by serialisation twins (pickle, torch.save / load of a plain LieTensor,
# state_dict round trip) or by a Parameter overwritten in place must satisfy the same identities, as the X operand and
# as the a operand.  Every result is judged by an oracle written from the property text (matrix exponential / rational
# conjugation / Jacobian series) - never against another pypose call.
def retr_oracle(g, X, a, got, eps):
    """got (raw group data) against Exp(a) @ X as matrices: expm(a^) T(X) = T(got); returns a description or None"""
    np = _np()
    n = 3 if g == 'SO3' else 4
    if len(got) != GDIM[g] or any(not math.isfinite(v) for v in got):
        return 'result %s is not a finite %s element (%d components expected)' % (got, g, GDIM[g])
    H = np.array(_hat(g, [float(v) for v in a]), dtype=float).reshape(n, n)
    E, term = np.zeros((n, n)), np.eye(n)
    for k in range(1, 120):
        E = E + term
        term = term @ H / k
    T = np.array(ref_matrix(g, [float(v) for v in X]), dtype=float).reshape(n, n)
    G = np.array(ref_matrix(g, [float(v) for v in got]), dtype=float).reshape(n, n)
    R = E @ T
    big = max(1.0, float(np.abs(R).max()), float(np.abs(H).max()), float((np.abs(E) @ np.abs(T)).max()))
    d = float(np.abs(G - R).max())
    tol = 8 * K_EPS * eps * big
    if not d <= tol:
        return ('the matrix of the result differs from expm(a^) @ matrix(X) by %.3g (tolerance %.3g): got element %s, its matrix %s, expected matrix %s'
                % (d, tol, got, [round(float(v), 6) for v in G.reshape(-1)], [round(float(v), 6) for v in R.reshape(-1)]))
    return None


def jr_oracle(x, got, eps):
    """Jr(x) against the series of the right Jacobian sum_n (-x^)^n / (n+1)!  (Exp(x+d) = Exp(x) Exp(Jr(x) d) + o(|d|);
    identity at x = 0); returns a description or None"""
    np = _np()
    x = [float(v) for v in x]
    K = np.array(_hat('SO3', x), dtype=float)
    J, term = np.zeros((3, 3)), np.eye(3)
    for k in range(120):
        J = J + term
        term = term @ (-K) / (k + 2)
    if len(got) != 9 or any(not math.isfinite(v) for v in got):
        return 'Jr returned %s, not a finite 3x3 matrix' % (got,)
    th = math.sqrt(sum(v * v for v in x))
    if th == 0.0:
        return None if list(got) == [1.0, 0.0, 0.0, 0.0, 1.0, 0.0, 0.0, 0.0, 1.0] else 'Jr(0) = %s is not the identity' % (got,)
    # below the threshold the code returns I (deviation <= |x|, proved); the closed-form coefficients cancel like eps / theta
    tol = K_EPS * eps * max(1.0, 1.0 / th) + (th if th <= 8 * eps else 0.0)
    d = float(np.abs(np.array(got, dtype=float).reshape(3, 3) - J).max())
    if not d <= tol:
        return 'Jr(%s) differs from sum_n (-x^)^n/(n+1)! by %.3g (tolerance %.3g): got %s, expected %s' % (x, d, tol, list(got), [float(v) for v in J.reshape(-1)])
    return None


CARRIERS = ('pp.Parameter(L)', 'copy.deepcopy(pp.Parameter(L))', 'copy.deepcopy(module holding pp.Parameter(L)).pose', 'copy.deepcopy([pp.Parameter(L), L])[0]',
            'copy.deepcopy(nn.ParameterList([pp.Parameter(L)]))[0]', 'copy.deepcopy(copy.deepcopy(pp.Parameter(L)))',
            'copy.deepcopy(P) of a pp.Parameter P overwritten in place by P.copy_(L)', 'module.load_state_dict(module holding pp.Parameter(L).state_dict()).pose',
            'pp.Parameter(copy.deepcopy(L))', 'copy.deepcopy(L)', 'copy.copy(L)', 'pickle.loads(pickle.dumps(L))', 'torch.load(torch.save(L))',
            'copy.deepcopy(L.clone().requires_grad_())', 'pp.Parameter(L).detach()', 'pp.Parameter(L).clone()')
# Observations outside the quantifier (C05 speaks about group elements and tangent vectors, not about serialising Parameters);
# seen on the unchanged tree, reported to the maintainer of this framework, NOT judged:
#  - pickle.loads(pickle.dumps(P)), copy.copy(P) and torch.load(torch.save(P)) of a pp.Parameter P return a bare nn.Parameter
#    (nn.Parameter.__reduce_ex__ is not overridden), which is not a LieTensor any more: not in the list;
#  - copy.deepcopy of a plain LieTensor that requires grad returns an object on which every op raises RuntimeError ('A view was
#    created in no_grad mode ...') while autograd is recording: that carrier is judged under torch.no_grad() only.
CARRIER_NO_GRAD_ONLY = ('copy.deepcopy(L.clone().requires_grad_())',)
CARRIER_OPS = {'X': ('+', '+wide', 'pp.add', 'Retr', 'Adj', 'AdjT', 'Jinvp', 'add_', 'Jr'), 'a': ('+', 'Retr', 'Adj', 'AdjT', 'Jinvp', 'alg+', 'Jr')}


def make_carrier(pp, torch, name, L):
    """the object `name` describes, built from the plain LieTensor L (which is left untouched)"""
    import copy, pickle, io
    nn = torch.nn

    class Holder(nn.Module):
        def __init__(self, V):
            super().__init__()
            self.lin = nn.Linear(2, 2)
            self.pose = pp.Parameter(V)

    if name == 'pp.Parameter(L)':
        return pp.Parameter(L)
    if name == 'copy.deepcopy(pp.Parameter(L))':
        return copy.deepcopy(pp.Parameter(L))
    if name == 'copy.deepcopy(module holding pp.Parameter(L)).pose':
        return copy.deepcopy(Holder(L)).pose
    if name == 'copy.deepcopy([pp.Parameter(L), L])[0]':
        return copy.deepcopy([pp.Parameter(L), L])[0]
    if name == 'copy.deepcopy(nn.ParameterList([pp.Parameter(L)]))[0]':
        return copy.deepcopy(nn.ParameterList([pp.Parameter(L)]))[0]
    if name == 'copy.deepcopy(copy.deepcopy(pp.Parameter(L)))':
        return copy.deepcopy(copy.deepcopy(pp.Parameter(L)))
    if name == 'copy.deepcopy(P) of a pp.Parameter P overwritten in place by P.copy_(L)':
        P = pp.Parameter(pp.LieTensor(L.tensor().flip(0).clone() if L.dim() > 1 else L.tensor().clone(), ltype=L.ltype))
        with torch.no_grad():
            P.copy_(L)
        return copy.deepcopy(P)
    if name == 'module.load_state_dict(module holding pp.Parameter(L).state_dict()).pose':
        m = Holder(pp.LieTensor(L.tensor().flip(0).clone() if L.dim() > 1 else L.tensor().clone(), ltype=L.ltype))
        m.load_state_dict(copy.deepcopy(Holder(L).state_dict()))
        return m.pose
    if name == 'pp.Parameter(copy.deepcopy(L))':
        return pp.Parameter(copy.deepcopy(L))
    if name == 'copy.deepcopy(L)':
        return copy.deepcopy(L)
    if name == 'copy.copy(L)':
        return copy.copy(L)
    if name == 'pickle.loads(pickle.dumps(L))':
        return pickle.loads(pickle.dumps(L))
    if name == 'torch.load(torch.save(L))':
        b = io.BytesIO()
        torch.save(L, b)
        b.seek(0)
        return torch.load(b, weights_only=False)
    if name == 'copy.deepcopy(L.clone().requires_grad_())':
        return copy.deepcopy(L.clone().requires_grad_())
    if name == 'pp.Parameter(L).detach()':
        return pp.Parameter(L).detach()
    if name == 'pp.Parameter(L).clone()':
        return pp.Parameter(L).clone()
    raise KeyError(name)


def carrier_check(pp, torch, g, dname, carrier, role, op, Xrows, arows, grad, form):
    """op with the X operand (role 'X') or the a operand (role 'a') held by `carrier`, the other operand a plain LieTensor;
    batches of len(Xrows) elements, every item judged by the oracle of its op.  grad: call with autograd recording on
    (Parameters require grad) or under torch.no_grad(); form: functional pp.op(X, a) or method X.op(a).
    Returns a description of the first failure or None."""
    dtype = torch.float64 if dname == 'float64' else torch.float32
    eps = float(torch.finfo(dtype).eps)
    alg = ALGS[GROUPS.index(g)]
    gt, at = getattr(pp, g + '_type'), getattr(pp, alg + '_type')
    raw = lambda t: torch.Tensor.as_subclass(t.detach(), torch.Tensor)
    X0, a0 = torch.tensor(Xrows, dtype=dtype), torch.tensor(arows, dtype=dtype)
    XL, aL = pp.LieTensor(X0.clone(), ltype=gt), pp.LieTensor(a0.clone(), ltype=at)
    grad = grad and carrier not in CARRIER_NO_GRAD_ONLY
    what = ('%s %s %s with the %s operand held as %s, L the plain LieTensor of its values (%s, %s)'
            % (g, dname, op, role, carrier, 'autograd on' if grad else 'no_grad', 'pp.f(X, a)' if form else 'X.f(a)'))
    try:
        Q = make_carrier(pp, torch, carrier, XL if role == 'X' else aL)
    except Exception as e:
        return '%s: building the operand raised %r' % (what, e)
    src = X0 if role == 'X' else a0
    if tuple(Q.shape) != tuple(src.shape) or not torch.equal(raw(Q), src):
        return '%s: the operand does not hold the values it was built from: %s vs %s' % (what, raw(Q).tolist(), src.tolist())
    if not (torch.equal(XL.tensor(), X0) and torch.equal(aL.tensor(), a0)):
        return '%s: building the operand changed the LieTensor it was built from' % what
    Xo, ao = (Q, aL) if role == 'X' else (XL, Q)
    wide = torch.cat([a0, torch.full(a0.shape[:-1] + (1,), 3.25, dtype=dtype)], dim=-1)
    w0 = wide.clone()

    def call():
        if op == '+':
            return Xo + ao
        if op == '+wide':
            return Xo + wide
        if op == 'pp.add':
            return pp.add(Xo, wide) if form else Xo.add(wide)
        if op == 'add_':
            with torch.no_grad():
                return Xo.add_(wide)
        if op == 'alg+':
            return pp.add(ao, wide) if form else ao + wide
        if op == 'Jr':
            T = Xo if role == 'X' else ao
            return pp.Jr(T) if form else T.Jr()
        return getattr(pp, op)(Xo, ao) if form else getattr(Xo, op)(ao)
    try:
        if grad:
            out = call()
        else:
            with torch.no_grad():
                out = call()
    except Exception as e:
        return '%s raised %r on X = %s, a = %s' % (what, e, Xrows, arows)
    if op == 'add_':
        if not torch.equal(raw(out), raw(Xo)):
            return '%s did not overwrite its input' % what
    elif not (torch.equal(raw(Xo), X0) and torch.equal(raw(ao), a0) and torch.equal(wide, w0)):
        return '%s changed one of its arguments' % what
    n = len(Xrows)
    if op == 'Jr':
        if not isinstance(out, torch.Tensor) or tuple(out.shape) != (n, 3, 3):
            return '%s returned %s of shape %s, expected a (%d, 3, 3) tensor' % (what, type(out).__name__, tuple(getattr(out, 'shape', ())), n)
    else:
        want, width = (at, ADIM[g]) if op in ('Adj', 'AdjT', 'Jinvp', 'alg+') else (gt, GDIM[g])
        lt = getattr(out, 'ltype', None)
        if not isinstance(out, pp.LieTensor) or type(lt) is not type(want) or tuple(out.shape) != (n, width):
            return ('%s returned a %s of shape %s with ltype %s, expected a %s LieTensor of shape %s; X = %s, a = %s, result %s'
                    % (what, type(out).__name__, tuple(getattr(out, 'shape', ())), type(lt).__name__, type(want).__name__, (n, width), Xrows, arows,
                       raw(out).tolist() if isinstance(out, torch.Tensor) else out))
    res = raw(out).reshape(n, -1).tolist()
    for j in range(n):
        Xl, al, got = [float(v) for v in Xrows[j]], [float(v) for v in arows[j]], [float(v) for v in res[j]]
        if op in ('+', '+wide', 'pp.add', 'Retr', 'add_'):
            why = retr_oracle(g, Xl, al, got, eps)
            why = why and ('%s is not Exp(a) @ X: %s' % (op, why))
        elif op in ('Adj', 'AdjT'):
            why = adj_oracle(g, Xl, al, got, op == 'AdjT', eps)
        elif op == 'Jinvp':
            why = jinvp_oracle(g, Xl, al, got, eps)
        elif op == 'Jr':
            why = jr_oracle(log_ref('SO3', Xl) if role == 'X' else al, got, eps)
        else:
            exp = (a0[j] + wide[j][:ADIM[g]]).tolist()
            why = None if got == exp else 'algebra + is not the vector sum of the first %d components: got %s, expected %s' % (ADIM[g], got, exp)
        if why:
            return '%s: item %d (X = %s, a = %s): %s' % (what, j, Xl, al, why)
    return None


def run(ctx):
    pp = import_pypose()
    import torch
    ctx.rule = RULE
    rng = ctx.rng
    import time
    t_start = time.time()
    stamp = lambda what: ctx.notes.append('time %s: %.1f s' % (what, time.time() - t_start))
    cases, meta = [], []
    kindsR = ['zero', 'tiny', 'eps', 'sqrteps', 'one', 'large']
    n_per = {'SO3': ctx.scale(240, 4000), 'SE3': ctx.scale(240, 4000), 'RxSO3': ctx.scale(180, 3000), 'Sim3': ctx.scale(240, 4000)}
    for g in GROUPS:
        alg = ALGS[GROUPS.index(g)]
        for t in range(n_per[g]):
            dname = 'float64' if (t % 4) else 'float32'
            dtype = torch.float64 if dname == 'float64' else torch.float32
            eps = float(torch.finfo(dtype).eps)
            X = [float(v) for v in torch.tensor(generic_elt(rng, g, torch, dtype), dtype=dtype).tolist()]
            kinds = (kindsR[t % 6], rng.choice(['zero', 'one', 'tiny']), rng.choice(['zero', 'one', 'tiny', 'sqrteps']))
            a = [float(v) for v in torch.tensor(gen_x(rng, alg, eps, kinds), dtype=dtype).tolist()]
            if alg in ('rxso3', 'sim3') and regime(a[-1], eps) == 'cancel' and alg == 'sim3':
                a[-1] = 0.0      # the sim3 small-|sigma| accuracy defect is C01's known finding, not re-reported here
            op = ['Retr', 'add', 'add_'][t % 3]
            Xg = pp.LieTensor(torch.tensor(X, dtype=dtype), ltype=getattr(pp, g + '_type'))
            al = pp.LieTensor(torch.tensor(a, dtype=dtype), ltype=getattr(pp, alg + '_type'))
            tail = [rng.uniform(-5, 5) for _ in range(rng.choice([0, 1, 2]))] if op != 'Retr' else []
            X0 = Xg.tensor().clone()
            try:
                if op == 'Retr':
                    out = Xg.Retr(al)
                elif op == 'add':
                    other = torch.tensor(a + tail, dtype=dtype)
                    out = Xg + other if t % 2 else Xg.add(other)
                else:
                    Xc = Xg.clone()
                    out = Xc.add_(torch.tensor(a + tail, dtype=dtype))
                    if not torch.equal(out.tensor(), Xc.tensor()):
                        ctx.violation('add_-not-inplace:%s' % g, 'add_ did not overwrite its input', dict(kind='grp', g=g, dtype=dname, X=X, a=a, op=op))
            except Exception as e:
                ctx.violation('tangent-raises:%s:%s' % (g, op), '%s raised %r' % (op, e), dict(kind='grp', g=g, dtype=dname, X=X, a=a, op=op))
                continue
            if op != 'add_' and not torch.equal(Xg.tensor(), X0):
                ctx.violation('mutates-input:%s:%s' % (g, op), '%s changed its group argument' % op, dict(kind='grp', g=g, dtype=dname, X=X, a=a, op=op))
            o = [float(v) for v in out.tensor().tolist()]
            i = len(meta)
            ctx.case((g, op, dname, tuple(X), tuple(a)), nontrivial=any(v != 0 for v in a), branch='%s-%s-%s' % (g, op, dname),
                     sample=dict(g=g, op=op, X=X, a=a, tail=tail, impl=o) if i % 37 == 3 else None)
            meta.append(dict(kind='grp', g=g, dtype=dname, X=X, a=a, op=op, tail=tail, impl=o))
            # the defining identities, evaluated on the implementation for EVERY case (not only after a disagreement with the model)
            why = guarded(lambda: laws(pp, torch, g, X, a, dtype, tail=tail))
            if why:
                ctx.violation('tangent-identity:%s:%s' % (g, op), '%s %s: %s' % (g, dname, why), meta[-1])
            epsl = 'E64' if dname == 'float64' else 'E32'
            fn = 'retr_l' if op == 'Retr' else 'add_group_l'
            cases.append(dict(idx=i, expr='%s (NF:=@NF@) (TF:=TransIv) %s %d %s %s' % (fn, epsl, GID[g], ivlist(X), ivlist(a + tail)), comps=[(j, o[j], tl) for j, tl in tol_group(g, o, eps)]))
    # ---- Adj / AdjT: tied to the model (g_adj) on their own, judged on every case by the matrix form of their defining
    #      identities (adj_ref) and by the identities evaluated as transformations (laws); every judged call is the second
    #      call on its object (after a call with another tangent vector); arguments must stay untouched
    adj_cases = []
    for g in GROUPS:
        alg = ALGS[GROUPS.index(g)]
        gt, at = getattr(pp, g + '_type'), getattr(pp, alg + '_type')
        prev = {}
        for t in range(ctx.scale(84, 1500)):
            dname = 'float64' if (t % 3) else 'float32'
            dtype = torch.float64 if dname == 'float64' else torch.float32
            eps = float(torch.finfo(dtype).eps)
            X = generic_elt(rng, g, torch, dtype)
            tt, qq, ss = split_elt(g, X)
            if t % 8 == 1:
                X = join_elt(g, tt, [0.0, 0.0, 0.0, 1.0], ss)                      # no rotation
            elif t % 8 == 3:
                X = join_elt(g, tt, direction(rng) + [0.0], ss)                    # exact half turn (w = 0)
            elif t % 8 == 5:
                X = join_elt(g, [0.0, 0.0, 0.0], [0.0, 0.0, 0.0, 1.0], 1.0)        # the identity element
            elif t % 8 == 7:
                X = join_elt(g, tt, [-v for v in qq], ss)                          # the other quaternion of the same rotation
            X = [float(v) for v in torch.tensor(X, dtype=dtype).tolist()]
            if t % 7 == 0:
                kinds = ('zero', 'zero', 'one')          # only the scale component (zero for the algebras without one)
            elif t % 7 == 1:
                kinds = ('zero', 'one', 'zero')          # only the translation component
            elif t % 7 == 2:
                kinds = ('one', 'zero', 'zero')          # only the rotation component
            else:
                kinds = (kindsR[t % 6], rng.choice(['zero', 'one', 'tiny', 'large']), rng.choice(['zero', 'one', 'tiny', 'sqrteps', 'large']))
            a = [float(v) for v in torch.tensor(gen_x(rng, alg, eps, kinds), dtype=dtype).tolist()]
            if alg == 'sim3' and regime(a[-1], eps) == 'cancel':
                a[-1] = 0.0      # C01's known finding (sim3 Exp at tiny log-scale) would enter through laws()
            Xg = pp.LieTensor(torch.tensor(X, dtype=dtype), ltype=gt)
            al = pp.LieTensor(torch.tensor(a, dtype=dtype), ltype=at)
            X0, a0 = Xg.tensor().clone(), al.tensor().clone()
            for name in ('Adj', 'AdjT'):
                tr = name == 'AdjT'
                c = dict(kind='adj', g=g, dtype=dname, X=X, a=a, op=name)
                try:
                    if dname in prev:
                        getattr(Xg, name)(prev[dname])
                    o = [float(v) for v in getattr(Xg, name)(al).tensor().tolist()]
                except Exception as e:
                    ctx.violation('tangent-raises:%s:%s' % (g, name), '%s raised %r' % (name, e), c)
                    continue
                if not (torch.equal(Xg.tensor(), X0) and torch.equal(al.tensor(), a0)):
                    ctx.violation('mutation:%s:%s' % (g, name), '%s changed one of its arguments' % name, c)
                    Xg, al = pp.LieTensor(X0.clone(), ltype=gt), pp.LieTensor(a0.clone(), ltype=at)
                c['impl'] = o
                i = len(meta)
                meta.append(c)
                ctx.case((g, name, dname, tuple(X), tuple(a)), nontrivial=any(v != 0 for v in a), branch='%s-%s-%s' % (g, name, dname),
                         sample=dict(g=g, op=name, X=X, a=a, impl=o) if i % 97 == 5 else None)
                if len(o) != ADIM[g] or any(not math.isfinite(v) for v in o):
                    ctx.violation('adj-identity:%s:%s' % (g, name), '%s %s(X, a) = %s is not a finite %s element' % (g, name, o, alg), c)
                    continue
                ref, big = adj_ref(g, X, a, tr)
                why = adj_oracle(g, X, a, o, tr, eps, ref=(ref, big))
                if why:
                    ctx.violation('adj-identity:%s:%s' % (g, name), '%s: %s' % (dname, why), c)
                if t % 16 < 8 or why:        # the oracle judges every case, the model is evaluated on every second block of 8
                    adj_cases.append(dict(idx=i, expr='g_adj (NF:=@NF@) %d %s %s %s' % (GID[g], 'true' if tr else 'false', ivlist(X), ivlist(a)),
                                          comps=[(j, o[j], max(K_EPS * eps * big, 2.0 ** -120)) for j in range(len(o))]))
            if max(abs(v) for v in a) <= 30.0:
                why = guarded(lambda: laws(pp, torch, g, X, a, dtype))
                if why:
                    ctx.violation('tangent-identity:%s:Adj' % g, '%s %s: %s' % (g, dname, why), dict(kind='grp', g=g, dtype=dname, X=X, a=a, op='Adj', tail=[]))
            prev[dname] = al
    # ---- Jinvp (both dtypes): tied to the model; judged on every case against the inverse of the left Jacobian
    #      (series definition) at an independently computed Log X - for Sim3 within the documented truncation
    for g in GROUPS:
        at = getattr(pp, ALGS[GROUPS.index(g)] + '_type')
        prev = {}
        for t in range(ctx.scale(80, 1500)):
            dname = 'float32' if t % 8 == 7 or t % 8 == 4 else 'float64'
            dtype = torch.float64 if dname == 'float64' else torch.float32
            eps = float(torch.finfo(dtype).eps)
            X = [float(v) for v in torch.tensor(generic_elt(rng, g, torch, dtype), dtype=dtype).tolist()]
            if t % 4 == 1:
                # rotation exactly the identity, translation / scale generic: the small-angle branches
                tt, qq, ss = split_elt(g, X)
                X = join_elt(g, tt, [0.0, 0.0, 0.0, 1.0], ss)
            elif t % 4 == 2:
                tt, qq, ss = split_elt(g, X)
                h = 1e-5     # small but not in the zone eps < theta <= 1e-7 where calcQ's closed forms cancel (C04 known finding)
                X = [float(v) for v in torch.tensor(join_elt(g, tt, [h * 0.6, -h * 0.8, 0.0, 1.0], ss), dtype=dtype).tolist()]
            elif t % 16 == 3:
                tt, qq, ss = split_elt(g, X)
                X = join_elt(g, [0.0, 0.0, 0.0], [0.0, 0.0, 0.0, 1.0], 1.0)        # the identity element: Jinvp(I, p) = p
            elif t % 16 == 11:
                tt, qq, ss = split_elt(g, X)
                X = join_elt(g, tt, [-v for v in qq], ss)                          # w < 0 hemisphere of the same rotation
            p = [rng.uniform(-2, 2) if t % 5 else 0.0 for _ in range(ADIM[g])]
            if t % 9 == 4:
                p = [v if j == t % ADIM[g] else 0.0 for j, v in enumerate(p)]      # a single component
            p = [float(v) for v in torch.tensor(p, dtype=dtype).tolist()]
            Xg = pp.LieTensor(torch.tensor(X, dtype=dtype), ltype=getattr(pp, g + '_type'))
            pl = pp.LieTensor(torch.tensor(p, dtype=dtype), ltype=at)
            X0, p0 = Xg.tensor().clone(), pl.tensor().clone()
            c = dict(kind='jinvp', g=g, dtype=dname, X=X, a=p, op='Jinvp')
            try:
                if dname in prev:
                    Xg.Jinvp(prev[dname])
                o = [float(v) for v in Xg.Jinvp(pl).tensor().tolist()]
            except Exception as e:
                ctx.violation('tangent-raises:%s:Jinvp' % g, 'Jinvp raised %r' % (e,), c)
                continue
            prev[dname] = pl
            if not (torch.equal(Xg.tensor(), X0) and torch.equal(pl.tensor(), p0)):
                ctx.violation('mutation:%s:Jinvp' % g, 'Jinvp changed one of its arguments', c)
            if any(not math.isfinite(v) for v in o):
                ctx.violation('jinvp-nonfinite:%s' % g, 'Jinvp returned a non-finite value %s' % o, c)
                continue
            i = len(meta)
            ctx.case((g, 'Jinvp', dname, tuple(X), tuple(p)), branch='%s-Jinvp-%s' % (g, dname))
            c['impl'] = o
            meta.append(c)
            why = jinvp_oracle(g, X, p, o, eps)
            if why:
                ctx.violation('jinvp-identity:%s' % g, '%s: %s' % (dname, why), c)
            sc = max(1.0, max(abs(v) for v in o))
            epsl = 'E64' if dname == 'float64' else 'E32'
            cases.append(dict(idx=i, expr='jinvp (NF:=@NF@) (TF:=TransIv) %s %d %s %s' % (epsl, GID[g], ivlist(X), ivlist(p)), comps=[(j, o[j], K_SQRT * math.sqrt(eps) * sc) for j in range(len(o))]))
    for t in range(ctx.scale(120, 2000)):
        dtype, eps = torch.float64, 2.0 ** -52
        kind = kindsR[t % 6]
        x = [float(v) for v in torch.tensor(gen_x(rng, 'so3', eps, (kind, 'zero', 'zero')), dtype=dtype).tolist()]
        J = pp.so3(torch.tensor(x, dtype=dtype)).Jr()
        o = [float(v) for v in J.reshape(-1).tolist()]
        if any(not math.isfinite(v) for v in o):
            ctx.violation('jr-nonfinite', 'so3 Jr(%s) contains NaN/Inf: %s' % (x, o), dict(kind='jr', g='SO3', dtype='float64', X=x, a=[], op='Jr'))
            continue
        i = len(meta)
        ctx.case(('so3', 'Jr', tuple(x)), nontrivial=any(v != 0 for v in x), branch='so3-Jr-' + kind)
        meta.append(dict(kind='jr', g='SO3', dtype='float64', X=x, a=[], op='Jr', impl=o))
        # 1-cos(theta) cancels in floats for tiny theta: coefficient error eps/theta^2 times |K| = theta
        th = math.sqrt(sum(v * v for v in x))
        tol = K_EPS * eps * max(1.0, (1.0 / th if th > eps else 1.0))
        cases.append(dict(idx=i, expr='concat (so3_Jr (NF:=@NF@) (TF:=TransIv) E64 %s)' % ivlist(x), comps=[(j, o[j], tol) for j in range(9)]))
    stamp('generation + oracles')
    r = run_interval('C05', 'Model.LieGroup Model.LieExp Model.LieLog Model.LieJac Model.LieTangent', cases)
    stamp('interval tie (tangent ops)')
    r2 = run_interval('C05', 'Model.LieGroup', adj_cases, per_file=max(100, (len(adj_cases) + 2) // 3), tag='adj')
    stamp('interval tie (Adj/AdjT)')
    r = dict((k, sorted(r[k] + r2[k]) if k != 'broken' else r[k] + r2[k]) for k in r)
    cases = cases + adj_cases
    for name, out in r['broken']:
        ctx.obligation_broken('correspondence-file:' + name, out)
    ctx.notes.append('enclosure: %d proved within tolerance, %d proved outside, %d undecided' % (len(r['ok']), len(set(i for i, _ in r['bad'])), len(r['undecided'])))
    if len(r['undecided']) > max(5, len(cases) // 15):
        ctx.obligation_broken('enclosure-undecided', '%d of %d cases undecided, e.g. %s' % (len(r['undecided']), len(cases), [meta[i] for i in r['undecided'][:3]]))
    ctx.traces = len(r['ok'])
    # ---- algebra addition: exact (vector addition of the first k components, tail ignored)
    for g in GROUPS:
        alg = ALGS[GROUPS.index(g)]
        for t in range(ctx.scale(20, 200)):
            k = ADIM[g]
            x = [dy(rng, 6, 4.0) for _ in range(k)]
            other = [dy(rng, 6, 4.0) for _ in range(k + rng.choice([0, 0, 1, 3]))]
            xl = pp.LieTensor(torch.tensor(x, dtype=torch.float64), ltype=getattr(pp, alg + '_type'))
            out = (xl + torch.tensor(other, dtype=torch.float64))
            exp = [Fraction(a) + Fraction(b) for a, b in zip(x, other[:k])]
            ctx.case((alg, 'add', tuple(x), tuple(other)), branch='%s-add' % alg)
            if fr(out.tensor()) != exp or out.ltype != xl.ltype:
                ctx.violation('algebra-add:%s' % alg, '%s + tensor is not plain addition of the first %d components: %s + %s -> %s' % (alg, k, x, other, out.tensor().tolist()),
                              dict(kind='algadd', g=g, x=x, other=other))
    # ---- regression witnesses of the out-of-place add defect (X must be expanded to the joint batch shape)
    for g in GROUPS:
        for bx, ba in (((2, 1), (1, 3)), ((), (3,))):
            for dname in ('float64', 'float32'):
                dtype = torch.float64 if dname == 'float64' else torch.float32
                Xrows = [[float(v) for v in torch.tensor(generic_elt(rng, g, torch, dtype), dtype=dtype).tolist()] for _ in range(int(torch.Size(bx).numel()))]
                arows = [[float(v) for v in torch.tensor([rng.uniform(-1, 1) for _ in range(ADIM[g])], dtype=dtype).tolist()] for _ in range(int(torch.Size(ba).numel()))]
                for op in ('add', 'X.add', 'pp.add', 'alg+'):
                    ctx.case((g, 'add-broadcast', op, dname, bx), branch='add-broadcast-witness')
                    why = guarded(lambda: batch_check(pp, torch, g, dname, op, Xrows, arows, bx, ba, 'contiguous'))
                    if why:
                        ctx.violation(ADD_BROADCAST_KEY, why, dict(kind='batch', g=g, dtype=dname, op=op, X=Xrows, a=arows, bx=list(bx), ba=list(ba), layout='contiguous'))
    # ---- broadcastable batch shapes and memory layouts, special elements (identity, zero tangent, single-component
    #      tangents, half turn) mixed with generic ones; item by item against the single-element calls
    for g in GROUPS:
        alg = ALGS[GROUPS.index(g)]
        for t0 in range(ctx.scale(12, 120)):
            t = t0 + 5 * GROUPS.index(g)         # the groups walk through different (shapes, layout, dtype) combinations
            dname = 'float64' if t % 2 == 0 else 'float32'
            dtype = torch.float64 if dname == 'float64' else torch.float32
            bx, ba = BATCH_SHAPES[t % len(BATCH_SHAPES)]
            if t % 4 == 3:
                bx, ba = ba, bx
            layout = LAYOUTS[(t // 2) % len(LAYOUTS)]
            nx, na = int(torch.Size(bx).numel()), int(torch.Size(ba).numel())
            Xrows, arows = [], []
            for j in range(nx):
                X = generic_elt(rng, g, torch, dtype)
                tt, qq, ss = split_elt(g, X)
                sp = (t + j) % 4
                X = [X, join_elt(g, [0.0] * 3, [0.0, 0.0, 0.0, 1.0], 1.0), join_elt(g, tt, [0.0, 0.0, 0.0, 1.0], ss), X][sp]
                Xrows.append([float(v) for v in torch.tensor(X, dtype=dtype).tolist()])
            for j in range(na):
                a = [rng.uniform(-1.5, 1.5) for _ in range(ADIM[g])]
                sp = (t + 2 * j) % 5
                if sp == 1:
                    a = [0.0] * ADIM[g]
                elif sp == 2:
                    a = [0.0] * (ADIM[g] - 1) + [a[-1]]                    # last component only (the scale for rxso3 / sim3)
                elif sp == 3:
                    a = [a[0]] + [0.0] * (ADIM[g] - 1)                    # first component only
                arows.append([float(v) for v in torch.tensor(a, dtype=dtype).tolist()])
            for op in BATCH_OPS + ('alg+',):
                ctx.case((g, 'batch', op, dname, t), branch='%s-batch-%s' % (g, layout))
                why = guarded(lambda: batch_check(pp, torch, g, dname, op, Xrows, arows, bx, ba, layout))
                if why:
                    ctx.violation('batch:%s:%s' % (g, op), why, dict(kind='batch', g=g, dtype=dname, op=op, X=Xrows, a=arows, bx=list(bx), ba=list(ba), layout=layout))
    # ---- histories on ONE object: an op result must depend on the CURRENT value of X only (no state kept on the
    #      LieTensor across calls): op(X), modify X in place, op(X) again == op(fresh copy of X)
    for g in GROUPS:
        alg = ALGS[GROUPS.index(g)]
        at = getattr(pp, alg + '_type')
        for t in range(ctx.scale(6, 40)):
            dtype = torch.float64 if t % 2 == 0 else torch.float32
            dname = 'float64' if t % 2 == 0 else 'float32'
            Xg = pp.LieTensor(torch.tensor([generic_elt(rng, g, torch, dtype), generic_elt(rng, g, torch, dtype)], dtype=dtype), ltype=getattr(pp, g + '_type'))
            a = pp.LieTensor(torch.tensor([[rng.uniform(-1, 1) for _ in range(ADIM[g])] for _ in range(2)], dtype=dtype), ltype=at)
            d = torch.tensor([[rng.uniform(-1, 1) for _ in range(ADIM[g])] for _ in range(2)], dtype=dtype)
            how = ['add_', 'setitem', 'copy_'][t % 3]
            ops = {'Adj': lambda X: X.Adj(a).tensor(), 'AdjT': lambda X: X.AdjT(a).tensor(), 'Jinvp': lambda X: X.Jinvp(a).tensor(),
                   'Retr': lambda X: X.Retr(a).tensor(), 'add': lambda X: (X + a).tensor(), 'matrix': lambda X: X.matrix(), 'Log': lambda X: X.Log().tensor()}
            for name, f in ops.items():
                f(Xg)
            if how == 'add_':
                Xg.add_(d)
            elif how == 'setitem':
                Xg[1] = pp.LieTensor(torch.tensor(generic_elt(rng, g, torch, dtype), dtype=dtype), ltype=getattr(pp, g + '_type'))
            else:
                Xg.copy_(pp.LieTensor(torch.tensor([generic_elt(rng, g, torch, dtype), generic_elt(rng, g, torch, dtype)], dtype=dtype), ltype=getattr(pp, g + '_type')))
            fresh = pp.LieTensor(Xg.tensor().clone(), ltype=getattr(pp, g + '_type'))
            ctx.case((g, 'stale', how, t), branch='%s-history-%s' % (g, how))
            for name, f in ops.items():
                r1, r2 = f(Xg), f(fresh)
                if not torch.equal(r1, r2):
                    X1, a1 = [float(v) for v in Xg.tensor()[1].tolist()], [float(v) for v in a.tensor()[1].tolist()]
                    why = laws(pp, torch, g, X1, a1, dtype) or ''
                    ctx.violation('stale-state:%s:%s' % (g, name), '%s %s: after %s(X); X modified in place by %s; %s(X) differs from %s on a fresh LieTensor holding the same values by %.3g%s'
                                  % (g, dname, name, how, name, name, float((r1 - r2).abs().max()), ('; on the modified object: ' + why) if why else ''),
                                  dict(kind='stale', g=g, dtype=dname, how=how, op=name, X0=[[float(v) for v in r] for r in fresh.tensor().tolist()],
                                       a=[[float(v) for v in r] for r in a.tensor().tolist()], d=[[float(v) for v in r] for r in d.tolist()]))
                    break
    stamp('algebra +, batches, histories')
    # ---- carriers: the X operand / the a operand held by a pp.Parameter, by copies (deepcopy of a Parameter, of a module /
    #      list / ParameterList holding one, of a plain LieTensor), by serialisation twins, by a Parameter overwritten in
    #      place; batches of three elements (generic, identity / no rotation, w < 0) x (generic, zero / single component,
    #      generic); autograd recording on / off; functional and method call forms; every item judged by its oracle
    for gi, g in enumerate(GROUPS):
        for ci, carrier in enumerate(CARRIERS):
            for role in ('X', 'a'):
                for dname in (('float64', 'float32') if ctx.scale(0, 1) else (rng.choice(['float64', 'float64', 'float32']),)):
                    dtype = torch.float64 if dname == 'float64' else torch.float32
                    Xrows, arows = [], []
                    for j in range(3):
                        X = generic_elt(rng, g, torch, dtype)
                        tt, qq, ss = split_elt(g, X)
                        if j == 1:
                            X = join_elt(g, [0.0] * 3, [0.0, 0.0, 0.0, 1.0], 1.0) if (ci + gi) % 2 == 0 else join_elt(g, tt, [0.0, 0.0, 0.0, 1.0], ss)
                        elif j == 2:
                            X = join_elt(g, tt, [-v for v in qq] if qq[3] >= 0 else qq, ss)     # the w < 0 quaternion of the rotation
                        Xrows.append([float(v) for v in torch.tensor(X, dtype=dtype).tolist()])
                        a = [rng.uniform(-1.5, 1.5) for _ in range(ADIM[g])]
                        if j == 1:
                            sp = (ci + gi + (role == 'a')) % 3
                            a = [[0.0] * ADIM[g], [0.0] * (ADIM[g] - 1) + [a[-1]], [a[0]] + [0.0] * (ADIM[g] - 1)][sp]
                        arows.append([float(v) for v in torch.tensor(a, dtype=dtype).tolist()])
                    for op in CARRIER_OPS[role]:
                        if op == 'Jr' and g != 'SO3':
                            continue
                        grad, form = rng.random() < 0.5, rng.random() < 0.5
                        c = dict(kind='carrier', g=g, dtype=dname, carrier=carrier, role=role, op=op, X=Xrows, a=arows, grad=grad, form=form)
                        ctx.case((g, 'carrier', carrier, role, op, dname), branch='%s-carrier-%s-%s' % (g, role, op))
                        why = guarded(lambda: carrier_check(pp, torch, g, dname, carrier, role, op, Xrows, arows, grad, form))
                        if why:
                            ctx.violation('carrier:%s:%s' % (g, op), why, c)
    stamp('carriers (Parameter, copies, serialisation twins)')
    # ---- search
    for i in sorted(set(i for i, _ in r['bad'])):
        m = meta[i]
        mm = dict(family='%s:%s' % (m['op'], m['g']), case=m, detail='')
        ctx.mismatches.append(mm)
        why = replay(ctx, m)
        if why:
            mm['explained'] = True
            ctx.violation('tangent-identity:%s:%s' % (m['g'], m['op']), why, m)


def replay(ctx, c):
    pp = import_pypose()
    import torch
    dtype = torch.float64 if c.get('dtype', 'float64') == 'float64' else torch.float32
    if c['kind'] == 'grp':
        return laws(pp, torch, c['g'], c['X'], c['a'], dtype, tail=c.get('tail') or ())
    if c['kind'] == 'adj':
        eps = float(torch.finfo(dtype).eps)
        g, tr = c['g'], c['op'] == 'AdjT'
        Xg = pp.LieTensor(torch.tensor(c['X'], dtype=dtype), ltype=getattr(pp, g + '_type'))
        al = pp.LieTensor(torch.tensor(c['a'], dtype=dtype), ltype=getattr(pp, ALGS[GROUPS.index(g)] + '_type'))
        try:
            o = [float(v) for v in (Xg.AdjT(al) if tr else Xg.Adj(al)).tensor().tolist()]
        except Exception as e:
            return '%s raised %r' % (c['op'], e)
        if len(o) != ADIM[g] or any(not math.isfinite(v) for v in o):
            return '%s returned %s' % (c['op'], o)
        return adj_oracle(g, c['X'], c['a'], o, tr, eps) or (guarded(lambda: laws(pp, torch, g, c['X'], c['a'], dtype)) if max(abs(v) for v in c['a']) <= 30.0 else None)
    if c['kind'] == 'batch':
        return guarded(lambda: batch_check(pp, torch, c['g'], c['dtype'], c['op'], c['X'], c['a'], c['bx'], c['ba'], c['layout']))
    if c['kind'] == 'carrier':
        return guarded(lambda: carrier_check(pp, torch, c['g'], c['dtype'], c['carrier'], c['role'], c['op'], c['X'], c['a'], c['grad'], c['form']))
    if c['kind'] == 'algadd':
        alg = ALGS[GROUPS.index(c['g'])]
        k = ADIM[c['g']]
        xl = pp.LieTensor(torch.tensor(c['x'], dtype=torch.float64), ltype=getattr(pp, alg + '_type'))
        out = xl + torch.tensor(c['other'], dtype=torch.float64)
        return None if fr(out.tensor()) == [Fraction(a) + Fraction(b) for a, b in zip(c['x'], c['other'][:k])] else 'algebra + is not vector addition'
    if c['kind'] == 'jinvp':
        # Jinvp(X,p) = d/dtau Log(Exp(tau) X) in direction p  (finite differences on the implementation)
        g = c['g']
        Xg = pp.LieTensor(torch.tensor(c['X'], dtype=dtype), ltype=getattr(pp, g + '_type'))
        at = getattr(pp, ALGS[GROUPS.index(g)] + '_type')
        p = torch.tensor(c['a'], dtype=dtype)
        h = 1e-6 if dtype == torch.float64 else 1e-2
        fd = ((pp.LieTensor(h * p, ltype=at).Exp() @ Xg).Log().tensor() - (pp.LieTensor(-h * p, ltype=at).Exp() @ Xg).Log().tensor()) / (2 * h)
        got = Xg.Jinvp(pp.LieTensor(p, ltype=at)).tensor()
        why = jinvp_oracle(g, c['X'], c['a'], [float(v) for v in got.tolist()], float(torch.finfo(dtype).eps))
        if why:
            return why
        # the statement itself by central differences; Sim3: plus the bound of the documented truncation
        trunc = 0.0
        if g == 'Sim3':
            trunc = bernoulli_tail(float(_np().linalg.norm(ad_ref(g, log_ref(g, c['X'])), 2))) * float(p.norm())
            trunc = trunc if math.isfinite(trunc) and float(p.norm()) > 0 else (0.0 if float(p.norm()) == 0 else float('inf'))
        tol = (2e-5 if dtype == torch.float64 else 5e-2) * max(1.0, float(fd.abs().max())) + trunc
        d = float((fd - got).abs().max())
        return 'Jinvp differs from the first-order change of Log(Exp(tau)@X) by %.3g (tolerance %.3g)' % (d, tol) if d > tol else None
    if c['kind'] == 'stale':
        g = c['g']
        at = getattr(pp, ALGS[GROUPS.index(g)] + '_type')
        gt = getattr(pp, g + '_type')
        a = pp.LieTensor(torch.tensor(c['a'], dtype=dtype), ltype=at)
        f = {'Adj': lambda X: X.Adj(a).tensor(), 'AdjT': lambda X: X.AdjT(a).tensor(), 'Jinvp': lambda X: X.Jinvp(a).tensor(),
             'Retr': lambda X: X.Retr(a).tensor(), 'add': lambda X: (X + a).tensor(), 'matrix': lambda X: X.matrix(), 'Log': lambda X: X.Log().tensor()}[c['op']]
        # same history: op on some X, overwrite X in place with X0, op again, compare with a fresh object holding X0
        Xg = pp.LieTensor(torch.tensor(c['X0'], dtype=dtype), ltype=gt)
        Xg = (pp.LieTensor(torch.tensor(c['d'], dtype=dtype), ltype=at).Exp() @ Xg)
        f(Xg)
        Xg.copy_(pp.LieTensor(torch.tensor(c['X0'], dtype=dtype), ltype=gt))
        fresh = pp.LieTensor(torch.tensor(c['X0'], dtype=dtype), ltype=gt)
        r1, r2 = f(Xg), f(fresh)
        return None if torch.equal(r1, r2) else '%s(X) after an in-place update of X differs from %s on a fresh LieTensor with the same values by %.3g' % (c['op'], c['op'], float((r1 - r2).abs().max()))
    if c['kind'] == 'jr':
        x = torch.tensor(c['X'], dtype=dtype)
        J = pp.so3(x).Jr()
        if not math.isfinite(float(J.abs().max())):
            return 'Jr contains NaN/Inf'
        if float(x.abs().max()) == 0.0:
            return None if torch.equal(J, torch.eye(3, dtype=dtype)) else 'Jr(0) is not the identity'
        d = torch.tensor([0.3, -0.2, 0.5], dtype=dtype) * 1e-5
        lhs = pp.so3(x + d).Exp()
        rhs = pp.so3(x).Exp() @ pp.so3(J @ d).Exp()
        dq = float((lhs.tensor() - rhs.tensor()).abs().max())
        return 'Exp(x+d) differs from Exp(x)@Exp(Jr d) by %.3g for |d| = 6e-6' % dq if dq > 1e-9 else None
    return None
