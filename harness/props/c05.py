"""C05 correspondence: Retr / + / add_ / Jinvp / Jr vs Model/LieTangent.v, Model/LieJac.v (enclosure route;
exact route for the algebra addition), and the defining identities evaluated on the implementation
(search oracle): X@Exp(a) = Exp(Adj(X,a))@X, Exp(a)@X = X@Exp(AdjT(X,a)), Retr = + = Exp(a)@X,
Jinvp = first-order change of Log(Exp(tau)@X), Exp(x+d) = Exp(x)@Exp(Jr d) + o(|d|)."""
import math
from ..common import *
from ..lie import *
from .c01 import K_EPS, K_SQRT, direction, gen_x, regime

RULE = ('(group, op, X, a) with X a valid group element (unit quaternion up to rounding) and a from the C01 block generator '
        '(zero, tiny, around eps, O(1), large); ops Retr, +, add_ (with extra trailing components), algebra +, Jinvp, Jr; '
        'non-trivial = a != 0; distinct by value; tolerances 256 eps (rotation/scale), 64 sqrt(eps) (translation block)')


def tol_group(g, out, eps):
    se = math.sqrt(eps)
    t, q, s = split_elt(g, out)
    if g == 'SO3':
        return [(i, K_EPS * eps) for i in range(4)]
    if g == 'RxSO3':
        return [(i, K_EPS * eps) for i in range(4)] + [(4, K_EPS * eps * abs(out[4]))]
    tn = max(max(abs(v) for v in out[:3]), 1e-300)
    c = [(i, K_SQRT * se * tn) for i in range(3)] + [(3 + i, K_EPS * eps) for i in range(4)]
    if g == 'Sim3':
        c.append((7, K_EPS * eps * abs(out[7])))
    return c


def laws(pp, torch, g, X, a, dtype, tail=()):
    """the defining identities on the implementation; returns description of the first failure"""
    eps = float(torch.finfo(dtype).eps)
    Xg = pp.LieTensor(torch.tensor(X, dtype=dtype), ltype=getattr(pp, g + '_type'))
    al = pp.LieTensor(torch.tensor(a, dtype=dtype), ltype=getattr(pp, ALGS[GROUPS.index(g)] + '_type'))

    def close(A, B, what):
        A, B = A.tensor(), B.tensor()
        # compare as transformations: quaternion sign is irrelevant
        if g in ('SO3', 'RxSO3'):
            qa, qb = A[..., :4], B[..., :4]
        else:
            qa, qb = A[..., 3:7], B[..., 3:7]
        sgn = 1.0 if float((qa * qb).sum()) >= 0 else -1.0
        dq = float((qa - sgn * qb).abs().max())
        tn = 0.0
        dt = 0.0
        if g in ('SE3', 'Sim3'):
            tn = float(max(A[..., :3].abs().max(), B[..., :3].abs().max()))
            dt = float((A[..., :3] - B[..., :3]).abs().max())
        ds = float((A[..., -1] - B[..., -1]).abs()) / max(1e-300, float(A[..., -1].abs())) if g in ('RxSO3', 'Sim3') else 0.0
        big = float(max(1.0, al.tensor().abs().max(), tn))
        if dq > 8 * K_EPS * eps * big or ds > 8 * K_EPS * eps * big or dt > 8 * K_SQRT * math.sqrt(eps) * max(tn, 1e-300) * big:
            return '%s: quaternion diff %.3g, translation diff %.3g (|t| %.3g), scale rel diff %.3g' % (what, dq, dt, tn, ds)
        return None
    for why in (close(Xg @ al.Exp(), Xg.Adj(al).Exp() @ Xg, 'X@Exp(a) != Exp(Adj(X,a))@X'),
                close(al.Exp() @ Xg, Xg @ Xg.AdjT(al).Exp(), 'Exp(a)@X != X@Exp(AdjT(X,a))'),
                close(Xg.Retr(al), al.Exp() @ Xg, 'Retr(X,a) != Exp(a)@X'),
                close(Xg + al, al.Exp() @ Xg, 'X + a != Exp(a)@X')):
        if why:
            return why
    if tail:
        # components beyond the manifold dimension are ignored by +, pp.add and add_
        wide = torch.tensor(list(a) + list(tail), dtype=dtype)
        ref = al.Exp() @ Xg
        Xc = pp.LieTensor(torch.tensor(X, dtype=dtype), ltype=getattr(pp, g + '_type'))
        for why in (close(Xg + wide, ref, 'X + (a ++ %d extra components) != Exp(a)@X' % len(tail)),
                    close(pp.add(Xg, wide), ref, 'pp.add(X, a ++ extra) != Exp(a)@X'),
                    close(Xc.add_(wide), ref, 'X.add_(a ++ extra) != Exp(a)@X')):
            if why:
                return why
    return None


def run(ctx):
    pp = import_pypose()
    import torch
    ctx.rule = RULE
    rng = ctx.rng
    cases, meta = [], []
    kindsR = ['zero', 'tiny', 'eps', 'sqrteps', 'one', 'large']
    n_per = {'SO3': ctx.scale(240, 4000), 'SE3': ctx.scale(240, 4000), 'RxSO3': ctx.scale(180, 3000), 'Sim3': ctx.scale(240, 4000)}
    for g in GROUPS:
        alg = ALGS[GROUPS.index(g)]
        for t in range(n_per[g]):
            dname = 'float64' if (t % 4) else 'float32'
            dtype = torch.float64 if dname == 'float64' else torch.float32
            eps = float(torch.finfo(dtype).eps)
            X = [float(v) for v in torch.tensor(generic_elt(rng, g, torch, dtype), dtype=dtype).tolist()]
            kinds = (kindsR[t % 6], rng.choice(['zero', 'one', 'tiny']), rng.choice(['zero', 'one', 'tiny', 'sqrteps']))
            a = [float(v) for v in torch.tensor(gen_x(rng, alg, eps, kinds), dtype=dtype).tolist()]
            if alg in ('rxso3', 'sim3') and regime(a[-1], eps) == 'cancel' and alg == 'sim3':
                a[-1] = 0.0      # the sim3 small-|sigma| accuracy defect is C01's known finding, not re-reported here
            op = ['Retr', 'add', 'add_'][t % 3]
            Xg = pp.LieTensor(torch.tensor(X, dtype=dtype), ltype=getattr(pp, g + '_type'))
            al = pp.LieTensor(torch.tensor(a, dtype=dtype), ltype=getattr(pp, alg + '_type'))
            tail = [rng.uniform(-5, 5) for _ in range(rng.choice([0, 1, 2]))] if op != 'Retr' else []
            X0 = Xg.tensor().clone()
            try:
                if op == 'Retr':
                    out = Xg.Retr(al)
                elif op == 'add':
                    other = torch.tensor(a + tail, dtype=dtype)
                    out = Xg + other if t % 2 else Xg.add(other)
                else:
                    Xc = Xg.clone()
                    out = Xc.add_(torch.tensor(a + tail, dtype=dtype))
                    if not torch.equal(out.tensor(), Xc.tensor()):
                        ctx.violation('add_-not-inplace:%s' % g, 'add_ did not overwrite its input', dict(kind='grp', g=g, dtype=dname, X=X, a=a, op=op))
            except Exception as e:
                ctx.violation('tangent-raises:%s:%s' % (g, op), '%s raised %r' % (op, e), dict(kind='grp', g=g, dtype=dname, X=X, a=a, op=op))
                continue
            if op != 'add_' and not torch.equal(Xg.tensor(), X0):
                ctx.violation('mutates-input:%s:%s' % (g, op), '%s changed its group argument' % op, dict(kind='grp', g=g, dtype=dname, X=X, a=a, op=op))
            o = [float(v) for v in out.tensor().tolist()]
            i = len(meta)
            ctx.case((g, op, dname, tuple(X), tuple(a)), nontrivial=any(v != 0 for v in a), branch='%s-%s-%s' % (g, op, dname),
                     sample=dict(g=g, op=op, X=X, a=a, tail=tail, impl=o) if i % 37 == 3 else None)
            meta.append(dict(kind='grp', g=g, dtype=dname, X=X, a=a, op=op, tail=tail, impl=o))
            epsl = 'E64' if dname == 'float64' else 'E32'
            fn = 'retr_l' if op == 'Retr' else 'add_group_l'
            cases.append(dict(idx=i, expr='%s (NF:=@NF@) (TF:=TransIv) %s %d %s %s' % (fn, epsl, GID[g], ivlist(X), ivlist(a + tail)), comps=[(j, o[j], tl) for j, tl in tol_group(g, o, eps)]))
    # Jinvp and Jr (float64)
    for g in GROUPS:
        for t in range(ctx.scale(80, 1500)):
            dtype, eps = torch.float64, 2.0 ** -52
            X = [float(v) for v in torch.tensor(generic_elt(rng, g, torch, dtype), dtype=dtype).tolist()]
            if t % 4 == 1:
                # rotation exactly the identity, translation / scale generic: the small-angle branches
                tt, qq, ss = split_elt(g, X)
                X = join_elt(g, tt, [0.0, 0.0, 0.0, 1.0], ss)
            elif t % 4 == 2:
                tt, qq, ss = split_elt(g, X)
                h = 1e-5     # small but not in the zone eps < theta <= 1e-7 where calcQ's closed forms cancel (C04 known finding)
                X = [float(v) for v in torch.tensor(join_elt(g, tt, [h * 0.6, -h * 0.8, 0.0, 1.0], ss), dtype=dtype).tolist()]
            p = [rng.uniform(-2, 2) if t % 5 else 0.0 for _ in range(ADIM[g])]
            Xg = pp.LieTensor(torch.tensor(X, dtype=dtype), ltype=getattr(pp, g + '_type'))
            pl = pp.LieTensor(torch.tensor(p, dtype=dtype), ltype=getattr(pp, ALGS[GROUPS.index(g)] + '_type'))
            o = [float(v) for v in Xg.Jinvp(pl).tensor().tolist()]
            if any(not math.isfinite(v) for v in o):
                ctx.violation('jinvp-nonfinite:%s' % g, 'Jinvp returned a non-finite value %s' % o, dict(kind='jinvp', g=g, dtype='float64', X=X, a=p, op='Jinvp'))
                continue
            i = len(meta)
            ctx.case((g, 'Jinvp', tuple(X), tuple(p)), branch='%s-Jinvp' % g)
            meta.append(dict(kind='jinvp', g=g, dtype='float64', X=X, a=p, op='Jinvp', impl=o))
            sc = max(1.0, max(abs(v) for v in o))
            cases.append(dict(idx=i, expr='jinvp (NF:=@NF@) (TF:=TransIv) E64 %d %s %s' % (GID[g], ivlist(X), ivlist(p)), comps=[(j, o[j], K_SQRT * math.sqrt(eps) * sc) for j in range(len(o))]))
    for t in range(ctx.scale(120, 2000)):
        dtype, eps = torch.float64, 2.0 ** -52
        kind = kindsR[t % 6]
        x = [float(v) for v in torch.tensor(gen_x(rng, 'so3', eps, (kind, 'zero', 'zero')), dtype=dtype).tolist()]
        J = pp.so3(torch.tensor(x, dtype=dtype)).Jr()
        o = [float(v) for v in J.reshape(-1).tolist()]
        if any(not math.isfinite(v) for v in o):
            ctx.violation('jr-nonfinite', 'so3 Jr(%s) contains NaN/Inf: %s' % (x, o), dict(kind='jr', g='SO3', dtype='float64', X=x, a=[], op='Jr'))
            continue
        i = len(meta)
        ctx.case(('so3', 'Jr', tuple(x)), nontrivial=any(v != 0 for v in x), branch='so3-Jr-' + kind)
        meta.append(dict(kind='jr', g='SO3', dtype='float64', X=x, a=[], op='Jr', impl=o))
        # 1-cos(theta) cancels in floats for tiny theta: coefficient error eps/theta^2 times |K| = theta
        th = math.sqrt(sum(v * v for v in x))
        tol = K_EPS * eps * max(1.0, (1.0 / th if th > eps else 1.0))
        cases.append(dict(idx=i, expr='concat (so3_Jr (NF:=@NF@) (TF:=TransIv) E64 %s)' % ivlist(x), comps=[(j, o[j], tol) for j in range(9)]))
    r = run_interval('C05', 'Model.LieGroup Model.LieExp Model.LieLog Model.LieJac Model.LieTangent', cases)
    for name, out in r['broken']:
        ctx.obligation_broken('correspondence-file:' + name, out)
    ctx.notes.append('enclosure: %d proved within tolerance, %d proved outside, %d undecided' % (len(r['ok']), len(set(i for i, _ in r['bad'])), len(r['undecided'])))
    if len(r['undecided']) > max(5, len(cases) // 15):
        ctx.obligation_broken('enclosure-undecided', '%d of %d cases undecided, e.g. %s' % (len(r['undecided']), len(cases), [meta[i] for i in r['undecided'][:3]]))
    ctx.traces = len(r['ok'])
    # ---- algebra addition: exact (vector addition of the first k components, tail ignored)
    for g in GROUPS:
        alg = ALGS[GROUPS.index(g)]
        for t in range(ctx.scale(20, 200)):
            k = ADIM[g]
            x = [dy(rng, 6, 4.0) for _ in range(k)]
            other = [dy(rng, 6, 4.0) for _ in range(k + rng.choice([0, 0, 1, 3]))]
            xl = pp.LieTensor(torch.tensor(x, dtype=torch.float64), ltype=getattr(pp, alg + '_type'))
            out = (xl + torch.tensor(other, dtype=torch.float64))
            exp = [Fraction(a) + Fraction(b) for a, b in zip(x, other[:k])]
            ctx.case((alg, 'add', tuple(x), tuple(other)), branch='%s-add' % alg)
            if fr(out.tensor()) != exp or out.ltype != xl.ltype:
                ctx.violation('algebra-add:%s' % alg, '%s + tensor is not plain addition of the first %d components: %s + %s -> %s' % (alg, k, x, other, out.tensor().tolist()),
                              dict(kind='algadd', g=g, x=x, other=other))
    # ---- histories on ONE object: an op result must depend on the CURRENT value of X only (no state kept on the
    #      LieTensor across calls): op(X), modify X in place, op(X) again == op(fresh copy of X)
    for g in GROUPS:
        alg = ALGS[GROUPS.index(g)]
        at = getattr(pp, alg + '_type')
        for t in range(ctx.scale(6, 40)):
            dtype = torch.float64 if t % 2 == 0 else torch.float32
            dname = 'float64' if t % 2 == 0 else 'float32'
            Xg = pp.LieTensor(torch.tensor([generic_elt(rng, g, torch, dtype), generic_elt(rng, g, torch, dtype)], dtype=dtype), ltype=getattr(pp, g + '_type'))
            a = pp.LieTensor(torch.tensor([[rng.uniform(-1, 1) for _ in range(ADIM[g])] for _ in range(2)], dtype=dtype), ltype=at)
            d = torch.tensor([[rng.uniform(-1, 1) for _ in range(ADIM[g])] for _ in range(2)], dtype=dtype)
            how = ['add_', 'setitem', 'copy_'][t % 3]
            ops = {'Adj': lambda X: X.Adj(a).tensor(), 'AdjT': lambda X: X.AdjT(a).tensor(), 'Jinvp': lambda X: X.Jinvp(a).tensor(),
                   'Retr': lambda X: X.Retr(a).tensor(), 'add': lambda X: (X + a).tensor(), 'matrix': lambda X: X.matrix(), 'Log': lambda X: X.Log().tensor()}
            for name, f in ops.items():
                f(Xg)
            if how == 'add_':
                Xg.add_(d)
            elif how == 'setitem':
                Xg[1] = pp.LieTensor(torch.tensor(generic_elt(rng, g, torch, dtype), dtype=dtype), ltype=getattr(pp, g + '_type'))
            else:
                Xg.copy_(pp.LieTensor(torch.tensor([generic_elt(rng, g, torch, dtype), generic_elt(rng, g, torch, dtype)], dtype=dtype), ltype=getattr(pp, g + '_type')))
            fresh = pp.LieTensor(Xg.tensor().clone(), ltype=getattr(pp, g + '_type'))
            ctx.case((g, 'stale', how, t), branch='%s-history-%s' % (g, how))
            for name, f in ops.items():
                r1, r2 = f(Xg), f(fresh)
                if not torch.equal(r1, r2):
                    X1, a1 = [float(v) for v in Xg.tensor()[1].tolist()], [float(v) for v in a.tensor()[1].tolist()]
                    why = laws(pp, torch, g, X1, a1, dtype) or ''
                    ctx.violation('stale-state:%s:%s' % (g, name), '%s %s: after %s(X); X modified in place by %s; %s(X) differs from %s on a fresh LieTensor holding the same values by %.3g%s'
                                  % (g, dname, name, how, name, name, float((r1 - r2).abs().max()), ('; on the modified object: ' + why) if why else ''),
                                  dict(kind='stale', g=g, dtype=dname, how=how, op=name, X0=[[float(v) for v in r] for r in fresh.tensor().tolist()],
                                       a=[[float(v) for v in r] for r in a.tensor().tolist()], d=[[float(v) for v in r] for r in d.tolist()]))
                    break
    # ---- search
    for i in sorted(set(i for i, _ in r['bad'])):
        m = meta[i]
        mm = dict(family='%s:%s' % (m['op'], m['g']), case=m, detail='')
        ctx.mismatches.append(mm)
        why = replay(ctx, m)
        if why:
            mm['explained'] = True
            ctx.violation('tangent-identity:%s:%s' % (m['g'], m['op']), why, m)


def replay(ctx, c):
    pp = import_pypose()
    import torch
    dtype = torch.float64 if c.get('dtype', 'float64') == 'float64' else torch.float32
    if c['kind'] == 'grp':
        return laws(pp, torch, c['g'], c['X'], c['a'], dtype, tail=c.get('tail') or ())
    if c['kind'] == 'algadd':
        alg = ALGS[GROUPS.index(c['g'])]
        k = ADIM[c['g']]
        xl = pp.LieTensor(torch.tensor(c['x'], dtype=torch.float64), ltype=getattr(pp, alg + '_type'))
        out = xl + torch.tensor(c['other'], dtype=torch.float64)
        return None if fr(out.tensor()) == [Fraction(a) + Fraction(b) for a, b in zip(c['x'], c['other'][:k])] else 'algebra + is not vector addition'
    if c['kind'] == 'jinvp':
        # Jinvp(X,p) = d/dtau Log(Exp(tau) X) in direction p  (finite differences on the implementation)
        g = c['g']
        Xg = pp.LieTensor(torch.tensor(c['X'], dtype=dtype), ltype=getattr(pp, g + '_type'))
        at = getattr(pp, ALGS[GROUPS.index(g)] + '_type')
        p = torch.tensor(c['a'], dtype=dtype)
        h = 1e-6
        fd = ((pp.LieTensor(h * p, ltype=at).Exp() @ Xg).Log().tensor() - (pp.LieTensor(-h * p, ltype=at).Exp() @ Xg).Log().tensor()) / (2 * h)
        got = Xg.Jinvp(pp.LieTensor(p, ltype=at)).tensor()
        xi = float(Xg.Log().tensor().abs().max())
        tol = 2e-5 * max(1.0, float(fd.abs().max())) + (4 * xi ** 6 if g == 'Sim3' else 0.0)
        d = float((fd - got).abs().max())
        return 'Jinvp differs from the first-order change of Log(Exp(tau)@X) by %.3g (tolerance %.3g)' % (d, tol) if d > tol else None
    if c['kind'] == 'stale':
        g = c['g']
        at = getattr(pp, ALGS[GROUPS.index(g)] + '_type')
        gt = getattr(pp, g + '_type')
        a = pp.LieTensor(torch.tensor(c['a'], dtype=dtype), ltype=at)
        f = {'Adj': lambda X: X.Adj(a).tensor(), 'AdjT': lambda X: X.AdjT(a).tensor(), 'Jinvp': lambda X: X.Jinvp(a).tensor(),
             'Retr': lambda X: X.Retr(a).tensor(), 'add': lambda X: (X + a).tensor(), 'matrix': lambda X: X.matrix(), 'Log': lambda X: X.Log().tensor()}[c['op']]
        # same history: op on some X, overwrite X in place with X0, op again, compare with a fresh object holding X0
        Xg = pp.LieTensor(torch.tensor(c['X0'], dtype=dtype), ltype=gt)
        Xg = (pp.LieTensor(torch.tensor(c['d'], dtype=dtype), ltype=at).Exp() @ Xg)
        f(Xg)
        Xg.copy_(pp.LieTensor(torch.tensor(c['X0'], dtype=dtype), ltype=gt))
        fresh = pp.LieTensor(torch.tensor(c['X0'], dtype=dtype), ltype=gt)
        r1, r2 = f(Xg), f(fresh)
        return None if torch.equal(r1, r2) else '%s(X) after an in-place update of X differs from %s on a fresh LieTensor with the same values by %.3g' % (c['op'], c['op'], float((r1 - r2).abs().max()))
    if c['kind'] == 'jr':
        x = torch.tensor(c['X'], dtype=dtype)
        J = pp.so3(x).Jr()
        if not math.isfinite(float(J.abs().max())):
            return 'Jr contains NaN/Inf'
        if float(x.abs().max()) == 0.0:
            return None if torch.equal(J, torch.eye(3, dtype=dtype)) else 'Jr(0) is not the identity'
        d = torch.tensor([0.3, -0.2, 0.5], dtype=dtype) * 1e-5
        lhs = pp.so3(x + d).Exp()
        rhs = pp.so3(x).Exp() @ pp.so3(J @ d).Exp()
        dq = float((lhs.tensor() - rhs.tensor()).abs().max())
        return 'Exp(x+d) differs from Exp(x)@Exp(Jr d) by %.3g for |d| = 6e-6' % dq if dq > 1e-9 else None
    return None
