"""C18 correspondence: pypose.function.geometry point-cloud filters and camera helpers vs Model/Cloud.v.

Exact route: clouds live on a dyadic / integer grid so that float64 does no rounding in the distance
computations, the sums and the matrix products; the only rounded operation is ONE correctly rounded
division (means, centroids, perspective division), compared with relative tolerance 2^-51 against the
model evaluated over Q by vm_compute.  Norm 2 is decided on squared distances (Proofs/Cloud.v proves
the equivalence); the implementation's sqrt values are checked through their squares.
Search / findings: brute-force oracles written from the property text with exact Fractions.
"""
import math
from ..common import *

TOL = Fraction(1, 2 ** 51)
RULE = ('clouds of N in 1..300 points, 1..6 coordinate dims + 0..3 feature channels on a dyadic grid (norm 1/inf: |coord| < 2^20, norm 2: < 2^12), '
        'clusters + far outliers inserted at random array positions, duplicates in a few clouds; every function is also run on a random '
        'permutation of the cloud (equivariance); k over 0..N+1, radii on / next to realised distances, voxel sizes integer / dyadic / negative; '
        'cameras: dyadic pinhole and general 3x3 intrinsics, Hurwitz-unit and non-unit dyadic quaternions, plus generic float cameras; '
        'a case = (function, cloud, parameters); non-trivial = N >= 2; distinct by value; directed block first (every branch of the model, '
        'every recorded finding witness), then random; tolerance 2^-51 relative for results of one division, equality otherwise; '
        'then, by the exact oracle alone: size regimes (N at / next to powers of two up to 300, half above 256, thresholds nbr / radius exactly attained), '
        'call forms (float32 / float64 / integer tensors, column-major / strided / offset views, integer pixel grids and depth images) and the '
        'non-mutation of every tensor argument; autograd states (arguments that require grad / pp.Parameter extrinsics, one or several at once, under '
        'grad / no_grad / inference_mode: same oracles, reprojerr zero exactly on produced pixels mixed with displaced ones, sum / norm = 1- / 2-norm '
        'of the residual); valid but falsy argument values (radius 0 / 0.0 on clouds with and without coincident points, k / nbr / num 0, int radii, '
        'defaults given explicitly or left out)')

ORDS = {'L1': 1, 'L2': 2, 'Linf': float('inf')}
# keys of the three defects found by this check and since repaired in /repo (known_findings.txt: `fixed:` lines,
# which suppress nothing): if one of them comes back it is reported under the same key as a VIOLATION
K_RADIUS = 'knn_filter-radius:mask-removes-some-points'
K_VOXR = 'voxel_filter-random:single-occupied-voxel'
K_SUM = 'reprojerr-sum:signed-sum-not-l1'


# ------------------------------------------------------------------------------------ Coq literals
def nlit(n):
    return '%d%%nat' % n


def qrow(r):
    return coq_list(qlit(x) for x in r)


def qrows(rows):
    return coq_list(qrow(r) for r in rows)


def opt(s):
    return 'None' if s is None else 'Some ' + s


def rows_of(t):
    """2-D tensor -> list of rows of python floats"""
    return [[float(v) for v in r] for r in t.detach().tolist()]


# ------------------------------------------------------------------------------------ generators
def gen_cloud(rng, N, pd, nfeat, o, dup=False, spread=None):
    """rows of floats on a dyadic grid: clusters plus far outliers at random positions"""
    s = rng.choice([0, 0, 1, 2])
    lim = (2 ** 12 if o == 'L2' else 2 ** 20)
    if spread is None:
        spread = rng.choice([8, 64, 1024, lim // 4]) if N < 40 else rng.choice([1024, lim // 4, lim // 4])
    spread = min(spread, lim // 4)
    ncl = rng.randint(1, 3)
    centres = [[rng.randint(-lim // 2, lim // 2) for _ in range(pd)] for _ in range(ncl)]
    rows = []
    for i in range(N):
        if rng.random() < 0.12:      # outlier
            c = [rng.randint(-lim + 1, lim - 1) for _ in range(pd)]
        else:
            ce = rng.choice(centres)
            c = [max(-lim + 1, min(lim - 1, x + rng.randint(-spread, spread))) for x in ce]
        f = [rng.randint(-64, 64) for _ in range(nfeat)]
        rows.append([v / 2 ** s for v in c] + [v / 4 for v in f])
    if dup and N >= 2:
        for _ in range(rng.randint(1, max(1, N // 4))):
            a, b = rng.randrange(N), rng.randrange(N)
            rows[a] = rows[b][:pd] + rows[a][pd:] if rng.random() < 0.5 else list(rows[b])
    rng.shuffle(rows)
    return rows


def size(rng):
    return rng.choice([1, 2, 2, 3, 3, 4, 5, 6, 7, 8, 10, 13, 17, 24, 33, 48, 70]) if rng.random() < 0.93 else rng.choice([100, 150, 200, 300])


# ------------------------------------------------------------------------------------ exact oracles (property text)
def frows(rows):
    return [[F(x) for x in r] for r in rows]


def scaled(rows):
    """(rows as python ints scaled by SC, SC) when the grid allows it (fast), else (Fractions, 1)"""
    try:
        P = []
        for r in rows:
            q = []
            for x in r:
                y = float(x) * 4
                if y != int(y):
                    raise ValueError
                q.append(int(y))
            P.append(q)
        return P, 4
    except (ValueError, OverflowError):
        return frows(rows), 1


def meas(o, a, b):
    """exact quantity monotone in the distance: the norm for L1 / Linf, its square for L2"""
    d = [x - y for x, y in zip(a, b)]
    if o == 'L1':
        return sum(abs(x) for x in d)
    if o == 'L2':
        return sum(x * x for x in d)
    return max([abs(x) for x in d] + [Fraction(0)])


def within(o, m, r, sc=1):
    """m is the measure of rows scaled by sc"""
    r = F(r) * sc
    if o == 'L2':
        return r >= 0 and m <= r * r
    return m <= r


def o_nbr_mask(rows, nbr, radius, pd, o):
    P, sc = scaled(rows)
    mask = []
    for i, p in enumerate(P):
        cnt = sum(1 for j, q in enumerate(P) if j != i and within(o, meas(o, p[:pd], q[:pd]), radius, sc))
        mask.append(cnt >= nbr)
    return mask


def o_knn_filter(rows, k, pd, o, radius):
    """-> (list of expected rows as Fractions, ambiguous flag) or None when undefined (k+1 > N)"""
    P, sc = scaled(rows)
    N = len(P)
    if k + 1 > N:
        return None
    out, amb = [], False
    for i, p in enumerate(P):
        d = [(meas(o, p[:pd], q[:pd]), j) for j, q in enumerate(P) if j != i]
        if radius is not None and sum(1 for m, _ in d if within(o, m, radius, sc)) < k:
            continue
        d.sort()
        if k >= 1 and k < len(d) and d[k - 1][0] == d[k][0]:
            amb = True
        if any(m == 0 and P[j] != p for m, j in d):      # a different row at distance 0 competes with the point itself
            amb = True
        sel = [i] + [j for _, j in d[:k]]
        out.append([Fraction(sum(P[j][c] for j in sel)) / ((k + 1) * sc) for c in range(len(p))])
    return out, amb


def o_voxel(rows, voxel):
    """{voxel key: members}"""
    P = frows(rows)
    vd = len(voxel)
    minp = [min(p[c] for p in P) for c in range(vd)]
    groups = {}
    for p in P:
        key = tuple(int((p[c] - minp[c]) / F(voxel[c])) for c in range(vd))     # int() truncates toward zero
        groups.setdefault(key, []).append(p)
    return groups


def close(a, b, tol=TOL):
    a, b = F(a), F(b)
    return abs(a - b) <= tol * abs(b)


def rows_close(A, B, tol=TOL):
    return len(A) == len(B) and all(len(a) == len(b) and all(close(x, y, tol) for x, y in zip(a, b)) for a, b in zip(A, B))


# ------------------------------------------------------------------------------------ calling the implementation
# autograd state of a case (key 'grad' of the case): {'req': roles of the tensor arguments that require grad - 'a' (cloud / points /
# first argument), 'b' (pixels / depth), 'K' (intrinsics), 'T' (extrinsics built from a tensor that requires grad) or 'Tparam'
# (extrinsics wrapped in pp.Parameter, a pose being optimised) -, 'mode': None (grad enabled) | 'no_grad' | 'inference'}.
# The property speaks about VALUES: they are the same whether or not the arguments take part in autograd and whatever the grad
# mode of the caller, so every oracle below applies unchanged in every state.  The tensors are built outside the mode (parameters
# of a model), the implementation is called inside it.
GRAD = {'req': (), 'mode': None}
GRAD_REQS = [['a'], ['K'], ['T'], ['Tparam'], ['b'], ['a', 'Tparam'], ['a', 'b', 'K', 'Tparam'], []]
GRAD_MODES = [None, 'no_grad', 'inference']


def set_grad(g):
    g = g or {}
    GRAD['req'], GRAD['mode'] = tuple(g.get('req') or ()), g.get('mode')


def needs(role):
    return role in GRAD['req']


def call(fn):
    """-> (result, None) or (None, 'ExcType: msg'); the call runs in the grad mode of the current case"""
    try:
        if GRAD['mode'] is None:
            return fn(), None
        import torch
        with (torch.no_grad() if GRAD['mode'] == 'no_grad' else torch.inference_mode()):
            return fn(), None
    except Exception as e:     # noqa
        return None, '%s: %s' % (type(e).__name__, str(e)[:160])


def must(fn):
    r, err = call(fn)
    if err is not None:
        raise RuntimeError(err)
    return r


# call forms: every tensor handed to the implementation is built by `mk` in the dtype / memory layout named by the case
# (keys 'dtype', 'layout'; cameras: 'dtypes' per argument) and registered, so that after the call the tensor AND the buffer
# it is a view of can be compared bit for bit with their snapshots (no API function here may modify its arguments)
LIVE = []
EPS = {'float64': TOL, 'float32': Fraction(1, 2 ** 22)}
LAYOUTS = [None, 'T', 'strided', 'offset']


def eps(c):
    d = (c or {}).get('dtype', 'float64')
    return EPS.get(d, TOL)


def mk(torch, data, dtype='float64', layout=None, role=None):
    """role: name of the argument in the autograd state of the case (the tensor requires grad when the state lists it);
    layout: None contiguous | 'T' column-major storage | 'strided' every other row and an inner block of columns of a larger
    buffer filled with other numbers | 'offset' a contiguous slice at a storage offset"""
    dt = getattr(torch, dtype)
    t = torch.tensor(data, dtype=dt)
    base = t
    if layout and t.numel() > 0 and t.dim() >= 1:
        if layout == 'T' and t.dim() >= 2:
            t = t.mT.contiguous().mT
            base = t
        elif layout == 'strided' and t.dim() >= 2:
            r, w = t.shape[-2], t.shape[-1]
            base = torch.full(tuple(t.shape[:-2]) + (2 * r + 1, w + 3), 77, dtype=dt)
            base[..., 1::2, 2:2 + w] = t
            t = base[..., 1::2, 2:2 + w]
        elif layout == 'strided':
            base = torch.full((2 * t.shape[0] + 1,), 77, dtype=dt)
            base[1::2] = t
            t = base[1::2]
        elif layout == 'offset':
            base = torch.full((t.numel() + 5,), 77, dtype=dt)
            base[5:] = t.reshape(-1)
            t = base[5:].reshape(t.shape)
    LIVE.append((base, base.clone()))
    if role is not None and needs(role) and t.dtype.is_floating_point:
        t = t.detach().requires_grad_()          # a leaf sharing the storage (and the strides) of the view
    return t


def extr(pp, t):
    """extrinsics from a (7,) tensor: an SE3 LieTensor, or a pp.Parameter when the autograd state asks for it"""
    T = pp.SE3(t)
    return pp.Parameter(T) if needs('Tparam') else T


def mutated(torch):
    """True when a tensor built by mk since the last call (or the buffer behind it) no longer equals its snapshot"""
    bad = any(not torch.equal(b, s) for b, s in LIVE)
    del LIVE[:]
    return bad


def tens(torch, rows, D=None, c=None):
    c = c or {}
    dtype = c.get('dtype', 'float64')
    if not rows:
        return torch.zeros((0, D or 1), dtype=getattr(torch, dtype))
    return mk(torch, rows, dtype, c.get('layout'), role='a')


def impl_knn_filter(pp, torch, c):
    t = tens(torch, c['pts'], c=c)
    kw = dict(k=c['k'], pdim=c['pd'], radius=c['radius'], ord=ORDS[c['ord']])
    for name in c.get('omit') or ():         # optional arguments left to their defaults (only where the default means the same)
        del kw[name]
    r, err = call(lambda: pp.knn_filter(t, **kw))
    return (rows_of(r) if err is None else None), err


def check_knn_filter(pp, torch, c):
    """property check on the implementation; -> description of the failure or None"""
    if c['radius'] is not None and F(c['radius']) < 0:
        return None                      # the property speaks about radii >= 0
    exp = o_knn_filter(c['pts'], c['k'], c['pd'], c['ord'], c['radius'])
    if exp is None:
        return None
    exp, amb = exp
    if amb:
        return None
    out, err = impl_knn_filter(pp, torch, c)
    if err is not None:
        return 'raises %s; expected %d rows, first %s' % (err, len(exp), [str(x) for x in exp[0]] if exp else [])
    if not rows_close(out, exp, eps(c)):
        bad = [i for i in range(min(len(out), len(exp))) if not rows_close([out[i]], [exp[i]], eps(c))]
        return 'returns %d rows, expected %d; first differing row %s: got %s expected %s' % (
            len(out), len(exp), bad[:1], out[bad[0]] if bad else None, [float(x) for x in exp[bad[0]]] if bad else None)
    return None


def knnf_class(c):
    """input class of a knn_filter case (violation key).  The defect repaired by c6053fe lived in the class where the
    mask removes some but not all points."""
    if c['radius'] is None:
        return 'knn_filter-noradius'
    mask = o_nbr_mask(c['pts'], c['k'], c['radius'], c['pd'], c['ord'])
    if all(mask):
        return 'knn_filter-radius:nothing-removed'
    if not any(mask):
        return 'knn_filter-radius:everything-removed'
    return K_RADIUS


def impl_voxel_random(pp, torch, c):
    t = tens(torch, c['pts'], c=c)
    torch.manual_seed(c.get('seed', 0))
    r, err = call(lambda: pp.voxel_filter(t, list(c['voxel']), random=True))
    if err is not None:
        return 0, [], err
    if r.dim() == 1:
        return 1, [[float(v) for v in r.tolist()]], None
    return 2, rows_of(r), None


def check_voxel_random(pp, torch, c):
    groups = o_voxel(c['pts'], c['voxel'])
    shape, out, err = impl_voxel_random(pp, torch, c)
    if shape == 0:
        return 'raises %s; expected one member of each of the %d occupied voxels' % (err, len(groups))
    if shape == 1:
        return 'returns a tensor of shape (%d,) instead of (%d, %d)' % (len(out[0]), len(groups), len(out[0]))
    if len(out) != len(groups):
        return 'returns %d rows for %d occupied voxels' % (len(out), len(groups))
    left = dict(groups)
    for r in out:
        fr = [F(x) for x in r]
        k = [key for key, mem in left.items() if fr in mem]
        if not k:
            return 'row %s is not a member of a not-yet-represented voxel' % r
        del left[k[0]]
    return None


def check_reproj(pp, torch, c):
    """reprojerr == 0 exactly for the pixels produced by point2pixel and only for them; c['offset'] is one displacement for all
    points or one per point (exact and displaced pixels mixed in one call).  Besides: the 'none' residual is minus the
    displacement, 'sum' / 'norm' are its 1- / 2-norm (exact Fractions; the only rounding is that of pixel + displacement, of the
    subtraction and of the reduction).  In the autograd state c['grad'] (values do not depend on it)."""
    n = len(c['pts'])
    tK = mk(torch, c['K'], role='K')
    tp = mk(torch, c['pts'], role='a')
    T = extr(pp, mk(torch, c['T'], role='T')) if c.get('T') else None
    pix, err = call(lambda: pp.point2pixel(tp, tK, T))
    if err:
        return 'point2pixel raises ' + err
    pix = pix.detach().tolist()
    if tuple(len(r) for r in pix) != (2,) * n:
        return 'point2pixel returns %d rows for %d points' % (len(pix), n)
    if not all(math.isfinite(v) for r in pix for v in r):
        return None                      # projection through a zero depth: outside the exact route
    off = c['offset']
    off = [list(o) for o in off] if off and isinstance(off[0], (list, tuple)) else [list(off)] * n
    tb = mk(torch, [[p[0] + o[0], p[1] + o[1]] for p, o in zip(pix, off)], role='b')
    red = c['reduction']
    e, err = call(lambda: pp.reprojerr(tp, tb, tK, T, reduction=red))
    if err:
        return 'reprojerr raises ' + err
    if tuple(e.shape) != ((n, 2) if red == 'none' else (n,)):
        return 'reprojerr(reduction=%r) returns shape %s for %d points' % (red, tuple(e.shape), n)
    e = e.detach().reshape(n, -1).tolist()
    for i in range(n):
        match = all(float(v) == 0.0 for v in off[i])
        zero = all(float(v) == 0.0 for v in e[i])
        if match != zero:
            return 'point %d: pixel offset from the projection %s, reprojerr(%s) = %s' % (i, off[i], red, e[i])
        if not all(math.isfinite(v) for v in e[i]):
            return 'point %d: reprojerr(%s) = %s' % (i, red, e[i])
        o0, o1 = F(off[i][0]), F(off[i][1])
        d = Fraction(1, 2 ** 50) * (1 + max(abs(F(v)) for v in pix[i]) + abs(o0) + abs(o1))      # rounding of p + o and of p - (p + o)
        if red == 'none':
            ok = abs(F(e[i][0]) + o0) <= d and abs(F(e[i][1]) + o1) <= d
        elif red == 'sum':
            ok = abs(F(e[i][0]) - abs(o0) - abs(o1)) <= 2 * d
        else:
            g, n2 = F(e[i][0]), o0 * o0 + o1 * o1
            d = 2 * d + Fraction(1, 2 ** 49) * g
            ok = g >= 0 and max(g - d, 0) ** 2 <= n2 <= (g + d) ** 2
        if not ok:
            return 'point %d: pixel offset from the projection %s, reprojerr(%s) = %s is not the %s of the residual' % (
                i, off[i], red, e[i], {'none': 'negative offset', 'sum': '1-norm', 'norm': '2-norm'}[red])
    return None


# ------------------------------------------------------------------------------------ case collection
KINDS = ['knn', 'nbr', 'vox', 'voxr', 'knnf', 'rnd', 'cam']
EVAL = {'knn': 'knn_bad %s' % qlit(TOL), 'nbr': 'nbr_bad', 'vox': 'vox_bad %s' % qlit(TOL), 'voxr': 'voxr_bad',
        'knnf': 'knnf_bad %s' % qlit(TOL), 'rnd': 'rnd_bad', 'cam': 'cam_bad'}
HEADER = ('From Coq Require Import ZArith QArith List Bool.\nImport ListNotations.\n'
          'From PV Require Import Base.Num Model.Cloud.\nOpen Scope Q_scope.\n')


class Col:
    def __init__(self, ctx):
        self.ctx = ctx
        self.meta = []
        self.items = []

    def add(self, kind, meta, text, cost, nontrivial=True, branch=None):
        i = len(self.meta)
        m = dict(meta, kind=kind)
        self.meta.append(m)
        self.items.append((cost, i, kind, '(%s, %s)' % (nlit(i), text)))
        small = len(meta.get('pts', meta.get('nbr', []))) <= 6
        self.ctx.case((kind, repr(sorted(meta.items(), key=lambda kv: kv[0]))), nontrivial=nontrivial, branch=branch or kind,
                      sample=m if (small and i % 17 == 3) else None)
        return i

    def files(self, nshards):
        bins = [[0, {k: [] for k in KINDS}] for _ in range(nshards)]
        for cost, i, kind, text in sorted(self.items, reverse=True):
            b = min(bins, key=lambda x: x[0])
            b[0] += cost + 50
            b[1][kind].append(text)
        out = []
        for n, (c, d) in enumerate(bins):
            if not any(d.values()):
                continue
            body = HEADER + ''.join('Eval vm_compute in %s %s.\n' % (EVAL[k], coq_list(d[k])) for k in KINDS)
            out.append(('sh_%02d' % n, body))
        return out


def guarded(f):
    """non-mutation clause on the tie path: the tensors built for the call are compared with their snapshots afterwards"""
    def w(col, pp, torch, *a, **kw):
        del LIVE[:]
        n = len(col.meta)
        r = f(col, pp, torch, *a, **kw)
        if mutated(torch) and len(col.meta) > n:
            c = {k: v for k, v in col.meta[-1].items() if k not in ('impl', 'kind')}
            col.ctx.violation('mutation:%s' % c.get('fn'), '%s: %s' % (c.get('fn'), MUT), c)
        return r
    return w


@guarded
def add_knn(col, pp, torch, ref, nbr, k, o, batch=1):
    """pp.knn on (batch copies of) ref / nbr; the topk contract is checked row by row in Coq"""
    tr, tn = tens(torch, ref), tens(torch, nbr)
    if batch > 1:
        tr, tn = tr.unsqueeze(0).expand(batch, -1, -1).clone(), tn.unsqueeze(0).expand(batch, -1, -1).clone()
    r, err = call(lambda: pp.knn(tr, tn, k=k, ord=ORDS[o]))
    meta = dict(fn='knn', ref=ref, nbr=nbr, k=k, ord=o, batch=batch)
    if err is None:
        vals, idx = r.values, r.indices
        if batch > 1:
            if not (all(torch.equal(vals[b], vals[0]) for b in range(batch))):
                col.ctx.violation('knn:batch', 'knn result differs between identical batch items', meta)
            vals, idx = vals[-1], idx[-1]
        res = [[(float(v), int(j)) for v, j in zip(vr, ir)] for vr, ir in zip(vals.tolist(), idx.tolist())]
        meta['impl'] = res if len(nbr) <= 6 and len(ref) <= 6 else '(%d x %d)' % (len(ref), k)
        lit = 'Some ' + coq_list(coq_list('(%s, %s)' % (qlit(v), nlit(j)) for v, j in row) for row in res)
    else:
        res, lit = None, 'None'
        meta['impl'] = err
    i = col.add('knn', meta, '(%s, %s, %s, %s, %s)' % (o, qrows(ref), qrows(nbr), nlit(k), lit),
                cost=len(ref) * len(nbr) * (len(nbr) // 4 + 8) // 50, nontrivial=len(nbr) >= 2,
                branch='knn:%s:%s' % (o, 'raise' if err else ('k=N' if k == len(nbr) else 'k<N')))
    return res


@guarded
def add_nbr(col, pp, torch, pts, nbr, radius, pd, o, usepd=True):
    t = tens(torch, pts)
    r, err = call(lambda: pp.nbr_filter(t, nbr=nbr, radius=radius, pdim=(pd if usepd else None), ord=ORDS[o], return_mask=True))
    meta = dict(fn='nbr_filter', pts=pts, nbr=nbr, radius=radius, pd=pd, ord=o)
    if err is not None:
        col.ctx.mismatch('nbr_filter', meta, 'raises ' + err)
        return None
    out, mask = rows_of(r[0]), [bool(b) for b in r[1].tolist()]
    col.add('nbr', meta, '(%s, %s, %s, %s, %s, %s, %s)' % (o, nlit(pd), qrows(pts), zlit(nbr) + '%Z', qlit(radius), qrows(out),
                                                    coq_list('true' if b else 'false' for b in mask)),
            cost=len(pts) ** 2 // 40, nontrivial=len(pts) >= 2,
            branch='nbr:%s:%s' % (o, 'all' if all(mask) else ('none' if not any(mask) else 'some')))
    return out


@guarded
def add_vox(col, pp, torch, pts, voxel):
    t = tens(torch, pts)
    r, err = call(lambda: pp.voxel_filter(t, list(voxel)))
    meta = dict(fn='voxel_filter', pts=pts, voxel=list(voxel))
    out = rows_of(r) if err is None else None
    if err:
        meta['impl'] = err
    col.add('vox', meta, '(%s, %s, %s)' % (qrows(pts), qrow(voxel), opt(qrows(out)) if out is not None else 'None'),
            cost=len(pts) * (len(out or []) + 10) // 20, nontrivial=len(pts) >= 2,
            branch='voxel:%s' % ('raise' if err else ('one-voxel' if len(out) == 1 else ('all-separate' if len(out) == len(pts) else 'merged'))))
    return out


@guarded
def add_voxr(col, pp, torch, pts, voxel, seed):
    c = dict(fn='voxel_filter_random', pts=pts, voxel=list(voxel), seed=seed)
    shape, out, err = impl_voxel_random(pp, torch, c)
    col.add('voxr', c, '(%s, %s, %s, %s)' % (qrows(pts), qrow(voxel), nlit(shape), qrows(out)),
            cost=len(pts) * (len(out) + 10) // 10, nontrivial=len(pts) >= 2,
            branch='voxel-random:%s' % ['raise', 'row', 'rows'][shape])
    why = check_voxel_random(pp, torch, c)
    if why:
        ngroups = len(o_voxel(pts, voxel))
        col.ctx.violation(K_VOXR if ngroups == 1 else 'voxel_filter-random:several-voxels',
                          'voxel_filter(random=True) on %d points, voxel %s: %s' % (len(pts), list(voxel), why), c)
    return shape, out


@guarded
def add_knnf(col, pp, torch, pts, k, pd, o, radius, batch=1):
    c = dict(fn='knn_filter', pts=pts, k=k, pd=pd, ord=o, radius=radius)
    if batch > 1 and radius is None:
        t = tens(torch, pts).unsqueeze(0).expand(batch, -1, -1).clone()
        r, err = call(lambda: pp.knn_filter(t, k=k, pdim=pd, ord=ORDS[o]))
        if err is None and not all(torch.equal(r[b], r[0]) for b in range(batch)):
            col.ctx.violation('knn_filter:batch', 'knn_filter result differs between identical batch items', c)
        out = rows_of(r[-1]) if err is None else None
        c['batch'] = batch
    else:
        out, err = impl_knn_filter(pp, torch, c)
    if err:
        c['impl'] = err
    cls = knnf_class(c)
    N = len(pts)
    full = o_knn_filter(pts, k, pd, o, None)
    if full is not None and full[1]:
        # a tie at the selection boundary of some row: torch's choice is unspecified, nothing to compare
        # (the model sorts every row); the property-level oracle looks at the retained rows only and still applies
        col.ctx.count('knn_filter:tie-skipped')
        if radius is not None:
            why = check_knn_filter(pp, torch, c)
            if why:
                col.ctx.violation(cls, 'knn_filter(k=%d, radius=%r, ord=%s, pdim=%d) on %d points: %s' % (k, radius, o, pd, N, why), c)
        return out
    col.add('knnf', c, '(%s, %s, %s, %s, %s, %s)' % (o, nlit(pd), qrows(pts), nlit(k), opt(qlit(radius)) if radius is not None else 'None',
                                                 opt(qrows(out)) if out is not None else 'None'),
            cost=N * N * (N // 4 + 8) // 50, nontrivial=N >= 2,
            branch='%s:%s:%s' % (cls.split(':')[-1] if radius is not None else 'noradius', o, 'raise' if err else 'rows'))
    # besides the model comparison the property itself is checked on the implementation (exact oracle)
    why = check_knn_filter(pp, torch, c)
    if why:
        col.ctx.violation(cls, 'knn_filter(k=%d, radius=%r, ord=%s, pdim=%d) on %d points: %s' % (k, radius, o, pd, N, why), c)
    return out


@guarded
def add_rnd(col, pp, torch, pts, num, seed, batch=1):
    t = tens(torch, pts)
    N = len(pts)
    torch.manual_seed(seed)
    perm = [int(i) for i in torch.randperm(N).tolist()]
    torch.manual_seed(seed)
    if batch > 1:
        tb = t.unsqueeze(0).expand(batch, -1, -1).clone()
        r, err = call(lambda: pp.random_filter(tb, num))
        if err is None and not all(torch.equal(r[b], r[0]) for b in range(batch)):
            r, err = None, 'batch items sampled differently'
        r = r[-1] if err is None else None
    else:
        r, err = call(lambda: pp.random_filter(t, num))
    out = rows_of(r) if err is None else None
    c = dict(fn='random_filter', pts=pts, num=num, seed=seed)
    if err:
        c['impl'] = err
    col.add('rnd', c, '(%s, %s, %s, %s)' % (coq_list(nlit(i) for i in perm), qrows(pts), nlit(num),
                                          opt(qrows(out)) if out is not None else 'None'),
            cost=N // 4, nontrivial=N >= 2, branch='random:%s' % ('raise' if err else ('all' if num == N else 'some')))
    return out


@guarded
def add_cam(col, pp, torch, op, K, T, a, b, tol, atol, note=''):
    """op: 0 cart2homo | 1 homo2cart | 2 point2pixel | 3 pixel2point | 4/5/6 reprojerr none/sum/norm"""
    ta = mk(torch, a)
    tK = mk(torch, K) if K else None
    tT = pp.SE3(mk(torch, T)) if T else None
    tb = mk(torch, b) if b else None
    if op == 0:
        r, err = call(lambda: pp.cart2homo(ta))
    elif op == 1:
        r, err = call(lambda: pp.homo2cart(ta))
    elif op == 2:
        r, err = call(lambda: pp.point2pixel(ta, tK, tT))
    elif op == 3:
        r, err = call(lambda: pp.pixel2point(ta, tb.reshape(-1), tK))
    else:
        red = {4: 'none', 5: 'sum', 6: 'norm'}[op]
        r, err = call(lambda: pp.reprojerr(ta, tb, tK, tT, reduction=red))
    if err is None:
        if op in (5, 6):
            r = r.reshape(-1, 1)
        out = rows_of(r)
        if any(not math.isfinite(v) for row in out for v in row):
            return None        # overflow to inf (e.g. x / tiny): outside the exact route
        lit = [[F(v) ** 2 for v in row] for row in out] if op == 6 else out
    else:
        out, lit = None, None
    names = ['cart2homo', 'homo2cart', 'point2pixel', 'pixel2point', 'reprojerr-none', 'reprojerr-sum', 'reprojerr-norm']
    meta = dict(fn=names[op], K=K, T=T, pts=a, b=b, note=note, impl=out if err is None else err)
    col.add('cam', meta, '(%s, %s, (%s, %s, %s, %s, %s, %s))' % (
        qlit(tol), qlit(atol), nlit(op), qrows(K or []), opt(qrow(T)) if T else 'None', qrows(a), qrows(b or []),
        opt(qrows(lit)) if lit is not None else 'None'),
        cost=len(a), nontrivial=True, branch='cam:%s:%s%s' % (names[op], 'extr' if T else 'cam-frame', ':' + note if note else ''))
    return out


HURWITZ = [[1, 0, 0, 0], [0, 1, 0, 0], [0, 0, 1, 0], [0, 0, 0, 1], [0.5, 0.5, 0.5, 0.5], [-0.5, 0.5, 0.5, 0.5],
           [0.5, -0.5, 0.5, 0.5], [0.5, 0.5, -0.5, 0.5], [0.5, 0.5, 0.5, -0.5], [-0.5, -0.5, 0.5, 0.5], [0, 0, 0, -1]]


def dy(rng, lo, hi, bits=3):
    return rng.randint(lo * 2 ** bits, hi * 2 ** bits) / 2 ** bits


def gen_camera(rng, generic=False):
    """(K, T or None): dyadic pinhole / general intrinsics, dyadic extrinsics; generic = arbitrary floats"""
    if generic:
        K = [[rng.uniform(100, 900), rng.uniform(-2, 2) if rng.random() < 0.3 else 0.0, rng.uniform(0, 900)],
             [0.0, rng.uniform(100, 900), rng.uniform(0, 900)], [0.0, 0.0, 1.0]]
        q = [rng.gauss(0, 1) for _ in range(4)]
        n = math.sqrt(sum(x * x for x in q))
        T = [rng.uniform(-2, 2) for _ in range(3)] + [x / n for x in q]
        return K, (T if rng.random() < 0.7 else None)
    f = lambda: rng.choice([1, 2, 4, 0.5, 3, 1.5, -2, 40, 100.25])
    if rng.random() < 0.7:
        K = [[f(), 0.0, dy(rng, -8, 8)], [0.0, f(), dy(rng, -8, 8)], [0.0, 0.0, 1.0]]
    else:
        K = [[dy(rng, -4, 4) for _ in range(3)] for _ in range(3)]
    T = None
    if rng.random() < 0.6:
        q = list(rng.choice(HURWITZ)) if rng.random() < 0.6 else [dy(rng, -1, 1) for _ in range(4)]
        T = [dy(rng, -4, 4) for _ in range(3)] + q
    return K, T


def camera_cases(ctx, col, pp, torch, n):
    rng = ctx.rng
    big = Fraction(2) ** 1000
    # ---- directed: cart2homo / homo2cart incl. negative, zero and sub-tiny last coordinate, any last dimension
    add_cam(col, pp, torch, 0, None, None, [[1.5, -2.0], [0.0, 0.0]], None, 0, 0, 'directed')
    add_cam(col, pp, torch, 0, None, None, [[3.0]], None, 0, 0, 'directed')
    add_cam(col, pp, torch, 1, None, None, [[4.0, 3.0, 2.0, 1.0], [8.0, 6.0, 4.0, 2.0], [1.0, 1.0, 1.0, -2.0], [3.0, 5.0, 7.0, 3.0]], None, TOL, 0, 'directed')
    add_cam(col, pp, torch, 1, None, None, [[0.0, 2.0 ** -1000, 0.0], [2.0 ** -1010, 0.0, -0.0], [2.0 ** -1040, 2.0 ** -1030, 2.0 ** -1030],
                                           [2.0 ** -1040, 2.0 ** -1030, -2.0 ** -1030]], None, TOL, 0, 'clamp-to-tiny')
    add_cam(col, pp, torch, 1, None, None, [[5.0]], None, TOL, 0, 'directed')
    Kd = [[2.0, 0.0, 4.5], [0.0, 2.0, 4.5], [0.0, 0.0, 1.0]]
    obj = [[2.0, 0.0, 2.0], [1.0, 0.0, 2.0], [0.0, 1.0, 1.0], [0.0, 0.0, 1.0], [1.0, 0.0, 1.0], [5.0, 5.0, 3.0], [1.0, 2.0, -4.0]]
    add_cam(col, pp, torch, 2, Kd, None, obj, None, TOL, 0, 'docstring')
    add_cam(col, pp, torch, 2, Kd, [0.0, -8.0, 0.0, 0.5, 0.5, 0.5, 0.5], obj, None, TOL, 0, 'directed')
    add_cam(col, pp, torch, 3, Kd, None, [[0.5, 0.0], [1.0, 0.0], [0.0, 1.25], [5.0, 1.5]], [[5.0], [3.0], [6.5], [0.75]], TOL, 0, 'docstring')
    add_cam(col, pp, torch, 3, [[0.0, 0.0, 1.0], [0.0, 2.0, 1.0], [0.0, 0.0, 1.0]], None, [[0.5, 0.0]], [[5.0]], TOL, 0, 'fx=0')
    add_cam(col, pp, torch, 3, [[1.0, 0.0, 1.0], [0.0, 0.0, 1.0], [0.0, 0.0, 1.0]], None, [[0.5, 0.0]], [[5.0]], TOL, 0, 'fy=0')
    # ---- the three reductions of reprojerr: zero exactly on matching pixels (regression witness of the old signed 'sum' first)
    for red in ('none', 'sum', 'norm'):
        for off in ([0.0, 0.0], [1.0, -1.0], [0.5, 0.25], [-3.0, 3.0]):
            c = dict(fn='reprojerr-zero', K=[[1.0, 0.0, 0.0], [0.0, 1.0, 0.0], [0.0, 0.0, 1.0]], T=None,
                     pts=[[0.0, 0.0, 1.0], [2.0, -4.0, 2.0], [3.0, 1.0, 0.5]], offset=off, reduction=red)
            ctx.case(('reproj-zero', red, tuple(off)), branch='reprojerr-zero:' + red)
            why = check_reproj(pp, torch, c)
            if why:
                ctx.violation(K_SUM if red == 'sum' else 'reprojerr-zero:' + red, 'reprojerr(reduction=%r): %s' % (red, why), c)
    # ---- random cameras
    for it in range(n):
        generic = it % 4 == 3
        K, T = gen_camera(rng, generic)
        N = rng.choice([1, 2, 3, 5, 8])
        if generic:
            pts = [[rng.uniform(-3, 3), rng.uniform(-3, 3), rng.uniform(4, 12)] for _ in range(N)]
            tol, atol = Fraction(1, 2 ** 40), Fraction(1, 2 ** 30)
        else:
            pts = [[dy(rng, -8, 8), dy(rng, -8, 8), rng.choice([1, 2, 4, 0.5, 3, 5, -2, 1.5, 7.25, -0.375])] for _ in range(N)]
            tol, atol = TOL, 0
        op = rng.choice([2, 2, 3, 4, 5, 6, 1, 0])
        if op == 0:
            add_cam(col, pp, torch, 0, None, None, [[dy(rng, -8, 8) for _ in range(rng.randint(1, 6))]], None, 0, 0)
        elif op == 1:
            d = rng.randint(2, 6)
            add_cam(col, pp, torch, 1, None, None, [[dy(rng, -8, 8) for _ in range(d - 1)] + [rng.choice([1, -1, 2, 3, -5, 0.75, 7])] for _ in range(N)], None, TOL, 0)
        elif op == 2:
            add_cam(col, pp, torch, 2, K, T, pts, None, tol, atol, 'generic' if generic else '')
        elif op == 3:
            if generic:
                pix = [[rng.uniform(0, 900), rng.uniform(0, 900)] for _ in range(N)]
                dep = [[rng.uniform(0.5, 20)] for _ in range(N)]
            else:
                pix = [[dy(rng, -8, 8), dy(rng, -8, 8)] for _ in range(N)]
                dep = [[rng.choice([1, 2, 0.5, 3, 5.5, -2])] for _ in range(N)]
            add_cam(col, pp, torch, 3, K, None, pix, dep, tol, atol, 'generic' if generic else '')
        else:
            # pixels: the implementation's own projection (error 0 up to the rounding of the division) or shifted ones
            pr, err = call(lambda: pp.point2pixel(torch.tensor(pts, dtype=torch.float64), torch.tensor(K, dtype=torch.float64),
                                                 pp.SE3(torch.tensor(T, dtype=torch.float64)) if T else None))
            if err or not all(math.isfinite(v) for row in pr.tolist() for v in row):
                continue
            pr = rows_of(pr)
            if rng.random() < 0.6:
                pix = [[p[0] + dy(rng, -4, 4), p[1] + dy(rng, -4, 4)] for p in pr]
            else:
                pix = pr
            mp = max([1.0] + [abs(v) for p in pr + pix for v in p])
            if mp > 1e100:
                continue            # projection through a nearly zero depth: outside the exact route
            a_abs = Fraction(mp) / 2 ** 49 if not generic else Fraction(mp) / 2 ** 30
            if op == 6:
                a_abs = a_abs * Fraction(4 * mp + 4)
                tl = Fraction(1, 2 ** 48) if not generic else Fraction(1, 2 ** 30)
            else:
                tl = 0
            add_cam(col, pp, torch, op, K, T, pts, pix, tl, a_abs, 'generic' if generic else '')


# ------------------------------------------------------------------------------------ parameters
def pick_radius(rng, pts, pd, o):
    """a radius on / next to a realised distance (exactly representable; L2: multiple of 1/4)"""
    u = rng.random()
    if u < 0.06 or len(pts) < 2:
        return rng.choice([0.0, -1.0, 0.5, 1e9])
    P = frows(pts)
    a, b = rng.sample(range(len(P)), 2)
    m = meas(o, P[a][:pd], P[b][:pd])
    if o == 'L2':
        r = math.floor(math.sqrt(float(m)) * 4) / 4
        return r + rng.choice([0.0, 0.0, 0.25])
    return float(m) + rng.choice([0.0, 0.0, 0.25, -0.25])


def pick_k(rng, pts, pd, o, radius, tries=6):
    """k for knn_filter without a tie at the selection boundary of any retained row"""
    N = len(pts)
    for _ in range(tries):
        k = rng.choice([0, 1, 1, 2, 3, N - 1, N // 2, rng.randint(0, max(0, N - 1))])
        k = max(0, min(k, N - 1))
        r = o_knn_filter(pts, k, pd, o, None)       # boundary ties of ALL rows (the model sorts every retained row)
        if r is not None and not r[1]:
            return k
    return 0


def permuted(rng, rows):
    idx = list(range(len(rows)))
    rng.shuffle(idx)
    return [rows[i] for i in idx], idx


def sorted_rows(rows):
    return sorted(tuple(r) for r in rows)


DOC = [[0., 0., 0.], [1., 0., 0.], [0., 1., 0.], [0., 1., 1.], [10., 1., 1.], [10., 1., 10.]]


def directed(ctx, col, pp, torch):
    # ---- knn_filter: every branch of the model + the finding witness
    add_knnf(col, pp, torch, [[100.0], [0.0], [1.0]], 1, 1, 'L1', 5.0)           # regression witness (C18_knn_filter_radius_refuted)
    add_knnf(col, pp, torch, DOC, 2, 3, 'L2', 5.0)                               # docstring: removed points last
    for order in ([5, 0, 1, 2, 3, 4], [0, 4, 1, 2, 3, 5], [0, 1, 2, 5, 3, 4]):
        add_knnf(col, pp, torch, [DOC[i] for i in order], 2, 3, 'L2', 5.0)
    add_knnf(col, pp, torch, DOC, 2, 3, 'L2', None)
    add_knnf(col, pp, torch, DOC, 2, 3, 'L2', None, batch=3)
    add_knnf(col, pp, torch, [[0.0], [1.0], [3.0], [7.0]], 1, 1, 'Linf', 100.0)  # nothing removed
    add_knnf(col, pp, torch, DOC, 1, 3, 'L1', 0.0)                               # everything removed
    add_knnf(col, pp, torch, DOC, 6, 3, 'L2', None)                              # k+1 > N raises
    add_knnf(col, pp, torch, DOC, 6, 3, 'L2', 50.0)
    add_knnf(col, pp, torch, DOC, 0, 3, 'L2', 0.5)
    add_knnf(col, pp, torch, [[3.0, 1.0]], 0, 1, 'L1', None)
    add_knnf(col, pp, torch, [[0.0, 7.0], [1.0, 5.0], [3.0, 3.0], [7.0, 1.0]], 1, 1, 'L1', None)   # feature channel averaged
    # radius 0 / 0.0 is a radius (only coincident points are within it), not "no radius"
    add_knnf(col, pp, torch, [[0.0], [1.0], [3.0], [7.0]], 1, 1, 'L1', 0.0)                          # everything removed, no tie anywhere
    add_knnf(col, pp, torch, [[0.0], [1.0], [3.0], [7.0]], 1, 1, 'Linf', 0)
    add_knnf(col, pp, torch, [[0.0, 1.0], [10.0, 2.0], [0.0, 1.0], [10.0, 2.0]], 1, 1, 'L2', 0.0)    # two coincident pairs: everything kept
    add_knnf(col, pp, torch, [[3.0, 2.0], [0.0, 1.0], [8.0, 5.0], [0.0, 1.0]], 1, 1, 'L2', 0.0)      # the two coincident rows are kept (oracle only: ties in the removed rows)
    add_knnf(col, pp, torch, [[3.0, 2.0], [0.0, 1.0], [8.0, 5.0], [0.0, 1.0]], 0, 2, 'L1', 0)        # k = 0: everything kept
    # ---- voxel_filter
    V5 = [[1., 2.], [4., 5.], [7., 8.], [10., 11.], [13., 14.]]
    add_vox(col, pp, torch, V5, [5.0, 5.0]); add_vox(col, pp, torch, V5, [5.0]); add_vox(col, pp, torch, V5, [-5.0, 2.5])
    add_vox(col, pp, torch, DOC, [1.0, 1.0, 1.0]); add_vox(col, pp, torch, DOC, [100.0, 100.0, 100.0])
    add_vox(col, pp, torch, [[1.0, 2.0, 3.0]], [1.0, 1.0, 1.0]); add_vox(col, pp, torch, V5, [3.0, 0.0])
    add_voxr(col, pp, torch, [[1.0, 2.0, 3.0]], [1.0, 1.0, 1.0], 0)              # regression witness: N = 1 used to raise
    add_voxr(col, pp, torch, [[1.0, 2.0], [2.0, 3.0]], [5.0], 0)                 # regression witness: one voxel used to give shape (D,)
    add_voxr(col, pp, torch, V5, [5.0], 1); add_voxr(col, pp, torch, V5, [5.0, 1.0], 2); add_voxr(col, pp, torch, DOC, [1.0, 1.0, 1.0], 3)
    # ---- nbr_filter
    add_nbr(col, pp, torch, DOC, 2, 5.0, 3, 'L2'); add_nbr(col, pp, torch, DOC, 2, 12.0, 3, 'L2'); add_nbr(col, pp, torch, DOC, 2, 10.0, 2, 'L2')
    add_nbr(col, pp, torch, [[0.0, 0.0], [3.0, 4.0], [6.0, 8.0]], 1, 5.0, 2, 'L2')                 # boundary: distance == radius
    add_nbr(col, pp, torch, [[0.0, 0.0], [3.0, 4.0], [6.0, 8.0]], 1, 7.0, 2, 'L1'); add_nbr(col, pp, torch, [[0.0, 0.0], [3.0, 4.0], [6.0, 8.0]], 2, 4.0, 2, 'Linf')
    add_nbr(col, pp, torch, [[3.0, 2.0], [0.0, 1.0], [8.0, 5.0], [0.0, 1.0]], 1, 0.0, 2, 'L2'); add_nbr(col, pp, torch, [[3.0, 2.0], [0.0, 1.0], [8.0, 5.0], [0.0, 1.0]], 1, 0, 1, 'L1')
    add_nbr(col, pp, torch, DOC, 0, 1.0, 3, 'L1', usepd=False); add_nbr(col, pp, torch, DOC, -1, -1.0, 3, 'L2'); add_nbr(col, pp, torch, [[1.0]], 0, 1.0, 1, 'L1')
    # ---- knn
    REF = [[9., 2., 2.], [1., 0., 2.], [0., 1., 1.], [5., 0., 1.], [1., 0., 1.], [5., 5., 3.]]
    NBR = [[1., 0., 1.], [1., 6., 2.], [5., 1., 0.], [9., 0., 2.]]
    for o in ('L1', 'L2', 'Linf'):
        for k in (0, 1, 2, 4, 5):
            add_knn(col, pp, torch, REF, NBR, k, o)
    add_knn(col, pp, torch, REF, NBR, 2, 'L2', batch=2)
    add_knn(col, pp, torch, [[0.0]], [[1.0], [-1.0], [1.0]], 2, 'L1')                               # ties: contract only
    # ---- random_filter
    add_rnd(col, pp, torch, V5, 3, 0); add_rnd(col, pp, torch, V5, 5, 1); add_rnd(col, pp, torch, V5, 0, 2); add_rnd(col, pp, torch, V5, 6, 3)
    add_rnd(col, pp, torch, V5, 2, 4, batch=3); add_rnd(col, pp, torch, [[1.0]], 1, 5)


# ------------------------------------------------------------------------------------ property checks used by search / replay
def check_knn(pp, torch, c):
    o, k = c['ord'], c['k']
    R, Nb = frows(c['ref']), frows(c['nbr'])
    tr, tn = tens(torch, c['ref'], c=c), tens(torch, c['nbr'], c=c)
    r, err = call(lambda: pp.knn(tr, tn, k=k, ord=ORDS[o]))
    if k > len(Nb):
        return None if err else 'k > number of neighbours but no error'
    if err:
        return 'raises ' + err
    vals, idx = r.values.tolist(), r.indices.tolist()
    for i, p in enumerate(R):
        row = [meas(o, p, q) for q in Nb]
        want = sorted(row)[:k]
        if len(idx[i]) != k or len(set(idx[i])) != k or any(not 0 <= j < len(Nb) for j in idx[i]):
            return 'row %d: indices %s are not %d distinct valid indices' % (i, idx[i], k)
        got = [row[j] for j in idx[i]]
        if got != want:
            return 'row %d: distances at the returned indices %s are not the %d smallest in ascending order' % (i, idx[i], k)
        for v, m in zip(vals[i], got):
            ok = (F(v) == m) if o != 'L2' else (v >= 0 and close(F(v) ** 2, m, 2 * eps(c)) or (m == 0 and v == 0))
            if not ok:
                return 'row %d: value %r is not the distance to neighbour' % (i, v)
    return None


def check_nbr(pp, torch, c):
    t = tens(torch, c['pts'], c=c)
    kw = dict(nbr=c['nbr'], radius=c['radius'], pdim=c['pd'], ord=ORDS[c['ord']], return_mask=True)
    for name in c.get('omit') or ():         # optional arguments left to their defaults (only where the default means the same)
        del kw[name]
    r, err = call(lambda: pp.nbr_filter(t, **kw))
    if err:
        return 'raises ' + err
    if 'return_mask' in (c.get('omit') or ()):
        if F(c['radius']) < 0:
            return None
        want = [p for p, m in zip(c['pts'], o_nbr_mask(c['pts'], c['nbr'], c['radius'], c['pd'], c['ord'])) if m]
        return None if torch.is_tensor(r) and rows_of(r) == want else 'returned rows are not the kept points in order (%d rows, expected %d)' % (len(r), len(want))
    if F(c['radius']) < 0:
        return None                      # the property speaks about radii >= 0
    want = o_nbr_mask(c['pts'], c['nbr'], c['radius'], c['pd'], c['ord'])
    mask = [bool(b) for b in r[1].tolist()]
    if mask != want:
        i = [a != b for a, b in zip(mask, want)].index(True)
        return 'point %d: mask %s, but it has %s at least %d other points within %s' % (i, mask[i], 'in fact' if want[i] else 'not', c['nbr'], c['radius'])
    if rows_of(r[0]) != [p for p, m in zip(c['pts'], want) if m]:
        return 'returned rows are not the kept points in order'
    return None


def check_voxel(pp, torch, c):
    t = tens(torch, c['pts'], c=c)
    kw = dict(random=False) if c.get('explicit') else {}          # the default given explicitly
    r, err = call(lambda: pp.voxel_filter(t, list(c['voxel']), **kw))
    if any(v == 0 for v in c['voxel']):
        return None if err else 'zero voxel size accepted'
    if err:
        return 'raises ' + err
    groups = o_voxel(c['pts'], c['voxel'])
    want = sorted([sum(p[ch] for p in mem) / len(mem) for ch in range(len(mem[0]))] for mem in groups.values())
    got = sorted([F(v) for v in row] for row in rows_of(r))
    if not rows_close(got, want, 2 * eps(c)):
        return '%d rows returned for %d occupied voxels, or a row is not the centroid of a voxel' % (len(got), len(want))
    return None


def check_random(pp, torch, c):
    torch.manual_seed(c.get('seed', 0))
    t = tens(torch, c['pts'], c=c)
    r, err = call(lambda: pp.random_filter(t, c['num']))
    if c['num'] > len(c['pts']):
        return None if err else 'num > N accepted'
    if err:
        return 'raises ' + err
    out = rows_of(r)
    left = [tuple(p) for p in c['pts']]
    if len(out) != c['num']:
        return '%d rows returned instead of %d' % (len(out), c['num'])
    for row in out:
        if tuple(row) not in left:
            return 'row %s is not a distinct input point (sampled twice or not in the cloud)' % row
        left.remove(tuple(row))
    return None


TINY = {'float64': Fraction(1, 2 ** 1022), 'float32': Fraction(1, 2 ** 126)}


def o_project(K, T, p, tiny=Fraction(1, 2 ** 1022), scale=False):
    """pinhole projection of p in exact arithmetic (homo2cart's documented clamp of the depth to +-tiny included);
    scale=True: also the magnitude (sum of |terms| / |depth|) against which a rounding error of the inputs' precision is measured"""
    p = [F(x) for x in p]
    mag = max([abs(x) for x in p] + [Fraction(1)])
    if T:
        t, v, w = [F(x) for x in T[:3]], [F(x) for x in T[3:6]], F(T[6])
        cr = lambda a, b: [a[1] * b[2] - a[2] * b[1], a[2] * b[0] - a[0] * b[2], a[0] * b[1] - a[1] * b[0]]
        uv = [2 * x for x in cr(v, p)]
        vuv = cr(v, uv)
        p = [p[i] + w * uv[i] + vuv[i] + t[i] for i in range(3)]
        q2 = sum(x * x for x in v) + w * w
        mag = 3 * mag * (1 + 4 * q2) + max(abs(x) for x in t)
    h = [sum(F(K[i][j]) * p[j] for j in range(3)) for i in range(3)]
    den = (1 if h[2] >= 0 else -1) * max(abs(h[2]), tiny)
    if scale:
        kmax = max(abs(F(K[i][j])) for i in range(3) for j in range(3))
        return [h[0] / den, h[1] / den], 3 * kmax * mag * (1 + max(abs(h[0] / den), abs(h[1] / den))) / abs(den)
    return [h[0] / den, h[1] / den]


def check_cam(pp, torch, c):
    """camera helpers against the pinhole model in exact arithmetic.  Optional call form: c['dtypes'] = dtype of the first tensor
    argument 'a' (points / pixels / coordinates), of the second 'b' (pixels / depth) and of the camera 'K' (intrinsics and
    extrinsics); c['layout'] = memory layout of a and b.  Integer pixel grids and integer depth images are ordinary inputs of
    pixel2point / reprojerr; the values must be those of the pinhole model whatever the dtypes."""
    fn, K, T, a, b = c['fn'], c.get('K'), c.get('T'), c['pts'], c.get('b')
    gen = c.get('note') == 'generic'
    dts = c.get('dtypes') or {}
    da, db, dK = dts.get('a', 'float64'), dts.get('b', 'float64'), dts.get('K', 'float64')
    lay = c.get('layout')
    f32 = 'float32' in (da, db, dK)          # the coarsest floating-point precision taking part
    tol, atol = (Fraction(1, 2 ** 30), Fraction(1, 2 ** 20)) if gen else (Fraction(1, 2 ** 50), Fraction(1, 2 ** 40))
    if f32:
        tol, atol = Fraction(1, 2 ** 18), Fraction(1, 2 ** 18)
    ta = mk(torch, a, da, lay, role='a')
    tK = mk(torch, K, dK, role='K') if K else None
    tT = extr(pp, mk(torch, T, dK, role='T')) if T else None
    near = lambda x, y, s=1: abs(F(x) - y) <= tol * abs(y) + atol * s
    if fn == 'cart2homo':
        r, err = call(lambda: pp.cart2homo(ta))
        if err:
            return 'raises ' + err
        return None if rows_of(r) == [[float(x) for x in r_] + [1.0] for r_ in a] else 'cart2homo(%s) = %s: does not append a one' % (a, rows_of(r))
    if fn == 'homo2cart':
        tiny = TINY[da]
        got = rows_of(must(lambda: pp.homo2cart(ta)))
        for r, g in zip(a, got):
            w = F(r[-1])
            den = (1 if w >= 0 else -1) * max(abs(w), tiny)
            if not all(close(x, F(y) / den, 2 * EPS[da]) for x, y in zip(g, r[:-1])):
                return 'homo2cart(%s) = %s' % (r, g)
        return None
    if fn == 'pixel2point':
        tb = mk(torch, [z[0] for z in b], db, lay, role='b')
        r, err = call(lambda: pp.pixel2point(ta, tb, tK))
        if K[0][0] == 0 or K[1][1] == 0:
            return None if err else 'zero focal length accepted'
        if err:
            return 'raises ' + err
        got = rows_of(r)
        if len(got) != len(a) or any(len(g) != 3 for g in got):
            return 'pixel2point returns shape %s for %d pixels' % (tuple(r.shape), len(a))
        for px, z, g in zip(a, b, got):
            z = F(z[0])
            want = [(F(px[0]) - F(K[0][2])) * z / F(K[0][0]), (F(px[1]) - F(K[1][2])) * z / F(K[1][1]), z]
            s = max(abs(F(px[0])) + abs(F(K[0][2])), abs(F(px[1])) + abs(F(K[1][2])), 1) * abs(z) / min(abs(F(K[0][0])), abs(F(K[1][1])), 1) if f32 else 1
            if not all(near(x, y, s) for x, y in zip(g, want)):
                return 'pixel2point(pixel %s [%s], depth %s [%s], intrinsics [%s]) = %s [%s], the pinhole model gives %s' % (
                    px, da, float(z), db, dK, g, str(r.dtype).replace('torch.', ''), [float(x) for x in want])
        return None
    if f32:
        ps = [o_project(K, T, p, TINY['float32'], scale=True) for p in a]
        proj, scl = [x[0] for x in ps], [x[1] for x in ps]
        if any(s > 2 ** 40 for s in scl):
            return None                  # projection through a (nearly) zero depth in single precision: outside the exact route
    else:
        proj, scl = [o_project(K, T, p) for p in a], [1] * len(a)
    if fn == 'point2pixel':
        r, err = call(lambda: pp.point2pixel(ta, tK, tT))
        if err:
            return 'raises ' + err
        got = rows_of(r)
        for p, g, wv, s in zip(a, got, proj, scl):
            if max(abs(y) for y in wv) > 10 ** 30:
                continue                 # projection through a (nearly) zero depth: overflows, outside the exact route
            if not all(math.isfinite(x) and near(x, y, s) for x, y in zip(g, wv)):
                return 'point2pixel(%s) = %s, pinhole projection is %s' % (p, g, [float(x) for x in wv])
        return None
    red = fn.split('-')[1]
    tb = mk(torch, b, db, lay, role='b')
    r, err = call(lambda: pp.reprojerr(ta, tb, tK, tT, reduction=red))
    if err:
        return 'raises ' + err
    got = r.detach().reshape(len(a), -1).tolist()
    for p, px, g, wv, s in zip(a, b, got, proj, scl):
        if max(abs(y) for y in wv) > 10 ** 30:
            continue
        if not all(math.isfinite(x) for x in g):
            return 'reprojerr(%s, pixel %s, reduction=%s) = %s' % (p, px, red, g)
        e = [wv[0] - F(px[0]), wv[1] - F(px[1])]
        s = s + abs(F(px[0])) + abs(F(px[1])) if f32 else 1 + abs(wv[0]) + abs(wv[1])        # the error is a difference of numbers of this size
        if red == 'none':
            ok = all(near(x, y, s) for x, y in zip(g, e))
        elif red == 'sum':
            ok = near(g[0], abs(e[0]) + abs(e[1]), s)
        else:
            n2 = e[0] ** 2 + e[1] ** 2
            ok = abs(F(g[0]) ** 2 - n2) <= (Fraction(1, 2 ** 20) * (1 + n2) + Fraction(1, 2 ** 38) * s * s if not f32 else Fraction(1, 2 ** 16) * (s * s + n2))
        if not ok:
            return 'reprojerr(%s, pixel %s [%s], reduction=%s) = %s, expected from %s' % (p, px, db, red, g, [float(x) for x in e])
    return None


def check_perm(pp, torch, c):
    """equivariance of one function under the recorded permutation"""
    fn, pts, idx = c['of'], c['pts'], c['perm']
    P2 = [pts[i] for i in idx]
    if fn == 'nbr_filter':
        f = lambda p: rows_of(must(lambda t=tens(torch, p, c=c): pp.nbr_filter(t, nbr=c['nbr'], radius=c['radius'], pdim=c['pd'], ord=ORDS[c['ord']])))
        a, b = f(pts), f(P2)
        return None if sorted_rows(a) == sorted_rows(b) else 'kept points differ as multisets after permuting the cloud'
    if fn == 'voxel_filter':
        f = lambda p: rows_of(must(lambda t=tens(torch, p, c=c): pp.voxel_filter(t, list(c['voxel']))))
        a, b = f(pts), f(P2)
        return None if rows_close(a, b, 2 * eps(c)) else 'voxel centroids change when the cloud is permuted'
    if fn == 'knn_filter':
        full = o_knn_filter(pts, c['k'], c['pd'], c['ord'], None)
        if full is None or full[1]:
            return None                  # k+1 > N, or a tie at the selection boundary of some row: the choice is unspecified
        f = lambda p: rows_of(must(lambda t=tens(torch, p, c=c): pp.knn_filter(t, k=c['k'], pdim=c['pd'], ord=ORDS[c['ord']])))
        a, b = f(pts), f(P2)
        return None if rows_close(b, [a[i] for i in idx], 2 * eps(c)) else 'outputs are not permuted with the cloud'
    if fn == 'knn':
        f = lambda p: must(lambda tr=tens(torch, c['ref'], c=c), tn=tens(torch, p, c=c): pp.knn(tr, tn, k=c['k'], ord=ORDS[c['ord']]))
        a, b = f(pts), f(P2)
        if not torch.equal(a.values, b.values):
            return 'knn distances change when the neighbour cloud is permuted'
        return None
    return None


def check_cam_batch(pp, torch, c):
    """batched cameras (intrinsics (..., 3, 3), extrinsics (...), points (..., N, 3) as documented): every batch item of
    point2pixel / pixel2point / reprojerr equals the call on that item alone (which the exact tie judges), and
    pixel2point(point2pixel(P), depth) = P for every camera of the batch"""
    D = torch.float64
    K, T, P = torch.tensor(c['K'], dtype=D), pp.SE3(torch.tensor(c['T'], dtype=D)), torch.tensor(c['P'], dtype=D)
    bs = tuple(c['bshape'])
    B = 1
    for v in bs:
        B *= v
    Kb, Tb, Pb = K.reshape(bs + (3, 3)), pp.SE3(T.tensor().reshape(bs + (7,))), P.reshape(bs + P.shape[-2:])
    use_T = c['use_T']
    if needs('a'):
        Pb = Pb.detach().clone().requires_grad_()
    if needs('K'):
        Kb = Kb.detach().clone().requires_grad_()
    if needs('T'):
        Tb = pp.SE3(Tb.tensor().detach().clone().requires_grad_())
    if needs('Tparam'):
        Tb = pp.Parameter(Tb)

    def items(t):
        return t.reshape((B,) + tuple(t.shape[len(bs):]))
    try:
        pix = must(lambda: pp.point2pixel(Pb, Kb, Tb if use_T else None))
    except Exception as e:
        return 'point2pixel with batched intrinsics of shape %s raised %r' % (tuple(Kb.shape), e)
    if tuple(pix.shape) != bs + (P.shape[-2], 2):
        return 'point2pixel returned shape %s for points %s and intrinsics %s' % (tuple(pix.shape), tuple(Pb.shape), tuple(Kb.shape))
    for b in range(B):
        one = must(lambda: pp.point2pixel(items(Pb)[b], items(Kb)[b], pp.SE3(items(Tb.tensor())[b]) if use_T else None))
        if not torch.allclose(items(pix)[b], one, rtol=1e-12, atol=1e-12):
            return 'point2pixel: batch item %d is %s, the same camera alone gives %s' % (b, items(pix)[b].tolist(), one.tolist())
    # camera-frame points and depths for the inverse
    Pc = (pp.SE3(Tb.tensor().detach()).unsqueeze(-2).Act(Pb.detach()) if use_T else Pb).detach()
    depth = Pc[..., 2].clone()
    pix = pix.detach().clone()
    if needs('b'):
        depth.requires_grad_(), pix.requires_grad_()
    try:
        back = must(lambda: pp.pixel2point(pix, depth, Kb))
    except Exception as e:
        return 'pixel2point with batched intrinsics of shape %s and pixels of shape %s raised %r' % (tuple(Kb.shape), tuple(pix.shape), e)
    if tuple(back.shape) != tuple(Pc.shape):
        return 'pixel2point returned shape %s, expected %s' % (tuple(back.shape), tuple(Pc.shape))
    err = float((back - Pc).abs().max())
    scale = float(Pc.abs().max()) + 1.0
    if not err <= 1e-9 * scale:
        return 'pixel2point(point2pixel(P), depth) differs from P by %.3g for batched cameras (batch shape %s, %d points each)' % (err, bs, P.shape[-2])
    for red in ('none', 'sum', 'norm'):
        try:
            e = must(lambda: pp.reprojerr(Pb, pix, Kb, Tb if use_T else None, reduction=red))
        except Exception as ex:
            return 'reprojerr(reduction=%r) with batched cameras raised %r' % (red, ex)
        if not float(e.abs().max()) <= 1e-9 * (float(pix.abs().max()) + 1.0):
            return 'reprojerr(reduction=%r) of the pixels produced by point2pixel is %.3g, not 0 (batched cameras)' % (red, float(e.abs().max()))
    return None


def camera_batches(ctx, pp, torch, n):
    rng = ctx.rng
    for t in range(n):
        bs = rng.choice([(2,), (3,), (2, 2), (1,), (2, 1, 2)])
        B = 1
        for v in bs:
            B *= v
        N = rng.choice([1, 2, B, B, 5])                 # N == last batch extent is the treacherous case
        K = [[[rng.choice([100.0, 150.0, 200.0, -120.0]), 0.0, rng.uniform(20, 80)], [0.0, rng.choice([100.0, 90.0, 250.0]), rng.uniform(20, 80)], [0.0, 0.0, 1.0]] for _ in range(B)]
        T = [[rng.uniform(-1, 1), rng.uniform(-1, 1), rng.uniform(-1, 1)] + unit_quat(rng) for _ in range(B)]
        P = [[[rng.uniform(-2, 2), rng.uniform(-2, 2), rng.uniform(4, 9)] for _ in range(N)] for _ in range(B)]
        c = dict(fn='cam-batch', K=K, T=T, P=P, bshape=list(bs), use_T=bool(t % 2))
        ctx.case(('cam-batch', tuple(bs), N, t), nontrivial=True, branch='camera-batched:%s' % ('N=B' if N == bs[-1] else 'N!=B'))
        try:
            why = check_cam_batch(pp, torch, c)
        except Exception as e:  # noqa
            why = 'check raised %s: %s' % (type(e).__name__, str(e)[:200])
        if why:
            ctx.violation('camera:batched-intrinsics', why, c)


def unit_quat(rng):
    while True:
        q = [rng.gauss(0, 1) for _ in range(4)]
        n = math.sqrt(sum(a * a for a in q))
        if n > 1e-3:
            return [a / n for a in q]


CHECKS = {'backproject': lambda pp, torch, c: check_backproject(pp, torch, c), 'cam-batch': check_cam_batch, 'knn': check_knn, 'nbr_filter': check_nbr, 'voxel_filter': check_voxel, 'voxel_filter_random': check_voxel_random,
          'knn_filter': check_knn_filter, 'random_filter': check_random, 'reprojerr-zero': check_reproj, 'perm': check_perm}


MUT = 'an argument tensor (or the buffer it is a view of) was modified in place by the call'


def judge(pp, torch, c):
    """the property's statement on the implementation for one case, in the case's call form (dtype / memory layout), plus the
    non-mutation of every tensor argument; -> description of the failure or None"""
    fn = c.get('fn')
    f = CHECKS.get(fn, check_cam)
    del LIVE[:]
    set_grad(c.get('grad'))
    try:
        why = f(pp, torch, c)
    except Exception as e:      # noqa
        why = 'check raised %s: %s' % (type(e).__name__, str(e)[:200])
    finally:
        set_grad(None)
    if mutated(torch) and why is None:
        why = MUT
    return why


def replay(ctx, c):
    pp = import_pypose()
    import torch
    return judge(pp, torch, c)


def form_of(c):
    d = c.get('dtypes') or c.get('dtype', 'float64')
    if isinstance(d, dict):
        d = '/'.join('%s=%s' % kv for kv in sorted(d.items()))
    g = c.get('grad')
    g = ',requires_grad=%s,mode=%s' % ('+'.join(g.get('req') or []) or 'none', g.get('mode') or 'grad') if g else ''
    return '%s,%s%s' % (d, c.get('layout') or 'contiguous', g)


def direct(ctx, pp, torch, c, branch, what=''):
    """judge one case directly with the exact oracle (no model evaluation) and report a failure with its input"""
    fn = c.get('of') if c.get('fn') == 'perm' else c.get('fn')
    ctx.case((branch, repr(sorted(c.items(), key=lambda kv: kv[0]))), nontrivial=True, branch=branch)
    why = judge(pp, torch, c)
    if why:
        if why == MUT:
            key = 'mutation:%s' % fn
        elif c.get('fn') == 'knn_filter' and 'dtype' not in c and 'layout' not in c:
            key = knnf_class(c)
        elif c.get('fn') == 'perm':
            key = 'perm-equivariance:' + fn
        else:
            key = '%s:%s' % (fn, branch.split(':')[0])
        ctx.violation(key, '%s%s [%s]: %s' % (fn, what, form_of(c), why), c)
    return why


def perm_check(ctx, pp, torch, c):
    ctx.case(('perm', c['of'], repr(c['perm'][:8]), len(c['pts'])), nontrivial=len(c['pts']) >= 2, branch='perm-equivariance:' + c['of'])
    why = replay(ctx, c)
    if why:
        ctx.violation('perm-equivariance:' + c['of'], why, c)


def random_block(ctx, col, pp, torch):
    rng = ctx.rng
    m = ctx.scale(1, 8)
    os_ = ['L1', 'L2', 'Linf']
    # ---- knn_filter (both branches; arrangement of removed points: as generated / moved last / permuted)
    for it in range(34 * m):
        o, pd, nf = rng.choice(os_), rng.randint(1, 6), rng.choice([0, 0, 1, 3])
        N = size(rng)
        pts = gen_cloud(rng, N, pd, nf, o)
        k = pick_k(rng, pts, pd, o, None)
        radius = None if rng.random() < 0.35 else pick_radius(rng, pts, pd, o)
        if radius is not None and rng.random() < 0.4:
            mask = o_nbr_mask(pts, k, radius, pd, o)
            pts = [p for p, b in zip(pts, mask) if b] + [p for p, b in zip(pts, mask) if not b]
        add_knnf(col, pp, torch, pts, k, pd, o, radius, batch=rng.choice([1, 1, 2]))
        if rng.random() < 0.5 and N <= 70:
            P2, idx = permuted(rng, pts)
            add_knnf(col, pp, torch, P2, k, pd, o, radius)
            if radius is None:
                perm_check(ctx, pp, torch, dict(fn='perm', of='knn_filter', pts=pts, perm=idx, k=k, pd=pd, ord=o))
    # ---- nbr_filter
    for it in range(30 * m):
        o, pd, nf = rng.choice(os_), rng.randint(1, 6), rng.choice([0, 0, 1, 3])
        N = size(rng)
        pts = gen_cloud(rng, N, pd, nf, o, dup=(it % 7 == 6))
        radius = pick_radius(rng, pts, pd, o)
        nbr = rng.choice([0, 1, 1, 2, 3, N // 2, N - 1, N, -1])
        add_nbr(col, pp, torch, pts, nbr, radius, pd, o, usepd=(nf > 0 or rng.random() < 0.5))
        if rng.random() < 0.5:
            P2, idx = permuted(rng, pts)
            add_nbr(col, pp, torch, P2, nbr, radius, pd, o)
            perm_check(ctx, pp, torch, dict(fn='perm', of='nbr_filter', pts=pts, perm=idx, nbr=nbr, radius=radius, pd=pd, ord=o))
    # ---- voxel_filter
    for it in range(30 * m):
        vd, nf = rng.randint(1, 6), rng.choice([0, 0, 1, 3])
        D = vd + nf
        N = size(rng)
        pts = gen_cloud(rng, N, vd, nf, 'L2', dup=(it % 7 == 6), spread=rng.choice([4, 16, 64, 512]))
        use = rng.randint(1, vd) if rng.random() < 0.3 else vd
        voxel = [rng.choice([1.0, 2.0, 5.0, 0.5, 0.25, 1.5, 3.0, 7.0, 10.0, 64.0, 1000.0, -2.0, -0.75]) for _ in range(use)]
        add_vox(col, pp, torch, pts, voxel)
        if rng.random() < 0.5:
            P2, idx = permuted(rng, pts)
            add_vox(col, pp, torch, P2, voxel)
            perm_check(ctx, pp, torch, dict(fn='perm', of='voxel_filter', pts=pts, perm=idx, voxel=voxel))
        if it % 2 == 0:
            add_voxr(col, pp, torch, pts, voxel, rng.randrange(10 ** 6))
    # ---- voxel_filter, points exactly ON voxel boundaries for arbitrary integer voxel sizes: (p - min) is an exact multiple of
    # the size, so the cell index is decided by how the quotient is computed (a reciprocal that rounds down moves the point
    # into the lower cell).  Integer sizes on dyadic clouds keep the exact oracle sound in both dtypes: a quotient that is not
    # an integer is at least 1 / (4 * 63) away from one.  Own random stream: the cases of the other blocks stay what they were.
    import random as _random
    rb = _random.Random(ctx.seed * 7919 + 18)
    for it in range(16 * m):
        vd, nf = rb.randint(1, 3), rb.choice([0, 0, 1])
        N = rb.choice([4, 6, 9, 14, 20, 33, 60])
        pts = gen_cloud(rb, N, vd, nf, 'L2', spread=rb.choice([64, 512]))
        voxel = [float(rb.randint(3, 63)) for _ in range(vd)]
        for ax in range(vd):
            mn = min(r[ax] for r in pts)
            for r in pts:
                if rb.random() < 0.6:
                    r[ax] = mn + rb.choice([1, 2, 3, 4, 5, 7, 8, 13, 16, 31, 32]) * voxel[ax]
        add_vox(col, pp, torch, pts, voxel)
        add_voxr(col, pp, torch, pts, voxel, rb.randrange(10 ** 6))
        ctx.count('voxel:boundary-points-integer-sizes')
    # ---- knn
    for it in range(24 * m):
        o, D = rng.choice(os_), rng.randint(1, 6)
        N2 = size(rng)
        N1 = rng.choice([1, 2, 3, 5, 9]) if N2 > 70 else min(size(rng), 48)
        nbr = gen_cloud(rng, N2, D, 0, o, dup=(it % 6 == 5))
        ref = gen_cloud(rng, N1, D, 0, o) if rng.random() < 0.7 else [list(p) for p in rng.sample(nbr, min(N1, N2))]
        k = rng.choice([0, 1, 1, 2, 3, N2, N2 // 2, N2 + 1, rng.randint(0, N2)])
        add_knn(col, pp, torch, ref, nbr, k, o, batch=rng.choice([1, 1, 3]))
    # ---- knn on clouds far from the origin relative to their spacing (world coordinates), small and large clouds:
    #      distances must come from coordinate differences, whatever the absolute position (integer grid: exact)
    for it in range(10 * m):
        o, D = rng.choice(['L2', 'L2', 'L1', 'Linf']), rng.randint(1, 4)
        N2 = rng.choice([3, 12, 26, 30, 48, 100])
        N1 = rng.choice([1, 2, 5, 9])
        off = [float(rng.choice([1, -1]) * rng.choice([2 ** 26, 5 * 10 ** 7, 2 ** 30])) for _ in range(D)]
        nbr = [[float(rng.randint(-40, 40)) + off[j] for j in range(D)] for _ in range(N2)]
        ref = [[float(rng.randint(-40, 40)) + off[j] for j in range(D)] for _ in range(N1)] if rng.random() < 0.5 else [list(q) for q in rng.sample(nbr, min(N1, N2))]
        k = rng.choice([1, 1, 2, 3, N2])
        add_knn(col, pp, torch, ref, nbr, k, o)
        if k <= N2 and rng.random() < 0.5:
            P2, idx = permuted(rng, nbr)
            add_knn(col, pp, torch, ref, P2, k, o)
            perm_check(ctx, pp, torch, dict(fn='perm', of='knn', pts=nbr, ref=ref, perm=idx, k=k, ord=o))
    # ---- random_filter
    for it in range(14 * m):
        N = size(rng)
        pts = gen_cloud(rng, N, rng.randint(1, 6), rng.choice([0, 1]), 'L1')
        add_rnd(col, pp, torch, pts, rng.choice([0, 1, N, N // 2, rng.randint(0, N), N + 1]), rng.randrange(10 ** 6), batch=rng.choice([1, 1, 4]))


# ------------------------------------------------------------------------------------ regimes of the cloud size / exact thresholds
EDGE_SIZES = [63, 64, 65, 127, 128, 129, 130, 191, 193, 255, 256, 257, 258, 260, 288, 299, 300]


def gen_lattice(rng, N, pd, nf, small=False):
    """N DISTINCT points of a dense integer lattice (times a dyadic step) with a few far outliers at random array positions:
    every point has a handful of neighbours within a few steps, so that small thresholds are attained exactly by many points"""
    step = rng.choice([1.0, 1.0, 0.5, 2.0])
    side = max(3, int(round((N * rng.choice([1.2, 2.0, 4.0])) ** (1.0 / pd))) + 1)
    seen = set()
    while len(seen) < N:
        c = tuple(rng.randrange(side) for _ in range(pd))
        if c in seen:
            side += 1 if rng.random() < 0.05 else 0
            continue
        seen.add(c)
    coords = list(seen)
    rng.shuffle(coords)
    far = 150 if small else 1000
    for t in range(min(3, N - 1) if rng.random() < 0.7 else 0):
        coords[rng.randrange(N)] = tuple(far + 50 * t + 7 * q for q in range(pd))
    return [[v * step for v in c] + [rng.randint(-64, 64) / 4 for _ in range(nf)] for c in coords], step


def o_counts(rows, radius, pd, o):
    P, sc = scaled(rows)
    return [sum(1 for j, q in enumerate(P) if j != i and within(o, meas(o, p[:pd], q[:pd]), radius, sc)) for i, p in enumerate(P)]


def radius_for_count(rng, pts, pd, o, i, k):
    """a representable radius with (normally) exactly k other points of the cloud within it around point i"""
    P = frows(pts)
    d = sorted(meas(o, P[i][:pd], q[:pd]) for j, q in enumerate(P) if j != i)
    if k <= 0 or k > len(d):
        return 0.25
    m = d[k - 1]
    if o == 'L2':
        return math.ceil(math.sqrt(float(m)) * 4) / 4
    return float(m)


def large_block(ctx, col, pp, torch):
    """cloud sizes at and next to powers of two / typical block lengths up to the documented 300 points, parameters at the exact
    threshold (nbr = the number of neighbours some point really has, radius = the distance of some point's k-th neighbour), every
    cloud function; judged by the exact oracle, two of the nbr_filter cases per run also by the model"""
    rng = ctx.rng
    m = ctx.scale(1, 4)
    os_ = ['L1', 'L2', 'Linf']
    big = [n for n in EDGE_SIZES if n > 256]
    # ---- nbr_filter: dense lattice clouds, threshold = the exact neighbour count of a point of the cloud
    for it in range(12 * m):
        N = rng.choice(big) if it % 2 == 0 else rng.choice(EDGE_SIZES)
        o, pd, nf = os_[it % 3], rng.choice([1, 2, 2, 3, 3, 4, 6]), rng.choice([0, 0, 1, 3])
        dtype = 'float32' if it % 4 == 3 else 'float64'
        pts, step = gen_lattice(rng, N, pd, nf, small=(dtype == 'float32'))
        radius = step * rng.choice([1.0, 1.5, 1.5, 2.0, 2.5, 3.0])
        cnt = o_counts(pts, radius, pd, o)
        nbr = cnt[rng.randrange(N)] + rng.choice([0, 0, 0, 1])
        c = dict(fn='nbr_filter', pts=pts, nbr=nbr, radius=radius, pd=pd, ord=o)
        if dtype != 'float64':
            c['dtype'] = dtype
        ctx.count('size-regime:nbr_filter:%s' % ('N>256' if N > 256 else ('N>128' if N > 128 else 'N<=128')))
        direct(ctx, pp, torch, c, 'size-regime:nbr_filter', ' on %d points, nbr = exact count of a point' % N)
        if it < 2:
            add_nbr(col, pp, torch, pts, nbr, radius, pd, o)
        if it % 4 == 1:
            P2, idx = permuted(rng, pts)
            direct(ctx, pp, torch, dict(fn='perm', of='nbr_filter', pts=pts, perm=idx, nbr=nbr, radius=radius, pd=pd, ord=o), 'size-regime:perm')
    # ---- knn_filter (radius branch at the exact count, no-radius branch), sparse clouds (no ties at the selection boundary)
    for it in range(5 * m):
        N = rng.choice(big) if it % 2 == 0 else rng.choice(EDGE_SIZES)
        o, pd, nf = os_[it % 3], rng.randint(1, 4), rng.choice([0, 1])
        pts = gen_cloud(rng, N, pd, nf, o)
        k = pick_k(rng, pts, pd, o, None, tries=3)
        radius = None if it % 5 == 4 else radius_for_count(rng, pts, pd, o, rng.randrange(N), max(k, 1) if it % 2 == 0 else k + 1)
        c = dict(fn='knn_filter', pts=pts, k=k, pd=pd, ord=o, radius=radius)
        direct(ctx, pp, torch, c, 'size-regime:knn_filter', ' on %d points' % N)
    # ---- knn: many neighbours, few reference points; k small, k = N and k next to block lengths
    for it in range(5 * m):
        N2 = rng.choice(big) if it % 2 == 0 else rng.choice(EDGE_SIZES)
        o, D = os_[it % 3], rng.randint(1, 5)
        nbr = gen_cloud(rng, N2, D, 0, o)
        ref = gen_cloud(rng, rng.choice([1, 3, 7]), D, 0, o) if it % 2 else [list(q) for q in rng.sample(nbr, 3)]
        k = rng.choice([1, 2, 5, N2, N2 - 1, 129, 64])
        direct(ctx, pp, torch, dict(fn='knn', ref=ref, nbr=nbr, k=min(k, N2), ord=o), 'size-regime:knn', ' on %d neighbours' % N2)
    # ---- voxel_filter (centroid / random member) and random_filter
    for it in range(4 * m):
        N = rng.choice(big) if it % 2 == 0 else rng.choice(EDGE_SIZES)
        vd, nf = rng.randint(1, 4), rng.choice([0, 1, 3])
        pts = gen_cloud(rng, N, vd, nf, 'L2', spread=rng.choice([4, 16, 64, 512]))
        voxel = [rng.choice([1.0, 2.0, 5.0, 0.5, 1.5, 3.0, 7.0, 10.0, 64.0, 1000.0, -2.0]) for _ in range(vd)]
        direct(ctx, pp, torch, dict(fn='voxel_filter', pts=pts, voxel=voxel), 'size-regime:voxel_filter', ' on %d points' % N)
        if it % 2 == 0:
            direct(ctx, pp, torch, dict(fn='voxel_filter_random', pts=pts, voxel=voxel, seed=rng.randrange(10 ** 6)), 'size-regime:voxel_filter_random', ' on %d points' % N)
        else:
            P2, idx = permuted(rng, pts)
            direct(ctx, pp, torch, dict(fn='perm', of='voxel_filter', pts=pts, perm=idx, voxel=voxel), 'size-regime:perm')
        direct(ctx, pp, torch, dict(fn='random_filter', pts=pts, num=rng.choice([N, N - 1, 257, 129, N // 2, 1]) if N > 257 else rng.randint(0, N),
                                    seed=rng.randrange(10 ** 6)), 'size-regime:random_filter', ' on %d points' % N)


# ------------------------------------------------------------------------------------ call forms: dtypes and memory layouts
def gen_small(rng, N, pd, nf, integer=False):
    """integer coordinates |c| <= 200 (every distance computation is exact in single precision too), features on a quarter grid"""
    centres = [[rng.randint(-150, 150) for _ in range(pd)] for _ in range(rng.randint(1, 3))]
    spread = rng.choice([4, 16, 50])
    rows = []
    for _ in range(N):
        if rng.random() < 0.15:
            c = [rng.randint(-200, 200) for _ in range(pd)]
        else:
            ce = rng.choice(centres)
            c = [max(-200, min(200, x + rng.randint(-spread, spread))) for x in ce]
        f = [rng.randint(-64, 64) * (1.0 if integer else 0.25) for _ in range(nf)]
        rows.append([float(v) for v in c] + f)
    return rows


def cloud_case(rng, fn, pts, pd, nf, o, form):
    """one case of the cloud function fn ('perm-*': its permutation equivariance) on the cloud pts, parameters at realised
    distances / counts; form = extra keys of the case (dtype / layout / autograd state)"""
    N = len(pts)
    if fn in ('nbr_filter', 'perm-nbr'):
        radius = pick_radius(rng, pts, pd, o)
        cnt = o_counts(pts, radius, pd, o) if radius >= 0 else [0]
        c = dict(fn='nbr_filter', pts=pts, nbr=rng.choice([cnt[rng.randrange(len(cnt))], 1, 2, 0]), radius=radius, pd=pd, ord=o)
    elif fn in ('knn_filter', 'perm-knnf'):
        k = pick_k(rng, pts, pd, o, None)
        radius = None if (fn == 'perm-knnf' or rng.random() < 0.4) else radius_for_count(rng, pts, pd, o, rng.randrange(N), max(k, 1))
        c = dict(fn='knn_filter', pts=pts, k=k, pd=pd, ord=o, radius=radius)
    elif fn == 'knn':
        D = pd + nf
        ref = gen_small(rng, rng.choice([1, 2, 5]), D, 0)
        c = dict(fn='knn', ref=ref, nbr=pts, k=rng.choice([0, 1, 2, N, N // 2]), ord=o)
    elif fn in ('voxel_filter', 'voxel_filter_random', 'perm-vox'):
        voxel = [rng.choice([1.0, 2.0, 5.0, 0.5, 1.5, 3.0, 7.0, 10.0, 64.0, 1000.0, -2.0]) for _ in range(rng.randint(1, pd))]
        c = dict(fn='voxel_filter' if fn != 'voxel_filter_random' else fn, pts=pts, voxel=voxel, seed=rng.randrange(10 ** 6))
    else:
        c = dict(fn='random_filter', pts=pts, num=rng.choice([0, 1, N, N // 2, N + 1]), seed=rng.randrange(10 ** 6))
    c.update(form)
    if fn.startswith('perm-'):
        P2, idx = permuted(rng, pts)
        c = dict(c, of=c['fn'], fn='perm', perm=idx)
    return c


def call_forms(ctx, pp, torch, n):
    """every cloud function in single precision, on non-contiguous views (column-major, strided slices of a larger buffer, storage
    offset) and - where integer clouds are accepted (random sampling) - on integer tensors; exact oracle + non-mutation"""
    rng = ctx.rng
    fns = ['nbr_filter', 'knn_filter', 'knn', 'voxel_filter', 'voxel_filter_random', 'random_filter', 'perm-nbr', 'perm-knnf', 'perm-vox']
    os_ = ['L1', 'L2', 'Linf']
    for it in range(n):
        fn = fns[it % len(fns)]
        dtype = rng.choice(['float32', 'float32', 'float64'])
        layout = rng.choice(LAYOUTS)
        if dtype == 'float64' and layout is None:
            layout = rng.choice(LAYOUTS[1:])
        integer = fn in ('voxel_filter_random', 'random_filter') and rng.random() < 0.4
        if integer:
            dtype = rng.choice(['int64', 'int32', 'int16'])
        o, pd, nf = rng.choice(os_), rng.randint(1, 5), rng.choice([0, 1, 2])
        N = rng.choice([1, 2, 3, 5, 8, 13, 24, 48])
        pts = gen_small(rng, N, pd, nf, integer)
        c = cloud_case(rng, fn, pts, pd, nf, o, dict(dtype=dtype, layout=layout))
        direct(ctx, pp, torch, c, 'call-form:%s:%s' % (fn, 'integer' if integer else dtype))


PIX_DT = ['int64', 'int32', 'int16', 'uint8', 'float32', 'float64']
DEP_DT = ['int64', 'int32', 'int16', 'float32', 'float64']


def camera_forms(ctx, pp, torch, n):
    """camera helpers with the argument dtypes that occur in practice: integer pixel grids (meshgrid of arange), integer depth
    images, single / double precision cameras and depths in every combination the implementation accepts; pixels / depth on
    non-contiguous views.  Values against the pinhole model in exact arithmetic, plus the round trip and non-mutation."""
    rng = ctx.rng
    for it in range(n):
        K, T = gen_camera(rng)
        if rng.random() < 0.75:          # pinhole intrinsics for the inverse pair
            f = lambda: rng.choice([1, 2, 4, 0.5, 3, 1.5, -2, 40, 100.25, 525.0])
            K = [[f(), 0.0, dy(rng, -8, 40)], [0.0, f(), dy(rng, -8, 40)], [0.0, 0.0, 1.0]]
        dK = rng.choice(['float32', 'float64'])
        layout = rng.choice(LAYOUTS)
        N = rng.choice([1, 2, 4, 6, 12])
        op = ['pixel2point', 'pixel2point', 'reprojerr-none', 'reprojerr-sum', 'reprojerr-norm', 'point2pixel', 'cart2homo', 'homo2cart', 'pixel2point'][it % 9]
        if op == 'pixel2point':
            da, db = rng.choice(PIX_DT), rng.choice(DEP_DT)
            if it % 3 == 0:
                da = rng.choice(PIX_DT[:4])                   # the integer pixel grid is the ordinary case
            pix = [[float(rng.randint(0, 200)), float(rng.randint(0, 200))] if da.find('int') >= 0 else [dy(rng, -8, 40), dy(rng, -8, 40)] for _ in range(N)]
            dep = [[float(rng.randint(1, 60))] if db.find('int') >= 0 else [rng.choice([1, 2, 0.5, 3, 5.5, -2, 0.75, 7.25])] for _ in range(N)]
            c = dict(fn=op, K=K, T=None, pts=pix, b=dep, dtypes=dict(a=da, b=db, K=dK), layout=layout)
            direct(ctx, pp, torch, c, 'call-form:pixel2point:%s' % ('int-pixels' if da.find('int') >= 0 else ('int-depth' if db.find('int') >= 0 else 'float')))
            continue
        pts = [[dy(rng, -8, 8), dy(rng, -8, 8), rng.choice([1, 2, 4, 0.5, 3, 5, -2, 1.5, 7.25])] for _ in range(N)]
        if op == 'cart2homo':
            da = rng.choice(['float32', 'float64', 'int64', 'int32'])
            a = [[float(rng.randint(-50, 50)) if da.find('int') >= 0 else dy(rng, -8, 8) for _ in range(rng.randint(1, 5))]]
            c = dict(fn=op, K=None, T=None, pts=a, b=None, dtypes=dict(a=da), layout=layout)
        elif op == 'homo2cart':
            d = rng.randint(2, 5)
            a = [[dy(rng, -8, 8) for _ in range(d - 1)] + [rng.choice([1, -1, 2, 3, -5, 0.75, 7])] for _ in range(N)]
            c = dict(fn=op, K=None, T=None, pts=a, b=None, dtypes=dict(a=dK), layout=layout)
        elif op == 'point2pixel':
            c = dict(fn=op, K=K, T=T, pts=pts, b=None, dtypes=dict(a=dK, K=dK), layout=layout)
        else:
            db = rng.choice(PIX_DT)
            pr = [o_project(K, T, q, TINY[dK]) for q in pts]
            if any(abs(v) > 10 ** 6 for q in pr for v in q):
                continue
            if db.find('int') >= 0:
                pix = [[float(round(q[0]) + rng.randint(-3, 3)), float(round(q[1]) + rng.randint(-3, 3))] for q in pr]
                if any(not 0 <= v <= 255 for q in pix for v in q) and db == 'uint8':
                    db = 'int32'
                if any(abs(v) > 30000 for q in pix for v in q) and db == 'int16':
                    db = 'int64'
            else:
                pix = [[float(math.floor(q[0] * 8) / 8) + dy(rng, -4, 4), float(math.floor(q[1] * 8) / 8) + dy(rng, -4, 4)] for q in pr]
            c = dict(fn=op, K=K, T=T, pts=pts, b=pix, dtypes=dict(a=dK, b=db, K=dK), layout=layout)
        direct(ctx, pp, torch, c, 'call-form:%s:%s' % (op, c['dtypes'].get('b', c['dtypes'].get('a'))))
    # ---- the back-projection scenario as a whole: integer grid -> points -> pixels returns the grid, reprojerr of it is 0
    for it in range(max(2, n // 10)):
        W, H = rng.randint(2, 6), rng.randint(2, 5)
        c = dict(fn='backproject', W=W, H=H, K=[[rng.choice([2.0, 3.5, 525.0, -2.25]), 0.0, dy(rng, 0, 8)], [0.0, rng.choice([2.0, 410.5, -2.25, 4.0]), dy(rng, 0, 8)], [0.0, 0.0, 1.0]],
                 depth=[rng.randint(1, 32) / 4 for _ in range(W * H)], dtypes=dict(a=rng.choice(PIX_DT[:3]), b=rng.choice(['float32', 'float64'])))
        direct(ctx, pp, torch, c, 'call-form:backproject')


def check_backproject(pp, torch, c):
    """pixel2point on the integer pixel grid of a W x H image, then point2pixel / reprojerr on the result: mutually inverse"""
    W, H = c['W'], c['H']
    fd = c['dtypes']['b']
    grid = [[u, v] for v in range(H) for u in range(W)]
    px = mk(torch, grid, c['dtypes']['a'])
    K = mk(torch, c['K'], fd)
    z = mk(torch, c['depth'], fd)
    tol = float(64 * EPS[fd])
    pts, err = call(lambda: pp.pixel2point(px, z, K))
    if err:
        return 'pixel2point raises ' + err
    if not pts.dtype.is_floating_point:
        return 'pixel2point returns dtype %s for a %s pixel grid and %s depth' % (pts.dtype, px.dtype, z.dtype)
    for g, (u, v), d in zip(pts.tolist(), grid, c['depth']):
        want = [(u - F(c['K'][0][2])) * F(d) / F(c['K'][0][0]), (v - F(c['K'][1][2])) * F(d) / F(c['K'][1][1]), F(d)]
        if not all(abs(F(x) - y) <= F(tol) * (abs(y) + 1) for x, y in zip(g, want)):
            return 'pixel2point(pixel %s, depth %s) = %s, the pinhole model gives %s' % ([u, v], d, g, [float(x) for x in want])
    back, err = call(lambda: pp.point2pixel(pts.to(K.dtype), K))
    if err:
        return 'point2pixel raises ' + err
    e = float((back.double() - px.double()).abs().max())
    if not e <= tol * 1e3 * 300:
        return 'point2pixel(pixel2point(grid, depth)) differs from the grid by %.3g px' % e
    r, err = call(lambda: pp.reprojerr(pts.to(K.dtype), px, K, reduction='norm'))
    if err:
        return 'reprojerr raises ' + err
    if not float(r.abs().max()) <= tol * 1e3 * 300:
        return 'reprojerr of the back-projected grid is %.3g px' % float(r.abs().max())
    return None


# ------------------------------------------------------------------------------------ autograd states
def dyadic_camera(rng, need_T):
    """(K, T, points): a dyadic camera of gen_camera and points whose exact projections are of moderate size"""
    for _ in range(20):
        K, T = gen_camera(rng)
        if need_T and T is None:
            q = list(rng.choice(HURWITZ)) if rng.random() < 0.6 else [dy(rng, -1, 1) for _ in range(4)]
            T = [dy(rng, -4, 4) for _ in range(3)] + q
        pts = [[dy(rng, -8, 8), dy(rng, -8, 8), rng.choice([1, 2, 4, 0.5, 3, 5, -2, 1.5, 7.25, -0.375])] for _ in range(rng.choice([2, 3, 5]))]
        pr = [o_project(K, T, q) for q in pts]
        if all(abs(v) < 10 ** 5 for q in pr for v in q):
            return K, T, pts, pr
    K = [[2.0, 0.0, 4.5], [0.0, 2.0, 4.5], [0.0, 0.0, 1.0]]
    T = [0.0, -8.0, 0.0, 0.5, 0.5, 0.5, 0.5]
    pts = [[2.0, 0.0, 2.0], [1.0, 0.0, 2.0], [0.0, 1.0, 1.0]]
    return K, T, pts, [o_project(K, T, q) for q in pts]


def autograd_states(ctx, pp, torch, n):
    """every camera and cloud function with arguments that take part in autograd - points, pixels / depth, intrinsics that require
    grad, extrinsics that require grad or are a pp.Parameter (the pose being optimised), one or several of them at once - and under
    no_grad / inference_mode: the VALUES are those of the property's definitions in every state, so each case is judged by the same
    exact oracle as in the plain state: reprojerr is exactly zero on the pixels produced by point2pixel and only there, with exact
    and displaced pixels mixed in one call; 'none' is minus the displacement, 'sum' / 'norm' its 1- / 2-norm; point2pixel /
    pixel2point / homo2cart / cart2homo against the pinhole model; batched cameras; every cloud function and its permutation
    equivariance on a cloud that requires grad; non-mutation of the arguments"""
    rng = ctx.rng
    states = [dict(req=list(r), mode=m) for m in GRAD_MODES for r in GRAD_REQS if r or m]
    cam_ops = ['reprojerr-norm', 'point2pixel', 'pixel2point', 'reprojerr-sum', 'homo2cart', 'reprojerr-none', 'cart2homo']
    cloud = ['knn_filter', 'nbr_filter', 'knn', 'voxel_filter', 'voxel_filter_random', 'random_filter', 'perm-knnf', 'perm-nbr', 'perm-vox']
    os_ = ['L1', 'L2', 'Linf']
    for it in range(n):
        g = states[it % len(states)]
        mode = g['mode'] or 'grad'
        K, T, pts, pr = dyadic_camera(rng, need_T=('T' in g['req'] or 'Tparam' in g['req']))
        # ---- zero exactly on the produced pixels / norms of the residual: the first point always exact, the others exact or displaced
        off = [[0.0, 0.0]] + [rng.choice([[0.0, 0.0], [dy(rng, -4, 4), dy(rng, -4, 4)], [0.0, dy(rng, 1, 4)], [3.0, -4.0]]) for _ in pts[1:]]
        for red in ('none', 'sum', 'norm'):
            c = dict(fn='reprojerr-zero', K=K, T=T, pts=pts, offset=off, reduction=red, grad=g)
            direct(ctx, pp, torch, c, 'autograd:reprojerr-zero:%s:%s' % (red, mode))
        # ---- one camera helper against the pinhole model
        op = cam_ops[it % len(cam_ops)]
        dK = 'float32' if it % 5 == 4 else 'float64'
        lay = rng.choice(LAYOUTS)
        N = len(pts)
        if op == 'cart2homo':
            c = dict(fn=op, K=None, T=None, pts=[[dy(rng, -8, 8) for _ in range(3)] for _ in range(N)], b=None, dtypes=dict(a=dK))
        elif op == 'homo2cart':
            d = rng.randint(2, 5)
            c = dict(fn=op, K=None, T=None, pts=[[dy(rng, -8, 8) for _ in range(d - 1)] + [rng.choice([1, -1, 2, 3, -5, 0.75, 7])] for _ in range(N)], b=None, dtypes=dict(a=dK))
        elif op == 'pixel2point':
            f = lambda: rng.choice([1, 2, 4, 0.5, 3, 1.5, -2, 40, 100.25, 525.0])
            Kp = [[f(), 0.0, dy(rng, -8, 40)], [0.0, f(), dy(rng, -8, 40)], [0.0, 0.0, 1.0]]
            c = dict(fn=op, K=Kp, T=None, pts=[[dy(rng, -8, 40), dy(rng, -8, 40)] for _ in range(N)],
                     b=[[rng.choice([1, 2, 0.5, 3, 5.5, -2, 0.75, 7.25])] for _ in range(N)], dtypes=dict(a=dK, b=dK, K=dK))
        elif op == 'point2pixel':
            c = dict(fn=op, K=K, T=T, pts=pts, b=None, dtypes=dict(a=dK, K=dK))
        else:
            pix = [[float(math.floor(q[0] * 8) / 8) + dy(rng, -4, 4), float(math.floor(q[1] * 8) / 8) + dy(rng, -4, 4)] for q in pr]
            c = dict(fn=op, K=K, T=T, pts=pts, b=pix, dtypes=dict(a=dK, b=dK, K=dK))
        direct(ctx, pp, torch, dict(c, layout=lay, grad=g), 'autograd:%s:%s' % (op, mode))
        # ---- batched cameras
        if it % 4 == 0:
            bs = rng.choice([(2,), (3,), (2, 2)])
            B = bs[0] * (bs[1] if len(bs) > 1 else 1)
            Nb = rng.choice([1, B, 4])
            c = dict(fn='cam-batch', bshape=list(bs), use_T=bool(it % 8 == 0 or 'T' in g['req'] or 'Tparam' in g['req']), grad=g,
                     K=[[[rng.choice([100.0, 150.0, -120.0]), 0.0, rng.uniform(20, 80)], [0.0, rng.choice([100.0, 90.0, 250.0]), rng.uniform(20, 80)], [0.0, 0.0, 1.0]] for _ in range(B)],
                     T=[[rng.uniform(-1, 1), rng.uniform(-1, 1), rng.uniform(-1, 1)] + unit_quat(rng) for _ in range(B)],
                     P=[[[rng.uniform(-2, 2), rng.uniform(-2, 2), rng.uniform(4, 9)] for _ in range(Nb)] for _ in range(B)])
            direct(ctx, pp, torch, c, 'autograd:cam-batch:%s' % mode)
        # ---- one cloud function on a cloud that requires grad (or a plain cloud inside no_grad / inference_mode)
        fn = cloud[it % len(cloud)]
        o, pd, nf = rng.choice(os_), rng.randint(1, 4), rng.choice([0, 1, 2])
        cl = gen_small(rng, rng.choice([1, 2, 3, 5, 8, 13, 24]), pd, nf)
        gc = dict(req=['a'] if g['req'] else [], mode=g['mode'])
        form = dict(grad=gc)
        if it % 3 == 0:
            form.update(dtype=rng.choice(['float32', 'float64']), layout=rng.choice(LAYOUTS))
        direct(ctx, pp, torch, cloud_case(rng, fn, cl, pd, nf, o, form), 'autograd:%s:%s' % (fn, mode))


# ------------------------------------------------------------------------------------ valid but falsy argument values
def falsy_args(ctx, pp, torch, n):
    """optional / numeric arguments at values that are valid but falsy in Python, given as int or as float, given explicitly at
    their default or left out: radius 0 and 0.0 (exactly the coincident points are within it - clouds with exact duplicate rows
    at random positions and clouds without), k / nbr / num 0, pdim omitted for clouds without feature channels, return_mask
    omitted, random=False given, a non-zero radius given as int; exact oracle on the implementation"""
    rng = ctx.rng
    os_ = ['L1', 'L2', 'Linf']
    for it in range(n):
        o, pd, nf = os_[it % 3], rng.randint(1, 4), rng.choice([0, 0, 1])
        N = rng.choice([1, 2, 3, 4, 6, 9, 14])
        pts = gen_small(rng, N, pd, nf)
        if it % 2 == 0 and N >= 2:
            for _ in range(rng.randint(1, max(1, N // 2))):
                a, b = rng.sample(range(N), 2)
                pts[a] = list(pts[b])                 # an exact copy: within radius 0, no tie with the point itself
        zero = [0, 0.0][(it // 2) % 2]
        far = rng.choice([1000, 7])                   # a non-zero radius given as int
        omit = lambda *names: [x for x in names if rng.random() < 0.5 and (x != 'pdim' or nf == 0)]
        for k in (0, 1, 2):
            for radius in (zero, far):
                if k + 1 <= N:
                    c = dict(fn='knn_filter', pts=pts, k=k, pd=pd, ord=o, radius=radius, omit=omit('pdim'))
                    direct(ctx, pp, torch, c, 'falsy:knn_filter:radius=%r' % (radius if radius == 0 else 'int'), '(k=%d, radius=%r, ord=%s) on %d points' % (k, radius, o, N))
                c = dict(fn='nbr_filter', pts=pts, nbr=k, radius=radius, pd=pd, ord=o, omit=omit('pdim', 'return_mask'))
                direct(ctx, pp, torch, c, 'falsy:nbr_filter:radius=%r' % (radius if radius == 0 else 'int'), '(nbr=%d, radius=%r, ord=%s) on %d points' % (k, radius, o, N))
        c = dict(fn='knn_filter', pts=pts, k=0, pd=pd, ord=o, radius=None, omit=omit('pdim', 'radius'))
        direct(ctx, pp, torch, c, 'falsy:knn_filter:k=0')
        direct(ctx, pp, torch, dict(fn='knn', ref=pts[:3], nbr=pts, k=0, ord=o), 'falsy:knn:k=0')
        direct(ctx, pp, torch, dict(fn='random_filter', pts=pts, num=0, seed=it), 'falsy:random_filter:num=0')
        direct(ctx, pp, torch, dict(fn='voxel_filter', pts=pts, voxel=[rng.choice([1.0, 2.0, 5.0, 64.0]) for _ in range(pd)], explicit=True), 'falsy:voxel_filter:random=False')


def run(ctx):
    pp = import_pypose()
    import torch
    ctx.rule = RULE
    col = Col(ctx)
    directed(ctx, col, pp, torch)
    random_block(ctx, col, pp, torch)
    camera_cases(ctx, col, pp, torch, ctx.scale(70, 600))
    camera_batches(ctx, pp, torch, ctx.scale(24, 200))
    large_block(ctx, col, pp, torch)
    call_forms(ctx, pp, torch, ctx.scale(72, 500))
    camera_forms(ctx, pp, torch, ctx.scale(72, 500))
    autograd_states(ctx, pp, torch, ctx.scale(46, 230))
    falsy_args(ctx, pp, torch, ctx.scale(18, 90))
    files = col.files(ctx.scale(16, 48))
    res = run_case_files('C18', files, timeout=1500)
    bad = set()
    for name, (rc, out) in sorted(res.items()):
        ev = parse_evals(out)
        if rc != 0 or len(ev) != len(KINDS):
            ctx.obligation_broken('correspondence-file:' + name, out[-1500:])
            continue
        for e in ev:
            bad.update(parse_nat_list(e))
    ctx.traces = len(col.meta)
    ctx.notes.append('%d cases in %d Coq shards; model != implementation on %d' % (len(col.meta), len(files), len(bad)))
    # ---- search: the property's own statement on the implementation at / around the mismatching input
    for i in sorted(bad)[:40]:
        c = col.meta[i]
        mm = dict(family=c.get('fn', c['kind']), case={k: v for k, v in c.items() if k != 'impl'}, detail=str(c.get('impl'))[:300])
        ctx.mismatches.append(mm)
        cands = [c]
        if 'pts' in c and c['kind'] != 'cam' and len(c['pts']) > 1:
            for _ in range(20):
                P2, _ = permuted(ctx.rng, c['pts'])
                n = ctx.rng.randint(1, len(P2))
                cands.append(dict(c, pts=P2[:n]))
        for cc in cands:
            why = replay(ctx, cc)
            if why:
                mm['explained'] = True
                key = knnf_class(cc) if cc.get('fn') == 'knn_filter' else '%s:differs-from-definition' % cc.get('fn')
                ctx.violation(key, '%s: %s' % (cc.get('fn'), why), {k: v for k, v in cc.items() if k != 'impl'})
                break
