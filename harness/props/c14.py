"""C14 correspondence: LQR.forward / MPC.forward vs Model/LQR.v, and the property's own oracle.

1. Scalar route (state and input dimension 1): dyadic data, so the model receives exactly the
   implementation's inputs; Coq evaluates Model/LQR.v over Q with vm_compute on whole HISTORIES of
   solves on one system object (LTI / LTV, arbitrary time counters, nominal trajectories, dt) and
   on MPC.forward runs (stepper state, iteration count, best-so-far), and compares x, u, cost
   (|a-b| <= TOL_MODEL*(1+|a|): the only inexact operations are the divisions of the 1x1 Cholesky
   solve) and the system time / stepper state / iteration count exactly.
2. General route: random LTI/LTV problems (batch 1..3, horizon 1..20, dims 1..6, unstable A, PD Q_t
   with condition numbers up to 1e6, c1, nominal trajectories, repeated solves on one object at
   arbitrary time counters) checked against the property text itself in 400-bit mpmath arithmetic:
   x_0 = x_init, one-step residuals, reported cost = sum of stage costs, gradient of the cost with
   respect to every input (adjoint recursion), gap to the true minimum (independent Riccati solve
   of the affine problem), random perturbations.  MPC: linear -> LQR optimum; nonlinear -> dynamics
   satisfied, cost consistent.
3. Shape grid: LQR returns the optimum for every (batch, n_state, n_ctrl, T) (Model/LQR.v: lqr_shape_raises = false).
4. Regression block: the witnesses of the repaired defects (Props/C14.v ..._old_refuted: second solve
   on one LTV object, T=1 at a stale time, MPC on an LTV object, n_state=1 with a batch) must satisfy
   the property now.
5. Sessions: ONE system object and ONE LQR / MPC object, several solves in a row; arguments are new tensors of
   every memory layout (transposed, strided, offset, expand()ed stride-0), the tensor objects of the previous
   call untouched or edited in place by the caller, or the inputs returned by the previous call (untouched /
   edited in place / copied); each solve is judged by the oracle of 2 on the argument values at call time; no
   argument may be changed by a call (bit-for-bit snapshots, also on routes 1 and 2) and no earlier result may
   change afterwards.
6. Twins and autograd state: "every LTI or LTV system" includes a system object obtained from another one by
   copy.deepcopy / pickle / torch.save+load / load_state_dict (taken after the original was used, so its clock is
   not 0; the original stays alive and is used in between), and a solver object copied between two solves; "any
   x_init, any u_traj" includes tensors that require grad, Q / p / system matrices that require grad, and calls
   under torch.no_grad() / inference_mode().  None of this may change the values returned: general route,
   MPC cases and sessions rotate through these configurations and are judged by the same oracle of 2.
A scalar model/implementation mismatch is searched with the oracle of 2."""
import math
from ..common import *

RULE = ('scalar route: history = (system kind/table, t0, [solve(dt, Q_t, p_t, x_init, u_traj)]) -> (x, u, cost, time) per solve, '
        'model over Q vs float64 within TOL_MODEL relative, time/stepper/iterations exact; directed block = every branch of the model '
        '(T=0,1,2, LTI/LTV, c1 None/Some, fresh/stale time, u_traj None/given/wrong length, dt 1/2, Cholesky raising at the terminal / an inner step, '
        'asymmetric Q, MPC stopping by tol / budget / patience, second MPC call); general route: property oracle in 400-bit arithmetic; '
        'twins (deepcopy / pickle / torch.save / state_dict of the system, copies of the solver) and autograd state (requires_grad on x_init, u_traj, Q, p, A, B, c1; no_grad; inference_mode) judged by the same oracle; '
        'non-trivial = horizon >= 2 (the recursion has a cross term); distinct by full input')

EPS = 2.0 ** -52
TOL_MODEL = 2.0 ** -30          # scalar model vs float64 (relative, floor 1)
FEAS_K = 64                     # one-step residual <= FEAS_K * eps * sum |terms|
COST_TOL = 1e-11                # |reported cost - sum of stage costs| <= COST_TOL * sum |terms|
GAP_TOL = 1e-12                 # J(u) - J* <= GAP_TOL * sum |terms|
GRAD_TOL = 1e-9                 # |dJ/du_t,i| <= GRAD_TOL * sum |terms of that derivative|
MP_PREC = 400

# stable keys of the input classes of the repaired defects (fixed: lines of known_findings.txt)
K_STALE = 'LQR.forward:LTV:systime!=0:T>=2:suboptimal'
K_STALE1 = 'LQR.forward:LTV:systime!=0:T=1:final-state'
K_MPCLTV = 'MPC.forward:LTV:suboptimal'
K_SQUEEZE = 'LQR.forward:n_state=1:n_batch>=2:T>=2:raises'


def b(x):
    return 'true' if x else 'false'


def oq(x):
    return 'None' if x is None else 'Some ' + qlit(x)


def olist(l):
    return 'None' if l is None else 'Some ' + qlist(l)


def shard(items, n):
    return [items[k:k + n] for k in range(0, len(items), n)]


def dy(rng, den, lo, hi):
    return rng.randint(int(round(lo * den)), int(round(hi * den))) / den


# ---------------------------------------------------------------------------------------------
# systems of the tie: LTI, and the subclass pattern of the LTV docstring (row _t % N of stacked
# matrices)
_CLS = {}


def classes():
    if _CLS:
        return _CLS
    pp = import_pypose()
    import torch

    class TabLTV(pp.module.LTV):
        def __init__(self, A, B, C, D, c1, N):
            super().__init__(A, B, C, D, c1, None)
            self.N = N

        @property
        def A(self):
            return self._A[..., self._t % self.N, :, :]

        @property
        def B(self):
            return self._B[..., self._t % self.N, :, :]

        @property
        def C(self):
            return self._C[..., self._t % self.N, :, :]

        @property
        def D(self):
            return self._D[..., self._t % self.N, :, :]

        @property
        def c1(self):
            return None if self._c1 is None else self._c1[..., self._t % self.N, :]

    class Pend(pp.module.NLS):
        """x = (angle, rate): explicit Euler pendulum with torque input"""
        def __init__(self, h, g):
            super().__init__()
            self.h, self.g = h, g

        def state_transition(self, state, input, t=None):
            th, w, u = state[..., 0], state[..., 1], input[..., 0]
            return torch.stack([th + self.h * w, w + self.h * (-self.g * torch.sin(th) + u)], dim=-1)

        def observation(self, state, input, t=None):
            return state

    class Cubic(pp.module.NLS):
        """scalar x' = x + h (u - x^3)"""
        def __init__(self, h):
            super().__init__()
            self.h = h

        def state_transition(self, state, input, t=None):
            return state + self.h * (input - state ** 3)

        def observation(self, state, input, t=None):
            return state

    def _row(name, vec):
        if vec:
            return property(lambda self: None if getattr(self, '_' + name) is None else getattr(self, '_' + name)[..., self._t % self.N, :])
        return property(lambda self: getattr(self, '_' + name)[..., self._t % self.N, :, :])

    def partial_ltv(frozen):
        """LTV subclass that overrides only the properties NOT in `frozen` (a time-varying system whose A, or B, or c1 ...
        is constant keeps the inherited LTI property and is given the constant matrix): one class per subset"""
        key = 'TabLTV_f' + ''.join(sorted(frozen))
        if key not in _CLS:
            def __init__(self, A, B, C, D, c1, N):
                pp.module.LTV.__init__(self, A, B, C, D, c1, None)
                self.N = N
            body = dict(__init__=__init__, __module__=__name__)
            for nm in ('A', 'B', 'C', 'D', 'c1'):
                if nm not in frozen:
                    body[nm] = _row(nm, nm == 'c1')
            k = type(key, (pp.module.LTV,), body)
            k.__qualname__ = key
            globals()[key] = k
            _CLS[key] = k
        return _CLS[key]
    _CLS['partial_ltv'] = partial_ltv
    for k in (TabLTV, Pend, Cubic):        # module-level names: the system objects can be pickled / torch.save()d
        k.__qualname__ = k.__name__
        globals()[k.__name__] = k
    _CLS.update(pp=pp, torch=torch, TabLTV=TabLTV, Pend=Pend, Cubic=Cubic)
    return _CLS


def T64(x):
    torch = classes()['torch']
    return torch.tensor(x, dtype=torch.float64)


# ---------------------------------------------------------------------------------------------
# twins of objects and autograd state of the arguments (part 6 of the module docstring)
TWINS = ['deepcopy', 'pickle', 'torch.save', 'state_dict']
GRAD_MODES = ['grad', 'no_grad', 'inference']


def twin_of(obj, how):
    """an independent copy of a system / solver object, the way users obtain one"""
    import copy, pickle, io
    torch = classes()['torch']
    if how == 'pickle':
        return pickle.loads(pickle.dumps(obj))
    if how == 'torch.save':
        bio = io.BytesIO()
        torch.save(obj, bio)
        bio.seek(0)
        return torch.load(bio, weights_only=False)
    return copy.deepcopy(obj)


def grad_ctx(mode):
    torch = classes()['torch']
    return {'no_grad': torch.no_grad, 'inference': torch.inference_mode}.get(mode, torch.enable_grad)()


def set_grad(t, flag):
    """the caller marks a tensor he created as requiring grad (or not); results of earlier calls keep their graph"""
    if t is not None and t.is_leaf and t.is_floating_point() and not t.is_inference():
        t.requires_grad_(bool(flag))
    return t


def drive(system, k, nb, ns, nc):
    """k plain calls of a system object (advance its clock, fill its state / input attributes)"""
    torch = classes()['torch']
    with torch.no_grad():
        for j in range(k):
            system(torch.full((nb, ns), 0.25 * (j + 1), dtype=torch.float64), torch.full((nb, nc), -0.5, dtype=torch.float64))


def cfg_text(P, S=None):
    out = []
    tw = P.get('twin')
    if tw:
        out.append('system object = %s twin of an object called %d time(s) before%s' % (tw['how'], tw.get('pre', 0), ', original used in between' if tw.get('inter') else ''))
    if P.get('grad'):
        out.append('system tensors requiring grad: %s' % ','.join(P['grad']))
    if P.get('frozen'):
        out.append('LTV subclass overriding only the properties other than %s (those are constant and inherited)' % ','.join(P['frozen']))
    gr = (S or {}).get('grad')
    if gr:
        out.append('requires_grad on %s, call under %s' % (','.join(n for n in ('x0', 'u', 'Q', 'p') if gr.get(n)) or 'nothing', gr.get('mode', 'grad')))
    return (' [' + '; '.join(out) + ']') if out else ''


def build_system(P, lay=None, held=None):
    """P: dict(kind 'lti'|'ltv', N, A, B, c1, t0[, grad, twin]); lti: A [nb][ns][ns]; ltv: A [nb][N][ns][ns].
    lay: memory layouts of A, B, c1 (layout_tensor); held: receives name -> (tensor given to the constructor, its base).
    P['grad']: names among A, B, c1 whose tensors require grad.  P['twin'] = dict(how, pre, inter): the object returned is a
    twin (TWINS) of an object built from P that was called `pre` times before; the original is kept alive (attribute
    _c14_orig of the twin, not a submodule)."""
    c = classes()
    pp, torch = c['pp'], c['torch']
    lay = lay or {}
    gnames = P.get('grad') or []

    def make(hold, lay):
        A, Ab = layout_tensor(P['A'], lay.get('A', 'contig'))
        B, Bb = layout_tensor(P['B'], lay.get('B', 'contig'))
        c1, cb = (None, None) if P['c1'] is None else layout_tensor(P['c1'], lay.get('c1', 'contig'))
        set_grad(A, 'A' in gnames), set_grad(B, 'B' in gnames), set_grad(c1, 'c1' in gnames)
        if hold is not None:
            hold.update(A=(A, Ab), B=(B, Bb))
            if c1 is not None:
                hold['c1'] = (c1, cb)
        ns, nc = A.shape[-1], B.shape[-1]
        if P['kind'] == 'lti':
            nb = A.shape[0]
            C = torch.eye(ns, dtype=torch.float64).repeat(nb, 1, 1)
            D = torch.zeros(nb, ns, nc, dtype=torch.float64)
            return pp.module.LTI(A, B, C, D, c1), (nb, ns, nc)
        nb, N = A.shape[0], A.shape[1]
        C = torch.eye(ns, dtype=torch.float64).repeat(nb, N, 1, 1)
        D = torch.zeros(nb, N, ns, nc, dtype=torch.float64)
        fr = P.get('frozen')
        if fr:
            # the rows of a frozen table are all equal (gen_general): the object gets the constant matrix and inherits LTI's property
            def const(n, M):
                # the constant matrix is a tensor of its own (a leaf: a module holding a non-leaf view of a tensor that requires grad
                # cannot be deep-copied - a limitation of torch, not the subject of the property)
                k = M[:, 0].detach().clone()
                set_grad(k, n in gnames)
                if hold is not None and n in hold:
                    hold[n] = (k, k)
                return k
            A, B, C, D = (const(n, M) if n in fr else M for n, M in (('A', A), ('B', B), ('C', C), ('D', D)))
            if c1 is not None and 'c1' in fr:
                c1 = const('c1', c1)
            return c['partial_ltv'](fr)(A, B, C, D, c1, N), (nb, ns, nc)
        return c['TabLTV'](A, B, C, D, c1, N), (nb, ns, nc)
    tw = P.get('twin')
    if not tw:
        s, _ = make(held, lay)
    else:
        orig, dims = make(None if tw['how'] == 'state_dict' else held, lay)
        drive(orig, tw.get('pre', 0), *dims)
        if tw['how'] == 'state_dict':
            s, _ = make(held, {})        # load_state_dict copies into the buffers: they must not overlap themselves
            s.load_state_dict(orig.state_dict())
        else:
            s = twin_of(orig, tw['how'])
            if held is not None:      # the tensors the twin works with are its own buffers
                for n in list(held):
                    held[n] = (getattr(s, '_' + n), getattr(s, '_' + n))
        s.__dict__['_c14_orig'] = (orig, dims, bool(tw.get('inter')))
    if P.get('t0', 0) != 0:
        s.reset(P['t0'])
    return s


def use_original(system, k):
    """the original of a twin is used by its owner between two solves on the twin"""
    o = system.__dict__.get('_c14_orig')
    if o and o[2]:
        drive(o[0], k, *o[1])
        if k % 2:
            o[0].reset(k + 3)


def layout_tensor(vals, layout):
    """a float64 tensor with the given memory layout -> (tensor, base tensor owning its storage).
    'contig'; 'transposed' (last two dims stored swapped); 'strided' (every second element of a larger
    tensor filled with 7777); 'offset' (rows 1..n of a larger tensor); 'expand<d>' (stride 0 along dim d:
    the values of index 0 of that dim repeated - read the values back from the tensor)."""
    torch = classes()['torch']
    v = T64(vals)
    if layout.startswith('expand'):
        d = int(layout[6:])
        if d < v.ndim and v.shape[d] >= 1:
            base = v.narrow(d, 0, 1).clone()
            return base.expand(v.shape), base
        return v, v
    if layout == 'transposed' and v.ndim >= 2:
        w = v.transpose(-1, -2).contiguous().transpose(-1, -2)
        return w, w
    if layout == 'strided':
        big = torch.full(tuple(2 * n + 1 for n in v.shape), 7777.0, dtype=torch.float64)
        idx = tuple(slice(1, None, 2) for _ in v.shape)
        big[idx] = v
        return big[idx], big
    if layout == 'offset':
        big = torch.full((v.shape[0] + 2,) + tuple(v.shape[1:]), -7777.0, dtype=torch.float64)
        big[1:-1] = v
        return big[1:-1], big
    return v, v


def run_lqr(system, S):
    """one LQR.forward on [system]; S: dict(T, Q, p, x0, u, dt, tile).  -> dict(x,u,cost,t) | dict(raised=..)"""
    c = classes()
    pp = c['pp']
    Q, p = T64(S['Q']), T64(S['p'])
    x0 = T64(S['x0'])
    u = None if S.get('u') is None else T64(S['u'])
    if S['T'] == 0:
        torch = c['torch']
        Q, p = torch.zeros(x0.shape[0], 0, 2, 2, dtype=torch.float64), torch.zeros(x0.shape[0], 0, 2, dtype=torch.float64)
    gr = S.get('grad') or {}
    set_grad(Q, gr.get('Q')), set_grad(p, gr.get('p')), set_grad(x0, gr.get('x0')), set_grad(u, gr.get('u'))
    args = [('Q', Q), ('p', p), ('x_init', x0)] + ([] if u is None else [('u_traj', u)])
    snap = [(n, t, t.detach().clone()) for n, t in args]
    try:
        with grad_ctx(gr.get('mode', 'grad')):
            lqr = pp.module.LQR(system, Q, p, S['T'])
            x, uu, cost = lqr(x0, S.get('dt', 1), u)
    except Exception as e:      # noqa
        return dict(raised='%s: %s' % (type(e).__name__, str(e)[:120]), t=int(system.systime))
    torch = c['torch']
    return dict(x=x.tolist(), u=uu.tolist(), cost=cost.tolist(), t=int(system.systime),
                mutated=[n for n, t, tc in snap if not torch.equal(t, tc)])


# ---------------------------------------------------------------------------------------------
# the property's own oracle (mpmath, MP_PREC bits): written from the property text, from time 0
def _mp():
    import mpmath
    mpmath.mp.prec = MP_PREC
    return mpmath


def coefs_at(P, bi, T):
    """[(A_t, B_t, c_t)] for t = 0..T-1 of batch item bi, as mp matrices (fresh-object semantics)"""
    mp = _mp()
    res = []
    for t in range(T):
        if P['kind'] == 'lti':
            A, B = P['A'][bi], P['B'][bi]
            c = None if P['c1'] is None else P['c1'][bi]
        else:
            N = len(P['A'][bi])
            A, B = P['A'][bi][t % N], P['B'][bi][t % N]
            c = None if P['c1'] is None else P['c1'][bi][t % N]
        ns = len(A)
        res.append((mp.matrix(A), mp.matrix(B), mp.matrix(c if c is not None else [0.0] * ns)))
    return res


def mabs(M):
    mp = _mp()
    R = M.copy()
    for i in range(M.rows):
        for j in range(M.cols):
            R[i, j] = abs(M[i, j])
    return R


def oracle_min(co, Qs, ps, x0):
    """exact minimiser of sum_t 1/2 tau'Q tau + p'tau s.t. x+ = A x + B u + c  ->  (J*, [u_t])"""
    mp = _mp()
    T = len(Qs)
    ns = x0.rows
    P, r = mp.zeros(ns, ns), mp.zeros(ns, 1)
    gains = [None] * T
    for t in reversed(range(T)):
        A, B, c = co[t]
        Q = (Qs[t] + Qs[t].T) / 2
        n = Q.rows
        Qxx, Qux, Quu = Q[0:ns, 0:ns], Q[ns:n, 0:ns], Q[ns:n, ns:n]
        px, pu = ps[t][0:ns, 0], ps[t][ns:n, 0]
        Pc = P * c + r
        Hxx, Hux, Huu = Qxx + A.T * P * A, Qux + B.T * P * A, Quu + B.T * P * B
        gx, gu = px + A.T * Pc, pu + B.T * Pc
        Hi = mp.inverse(Huu)
        K, k = -(Hi * Hux), -(Hi * gu)
        gains[t] = (K, k)
        P = Hxx + Hux.T * K
        P = (P + P.T) / 2
        r = gx + Hux.T * k
    x, us = x0, []
    for t in range(T):
        K, k = gains[t]
        u = K * x + k
        us.append(u)
        A, B, c = co[t]
        x = A * x + B * u + c
    J, _, _ = cost_of(co, Qs, ps, x0, us)
    return J, us


def stage(Q, p, x, u):
    mp = _mp()
    tau = mp.matrix(list(x) + list(u))
    v = (tau.T * Q * tau)[0, 0] / 2 + (p.T * tau)[0, 0]
    at = mabs(tau)
    s = (at.T * mabs(Q) * at)[0, 0] / 2 + (mabs(p).T * at)[0, 0]
    return v, s, tau


def cost_of(co, Qs, ps, x0, us):
    """J(us) along the exact trajectory from x0; also sum of |terms| and the trajectory"""
    J, S, x, xs = 0, 0, x0, [x0]
    for t in range(len(Qs)):
        v, s, _ = stage(Qs[t], ps[t], x, us[t])
        J, S = J + v, S + s
        A, B, c = co[t]
        x = A * x + B * us[t] + c
        xs.append(x)
    return J, S, xs


def grad_of(co, Qs, ps, xs, us, M0=0):
    """dJ/du_t (adjoint recursion) and the sum of |terms| of each component"""
    mp = _mp()
    T = len(Qs)
    ns = xs[0].rows
    lam, lamS = mp.zeros(ns, 1), mp.zeros(ns, 1)
    g, gs = [None] * T, [None] * T
    # the rounding error of step t is inherited from the earlier steps: magnitudes include the
    # running maximum of the trajectory so far
    run, M = M0, [0] * T
    for t in range(T):
        M[t] = run
        run = max([run] + [abs(v) for v in xs[t]] + [abs(v) for v in us[t]])
    for t in reversed(range(T)):
        A, B, c = co[t]
        Q = (Qs[t] + Qs[t].T) / 2
        n = Q.rows
        tau = mp.matrix(list(xs[t]) + list(us[t]))
        d = Q * tau + ps[t]
        dS = mabs(Q) * (mabs(tau) + M[t] * mp.ones(n, 1)) + mabs(ps[t])
        g[t] = d[ns:n, 0] + B.T * lam
        gs[t] = dS[ns:n, 0] + mabs(B).T * lamS
        lam, lamS = d[0:ns, 0] + A.T * lam, dS[0:ns, 0] + mabs(A).T * lamS
    return g, gs


def check_item(P, S, bi, x, u, cost, rng=None, clauses=('init', 'feasible', 'cost', 'optimal')):
    """The property on one batch item: returns (failures [(clause, text)], measurements)."""
    mp = _mp()
    T = S['T']
    co = coefs_at(P, bi, T)
    Qb = S['Q'][bi]
    pb = S['p'][bi]
    if S.get('tile'):
        Qb, pb = [Qb] * T, [pb] * T
    Qs = [mp.matrix(Qb[t]) for t in range(T)]
    ps = [mp.matrix(pb[t]) for t in range(T)]
    x0 = mp.matrix(S['x0'][bi])
    xi = [mp.matrix(r) for r in x[bi]]
    ui = [mp.matrix(r) for r in u[bi]]
    fails, meas = [], {}
    if len(xi) != T + 1 or len(ui) != T:
        return [('shape', 'x has %d rows, u has %d rows for T=%d' % (len(xi), len(ui), T))], meas
    if 'init' in clauses and any(xi[0][i] != x0[i] for i in range(x0.rows)):
        fails.append(('init', 'x[0] = %s differs from x_init = %s' % ([float(v) for v in xi[0]], [float(v) for v in x0])))
    worst = 0
    for t in range(T):
        A, B, c = co[t]
        pred = A * xi[t] + B * ui[t] + c
        scale = mabs(A) * mabs(xi[t]) + mabs(B) * mabs(ui[t]) + mabs(c)
        for i in range(pred.rows):
            res = abs(xi[t + 1][i] - pred[i])
            rel = res / (scale[i] + mp.mpf(2) ** -1000)
            worst = max(worst, rel)
            if 'feasible' in clauses and res > FEAS_K * EPS * scale[i]:
                fails.append(('feasible', 'step %d component %d: x[t+1] = %r but A_t x_t + B_t u_t + c1_t = %r (fresh-object time t)'
                              % (t, i, float(xi[t + 1][i]), float(pred[i]))))
                break
    meas['feas'] = float(worst / EPS)
    Jsum, Ssum = 0, 0
    for t in range(T):
        v, s, _ = stage(Qs[t], ps[t], xi[t], ui[t])
        Jsum, Ssum = Jsum + v, Ssum + s
    cb = mp.mpf(cost[bi])
    meas['cost'] = float(abs(cb - Jsum) / (Ssum + mp.mpf(2) ** -1000))
    if 'cost' in clauses and abs(cb - Jsum) > COST_TOL * Ssum:
        fails.append(('cost', 'reported cost %r, sum of stage costs along the returned trajectory %r' % (float(cb), float(Jsum))))
    if 'optimal' in clauses and T > 0:
        J, S_, xs = cost_of(co, Qs, ps, x0, ui)
        # the solver works in deviations from the nominal trajectory: its rounding errors scale
        # with the magnitudes of that trajectory too
        nc = ui[0].rows
        unom = [mp.matrix(r) for r in S['u'][bi]] if S.get('u') is not None else [mp.zeros(nc, 1)] * T
        _, Snom, xnom = cost_of(co, Qs, ps, x0, unom)
        S_ = S_ + Snom
        M0 = max([abs(v) for w in xnom[:T] for v in w] + [abs(v) for w in unom for v in w])
        Jstar, ustar = oracle_min(co, Qs, ps, x0)
        gap = J - Jstar
        meas['gap'] = float(gap / (S_ + mp.mpf(2) ** -1000))
        g, gs = grad_of(co, Qs, ps, xs, ui, M0)
        wg, where = 0, None
        for t in range(T):
            for i in range(g[t].rows):
                rel = abs(g[t][i]) / (gs[t][i] + mp.mpf(2) ** -1000)
                if rel > wg:
                    wg, where = rel, (t, i, float(g[t][i]))
        meas['grad'] = float(wg)
        if gap > GAP_TOL * S_:
            fails.append(('optimal', 'cost of the returned inputs %r exceeds the minimum %r (inputs %s, minimiser %s)'
                          % (float(J), float(Jstar), [[float(v) for v in w] for w in ui[:3]], [[float(v) for v in w] for w in ustar[:3]])))
        elif wg > GRAD_TOL:
            fails.append(('optimal', 'dJ/du[%d][%d] = %r is not zero (relative %.3g)' % (where[0], where[1], where[2], float(wg))))
        elif rng is not None:
            for k in range(4):
                mag = 10.0 ** rng.randint(-4, 0)
                up = [w + mp.matrix([mag * rng.uniform(-1, 1) * (1 + abs(float(v))) for v in w]) for w in ui]
                Jp, Sp, _ = cost_of(co, Qs, ps, x0, up)
                if Jp < J - GAP_TOL * (Sp + Snom):
                    fails.append(('optimal', 'a perturbation of relative size %g lowers the cost from %r to %r' % (mag, float(J), float(Jp))))
                    break
    return fails, meas


def classify(P, S, t_before, fails, mpc=False):
    """stable violation key for a failing solve"""
    cl = sorted({c for c, _ in fails})
    if mpc and P['kind'] == 'ltv' and (cl == ['optimal'] or (S['T'] == 1 and cl == ['feasible'])):
        return K_MPCLTV
    if not mpc and P['kind'] == 'ltv' and t_before != 0:
        if S['T'] >= 2 and cl == ['optimal']:
            return K_STALE
        if S['T'] == 1 and cl == ['feasible']:
            return K_STALE1
    return ('MPC.forward:' if mpc else 'LQR.forward:') + P['kind'] + ':' + '+'.join(cl)


# ---------------------------------------------------------------------------------------------
# sessions: ONE system object and ONE LQR (or MPC) object, several solves in a row.  The arguments of a
# solve may be new tensors (any memory layout), the very tensor objects of the previous solve (untouched or
# edited in place by the caller), or the inputs RETURNED by the previous solve (untouched or edited in
# place).  Every solve is judged by the property oracle on the values the arguments hold at the time of the
# call; in addition no argument may be changed by a call and no earlier result may change afterwards.
def apply_edit(view, base, e):
    """the caller edits a tensor in place (an expanded tensor is edited through its base)"""
    torch = classes()['torch']
    exp = any(st == 0 and n > 1 for st, n in zip(view.stride(), view.shape))
    tgt = base if exp else view
    op = e['op']
    if op == 'add':
        tgt.add_(e['a'])
    elif op == 'mul':
        tgt.mul_(e['a'])
    elif op == 'zero':
        tgt.zero_()
    elif op == 'clamp':
        lim = e['a'] * float(tgt.abs().max()) if tgt.numel() else 0.0
        tgt.clamp_(-lim, lim)
    else:
        r = torch.randn(tuple(tgt.shape), generator=torch.Generator().manual_seed(e['seed']), dtype=torch.float64) * e.get('a', 1.0)
        if op == 'copy':
            tgt.copy_(r)
        elif op == 'row':                  # setitem on one row (one time step / one batch item)
            i = e['t'] % tgt.shape[-2] if tgt.ndim >= 2 else 0
            if tgt.ndim >= 2:
                tgt[..., i, :] = r[..., i, :]
            else:
                tgt[...] = r


def _take(spec, prev_arg, prev_ret):
    """the tensor a step passes: -> (tensor | None, base | None)"""
    src = spec['src']
    if src == 'none':
        return None, None
    if src in ('obj', 'obj-edit') and prev_arg is not None and prev_arg[0] is not None:
        t, bs = prev_arg
        if src == 'obj-edit':
            with classes()['torch'].no_grad():        # a leaf that requires grad is edited in place under no_grad
                apply_edit(t, bs, spec['edit'])
        return t, bs
    if src == 'same' and prev_arg is not None and prev_arg[0] is not None:
        t = prev_arg[0].clone()
        return t, t
    if src in ('ret', 'ret-edit', 'ret-copy') and prev_ret is not None:
        if src == 'ret-copy':
            t = prev_ret.clone()
            return t, t
        if src == 'ret-edit':
            if any(sd == 0 and n > 1 for sd, n in zip(prev_ret.stride(), prev_ret.shape)):
                prev_ret = prev_ret.clone()       # a self-overlapping result cannot be edited in place: the caller edits a copy
            with classes()['torch'].no_grad():
                apply_edit(prev_ret, prev_ret, spec['edit'])
        return prev_ret, prev_ret
    return layout_tensor(spec['vals'], spec.get('layout', 'contig'))


def describe_step(st):
    def d(sp, what):
        src = sp['src']
        txt = {'none': 'None', 'new': 'a new tensor (%s)' % sp.get('layout', 'contig'), 'same': 'a new tensor with the values of the previous ' + what,
               'obj': 'the tensor object of the previous call, untouched', 'obj-edit': 'the tensor object of the previous call after the caller edited it in place (%s)' % sp.get('edit'),
               'ret': 'the inputs returned by the previous call (same tensor)', 'ret-copy': 'a copy of the inputs returned by the previous call',
               'ret-edit': 'the inputs returned by the previous call after the caller edited them in place (%s)' % sp.get('edit')}[src]
        return txt
    gr = st.get('grad')
    gtxt = '' if not gr else '; requires_grad on %s, call under %s' % (','.join(n for n in ('x0', 'u') if gr.get(n)) or 'nothing', gr.get('mode', 'grad'))
    return 'x_init = %s; u_traj = %s%s; call form %s%s' % (d(st['x0'], 'x_init'), d(st['u'], 'u_traj'),
                                                          '' if st.get('reset') is None else '; system.reset(%d) before' % st['reset'], st.get('form', 'pos'), gtxt)


def run_session(case, upto=None):
    """-> (records per step, effective problem P).  record: S (the solve with the argument VALUES at call time), tb, x/u/cost | raised,
    mutated (arguments changed by the call), changed (earlier results changed by the call)"""
    c = classes()
    pp, torch = c['pp'], c['torch']
    from pypose.utils.stepper import ReduceToBason
    api, T, lay = case.get('api', 'lqr'), case['T'], case.get('lay') or {}
    held = {}
    system = build_system(case['P'], lay, held)
    held['Q'], held['p'] = layout_tensor(case['Q'], lay.get('Q', 'contig')), layout_tensor(case['p'], lay.get('p', 'contig'))
    gradc = case.get('gradc') or []
    set_grad(held['Q'][0], 'Q' in gradc), set_grad(held['p'][0], 'p' in gradc)
    twin_at = case.get('twin_at')            # dict(step, how): the SOLVER object is replaced by a twin of itself before that step
    def table_of(name):
        # a matrix that the LTV subclass does not override (P['frozen']) is the constant row 0 at every time
        tt = held[name][0]
        if case['P'].get('frozen') and name in case['P']['frozen']:
            full = 3 if name == 'c1' else 4
            tt = tt[:, 0] if tt.dim() == full else tt
            tt = tt.unsqueeze(1).expand(tt.shape[0], case['P']['N'], *tt.shape[1:])
        return tt.tolist()
    P = dict(case['P'], A=table_of('A'), B=table_of('B'), c1=None if 'c1' not in held else table_of('c1'))
    Qv, pv = held['Q'][0].tolist(), held['p'][0].tolist()
    if api == 'mpc':
        obj = pp.module.MPC(system, held['Q'][0], held['p'][0], T, stepper=ReduceToBason(steps=case.get('mpc_steps', 3)))
    else:
        obj = pp.module.LQR(system, held['Q'][0], held['p'][0], T)
    recs, kept = [], []
    prev = dict(x0=None, u=None, ret=None)
    for si, st in enumerate(case['steps'][:upto]):
        if twin_at and twin_at['step'] == si:
            old = system
            obj = twin_of(obj, twin_at['how'])
            system = obj.lqr.system if api == 'mpc' else obj.system
            if not system.__dict__.get('_c14_orig'):       # the owner of the original goes on using it
                system.__dict__['_c14_orig'] = (old, (held['A'][0].shape[0], held['A'][0].shape[-1], held['B'][0].shape[-1]), True)
            for n in ('A', 'B', 'c1', 'Q', 'p'):       # the tensors the twin works with are its own
                if n in held:
                    t = getattr(system, '_' + n) if n in ('A', 'B', 'c1') else getattr(obj.lqr if api == 'mpc' else obj, n)
                    held[n] = (t, t)
        if si > 0:
            use_original(system, si)
        if st.get('reset') is not None:
            system.reset(st['reset'])
        gr = st.get('grad') or {}
        x0 = _take(st['x0'], prev['x0'], None)
        u = _take(st['u'], prev['u'], prev['ret'])
        set_grad(x0[0], gr.get('x0')), set_grad(u[0], gr.get('u'))
        for ent in kept:                       # the caller's own in-place edit of a returned tensor is not the solver's doing
            if ent[2] is u[0] or ent[2] is x0[0]:
                ent[3] = ent[2].detach().clone()
        args = dict(held, x_init=x0)
        if u[0] is not None:
            args['u_traj'] = u
        snap = [(n, t, t.detach().clone(), bs, bs.detach().clone()) for n, (t, bs) in args.items()]
        tb = int(system.systime)
        S = dict(T=T, Q=Qv, p=pv, tile=case.get('tile', False), x0=x0[0].tolist(), u=None if u[0] is None else u[0].tolist(), dt=1)
        rec = dict(S=S, tb=tb, step=si)
        form = st.get('form', 'pos')
        try:
            with grad_ctx(gr.get('mode', 'grad')):
                if api == 'mpc':
                    out = obj(1, x0[0], u_init=u[0]) if form == 'kw' else (obj(1, x0[0]) if (form == 'bare' and u[0] is None) else obj(1, x0[0], u[0]))
                elif form == 'kw':
                    out = obj(x0[0], dt=1, u_traj=u[0])
                elif form == 'bare' and u[0] is None:
                    out = obj(x0[0])
                elif form == 'mixed':
                    out = obj(x0[0], 1, u_traj=u[0])
                else:
                    out = obj(x0[0], 1, u[0])
            x, uu, cost = out
        except Exception as e:      # noqa
            rec['raised'] = '%s: %s' % (type(e).__name__, str(e)[:120])
            recs.append(rec)
            break
        rec['mutated'] = [n for n, t, tc, bs, bc in snap if not (torch.equal(t, tc) and torch.equal(bs, bc))]
        rec['changed'] = ['%s of step %d' % (n, sj) for sj, n, t, tc in kept if not torch.equal(t, tc)]
        rec.update(x=x.tolist(), u=uu.tolist(), cost=cost.tolist(), t=int(system.systime))
        for n, t in (('x', x), ('u', uu), ('cost', cost)):
            kept.append([si, n, t, t.detach().clone()])
        prev = dict(x0=x0, u=u, ret=uu)
        recs.append(rec)
    return recs, P


def session_cfg(case, si):
    out = cfg_text(case['P'])[2:-1]
    out = [out] if out else []
    if case.get('gradc'):
        out.append('Q / p requiring grad: %s' % ','.join(case['gradc']))
    ta = case.get('twin_at')
    if ta and ta['step'] <= si:
        out.append('the solver object was replaced by a %s twin of itself before solve %d' % (ta['how'], ta['step'] + 1))
    return (' [' + '; '.join(out) + ']') if out else ''


def judge_session(case, rng=None, note=None):
    """the property on every solve of a session: None | (key, text, index of the failing step)"""
    api = case.get('api', 'lqr')
    fn = 'MPC.forward' if api == 'mpc' else 'LQR.forward'
    try:
        recs, P = run_session(case)
    except Exception as e:      # noqa  (e.g. no twin of the object can be made: report the input)
        return ('%s:%s:raises' % (fn, case['P']['kind']), 'the session%s stopped outside the solver calls: %s: %s'
                % (session_cfg(case, len(case['steps'])), type(e).__name__, str(e)[:200]), len(case['steps']) - 1)
    for rec in recs:
        si, S, tb = rec['step'], rec['S'], rec['tb']
        head = 'solve %d of %d on one %s object%s (%s): ' % (si + 1, len(case['steps']), 'MPC' if api == 'mpc' else 'LQR', session_cfg(case, si), describe_step(case['steps'][si]))
        if 'raised' in rec:
            return ('%s:%s:raises' % (fn, P['kind']), head + 'raised %s on a valid problem' % rec['raised'], si)
        for bi in range(len(S['x0'])):
            fails, meas = check_item(dict(P, t0=0 if api == 'mpc' else tb), S, bi, rec['x'], rec['u'], rec['cost'], rng=rng)
            if note is not None:
                note(meas)
            if fails:
                return ('%s:%s:%s:%s' % (fn, P['kind'], '+'.join(sorted({c for c, _ in fails})), 'first-call' if si == 0 else 'later-call-on-one-object'),
                        head + 'batch item %d: ' % bi + '; '.join(t for _, t in fails[:3]), si)
        if rec['mutated']:
            return ('mutation:' + fn, head + 'the call changed its argument(s) %s in place (compared bit for bit with a snapshot taken before the call)'
                    % ', '.join(rec['mutated']), si)
        if rec['changed']:
            return ('aliasing:' + fn, head + 'the call changed tensors returned by earlier calls: %s' % ', '.join(rec['changed']), si)
    return None


EDITS = [dict(op='add', a=0.5), dict(op='add', a=-1.5), dict(op='mul', a=-2.0), dict(op='mul', a=0.5), dict(op='zero'),
         dict(op='clamp', a=0.05), dict(op='clamp', a=0.3), dict(op='copy', seed=1, a=1.0), dict(op='copy', seed=2, a=5.0),
         dict(op='row', t=0, seed=3, a=2.0), dict(op='row', t=1, seed=4, a=2.0), dict(op='row', t=-1, seed=5, a=2.0)]
LAYOUTS = ['contig', 'transposed', 'strided', 'offset', 'expand0', 'expand1']


def gen_twin(rng):
    return dict(how=rng.choice(TWINS), pre=rng.choice([0, 1, 2, 3, 7]), inter=rng.random() < 0.5)


def gen_grad(rng, names=('x0', 'u', 'Q', 'p'), modes=('grad', 'grad', 'grad', 'no_grad', 'inference')):
    d = dict((n, True) for n in names if rng.random() < 0.5)
    if not d:
        d[rng.choice(names[:2])] = True
    d['mode'] = rng.choice(modes)
    return d


def gen_extra(rng, nsteps):
    """twin / autograd configuration of a session: dict(twin, pgrad, gradc, twin_at, sgrads)"""
    ex = dict(twin=None, pgrad=[], gradc=[], twin_at=None, sgrads=[None] * nsteps)
    r = rng.random()
    if r < 0.4:
        ex['twin'] = gen_twin(rng)
    elif r < 0.6 and nsteps >= 2:
        ex['twin_at'] = dict(step=rng.randint(1, nsteps - 1), how=rng.choice(TWINS[:3]))
    if rng.random() < 0.6:
        if not ex['twin_at']:
            ex['pgrad'] = [n for n in ('A', 'B', 'c1') if rng.random() < 0.3]
            ex['gradc'] = [n for n in ('Q', 'p') if rng.random() < 0.3]
        ex['sgrads'] = [gen_grad(rng, ('x0', 'u'), ('grad', 'grad', 'no_grad')) if rng.random() < 0.7 else None for _ in range(nsteps)]
    if ex['twin_at']:       # objects holding tensors with an autograd graph cannot be copied: solves before the copy run under no_grad
        for i in range(ex['twin_at']['step']):
            ex['sgrads'][i] = dict(ex['sgrads'][i] or {}, mode='no_grad')
    return ex


def gen_session(rng, g, api='lqr', sizes=None, kind=None, script=None, lay=None, extra=None):
    """script: list of (x0 src, u src, u layout, edit | None); lay: layouts of A, B, c1, Q, p; extra: see gen_extra"""
    torch = classes()['torch']
    if sizes is None:
        sizes = (1 if api == 'mpc' else rng.randint(1, 3), rng.randint(1, 4), rng.randint(1, 3), rng.choice([1, 2, 2, 3, 4, 5, 6, 8]))
    P, (nb, ns, nc, T) = gen_general(rng, g, sizes, kind)
    S0 = gen_solve(rng, g, nb, ns, nc, T)
    if lay is None:
        lay = {}
        if rng.random() < 0.5:
            for name in ('A', 'B', 'c1', 'Q', 'p'):
                if rng.random() < 0.5:
                    lay[name] = rng.choice(LAYOUTS)
    if S0['tile'] and lay.get('Q') == 'expand1':
        lay['Q'] = 'expand0'          # a tiled Q is [batch, n, n]: stride 0 along dim 1 would repeat one ROW (not PD, outside the property)
    if script is None:
        script = [('new', rng.choice(['none', 'new', 'new']), rng.choice(LAYOUTS), None)]
        for j in range(rng.choice([1, 2, 2, 3])):
            script.append((rng.choice(['new', 'same', 'same', 'obj', 'obj', 'obj-edit']),
                           rng.choice(['none', 'new', 'same', 'obj', 'obj-edit', 'obj-edit', 'ret', 'ret-edit', 'ret-edit', 'ret-copy']),
                           rng.choice(LAYOUTS), None))
    steps = []
    if extra is None:
        extra = gen_extra(rng, len(script)) if rng.random() < 0.4 else {}
    if extra.get('twin'):
        P['twin'] = extra['twin']
    if extra.get('pgrad'):
        P['grad'] = extra['pgrad']
    for (xs, us, ul, ed) in script:
        x0 = (torch.randn(nb, ns, generator=g, dtype=torch.float64) * rng.choice([0.1, 1.0, 10.0])).tolist()
        uv = (torch.randn(nb, T, nc, generator=g, dtype=torch.float64) * rng.choice([0.1, 1.0, 10.0])).tolist()
        st = dict(x0=dict(src=xs, vals=x0, layout=rng.choice(['contig', 'contig', 'transposed', 'strided', 'offset', 'expand0'])),
                  u=dict(src=us, vals=uv, layout=ul), form=rng.choice(['pos', 'kw', 'mixed', 'bare' if us == 'none' else 'pos']),
                  reset=rng.randint(1, 30) if rng.random() < 0.2 else None)
        if xs.endswith('-edit'):
            st['x0']['edit'] = rng.choice(EDITS)
        if us.endswith('-edit'):
            st['u']['edit'] = ed or rng.choice(EDITS)
        if (extra.get('sgrads') or [None] * len(script))[len(steps)]:
            st['grad'] = extra['sgrads'][len(steps)]
        steps.append(st)
    case = dict(kind='session', api=api, P=P, T=T, Q=S0['Q'], p=S0['p'], tile=S0['tile'], lay=lay, steps=steps, mpc_steps=rng.randint(1, 5))
    if extra.get('gradc'):
        case['gradc'] = extra['gradc']
    if extra.get('twin_at'):
        case['twin_at'] = extra['twin_at']
    return case


# scripts of the directed block: every source of x_init / u_traj, every layout of u_traj, after every kind of history
SESSION_SCRIPTS = [
    ('warm-start-then-edited', [('new', 'none', 'contig', None), ('same', 'ret', 'contig', None), ('same', 'ret-edit', 'contig', dict(op='clamp', a=0.05)),
                                ('same', 'same', 'contig', None)]),
    ('returned-inputs-edited', [('new', 'new', 'contig', None), ('obj', 'ret-edit', 'contig', dict(op='mul', a=-2.0)), ('obj', 'ret-edit', 'contig', dict(op='row', t=1, seed=7, a=3.0))]),
    ('own-nominal-edited', [('new', 'new', 'contig', None), ('obj', 'obj-edit', 'contig', dict(op='add', a=-1.5)), ('same', 'obj-edit', 'contig', dict(op='copy', seed=9, a=2.0)),
                            ('obj', 'obj', 'contig', None)]),
    ('x_init-edited', [('new', 'new', 'contig', None), ('obj-edit', 'obj', 'contig', None), ('obj-edit', 'ret', 'contig', None)]),
    ('expanded-nominal', [('new', 'new', 'expand1', None), ('same', 'same', 'contig', None), ('new', 'new', 'expand0', None), ('obj', 'obj-edit', 'expand0', dict(op='add', a=0.5))]),
    ('expanded-after-contiguous', [('new', 'new', 'contig', None), ('new', 'new', 'expand1', None), ('obj', 'obj-edit', 'expand1', dict(op='mul', a=-2.0))]),
    ('strided-nominal', [('new', 'new', 'strided', None), ('obj', 'obj-edit', 'strided', dict(op='clamp', a=0.3)), ('new', 'new', 'transposed', None), ('new', 'new', 'offset', None)]),
]


# ---------------------------------------------------------------------------------------------
# generators
def rand_orth(torch, g, n):
    q, r = torch.linalg.qr(torch.randn(n, n, generator=g, dtype=torch.float64))
    return q * torch.sign(torch.diagonal(r)).unsqueeze(0)


def gen_general(rng, g, sizes=None, kind=None):
    """a random general-dimension problem P and a list of solves"""
    torch = classes()['torch']
    nb, ns, nc, T = sizes or (rng.randint(1, 3), rng.randint(1, 6), rng.randint(1, 6), rng.choice([1, 2, 3, 4, 5, 6, 8, 12, 20]))
    kind = kind or rng.choice(['lti', 'ltv'])
    N = 1 if kind == 'lti' else rng.choice([1, 2, 3, T, T + 1, 2 * T + 3])
    rho = rng.choice([0.3, 0.9, 1.0, 1.2, 1.5, 2.0])

    def mkA():
        M = torch.randn(ns, ns, generator=g, dtype=torch.float64)
        r = torch.linalg.eigvals(M).abs().max().item()
        return (M * (rho / r if r > 0 else 1.0)).tolist()

    def mkB():
        return (torch.randn(ns, nc, generator=g, dtype=torch.float64) * rng.choice([0.1, 1.0, 3.0])).tolist()

    def mkc():
        return (torch.randn(ns, generator=g, dtype=torch.float64) * rng.choice([0.1, 1.0, 10.0])).tolist()
    has_c = rng.random() < 0.7
    if kind == 'lti':
        A = [mkA() for _ in range(nb)]
        B = [mkB() for _ in range(nb)]
        c1 = [mkc() for _ in range(nb)] if has_c else None
    else:
        A = [[mkA() for _ in range(N)] for _ in range(nb)]
        B = [[mkB() for _ in range(N)] for _ in range(nb)]
        c1 = [[mkc() for _ in range(N)] for _ in range(nb)] if has_c else None
    P = dict(kind=kind, N=N, A=A, B=B, c1=c1, t0=0)
    if kind == 'ltv' and N > 1:
        # time-varying systems of which only SOME matrices vary (the others keep the inherited constant property); chosen from
        # the sizes, without consuming the random stream
        pick = (7 * nb + 5 * ns + 3 * nc + T + N) % 8
        fr = {0: None, 1: ['A'], 2: ['B'], 3: None, 4: ['A', 'C', 'D'], 5: ['B', 'c1'], 6: ['C', 'D'], 7: ['A', 'c1']}[pick]
        if fr:
            for nm in ('A', 'B', 'c1'):
                if nm in fr and P[nm] is not None:
                    P[nm] = [[rows[0] for _ in rows] for rows in P[nm]]
            P['frozen'] = fr
    return P, (nb, ns, nc, T)


def gen_solve(rng, g, nb, ns, nc, T, tile=None):
    torch = classes()['torch']
    n = ns + nc
    kmax = rng.choice([0, 1, 2, 3, 4, 5, 6])

    def mkQ():
        U = rand_orth(torch, g, n)
        ex = [rng.uniform(0, kmax) for _ in range(n)]
        if n > 1:
            ex[0], ex[-1] = 0.0, float(kmax)
        d = torch.tensor([10.0 ** (e - kmax / 2) for e in ex], dtype=torch.float64) * rng.choice([0.1, 1.0, 10.0])
        Q = U @ torch.diag(d) @ U.T
        return ((Q + Q.T) / 2).tolist()
    tile = (rng.random() < 0.15) if tile is None else tile
    psc = rng.choice([0.0, 0.1, 1.0, 10.0])
    if tile:
        Q = [mkQ() for _ in range(nb)]
        p = [(torch.randn(n, generator=g, dtype=torch.float64) * psc).tolist() for _ in range(nb)]
    else:
        Q = [[mkQ() for _ in range(T)] for _ in range(nb)]
        p = [(torch.randn(T, n, generator=g, dtype=torch.float64) * psc).tolist() for _ in range(nb)]
    x0 = (torch.randn(nb, ns, generator=g, dtype=torch.float64) * rng.choice([0.1, 1.0, 10.0])).tolist()
    u = None if rng.random() < 0.35 else (torch.randn(nb, T, nc, generator=g, dtype=torch.float64) * rng.choice([0.1, 1.0, 10.0])).tolist()
    return dict(T=T, Q=Q, p=p, x0=x0, u=u, dt=1, tile=tile, kappa=kmax)


# ---- scalar, dyadic
def gen_scalar_sys(rng, kind=None, amax=2.0):
    kind = kind or rng.choice(['lti', 'ltv'])
    N = 1 if kind == 'lti' else rng.randint(1, 7)
    has_c = rng.random() < 0.7
    rows = [(dy(rng, 8, -amax, amax), rng.choice([0.0, 1.0, -1.0, dy(rng, 8, -2, 2), dy(rng, 8, -2, 2)]),
             dy(rng, 4, -2, 2) if has_c else None) for _ in range(N)]
    return dict(kind=kind, N=N, rows=rows)


def scalar_P(sysd, t0):
    """the general-form problem dict of a scalar system description"""
    rows = sysd['rows']
    has_c = rows[0][2] is not None
    if sysd['kind'] == 'lti':
        return dict(kind='lti', N=1, A=[[[rows[0][0]]]], B=[[[rows[0][1]]]], c1=[[rows[0][2]]] if has_c else None, t0=t0)
    return dict(kind='ltv', N=sysd['N'], A=[[[[r[0]]] for r in rows]], B=[[[[r[1]]] for r in rows]],
                c1=[[[r[2]] for r in rows]] if has_c else None, t0=t0)


def gen_stage(rng, sym=True, pd=True):
    qxx, quu = dy(rng, 8, 0.125, 4), dy(rng, 8, 0.125, 4)
    lim = math.sqrt(qxx * quu) * 0.9
    qxu = math.trunc(rng.uniform(-lim, lim) * 8) / 8
    qux = qxu if sym else math.trunc(rng.uniform(-lim, lim) * 8) / 8
    if not pd:
        quu = -quu
    return (qxx, qxu, qux, quu, dy(rng, 4, -3, 3), dy(rng, 4, -3, 3))


def scalar_S(stages, x0, u, dt):
    T = len(stages)
    return dict(T=T, Q=[[[[s[0], s[1]], [s[2], s[3]]] for s in stages]], p=[[[s[4], s[5]] for s in stages]],
                x0=[[x0]], u=None if u is None else [[[v] for v in u]], dt=dt, tile=False, stages=stages, x0s=x0, us=u)


def coq_sys(sysd):
    return '(%s, %s%%Z, %s)' % (b(sysd['kind'] == 'ltv'), zlit(sysd['N']),
                                coq_list('(%s, %s, %s)' % (qlit(a), qlit(bb), oq(c)) for a, bb, c in sysd['rows']))


def coq_stages(stages):
    return coq_list('(' + ', '.join(qlit(v) for v in s) + ')' for s in stages)


def flat(l):
    out = []
    for v in l:
        if isinstance(v, list):
            out += flat(v)
        else:
            out.append(v)
    return out


HDR = ('From Coq Require Import List ZArith QArith Bool. Import ListNotations.\n'
       'From PV Require Import Base.Num Model.Dynamics Model.Controller Model.LQR.\nOpen Scope Q_scope.\n')


# ---------------------------------------------------------------------------------------------
def run(ctx):
    c = classes()
    pp, torch = c['pp'], c['torch']
    from pypose.utils.stepper import ReduceToBason
    ctx.rule = RULE
    rng = ctx.rng
    g = torch.Generator().manual_seed(ctx.seed * 7919 + 14)
    ctx.assumptions = ['scalar route tolerance TOL_MODEL=2^-30 relative (floor 1); general route: FEAS_K=64 eps, COST_TOL=1e-11, GAP_TOL=1e-12, GRAD_TOL=1e-9, '
                       'all relative to the sum of the absolute values of the terms (optimality: of the returned and of the nominal trajectory); oracle arithmetic: mpmath %d bits' % MP_PREC]
    worst = dict(feas=0.0, cost=0.0, gap=0.0, grad=0.0)
    tsec, tlast = {}, [time.time()]

    def lap(name):
        tsec[name] = round(time.time() - tlast[0], 1)
        tlast[0] = time.time()

    def note_meas(m):
        for k, v in m.items():
            if v == v and v > worst.get(k, 0.0):
                worst[k] = v

    # ------------------------------------------------------------------ 0. regression: witnesses of the repaired defects
    for case in regression_witnesses():
        why = check_case(case)
        ctx.case(('regression', case['kind'], case.get('name')), branch='regression-witness')
        if why:
            ctx.violation(why[0], why[1], case)

    lap('findings')
    # ------------------------------------------------------------------ 1. shape grid
    for nb in (1, 2, 3):
        for ns, nc in ((1, 1), (1, 2), (2, 1), (2, 2), (3, 1), (1, 3)):
            for T in (1, 2, 3):
                case = dict(kind='shape', nb=nb, ns=ns, nc=nc, T=T, seed=ctx.seed)
                why = check_case(case)
                # Model/LQR.v: lqr_shape_raises nb ns T = false (C14_lqr_returns)
                ctx.case(('shape', nb, ns, nc, T), nontrivial=T >= 2, branch='shape:n_state=1:batch' if (ns == 1 and nb >= 2) else 'shape:other')
                if why:
                    ctx.violation(why[0], why[1], case)

    lap('shape-grid')
    # ------------------------------------------------------------------ 2. scalar route: histories of LQR solves
    hist_meta, hist_cases = [], []

    def add_history(sysd, t0, solves, branch):
        """solves: list of (stages, x0, u, dt).  Runs the implementation, records the Coq case."""
        P = scalar_P(sysd, t0)
        system = build_system(P)
        recs, terms, t_before = [], [], []
        for (stages, x0, u, dt) in solves:
            S = scalar_S(stages, x0, u, dt)
            t_before.append(int(system.systime))
            r = run_lqr(system, S)
            recs.append((S, r))
            if r.get('mutated'):
                ctx.violation('mutation:LQR.forward', 'LQR.forward changed its argument(s) %s in place' % ', '.join(r['mutated']),
                              dict(kind='general', P=dict(P, t0=t_before[-1]), S=dict((k, v) for k, v in S.items() if k not in ('stages', 'x0s', 'us'))))
            if 'raised' in r:
                exp = 'None'
            else:
                exp = 'Some (%s, %s, %s, %s%%Z)' % (qlist(flat(r['x'])), qlist(flat(r['u'])), qlit(r['cost'][0]), zlit(r['t']))
            terms.append('(%s%%Z, %s, %s, %s, %s)' % (zlit(dt), coq_stages(stages), qlit(x0), olist(u), exp))
            ctx.case(('hist', sysd['kind'], t0, len(stages), tuple(stages[:2]), x0, dt), nontrivial=len(stages) >= 2,
                     branch='scalar:%s:%s' % (sysd['kind'], branch))
            if 'raised' in r:
                break
        idx = len(hist_meta)
        hist_meta.append(dict(kind='hist', sysd=sysd, t0=t0, recs=recs, t_before=t_before, branch=branch))
        hist_cases.append('(%d%%nat, (%s, %s%%Z, %s, %s))' % (idx, coq_sys(sysd), zlit(t0), qlit(TOL_MODEL), coq_list(terms)))
        ctx.traces += 1

    # directed block: every branch of the model
    lti0 = dict(kind='lti', N=1, rows=[(1.5, 1.0, None)])
    lti1 = dict(kind='lti', N=1, rows=[(-0.75, 0.5, 0.25)])
    ltv3 = dict(kind='ltv', N=3, rows=[(1.5, 1.0, 0.5), (-0.5, 2.0, -1.0), (0.25, -1.0, 0.0)])
    ltv5 = dict(kind='ltv', N=5, rows=[(1.0, 1.0, None), (2.0, 0.5, None), (-1.0, 1.0, None), (0.5, 0.0, None), (1.25, -1.5, None)])
    st = [(1.0, 0.25, 0.25, 2.0, 0.5, -1.0), (2.0, -0.5, -0.5, 1.0, -0.25, 0.75), (0.5, 0.125, 0.125, 0.5, 1.0, 1.0), (1.0, 0.0, 0.0, 1.0, 0.0, 0.5)]
    for sysd in (lti0, lti1, ltv3, ltv5):
        for t0 in (0, 3):
            add_history(sysd, t0, [([], 0.5, None, 1)], 'T=0')
            add_history(sysd, t0, [(st[:1], 0.5, None, 1)], 'T=1')
            add_history(sysd, t0, [(st[:2], -1.5, None, 1)], 'T=2')
            add_history(sysd, t0, [(st, 1.0, [0.5, -0.25, 1.0, 2.0], 1)], 'nominal-given')
            add_history(sysd, t0, [(st, 1.0, None, 2)], 'dt=2')
            add_history(sysd, t0, [(st[:3], 1.0, None, 1), (st[1:], 2.0, [1.0, 0.0, -1.0], 1), (st[:2], -0.5, None, 1)], 'repeated')
    add_history(lti1, 0, [(st[:3], 1.0, [0.5, 0.25], 1)], 'u_traj-short')
    add_history(lti1, 0, [(st[:3], 1.0, [0.5, 0.25, 1.0, 1.0], 1)], 'u_traj-long')
    add_history(ltv3, -2, [(st[:3], 1.0, None, 1)], 'negative-time')
    bad_term = [st[0], (1.0, 0.25, 0.25, -2.0, 0.0, 0.0)]
    bad_inner = [(1.0, 0.25, 0.25, -0.5, 0.0, 0.0), st[1]]
    bad_inner2 = [(1.0, 0.25, 0.25, -4.0, 0.0, 0.0), st[1], st[2]]
    for sysd in (lti1, ltv3):
        add_history(sysd, 0, [(bad_term, 1.0, None, 1), (st[:2], 1.0, None, 1)], 'cholesky-raises-terminal')
        add_history(sysd, 0, [(bad_inner, 1.0, None, 1)], 'cholesky-inner-quu<0-but-Quu>0?')
        add_history(sysd, 0, [(bad_inner2, 1.0, None, 1)], 'cholesky-raises-inner')
    asym = [(1.0, 0.5, -0.25, 2.0, 0.5, -1.0), (2.0, -0.75, 0.25, 1.0, -0.25, 0.75), (1.0, 0.125, 0.5, 1.5, 1.0, 1.0)]
    for sysd in (lti1, ltv3):
        add_history(sysd, 0, [(asym, 1.0, None, 1)], 'asymmetric-Q')
    # random histories
    for k in range(ctx.scale(80, 800)):
        long = rng.random() < 0.12
        sysd = gen_scalar_sys(rng, amax=1.25 if long else 2.0)
        t0 = rng.choice([0, 0, rng.randint(-3, 12)])
        solves = []
        for j in range(rng.choice([1, 1, 2, 3])):
            T = rng.randint(8, 10) if long else rng.randint(1, 7)      # exact rationals over Q grow like T^3 bits
            sym = rng.random() < 0.85
            stages = [gen_stage(rng, sym=sym) for _ in range(T)]
            u = None if rng.random() < 0.4 else [dy(rng, 4, -2, 2) for _ in range(T)]
            solves.append((stages, dy(rng, 4, -3, 3), u, 1 if rng.random() < 0.85 else 2))
        add_history(sysd, t0, solves, 'random')
    ctx.samples.append(dict(kind='scalar-history', sysd=hist_meta[40]['sysd'], t0=hist_meta[40]['t0'],
                            first_solve=dict(stages=hist_meta[40]['recs'][0][0]['stages'], result=hist_meta[40]['recs'][0][1])))

    # ------------------------------------------------------------------ 3. scalar route: MPC.forward
    class Rec(ReduceToBason):
        def __init__(self, *a, **k):
            super().__init__(*a, **k)
            self.n = 0

        def step(self, loss):
            self.n += 1
            return super().step(loss)

        def reset(self):
            self.n = 0
            return super().reset()
    mpc_meta, mpc_cases = [], []

    def add_mpc(sysd, t0, stages, x0, u0, cfg, ncalls, branch):
        steps, pat, dec, tol = cfg
        P = scalar_P(sysd, t0)
        system = build_system(P)
        S = scalar_S(stages, x0, u0, 1)
        stp = Rec(steps=steps, patience=pat, decreasing=dec, tol=tol)
        mpc = pp.module.MPC(system, T64(S['Q']), T64(S['p']), S['T'], stepper=stp)
        for call in range(ncalls):
            tb = int(system.systime)
            before = (stp.steps, stp.patience_count, None if math.isinf(float(torch.as_tensor(stp.last).reshape(-1)[0])) else
                      [float(v) for v in torch.as_tensor(stp.last).reshape(-1).tolist()], bool(stp.continual()))
            try:
                x, u, cost = mpc(1, T64(S['x0']), None if u0 is None else T64(S['u']))
                r = dict(x=x.tolist(), u=u.tolist(), cost=cost.tolist(), t=int(system.systime), n=stp.n,
                         st=(stp.steps, stp.patience_count, bool(stp.continual())))
                exp = 'Some (%s, %s, %s, %s%%Z, (%s%%Z, %s%%Z, %s), %d%%nat)' % (
                    qlist(flat(r['x'])), qlist(flat(r['u'])), qlit(r['cost'][0]), zlit(r['t']), zlit(r['st'][0]), zlit(r['st'][1]), b(r['st'][2]), r['n'])
            except Exception as e:      # noqa
                r = dict(raised='%s: %s' % (type(e).__name__, str(e)[:120]))
                exp = 'None'
            idx = len(mpc_meta)
            mpc_meta.append(dict(kind='mpc', sysd=sysd, t0=tb, S=S, cfg=cfg, before=before, r=r, call=call, branch=branch))
            mpc_cases.append('(%d%%nat, (%s, %s%%Z, %s, ((%s%%Z, %s%%Z, %s, %s), (%s%%Z, %s%%Z, %s, %s)), 1%%Z, %s, %s, %s, %s))' % (
                idx, coq_sys(sysd), zlit(tb), qlit(TOL_MODEL), zlit(steps - 1), zlit(pat), qlit(dec), qlit(tol),
                zlit(before[0]), zlit(before[1]), olist(before[2]), b(before[3]), coq_stages(stages), qlit(x0), olist(u0), exp))
            ctx.case(('mpc', sysd['kind'], tb, len(stages), x0, cfg, call), nontrivial=len(stages) >= 2, branch='scalar-mpc:%s:%s' % (sysd['kind'], branch))
            ctx.traces += 1
            if 'raised' in r:
                break
    pos = [(1.0, 0.25, 0.25, 2.0, 3.0, 3.0), (2.0, -0.5, -0.5, 1.0, 3.0, 2.0), (0.5, 0.125, 0.125, 0.5, 2.0, 3.0)]
    for sysd in (lti1, ltv3):
        add_mpc(sysd, 0, st[:3], 1.0, None, (10, 5, 1e-3, 1e-5), 1, 'default-stepper')
        add_mpc(sysd, 0, st[:3], 1.0, [0.5, 0.5, 0.5], (1, 5, 1e-3, 1e-5), 1, 'steps=1')
        add_mpc(sysd, 0, st[:3], 1.0, None, (2, 5, 1e-3, 1e-5), 1, 'steps=2')
        add_mpc(sysd, 0, pos, 2.0, None, (8, 2, 1e-3, 1e-5), 2, 'patience-then-second-call')
        add_mpc(sysd, 2, pos, 2.0, None, (4, 1, 0.25, 1e-5), 2, 'patience=1')
        add_mpc(sysd, 0, pos, 2.0, None, (6, 3, 1e-3, 1e6), 1, 'tol-stop')
    for k in range(ctx.scale(24, 240)):
        sysd = gen_scalar_sys(rng)
        T = rng.randint(1, 6)
        stages = [gen_stage(rng) for _ in range(T)]
        if rng.random() < 0.5:
            stages = [s[:4] + (abs(s[4]) + 2.0, abs(s[5]) + 2.0) for s in stages]
        u0 = None if rng.random() < 0.5 else [dy(rng, 4, -2, 2) for _ in range(T)]
        cfg = (rng.randint(1, 7), rng.randint(1, 4), rng.choice([1e-3, 0.25]), 1e-5)
        add_mpc(sysd, rng.choice([0, 0, rng.randint(0, 9)]), stages, abs(dy(rng, 4, -3, 3)) + 0.5, u0, cfg, rng.choice([1, 1, 2]), 'random')

    lap('scalar-impl')
    # ------------------------------------------------------------------ run Coq on the scalar cases
    files = []
    for si, sh in enumerate(shard(hist_cases, 16)):
        files.append(('hist_%03d' % si, HDR + 'Eval vm_compute in lqr_hist_bad %s.\n' % coq_list(sh)))
    for si, sh in enumerate(shard(mpc_cases, 12)):
        files.append(('mpc_%03d' % si, HDR + 'Eval vm_compute in mpc_bad %s.\n' % coq_list(sh)))
    res = run_case_files('C14', files, timeout=600)
    table = dict(hist=hist_meta, mpc=mpc_meta)
    for name, (rc, out) in sorted(res.items()):
        ev = parse_evals(out)
        if rc != 0 or len(ev) != 1:
            ctx.obligation_broken('correspondence-file:' + name, out[-1500:])
            continue
        fam = name.split('_')[0]
        for i in parse_nat_list(ev[0]):
            m = table[fam][i]
            ctx.mismatch('scalar-' + fam, dict(kind=m['kind'], sysd=m['sysd'], t0=m['t0'], branch=m['branch']))
            search_scalar(ctx, ctx.mismatches[-1], m)

    lap('scalar-coq')
    # ------------------------------------------------------------------ 4. general route: LQR against the property
    nprob = ctx.scale(70, 400)
    directed = [((1, 1, 1, 1), 'lti'), ((1, 1, 1, 2), 'ltv'), ((2, 2, 1, 3), 'lti'), ((3, 3, 2, 4), 'ltv'), ((1, 6, 6, 20), 'lti'),
                ((1, 1, 6, 5), 'ltv'), ((3, 6, 1, 6), 'ltv'), ((2, 4, 3, 5), 'lti'), ((1, 2, 2, 20), 'ltv'), ((3, 2, 3, 1), 'ltv')]
    work, budget = 0, ctx.scale(6e5, 1e7)        # deterministic work budget (about 1 s per 25000 units)
    for k in range(nprob):
        if k >= len(directed) and work > budget:
            break
        sizes, kind = directed[k] if k < len(directed) else (None, None)
        if sizes is None and not ctx.thorough and rng.random() < 0.6:
            sizes = (rng.randint(1, 3), rng.randint(1, 4), rng.randint(1, 4), rng.randint(1, 7))
        P, (nb, ns, nc, T) = gen_general(rng, g, sizes, kind)
        if k % 4 == 1:
            P['twin'] = gen_twin(rng)
        if k % 5 == 2:
            P['grad'] = [n for n in ('A', 'B', 'c1') if rng.random() < 0.6] or ['A']
        ctx.count('general:system-object:%s' % (P['twin']['how'] + '-twin' if P.get('twin') else 'built'))
        ctx.count('general:ltv-overrides:%s' % ('-' if P['kind'] != 'ltv' else 'all' if not P.get('frozen') else 'all-but-' + '+'.join(P['frozen'])))
        try:
            system = build_system(P)
        except Exception as e:      # noqa
            ctx.violation('LQR.forward:%s:raises' % P['kind'], 'no system object%s: %s: %s' % (cfg_text(P), type(e).__name__, str(e)[:160]),
                          dict(kind='general', P=P, S=gen_solve(rng, g, nb, ns, nc, T)))
            continue
        nsolve = rng.choice([1, 2, 3])
        for j in range(nsolve):
            if j > 0:
                use_original(system, j)
            if j > 0 and rng.random() < 0.5:
                system.reset(rng.choice([0, 0, rng.randint(1, 30)]))      # arbitrary time counters
            elif j == 0 and rng.random() < 0.25:
                system.reset(rng.randint(1, 30))
            S = gen_solve(rng, g, nb, ns, nc, T)
            if (k + j) % 3 == 0:
                S['grad'] = gen_grad(rng)
            ctx.count('general:autograd:%s' % ('plain' if not S.get('grad') else S['grad']['mode'] + ':' + '+'.join(n for n in ('x0', 'u', 'Q', 'p') if S['grad'].get(n))))
            work += nb * T * (ns + nc) ** 3
            tb = int(system.systime)
            r = run_lqr(system, S)
            case = dict(kind='general', P=dict(P, t0=tb), S=S)
            stale = P['kind'] == 'ltv' and tb != 0
            br = 'general:%s:%s:kappa1e%d' % (P['kind'], 'stale-time' if stale else ('fresh' if tb == 0 else 'lti-any-time'), S['kappa'])
            ctx.case(('general', k, j, nb, ns, nc, T, tb), nontrivial=T >= 2, branch=br,
                     sample=dict(kind='general', sizes=(nb, ns, nc, T), system=P['kind'], t_before=tb, cost=r.get('cost')) if k == 3 else None)
            ctx.count('general:dims:%dx%d' % (ns, nc))
            ctx.traces += 1
            if 'raised' in r:
                ctx.violation('LQR.forward:%s:raises' % P['kind'], 'LQR.forward raised %s on a valid problem (nb,ns,nc,T)=%s%s' % (r['raised'], (nb, ns, nc, T), cfg_text(P, S)), case)
                break
            exp_t = expected_time(P['kind'], tb, T)
            if r['t'] != exp_t:
                ctx.mismatch('time-bookkeeping', dict(kind='general-time', sizes=(nb, ns, nc, T), t_before=tb, got=r['t'], model=exp_t))
            for bi in range(nb):
                fails, meas = check_item(case['P'], S, bi, r['x'], r['u'], r['cost'], rng=rng)
                note_meas(meas)
                if fails:
                    ctx.violation(classify(P, S, tb, fails), 'batch item %d%s: ' % (bi, cfg_text(P, S)) + '; '.join(t for _, t in fails[:3]), case)
                    break
            if r.get('mutated'):
                ctx.violation('mutation:LQR.forward', 'LQR.forward changed its argument(s) %s in place' % ', '.join(r['mutated']), case)

    lap('general')
    # ------------------------------------------------------------------ 5. MPC against the property
    for k in range(ctx.scale(10, 60)):
        kind = 'lti' if k % 5 else 'ltv'
        P, (nb, ns, nc, T) = gen_general(rng, g, (1, rng.randint(1, 4), rng.randint(1, 3), rng.randint(1, 6)), kind)
        S = gen_solve(rng, g, 1, ns, nc, T, tile=False)
        if k % 3 == 1:
            P['twin'] = gen_twin(rng)
        if k % 3 == 2:
            S['grad'] = gen_grad(rng)
        case = dict(kind='mpc-linear', P=P, S=S, steps=rng.randint(1, 10))
        ctx.case(('mpc-linear', k, ns, nc, T), nontrivial=T >= 2, branch='mpc-linear:' + kind)
        ctx.traces += 1
        why = check_case(case)
        if why:
            ctx.violation(why[0], why[1], case)
    for k in range(ctx.scale(6, 40)):
        case = dict(kind='mpc-nonlinear', system=rng.choice(['pend', 'cubic']), T=rng.randint(1, 8), seed=ctx.seed * 1000 + k,
                    steps=rng.randint(1, 8), h=rng.choice([0.05, 0.1, 0.25]))
        if k % 2:
            # strongly nonlinear, coarse step, few iterations: the iLQR iterates are not monotone, so the cost reported must
            # really be that of the trajectory returned (not of an earlier, better iterate)
            case.update(system='pend', T=rng.randint(8, 12), steps=rng.randint(2, 4), h=0.5, x0scale=rng.choice([2.0, 2.5, 3.0]))
        ctx.case(('mpc-nonlinear', k, case['system'], case['T']), nontrivial=case['T'] >= 2, branch='mpc-nonlinear:' + case['system'])
        ctx.traces += 1
        why = check_case(case)
        if why:
            ctx.violation(why[0], why[1], case)
    lap('mpc')
    # ------------------------------------------------------------------ 6. sessions on one LQR / MPC object: argument identity, in-place edits by the caller, layouts
    def do_session(case, tag):
        ctx.traces += 1
        for si, st in enumerate(case['steps']):
            ctx.case(('session', tag, si, case['api'], case['T'], repr(st)[:200]), nontrivial=case['T'] >= 2 and si >= 1,
                     branch='session:%s:x_init=%s:u_traj=%s' % (case['api'], st['x0']['src'], st['u']['src']))
            if st['u']['src'] in ('new',):
                ctx.count('session:layout:u_traj=' + st['u']['layout'])
        for name, l in sorted(case['lay'].items()):
            ctx.count('session:layout:%s=%s' % (name, l))
        try:
            why = judge_session(case, rng=rng, note=note_meas)
        except Exception as e:      # noqa  (the harness itself must not crash on a changed tree: report the input)
            why = ('%s:session:harness-error' % ('MPC.forward' if case['api'] == 'mpc' else 'LQR.forward'),
                   'the session could not be judged: %s: %s' % (type(e).__name__, str(e)[:200]), len(case['steps']) - 1)
        if why:
            ctx.violation(why[0], why[1], dict(case, steps=case['steps'][:why[2] + 1]))
    dsz = [(2, 3, 2, 6), (1, 2, 1, 4), (3, 2, 2, 3), (2, 1, 1, 5), (2, 4, 3, 2), (3, 1, 2, 4), (2, 2, 2, 7)]
    for k, (name, script) in enumerate(SESSION_SCRIPTS):
        for api in ('lqr', 'mpc'):
            sz = dsz[k] if api == 'lqr' else (1,) + dsz[k][1:]
            do_session(gen_session(rng, g, api, sizes=sz, kind='ltv' if k % 3 == 2 else 'lti', script=script, lay={}), name)
    for k, l in enumerate(LAYOUTS[1:]):
        do_session(gen_session(rng, g, 'lqr', sizes=(2, 2, 2, 3), kind='ltv' if k % 2 else 'lti', lay=dict(A=l, B=l, c1=l, Q=l, p=l)), 'layout-' + l)
    for k in range(ctx.scale(36, 300)):
        do_session(gen_session(rng, g, 'mpc' if k % 4 == 3 else 'lqr'), 'random')
    lap('sessions')
    # ------------------------------------------------------------------ 7. twins of the system / solver object, autograd state of the arguments
    plain2 = [('new', 'new', 'contig', None), ('same', 'ret', 'contig', None)]
    plain3 = plain2 + [('new', 'none', 'contig', None)]
    k = 0
    for how in TWINS:
        for api, kind in (('lqr', 'ltv'), ('mpc', 'ltv'), ('lqr', 'lti')):
            k += 1
            sz = (1 if api == 'mpc' else 1 + k % 3, 1 + k % 3, 1 + k % 2, 3 + k % 4)
            ex = dict(twin=dict(how=how, pre=(0, 2, 5)[k % 3], inter=bool(k % 2)))
            do_session(gen_session(rng, g, api, sizes=sz, kind=kind, script=plain2, lay={}, extra=ex), 'twin-' + how)
            if how != 'state_dict' and kind == 'ltv':
                ex = dict(twin_at=dict(step=1 + k % 2, how=how))
                do_session(gen_session(rng, g, api, sizes=sz, kind=kind, script=plain3, lay={}, extra=ex), 'solver-twin-' + how)
    GR = [dict(x0=True), dict(u=True), dict(x0=True, u=True), {}]
    for k, (flags, pgrad, gradc) in enumerate([(GR[0], [], []), (GR[1], [], []), (GR[2], [], []), (GR[3], ['A', 'B', 'c1'], []), (GR[3], [], ['Q', 'p']),
                                               (GR[2], ['A', 'B', 'c1'], ['Q', 'p']), (GR[0], ['B'], ['p']), (GR[1], ['A'], ['Q'])]):
        for api in ('lqr', 'mpc'):
            sz = (1 if api == 'mpc' else 1 + k % 3, 1 + (k + 1) % 3, 1 + k % 2, (3, 4, 6, 5)[k % 4])
            order = [dict(flags, mode='grad'), dict(flags, mode='no_grad'), None]
            order = order[k % 3:] + order[:k % 3]
            ex = dict(pgrad=pgrad, gradc=gradc, sgrads=order)
            do_session(gen_session(rng, g, api, sizes=sz, kind='ltv' if k % 2 else 'lti', script=plain3, lay={}, extra=ex), 'autograd')
    lap('twins-autograd')
    ctx.notes.append('seconds per section: %s' % tsec)
    ctx.notes.append('worst measurements (units: feas in eps, others relative): %s' % worst)


def expected_time(kind, tb, T):
    """Model/LQR.v via C14_lqr_time_bookkeeping: both passes reset the counter, then T calls"""
    return T


def search_scalar(ctx, mm, m):
    """a scalar model/implementation mismatch: check the property itself on the implementation's outputs"""
    if m['kind'] == 'hist':
        P = scalar_P(m['sysd'], m['t0'])
        for (S, r), tb in zip(m['recs'], m['t_before']):
            if 'raised' in r or S['dt'] != 1 or S['T'] == 0:
                continue
            pd = all(s[0] > 0 and s[3] > 0 and s[1] == s[2] and s[0] * s[3] > s[1] * s[1] for s in S['stages'])
            if not pd:
                continue
            fails, _ = check_item(dict(P, t0=tb), S, 0, r['x'], r['u'], r['cost'], rng=ctx.rng)
            if fails:
                mm['explained'] = True
                Sj = dict((k, v) for k, v in S.items() if k not in ('stages', 'x0s', 'us'))
                ctx.violation(classify(P, S, tb, fails), '; '.join(t for _, t in fails[:3]), dict(kind='general', P=dict(P, t0=tb), S=Sj))
                return
    else:
        P = scalar_P(m['sysd'], m['t0'])
        S, r = m['S'], m['r']
        if 'raised' in r:
            return
        fails, _ = check_item(P, S, 0, r['x'], r['u'], r['cost'], rng=ctx.rng)
        if fails:
            mm['explained'] = True
            Sj = dict((k, v) for k, v in S.items() if k not in ('stages', 'x0s', 'us'))
            ctx.violation(classify(P, S, m['t0'], fails, mpc=True), '; '.join(t for _, t in fails[:3]),
                          dict(kind='mpc-linear', P=P, S=Sj, steps=m['cfg'][0]))


# ---------------------------------------------------------------------------------------------
def regression_witnesses():
    """the witnesses of Props/C14.v (..._old_refuted) on the implementation: the property must hold on them"""
    # Proofs/LQR.v: w_sys, w_prob  (A_t = (1, 0, 2)[t mod 3], B = 1, Q = I, p = 0, x_init = 1)
    ltv = dict(kind='ltv', N=3, A=[[[[1.0]], [[0.0]], [[2.0]]]], B=[[[[1.0]], [[1.0]], [[1.0]]]], c1=None, t0=0)
    Q = [[[[1.0, 0.0], [0.0, 1.0]], [[1.0, 0.0], [0.0, 1.0]]]]
    S2 = dict(T=2, Q=Q, p=[[[0.0, 0.0], [0.0, 0.0]]], x0=[[1.0]], u=None, dt=1, tile=False)
    S1 = dict(T=1, Q=[Q[0][:1]], p=[[[0.0, 0.0]]], x0=[[1.0]], u=None, dt=1, tile=False)
    return [
        dict(kind='second-solve', name='C14_lqr_second_solve_suboptimal_old_refuted', P=ltv, S=S2),
        dict(kind='general', name='C14_lqr_stale_final_state_old_refuted', P=dict(ltv, t0=2), S=S1),
        dict(kind='mpc-linear', name='C14_mpc_linear_is_lqr_ltv_old_refuted', P=ltv, S=S2, steps=10),
        dict(kind='shape', name='C14_lqr_returns_old_refuted', nb=2, ns=1, nc=1, T=2, seed=0),
    ]


def replay(ctx, case):
    """re-run exactly that case; a failure that is a recorded finding of the unchanged tree does not count"""
    r = check_case(case)
    if r is None or (ctx is not None and r[0] in ctx.known):
        return None
    return r[1]


def check_case(case):
    """re-run one recorded case against the implementation and the property oracle: None | (key, text)"""
    c = classes()
    pp, torch = c['pp'], c['torch']
    from pypose.utils.stepper import ReduceToBason
    k = case.get('kind')
    if k == 'shape':
        nb, ns, nc, T = case['nb'], case['ns'], case['nc'], case['T']
        g = torch.Generator().manual_seed(1000 + case.get('seed', 0))
        rr = __import__('random').Random(case.get('seed', 0))
        P, _ = gen_general_fixed(rr, g, nb, ns, nc, T)
        S = gen_solve(rr, g, nb, ns, nc, T, tile=False)
        r = run_lqr(build_system(P), S)
        if 'raised' in r:
            return (K_SQUEEZE if (ns == 1 and nb >= 2 and T >= 2) else 'LQR.forward:lti:raises',
                    'LQR.forward raises (%s) for n_batch=%d, n_state=%d, n_ctrl=%d, T=%d on a valid LTI problem' % (r['raised'], nb, ns, nc, T))
        for bi in range(nb):
            fails, _ = check_item(P, S, bi, r['x'], r['u'], r['cost'])
            if fails:
                return (classify(P, S, 0, fails), 'n_batch=%d n_state=%d n_ctrl=%d T=%d, item %d: %s' % (nb, ns, nc, T, bi, fails[0][1]))
        return None
    if k == 'general':
        P, S = case['P'], case['S']
        try:
            system = build_system(P)
        except Exception as e:      # noqa
            return ('LQR.forward:%s:raises' % P['kind'], 'no system object%s: %s: %s' % (cfg_text(P), type(e).__name__, str(e)[:160]))
        r = run_lqr(system, S)
        if 'raised' in r:
            return ('LQR.forward:%s:raises' % P['kind'], 'LQR.forward raised %s%s' % (r['raised'], cfg_text(P, S)))
        for bi in range(len(S['x0'])):
            fails, _ = check_item(P, S, bi, r['x'], r['u'], r['cost'])
            if fails:
                return (classify(P, S, P.get('t0', 0), fails),
                        'system time %d before the solve%s, batch item %d: %s' % (P.get('t0', 0), cfg_text(P, S), bi, '; '.join(t for _, t in fails[:3])))
        if r.get('mutated'):
            return ('mutation:LQR.forward', 'LQR.forward changed its argument(s) %s in place (bit-for-bit comparison with a snapshot)' % ', '.join(r['mutated']))
        return None
    if k == 'session':
        why = judge_session(case)
        return None if why is None else (why[0], why[1])
    if k == 'second-solve':
        P, S = case['P'], case['S']
        system = build_system(P)
        r1 = run_lqr(system, S)
        t1 = int(system.systime)
        r2 = run_lqr(system, S)
        f1, _ = check_item(P, S, 0, r1['x'], r1['u'], r1['cost'])
        f2, _ = check_item(P, S, 0, r2['x'], r2['u'], r2['cost'])
        if f1:
            return (classify(P, S, 0, f1), 'first solve on a fresh object: ' + f1[0][1])
        if f2:
            return (classify(P, S, t1, f2), 'two consecutive LQR solves of the same problem on one LTV object: first cost %r (optimal), system time then %d, second cost %r: %s'
                    % (r1['cost'][0], t1, r2['cost'][0], f2[0][1]))
        return None
    if k == 'mpc-linear':
        P, S = case['P'], case['S']
        gr = S.get('grad') or {}
        try:
            system = build_system(P)
            with grad_ctx(gr.get('mode', 'grad')):
                mpc = pp.module.MPC(system, set_grad(T64(S['Q']), gr.get('Q')), set_grad(T64(S['p']), gr.get('p')), S['T'],
                                    stepper=ReduceToBason(steps=case.get('steps', 10)))
                x, u, cost = mpc(1, set_grad(T64(S['x0']), gr.get('x0')), None if S.get('u') is None else set_grad(T64(S['u']), gr.get('u')))
        except Exception as e:      # noqa
            return ('MPC.forward:%s:raises' % P['kind'], 'MPC.forward raised %s: %s%s' % (type(e).__name__, str(e)[:120], cfg_text(P, S)))
        fails, _ = check_item(P, S, 0, x.tolist(), u.tolist(), cost.tolist())
        if fails:
            key = classify(P, S, 0, fails, mpc=True)
            text = 'MPC on a linear %s system (fresh object)%s: %s' % (P['kind'], cfg_text(P, S), '; '.join(t for _, t in fails[:3]))
            return (key, text)
        return None
    if k == 'mpc-nonlinear':
        g = torch.Generator().manual_seed(case['seed'])
        T, h = case['T'], case['h']
        if case['system'] == 'pend':
            mk, ns = (lambda: c['Pend'](h, 9.81)), 2
        else:
            mk, ns = (lambda: c['Cubic'](h)), 1
        n = ns + 1
        Qd = torch.rand(1, T, n, generator=g, dtype=torch.float64) + 0.5
        Q = torch.diag_embed(Qd)
        p = torch.randn(1, T, n, generator=g, dtype=torch.float64)
        x0 = torch.randn(1, ns, generator=g, dtype=torch.float64) * case.get('x0scale', 1.0)
        u0 = 0.1 * torch.randn(1, T, 1, generator=g, dtype=torch.float64)
        sysm = mk()
        mpc = pp.module.MPC(sysm, Q, p, T, stepper=ReduceToBason(steps=case['steps']))
        try:
            x, u, cost = mpc(h, x0, u0)
        except Exception as e:      # noqa
            return ('MPC.forward:nonlinear:raises', 'MPC.forward raised %s: %s' % (type(e).__name__, str(e)[:160]))
        ref = mk()
        bad = []
        if not torch.equal(x[:, 0], x0):
            bad.append('x[0] differs from x_init')
        J = 0.0
        for t in range(T):
            nx = ref.state_transition(x[:, t], u[:, t], torch.tensor(t))
            if (nx - x[:, t + 1]).abs().max().item() > 1e-12 * (1 + nx.abs().max().item()):
                bad.append('step %d: x[t+1] = %s but f(x_t, u_t) = %s' % (t, x[:, t + 1].tolist(), nx.tolist()))
                break
            tau = torch.cat([x[:, t], u[:, t]], dim=-1)
            J = J + 0.5 * (tau * (Q[:, t] @ tau.unsqueeze(-1)).squeeze(-1)).sum() + (tau * p[:, t]).sum()
        if not bad and abs(float(J) - float(cost[0])) > 1e-10 * (1 + abs(float(J))):
            bad.append('reported cost %r, sum of stage costs %r' % (float(cost[0]), float(J)))
        if bad:
            return ('MPC.forward:nonlinear:' + ('dynamics' if 'step' in bad[0] or 'x[0]' in bad[0] else 'cost'),
                    'MPC on the nonlinear system %s (T=%d): %s' % (case['system'], T, bad[0]))
        return None
    return None


def gen_general_fixed(rr, g, nb, ns, nc, T):
    torch = classes()['torch']
    A = (torch.randn(nb, ns, ns, generator=g, dtype=torch.float64) * 0.7).tolist()
    B = torch.randn(nb, ns, nc, generator=g, dtype=torch.float64).tolist()
    c1 = torch.randn(nb, ns, generator=g, dtype=torch.float64).tolist()
    return dict(kind='lti', N=1, A=A, B=B, c1=c1, t0=0), (nb, ns, nc, T)
