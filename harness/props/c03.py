"""C03 correspondence: Mul / Inv / Act / Act4 / matrix / identity / rotation / translation / scale /
Adj / AdjT (forward) of all four groups vs Model/LieGroup.v, exact route (bit-for-bit on inputs
for which float64 arithmetic is exact), plus exact and floating histories.

Implementation-level oracles (textbook formulas over exact Fractions, written from the property text):
 * E "call protocol": every operation in every call form, batch shape (total sizes 0..8, 2-D/3-D shapes,
   broadcasting of one operand against the other), memory layout (contiguous / transposed / strided /
   stride-0 expanded / empty) and both dtypes, judged item by item; each judged call is repeated on the same
   operand objects after the first result has been overwritten in place, and once more after the operands
   have been overwritten in place; operands must not be mutated by the call;
 * F "identity constructors": every constructor form (pp.identity_G, G_type.identity, identity_like,
   identity_, algebra forms), sizes, dtypes: raw data, neutrality for @ (both sides) / Act / Act4 / matrix /
   Inv; then an in-place history on the returned element, then the constructor again;
 * G "restored elements": an element that went through copy.deepcopy / pickle / torch.save+load / copy.copy /
   pp.Parameter / a module checkpoint (state_dict round trip, deepcopy of the module) is the same group element:
   such twins are used as either (or both) operands of every operation of E and F, and histories (exact:
   @ on both sides, Inv, zero increments, judged after every step against the textbook formulas over Fractions;
   floating: add_ / Retr / + / @ / Inv with generic increments, judged for validity, the two-sided inverse and
   agreement with the same history on the never-copied element) are run on elements that are restored again and
   again in between."""
import math
from ..common import *
from ..lie import *

RULE = ('exact route: inputs are Hurwitz unit quaternions / dyadic numbers so float64 performs no rounding and '
        'implementation == model over Q bit for bit; a case is (group, op, operands), non-trivial when no operand '
        'is the identity; histories: op lists applied to one element, compared after every step')

OPS = {'Mul': 0, 'Inv': 1, 'Act': 2, 'Act4': 3, 'matrix': 4, 'identity': 5, 'rotation': 6, 'translation': 7,
       'scale': 8, 'Adj': 9, 'AdjT': 10}


def call(pp, torch, g, op, args):
    X = LT(pp, torch, g, args[0]) if args else None
    if op == 'Mul':
        return (X @ LT(pp, torch, g, args[1])).tensor()
    if op == 'Inv':
        return X.Inv().tensor()
    if op in ('Act', 'Act4'):
        return X.Act(torch.tensor(args[1], dtype=torch.float64))
    if op == 'matrix':
        return X.matrix()
    if op == 'identity':
        return getattr(pp, 'identity_' + g)().tensor()
    if op == 'rotation':
        return X.rotation().tensor()
    if op == 'translation':
        return X.translation()
    if op == 'scale':
        return X.scale()
    a = pp.LieTensor(torch.tensor(args[1], dtype=torch.float64), ltype=getattr(pp, g.replace('SO', 'so').replace('SE', 'se').replace('Sim', 'sim').replace('Rx', 'rx') + '_type'))
    return (X.Adj(a) if op == 'Adj' else X.AdjT(a)).tensor()


def gen_args(rng, g, op, kind):
    elt = unit_elt if kind == 'unit' else dyadic_elt
    if op == 'identity':
        return []
    x = elt(rng, g)
    if op == 'Mul':
        return [x, elt(rng, g)]
    if op == 'Act':
        return [x, [dy(rng, 5, 2.0) for _ in range(3)]]
    if op == 'Act4':
        w = rng.choice([0.0, 1.0, 1.0, dy(rng, 3, 2.0)])
        return [x, [dy(rng, 5, 2.0) for _ in range(3)] + [w]]
    if op in ('Adj', 'AdjT'):
        return [x, [dy(rng, 5, 1.0) for _ in range(ADIM[g])]]
    return [x]


def run(ctx):
    pp = import_pypose()
    import torch
    import warnings
    warnings.filterwarnings('ignore')
    ctx.rule = RULE
    rng = ctx.rng
    # ---------------------------------------------------------------- A: op-level exact correspondence
    n = ctx.scale(1500, 24000)
    cases, meta = [], []
    combos = [(g, op, kind) for g in GROUPS for op in OPS for kind in ('unit', 'dyadic')]
    k = 0
    while len(meta) < n:
        g, op, kind = combos[k % len(combos)]
        k += 1
        if op == 'identity' and k > 2 * len(combos):
            continue
        if op == 'Inv' and kind == 'dyadic' and g in ('RxSO3', 'Sim3'):
            pass  # 1/s with s a power of two: exact
        args = gen_args(rng, g, op, kind)
        batched = rng.random() < 0.3 and op not in ('identity',)
        try:
            if batched:
                # same-shape batch of 3: the model is applied item by item
                argsb = [args] + [gen_args(rng, g, op, kind) for _ in range(2)]
                stacked = [[a[j] for a in argsb] for j in range(len(args))]
                out = call(pp, torch, g, op, stacked)
                outs = [fr(out[b]) for b in range(3)]
                items = list(zip(argsb, outs))
            else:
                out = call(pp, torch, g, op, args)
                items = [(args, fr(out))]
        except Exception as e:
            ctx.mismatch('op-raises', dict(g=g, op=op, args=args, err=repr(e)[:200]))
            continue
        for a, o in items:
            ctx.case((g, op, tuple(map(tuple, a))), nontrivial=(op != 'identity'), branch='%s-%s-%s' % (g, op, kind),
                     sample=dict(group=g, op=op, args=a, impl_out=[float(v) for v in o]) if len(meta) % 97 == 5 else None)
            meta.append(dict(g=g, op=op, args=a, kind=kind))
            cases.append(lie_case_lit(len(meta) - 1, g, OPS[op], a, o))
    files = []
    for si, sh in enumerate(shard(cases, 400)):
        files.append(('ops_%03d' % si, LIE_HEADER + 'Eval vm_compute in lie_bad %s.\n' % coq_list(sh)))
    # ---------------------------------------------------------------- B: exact histories
    nh = ctx.scale(24, 200)
    hl = ctx.scale(120, 1000)
    hmeta, hcases = [], []
    for h in range(nh):
        g = GROUPS[h % 4]
        x0 = unit_elt(rng, g)
        X = LT(pp, torch, g, x0)
        ops, outs = [], []
        cum = 1.0
        L = rng.randint(hl // 2, hl)
        inplace = (h // 4) % 2 == 1   # every other history updates the ONE tensor object in place
        for _ in range(L):
            o = rng.choice([0, 0, 1, 1, 2])
            y = unit_elt(rng, g)
            if g in ('RxSO3', 'Sim3'):
                # keep the accumulated scale within [1/16,16] so that float64 stays exact
                s = y[-1]
                if not (1 / 16 <= cum * s <= 16):
                    y[-1] = 1.0
            if o == 0:
                Xn = LT(pp, torch, g, y) @ X
            elif o == 1:
                Xn = X @ LT(pp, torch, g, y)
            else:
                Xn = X.Inv()
            X = X.copy_(Xn) if inplace else Xn
            if g in ('RxSO3', 'Sim3'):
                cum = float(X.tensor()[-1])
            ops.append((o, y))
            outs.append(fr(X.tensor()))
            if _dyadic_bits(X.tensor().tolist()) > 40:
                # the exact route needs every intermediate of the NEXT step to fit into the 53-bit significand (grid of the
                # translation x its magnitude grows over long Sim3 / SE3 histories): this step was still exact, stop here
                ctx.notes.append('exact history %d (%s) stopped after %d of %d steps: significand budget' % (h, g, len(ops), L))
                break
        ctx.case(('hist', g, h, L), branch='history-' + g)
        ctx.traces += 1
        hmeta.append(dict(g=g, x0=x0, ops=ops))
        lit = '(%d%%nat, %d%%nat, %s, %s, %s)' % (h, GID[g], qlist(x0), coq_list('(%d%%nat, %s)' % (o, qlist(y)) for o, y in ops),
                                                coq_list(qlist(o) for o in outs))
        hcases.append(lit)
    for si, sh in enumerate(shard(hcases, 4)):
        files.append(('hist_%03d' % si, LIE_HEADER + 'Eval vm_compute in hist_bad %s.\n' % coq_list(sh)))
    if hmeta:
        ctx.samples.append(dict(kind='history', group=hmeta[0]['g'], x0=hmeta[0]['x0'], first_ops=hmeta[0]['ops'][:3], length=len(hmeta[0]['ops'])))
    res = run_case_files('C03', files, timeout=900)
    for name, (rc, out) in sorted(res.items()):
        ev = parse_evals(out)
        if rc != 0 or len(ev) != 1:
            ctx.obligation_broken('correspondence-file:' + name, out[-1500:])
            continue
        bad = parse_nat_list(ev[0])
        if name.startswith('ops_'):
            for i in bad:
                m = meta[i]
                ctx.mismatch('op:%s' % m['op'], m)
        else:
            for i in bad:
                ctx.mismatch('history', dict(hmeta[i], ops=hmeta[i]['ops'][:50]))
    # ---------------------------------------------------------------- C: floating histories (drift clause)
    nf = ctx.scale(8, 24)
    fl = ctx.scale(1500, 10000)
    for h in range(nf):
        g = GROUPS[h % 4]
        dtype = torch.float64 if h % 8 < 6 else torch.float32
        eps = torch.finfo(dtype).eps
        X = LT(pp, torch, g, generic_elt(rng, g, torch, dtype), dtype)
        pool = LT(pp, torch, g, [generic_elt(rng, g, torch, dtype) for _ in range(64)], dtype)
        alg = pp.LieTensor(torch.randn(64, ADIM[g], dtype=dtype, generator=torch.Generator().manual_seed(ctx.seed + h)) * 0.3,
                           ltype=getattr(pp, ALGS[GROUPS.index(g)] + '_type'))
        worst = 0.0
        for stepi in range(fl):
            o = rng.randrange(4)
            j = rng.randrange(64)
            if g in ('RxSO3', 'Sim3') and o < 2:
                # keep the random walk of the scale inside the dtype's range (float32 overflows after ~10^3 unsteered
                # products): when the scale has drifted, compose with a pool element that brings it back
                sc_now = float(X.scale().reshape(-1)[0])
                if sc_now > 30.0 or sc_now < 1.0 / 30.0:
                    want_small = sc_now > 1.0
                    for _ in range(64):
                        sj = float(pool[j].scale().reshape(-1)[0])
                        if (sj < 1.0) == want_small:
                            break
                        j = rng.randrange(64)
            if o == 0:
                X = X.copy_(pool[j] @ X) if stepi % 5 == 0 else pool[j] @ X
            elif o == 1:
                X = X.copy_(X @ pool[j]) if stepi % 5 == 0 else X @ pool[j]
            elif o == 2:
                X = X.Inv()
            else:
                # increments of every size: O(1) as well as the tiny ones of an optimiser close to convergence
                a = pp.LieTensor(alg[j].tensor() * rng.choice([1.0, 1.0, 1e-2, 3e-4, 3e-5, 1e-5, 1e-7, 1e-10, 0.0]), ltype=alg.ltype)
                # block-sparse increments (an optimiser that moves only the scale and the translation, only the rotation ...): one
                # block exactly zero while the others are not - a regime of Exp that needs two components together; chosen from
                # the position in the history, without consuming the random stream
                mk = (5 * h + stepi) % 6
                if mk >= 2:
                    at = a.tensor().clone()
                    r0 = 3 if g in ('SE3', 'Sim3') else 0
                    if mk in (2, 5):
                        at[..., r0:r0 + 3] = 0.0
                    if mk == 3 and g in ('RxSO3', 'Sim3'):
                        at[..., -1] = 0.0
                    if mk in (4, 5) and g in ('SE3', 'Sim3'):
                        at[..., 0:3] = 0.0
                    a = pp.LieTensor(at, ltype=alg.ltype)
                if stepi % 3 == 0:
                    X = X.Retr(a)
                elif stepi % 3 == 1:
                    X = X + a
                else:
                    X.add_(a.tensor())    # the in-place update of an optimiser step
            q = X.rotation().tensor()
            dev = abs(float(q.norm()) - 1.0)
            worst = max(worst, dev)
            sc = float(X.scale().reshape(-1)[0]) if g in ('RxSO3', 'Sim3') else 1.0
            if not (dev <= 16 * (stepi + 8) * eps) or not (sc > 0) or not torch.isfinite(X.tensor()).all():
                ctx.violation('history-invalid', 'after %d mixed @/Inv/Retr/+ operations the element is no longer a valid group element: | |q|-1 | = %g, scale = %g' % (stepi + 1, dev, sc),
                              dict(kind='float-history', g=g, dtype=str(dtype), seed=ctx.seed, h=h, steps=stepi + 1))
                break
        ctx.case(('fhist', g, h), branch='float-history-' + g)
        ctx.notes.append('float history %s %s: %d ops, worst | |q|-1 | = %.3g (bound 16 n eps)' % (g, str(dtype).split('.')[-1], fl, worst))
    # ---------------------------------------------------------------- E: call protocol (shapes, layouts, forms, reuse)
    for c in protocol_cases(rng, ctx.scale(500, 4000)):
        f = protocol_check(pp, torch, c)
        tw = (c.get('origin_x', 'fresh'), c.get('origin_p', 'fresh'))
        ctx.case(('protocol', c['g'], c['op'], c['form'], tuple(c['xs']), tuple(c['ps'] or ()), c['layout'], c['dtype']) + (tw if tw != ('fresh', 'fresh') else ()),
                 branch='protocol-%s-%s' % (c['op'], c['layout'] if tw == ('fresh', 'fresh') else 'restored'))
        if f:
            ctx.violation('%s:%s:%s' % (f[0], c['g'], c['op']), f[1], dict(c, description=f[1][:600]))
    # ---------------------------------------------------------------- F: identity constructors, state between calls
    for c in identity_cases(rng, ctx.scale(1, 3)):
        f = identity_check(pp, torch, c)
        ctx.case(('identity-form', c['g'], c['form'], tuple(c['size']), c['dtype'], c.get('origin', 'fresh')), nontrivial=False,
                 branch='identity-form-' + c['form'])
        if f:
            ctx.violation('identity-constructor:%s' % c['g'], f, dict(c, description=f[:600]))
    # ---------------------------------------------------------------- G: histories on restored (copied / unpickled / loaded) elements
    for c in twin_history_cases(rng, ctx.scale(1, 4)):
        f = twin_history_check(pp, torch, c)
        ctx.case(('restored-history', c['g'], c['dtype'], c['exact'], tuple(st[3] for st in c['steps'])), branch='restored-history-' + c['g'])
        ctx.traces += 1
        if f:
            ctx.violation('%s:%s' % (f[0], c['g']), f[1], dict(c, description=f[1][:600]))
    # ---------------------------------------------------------------- D: search
    if ctx.mismatches:
        for m in ctx.mismatches:
            # a failing input of the same group and operation found by E explains the model/implementation mismatch
            gm, om = m['case'].get('g'), m['case'].get('op')
            om = 'Act' if om == 'Act4' else om
            if any(v['replay'].get('kind') == 'protocol' and v['replay'].get('g') == gm and
                   (v['replay'].get('op') == om or om in ('Adj', 'AdjT', None)) for v in ctx.violations):
                m['explained'] = True
        fams = sorted({m['case'].get('g') for m in ctx.mismatches if isinstance(m['case'], dict) and m['case'].get('g')})
        for g in fams or GROUPS:
            for f in laws(pp, torch, g, ctx.rng, budget=ctx.scale(1, 4)):
                for m in ctx.mismatches:
                    if m['case'].get('g') == g:
                        m['explained'] = True
                ctx.violation('law:%s:%s' % (g, f['law']), f['what'], f)
                break
    ctx.exhaustive = False


# ======================================================================= E: call protocol
# Every operation of the property, called in every documented form on batches of every small shape
# (total size 0..8: a size that coincides with a component count 3, 4, 5, 7, 8 must not matter), with one
# operand broadcast against the other, in several memory layouts and both dtypes.  Operands are exactly
# representable valid elements (Hurwitz unit quaternion, dyadic translation, power-of-two scale) and dyadic
# points, so float32 and float64 do no rounding and each item must EQUAL the textbook value over Fractions.
FORMS = {'Mul': ['X@Y', 'X*Y', 'pp.Mul', 'pp.mul'], 'Inv': ['X.Inv()', 'pp.Inv'],
         'Act': ['X.Act(p)', 'pp.Act', 'X@p', 'X*p'], 'Act4': ['X.Act(p)', 'pp.Act', 'X@p', 'X*p'],
         'matrix': ['X.matrix()', 'pp.matrix'], 'rotation': ['X.rotation()', 'pp.rotation'],
         'translation': ['X.translation()', 'pp.translation'], 'scale': ['X.scale()', 'pp.scale']}
BINARY = ('Mul', 'Act', 'Act4')
LAYOUTS = ['contiguous', 'contiguous', 'transposed', 'strided', 'expanded']
SHAPES = [(), (1,), (2,), (3,), (4,), (5,), (6,), (7,), (8,), (1, 3), (3, 1), (2, 3), (3, 2), (3, 3), (4, 3), (3, 4),
          (2, 2), (1, 4), (4, 1), (2, 4), (1, 1, 3), (2, 1, 3), (3, 1, 1), (2, 3, 4), (3, 1, 3), (0,), (3, 0), (0, 3)]


# Where an operand comes from.  The property quantifies over all ELEMENTS of a group type: an element that was
# copied, pickled, saved and loaded, wrapped as a Parameter or restored from a module checkpoint is the same element.
ORIGINS = ['deepcopy', 'pickle', 'torch.save+load', 'copy.copy', 'Parameter', 'deepcopy(Parameter)', 'module-checkpoint',
           'deepcopy(module)']
PLAIN_ORIGINS = ORIGINS[:4]      # twins that are plain LieTensors (no autograd leaf): usable with in-place updates


def _dyadic_bits(vals):
    """number of significand bits a common dyadic grid for all components needs: log2(max |v| / finest grid)"""
    den, mag = 1, 0.0
    for v in vals:
        if v != 0.0:
            den = max(den, float(v).as_integer_ratio()[1])
            mag = max(mag, abs(v))
    return (math.frexp(mag * den)[1]) if mag else 0


def _prod(sh):
    n = 1
    for v in sh:
        n *= v
    return n


def _twin(pp, torch, X, origin):
    """the element X after a round trip through `origin` (a LieTensor with its own ltype object / storage)"""
    import copy, pickle, io
    if origin == 'fresh':
        return X
    if X.numel() == 0 and origin in ('deepcopy', 'deepcopy(module)'):
        origin = 'pickle'    # torch's default __deepcopy__ refuses empty LieTensors; not an operation of this property
    if origin == 'deepcopy':
        return copy.deepcopy(X)
    if origin == 'pickle':
        return pickle.loads(pickle.dumps(X))
    if origin == 'torch.save+load':
        b = io.BytesIO()
        torch.save(X, b)
        b.seek(0)
        return torch.load(b, weights_only=False)
    if origin == 'copy.copy':
        return copy.copy(X)
    if origin == 'Parameter':
        return pp.Parameter(X)
    if origin == 'deepcopy(Parameter)':
        return copy.deepcopy(pp.Parameter(X))

    class Holder(torch.nn.Module):
        def __init__(self, Z):
            super().__init__()
            self.pose = pp.Parameter(Z)
    m = Holder(X.clone())
    if origin == 'deepcopy(module)':
        return copy.deepcopy(m).pose
    assert origin == 'module-checkpoint', origin
    b = io.BytesIO()
    torch.save(m.state_dict(), b)
    b.seek(0)
    m2 = Holder(pp.LieTensor(torch.zeros_like(X.tensor()).contiguous(), ltype=X.ltype))
    m2.load_state_dict(torch.load(b, weights_only=False))
    return m2.pose


def _is_group(X, pp, g):
    """X is a LieTensor of group type g (the class of the type object: a restored element carries its own copy of it)"""
    return isinstance(X, pp.LieTensor) and type(X.ltype).__name__ == g + 'Type'


def _write(torch, view, v):
    """view[...] = v in place, also for stride-0 (expanded) views whose rows are all equal"""
    with torch.no_grad():
        if view.numel() and 0 in view.stride():
            idx = tuple(slice(0, 1) if st == 0 else slice(None) for st in view.stride())
            view[idx].copy_(v[idx])
        else:
            view.copy_(v)


def _ident_row(g):
    return join_elt(g, [0.0, 0.0, 0.0], [0.0, 0.0, 0.0, 1.0], 1.0)


def _rows(rng, g, op, which, n, layout):
    """n rows for operand `which` ('X' or 'P'); special elements (identity, pure translation, half turns - the
    Hurwitz units contain them) are mixed with generic ones; the stride-0 layout repeats one row"""
    def one():
        if which == 'X' or op == 'Mul':
            r = rng.random()
            if r < 0.15:
                return _ident_row(g)
            x = unit_elt(rng, g)
            if r < 0.25:
                t, q, sc = split_elt(g, x)
                x = join_elt(g, t, [0.0, 0.0, 0.0, 1.0], sc)
            return x
        if op == 'Act':
            return [dy(rng, 5, 2.0) for _ in range(3)]
        return [dy(rng, 5, 2.0) for _ in range(3)] + [rng.choice([0.0, 1.0, 1.0, dy(rng, 3, 2.0)])]
    if layout == 'expanded' and n > 0:
        r = one()
        return [list(r) for _ in range(n)]
    return [one() for _ in range(n)]


def _operand_shapes(rng, out):
    """two batch shapes whose broadcast is (usually) `out`: equal, one operand missing leading dimensions, or
    dimensions of size 1 on one side"""
    def reduce(sh):
        sh = list(sh)
        r = rng.random()
        if r < 0.35:
            return tuple(sh)
        if r < 0.6:
            return tuple(sh[rng.randint(0, len(sh)):])
        return tuple(1 if (v != 0 and rng.random() < 0.6) else v for v in sh)
    a, b = reduce(out), reduce(out)
    if rng.random() < 0.5:
        a = tuple(out)
    else:
        b = tuple(out)
    return a, b


def protocol_cases(rng, nrandom):
    cases = []

    def mk(g, op, xs, ps, layout, layout_p, dtype, form, origin_x='fresh', origin_p='fresh'):
        if _prod(xs) == 0 and layout == 'expanded':
            layout = 'contiguous'
        if ps is not None and _prod(ps) == 0 and layout_p == 'expanded':
            layout_p = 'contiguous'
        rounds = []
        for _ in range(2):
            rounds.append(dict(X=_rows(rng, g, op, 'X', _prod(xs), layout),
                               P=_rows(rng, g, op, 'P', _prod(ps), layout_p) if ps is not None else None))
        cases.append(dict(kind='protocol', g=g, op=op, form=form, xs=list(xs), ps=list(ps) if ps is not None else None,
                          layout=layout, layout_p=layout_p, dtype=dtype, rounds=rounds))
        if (origin_x, origin_p) != ('fresh', 'fresh'):
            cases[-1].update(origin_x=origin_x, origin_p=origin_p if op == 'Mul' else 'fresh')
    # directed: every (group, op) on batches of every total size 0..8, and one element against k of the other operand
    k = 0
    for g in GROUPS:
        for op in FORMS:
            for n in range(0, 9):
                k += 1
                form = FORMS[op][k % len(FORMS[op])]
                dtype = 'float64' if k % 3 else 'float32'
                if op in BINARY:
                    mk(g, op, (n,), (n,), 'contiguous', 'contiguous', dtype, form)
                    if n >= 2:
                        mk(g, op, (), (n,), 'contiguous', 'contiguous', dtype, FORMS[op][(k + 1) % len(FORMS[op])])
                        mk(g, op, (n,), (), 'contiguous', 'contiguous', dtype, FORMS[op][(k + 2) % len(FORMS[op])])
                        mk(g, op, (n, 1), (1, n), LAYOUTS[k % 5], LAYOUTS[(k + 2) % 5], dtype, form)
                else:
                    mk(g, op, (n,), None, 'contiguous', None, dtype, form)
                    mk(g, op, (n,), None, LAYOUTS[2 + k % 3], None, dtype, form)
    # random: shapes, broadcasting, layouts, forms, dtypes
    ops = list(FORMS)
    for i in range(nrandom):
        g = GROUPS[i % 4]
        op = ops[(i // 4) % len(ops)]
        out = rng.choice(SHAPES)
        if op in BINARY:
            xs, ps = _operand_shapes(rng, out)
        else:
            xs, ps = out, None
        # every 5th random case: one or both operands are restored copies (chosen without consuming `rng`)
        ox = oy = 'fresh'
        if i % 5 == 4:
            j = i // 5
            ox = ORIGINS[j % len(ORIGINS)] if (op != 'Mul' or j % 3 != 1) else 'fresh'
            oy = (ORIGINS + ['ltype-of-x'])[(j // 3) % (len(ORIGINS) + 1)] if (op == 'Mul' and j % 3 != 0) else 'fresh'
        mk(g, op, xs, ps, rng.choice(LAYOUTS), rng.choice(LAYOUTS), rng.choice(['float64', 'float64', 'float32']),
           rng.choice(FORMS[op]), ox, oy)
    # directed: restored elements (deepcopy / pickle / save+load / copy / Parameter / module checkpoint) as the first, the
    # second and both operands of every operation in every call form
    shapes = [(), (1,), (2,), (3,), (2, 2), (4,)]
    k = 0
    for g in GROUPS:
        for op in FORMS:
            for o in ORIGINS:
                sides = [(o, 'fresh')]
                if op == 'Mul':
                    sides += [('fresh', o), (o, ORIGINS[(ORIGINS.index(o) + 1 + k % 3) % len(ORIGINS)]), (o, o), (o, 'ltype-of-x')]
                for (ox, oy) in sides:
                    k += 1
                    sh = shapes[k % len(shapes)]
                    xs, ps = (sh, sh) if k % 4 else ((sh, ()) if k % 8 else ((), sh))
                    mk(g, op, xs, ps if op in BINARY else None, LAYOUTS[k % 5] if k % 3 == 0 else 'contiguous',
                       LAYOUTS[(k + 1) % 5] if k % 3 == 1 else 'contiguous', 'float64' if k % 3 else 'float32',
                       FORMS[op][k % len(FORMS[op])], ox, oy)
    return cases


def _build(torch, rows, shape, d, dtype, layout):
    """-> (view, owner): tensor of shape shape+(d,) holding `rows` in the requested memory layout; `owner` is the
    tensor that owns the storage (snapshotted for the non-mutation clause)"""
    shape = tuple(shape)
    v = torch.tensor(rows, dtype=dtype).reshape(shape + (d,))
    if layout == 'transposed' and len(shape) >= 2:
        owner = v.transpose(0, 1).contiguous()
        return owner.transpose(0, 1), owner
    if layout == 'strided':
        owner = torch.full(tuple(2 * n for n in shape[:1]) + shape[1:] + (2 * d,), 7.0, dtype=dtype)
        view = owner[::2, ..., ::2] if shape else owner[..., ::2]
        view.copy_(v)
        return view, owner
    if layout == 'expanded' and _prod(shape) > 0:
        owner = v.reshape(-1, d)[:1].reshape((1,) * len(shape) + (d,)).clone()
        return owner.expand(shape + (d,)), owner
    return v, v


def _overwrite(torch, view, owner, rows, shape, d, dtype, layout):
    """in-place update of an operand (same tensor objects, new values)"""
    v = torch.tensor(rows, dtype=dtype).reshape(tuple(shape) + (d,))
    if layout == 'expanded' and _prod(shape) > 0:
        owner.copy_(v.reshape(-1, d)[:1].reshape(owner.shape))
    else:
        view.copy_(v)


def _invoke(pp, op, form, X, P):
    if op == 'Mul':
        return {'X@Y': lambda: X @ P, 'X*Y': lambda: X * P, 'pp.Mul': lambda: pp.Mul(X, P), 'pp.mul': lambda: pp.mul(X, P)}[form]()
    if op == 'Inv':
        return X.Inv() if form == 'X.Inv()' else pp.Inv(X)
    if op in ('Act', 'Act4'):
        return {'X.Act(p)': lambda: X.Act(P), 'pp.Act': lambda: pp.Act(X, P), 'X@p': lambda: X @ P, 'X*p': lambda: X * P}[form]()
    return getattr(X, op)() if form.startswith('X.') else getattr(pp, op)(X)


def ref_act4(g, x, p):
    """[[sR, t],[0,1]] (p3, w)^T = (s R p3 + w t, w)"""
    t, q, s = split_elt(g, x)
    r = q_rot(q, p[:3])
    return [s * r[i] + p[3] * t[i] for i in range(3)] + [p[3]]


def _reference(g, op, x, p):
    if op == 'Mul':
        return ref_mul(g, x, p)
    if op == 'Inv':
        return ref_inv(g, x)
    if op == 'Act':
        return ref_act(g, x, p)
    if op == 'Act4':
        return ref_act4(g, x, p)
    if op == 'matrix':
        return ref_matrix(g, x)
    t, q, s = split_elt(g, x)
    return {'rotation': list(q), 'translation': list(t), 'scale': [s]}[op]


def protocol_check(pp, torch, c):
    """-> None or (key, description).  Round 1 is judged twice on the same operand objects (the first result is
    overwritten in place in between), then the operands are overwritten in place and judged again."""
    g, op, form = c['g'], c['op'], c['form']
    dtype = getattr(torch, c['dtype'])
    xs, ps = tuple(c['xs']), (tuple(c['ps']) if c['ps'] is not None else None)
    dX = GDIM[g]
    dP = None if ps is None else (dX if op == 'Mul' else 3 if op == 'Act' else 4)
    odims = {'Mul': (dX,), 'Inv': (dX,), 'Act': (3,), 'Act4': (4,), 'matrix': (3, 3) if g == 'SO3' else (4, 4),
             'rotation': (4,), 'translation': (3,), 'scale': (1,)}[op]
    otype = {'Mul': g, 'Inv': g, 'rotation': 'SO3'}.get(op)
    oshape = tuple(torch.broadcast_shapes(xs, ps)) if ps is not None else xs
    where = '%s %s via %s, %s, X batch shape %s (%s)%s' % (g, op, form, c['dtype'], xs, c['layout'],
                                                      '' if ps is None else ', second operand batch shape %s (%s)' % (ps, c['layout_p']))
    ltype = getattr(pp, g + '_type')
    ox, oy = c.get('origin_x', 'fresh'), c.get('origin_p', 'fresh')
    if (ox, oy) != ('fresh', 'fresh'):
        where += '; X %s, second operand %s' % tuple('never copied' if o == 'fresh' else 'built with the type object of the restored X'
                                                      if o == 'ltype-of-x' else 'restored via ' + o for o in (ox, oy))
    Xv = Xo = Pv = Po = None
    for ri, rd in enumerate(c['rounds']):
        if ri == 0:
            Xv, Xo = _build(torch, rd['X'], xs, dX, dtype, c['layout'])
            X = pp.LieTensor(Xv, ltype=ltype)
            if ps is not None:
                Pv, Po = _build(torch, rd['P'], ps, dP, dtype, c['layout_p'])
                P = pp.LieTensor(Pv, ltype=ltype) if op == 'Mul' else Pv
            else:
                P = None
            try:
                if ox != 'fresh':
                    X = _twin(pp, torch, X, ox)
                    Xv = Xo = X.tensor()      # the restored element owns its data
                if oy != 'fresh' and op == 'Mul':
                    P = pp.LieTensor(Pv, ltype=X.ltype) if oy == 'ltype-of-x' else _twin(pp, torch, P, oy)
                    if oy != 'ltype-of-x':
                        Pv = Po = P.tensor()
            except Exception as e:
                return ('raises', '%s: restoring the operand raises %s' % (where, repr(e)[:200]))
            if not _is_group(X, pp, g) or tuple(X.shape) != xs + (dX,) or (op == 'Mul' and not _is_group(P, pp, g)):
                return ('result-type', '%s: the restored operand is %s shape %s, not a %s element of shape %s'
                        % (where, type(X).__name__, tuple(X.shape), g, xs + (dX,)))
        else:
            if ox != 'fresh':
                _write(torch, Xv, torch.tensor(rd['X'], dtype=dtype).reshape(xs + (dX,)))
            else:
                _overwrite(torch, Xv, Xo, rd['X'], xs, dX, dtype, c['layout'])
            if ps is not None and oy not in ('fresh', 'ltype-of-x') and op == 'Mul':
                _write(torch, Pv, torch.tensor(rd['P'], dtype=dtype).reshape(ps + (dP,)))
            elif ps is not None:
                _overwrite(torch, Pv, Po, rd['P'], ps, dP, dtype, c['layout_p'])
        # expected values, item by item (textbook formulas over Fractions)
        n = _prod(oshape)
        xe = torch.tensor(rd['X'], dtype=torch.float64).reshape(xs + (dX,)).expand(oshape + (dX,)).reshape(-1, dX).tolist()
        pe = (torch.tensor(rd['P'], dtype=torch.float64).reshape(ps + (dP,)).expand(oshape + (dP,)).reshape(-1, dP).tolist()
              if ps is not None else [None] * n)
        snapX = Xo.clone()
        snapP = Po.clone() if Po is not None else None
        for attempt in range(2 if ri == 0 else 1):
            tag = ['first call', 'second call on the same operand objects (the first result was overwritten in place)',
                   'call after the operands were overwritten in place'][attempt if ri == 0 else 2]
            try:
                out = _invoke(pp, op, form, X, P)
            except Exception as e:
                return ('raises', '%s: %s raises %s' % (where, tag, repr(e)[:200]))
            is_lt = isinstance(out, pp.LieTensor)
            if (otype is not None) != is_lt or (is_lt and not _is_group(out, pp, otype)):
                return ('result-type', '%s: %s returns %s, expected %s' % (where, tag, type(out).__name__ + (':' + str(out.ltype) if is_lt else ''), otype or 'Tensor'))
            raw = out.tensor() if is_lt else out
            if tuple(raw.shape) != oshape + odims or raw.dtype != dtype:
                return ('result-shape', '%s: %s returns shape %s dtype %s, expected %s %s' % (where, tag, tuple(raw.shape), raw.dtype, oshape + odims, dtype))
            if not (torch.equal(Xo, snapX) and (Po is None or torch.equal(Po, snapP))):
                return ('mutation', '%s: %s changed an operand in place' % (where, tag))
            if n:
                m = _prod(odims)
                got = raw.detach().to(torch.float64).reshape(n, m).tolist()
                for i in range(n):
                    exp = _reference(g, op, [Fraction(v) for v in xe[i]], [Fraction(v) for v in pe[i]] if pe[i] is not None else None)
                    if [Fraction(v) for v in got[i]] != [Fraction(v) for v in exp]:
                        return ('protocol', '%s: %s, item %d of the result: X=%s%s gives %s, the group law (textbook formula) gives %s'
                                % (where, tag, i, xe[i], '' if pe[i] is None else ' second operand=%s' % pe[i], got[i], [float(v) for v in exp]))
            if ri == 0 and attempt == 0 and op in ('Mul', 'Inv', 'Act', 'Act4', 'matrix') and n:
                # the caller owns the result: updating it in place must not affect the operands or later results
                try:
                    with torch.no_grad():
                        raw.add_(1.0)
                except RuntimeError:
                    pass
                if not (torch.equal(Xo, snapX) and (Po is None or torch.equal(Po, snapP))):
                    return ('aliasing', '%s: updating the result in place changed an operand (result shares memory with its input)' % where)
    return None


# ======================================================================= F: identity constructors
ALG = {'SO3': 'so3', 'SE3': 'se3', 'RxSO3': 'rxso3', 'Sim3': 'sim3'}
IDFORMS = ['pp.identity_G', 'G_type.identity', 'pp.identity_like', 'X.identity_()', 'pp.identity_g']
HISTS = ['add_', 'copy_product', 'setitem', 'scale_data']


def identity_cases(rng, reps):
    cases = []
    k = 0
    for rep in range(reps):
        for g in GROUPS:
            for form in IDFORMS:
                if form == 'X.identity_()' and g != 'SO3':
                    continue   # only SO3 implements the in-place form
                for size in [(), (1,), (2,), (3,), (2, 3)]:
                    for dtype in [None, 'float64', 'float32']:
                        k += 1
                        if rep == 0 and (k % 2) and size not in ((), (2,)):
                            continue
                        n = _prod(size)
                        cases.append(dict(kind='identity', g=g, form=form, size=list(size), dtype=dtype,
                                          hist=[HISTS[(k + j) % 4] for j in range(1 + k % 3)],
                                          Y=[unit_elt(rng, g) for _ in range(n)], T=[unit_elt(rng, g) for _ in range(n)],
                                          p=[[dy(rng, 5, 2.0) for _ in range(3)] for _ in range(n)],
                                          w=[rng.choice([0.0, 1.0, dy(rng, 3, 2.0)]) for _ in range(n)],
                                          a=[[rng.uniform(-0.5, 0.5) for _ in range(ADIM[g])] for _ in range(n)]))
                        if k % 3 == 0:
                            # the other factor Y and the template of identity_like / identity_() are restored copies
                            cases[-1]['origin'] = PLAIN_ORIGINS[(k // 3) % len(PLAIN_ORIGINS)]
    return cases


def identity_check(pp, torch, c):
    """-> None or a description.  constructor; checks; in-place history on the returned element; constructor again; checks"""
    g, form, size = c['g'], c['form'], tuple(c['size'])
    dtype = getattr(torch, c['dtype']) if c['dtype'] else None
    eff = dtype or torch.get_default_dtype()
    kw = dict(dtype=dtype) if dtype is not None else {}
    d = GDIM[g]
    ltype = getattr(pp, g + '_type')
    Y = pp.LieTensor(torch.tensor(c['Y'], dtype=eff).reshape(size + (d,)), ltype=ltype)
    p3 = torch.tensor(c['p'], dtype=eff).reshape(size + (3,))
    p4 = torch.cat([p3, torch.tensor(c['w'], dtype=eff).reshape(size + (1,))], -1)
    a = torch.tensor(c['a'], dtype=eff).reshape(size + (ADIM[g],))
    # identity_like: lsize and ltype of the template, dtype as documented (the keyword, else the global default);
    # the template deliberately has the other dtype
    T = pp.LieTensor(torch.tensor(c['T'], dtype=torch.float64 if form == 'pp.identity_like' and eff != torch.float64 else
                                  torch.float32 if form == 'pp.identity_like' else eff).reshape(size + (d,)), ltype=ltype)

    origin = c.get('origin', 'fresh')
    if origin != 'fresh':
        try:
            Y, T = _twin(pp, torch, Y, origin), _twin(pp, torch, T, origin)
        except Exception as e:
            return '%s %s: restoring an element via %s raises %s' % (g, form, origin, repr(e)[:200])

    def construct():
        if form == 'pp.identity_G':
            return getattr(pp, 'identity_' + g)(*size, **kw)
        if form == 'G_type.identity':
            return ltype.identity(*size, **kw)
        if form == 'pp.identity_like':
            return pp.identity_like(T, **kw)
        if form == 'X.identity_()':
            return T.identity_()
        return getattr(pp, 'identity_' + ALG[g])(*size, **kw)

    I = torch.tensor(_ident_row(g), dtype=eff).expand(size + (d,))
    eye = torch.eye(3 if g == 'SO3' else 4, dtype=eff)
    where = '%s%s%s' % (form.replace('_G', '_' + g).replace('G_type', g + '_type').replace('_g', '_' + ALG[g]),
                        tuple(size), '' if dtype is None else ' dtype=%s' % c['dtype'])
    if origin != 'fresh':
        where += ' (Y and the template restored via %s)' % origin
    for when in ('first call', 'call after an in-place history (%s) on the previously returned element' % ', '.join(c['hist'])):
        try:
            E0 = construct()
            E = E0
            if form == 'pp.identity_g':
                if not isinstance(E0, pp.LieTensor) or E0.ltype != getattr(pp, ALG[g] + '_type') or tuple(E0.shape) != size + (ADIM[g],) \
                        or E0.dtype != eff or bool((E0.tensor() != 0).any()):
                    return '%s, %s: not the zero element of the algebra: %s' % (where, when, E0.tensor().tolist())
                E = E0.Exp()
            if not _is_group(E, pp, g) or tuple(E.shape) != size + (d,) or E.dtype != eff:
                return '%s, %s: returns %s shape %s dtype %s' % (where, when, type(E).__name__, tuple(E.shape), E.dtype)
            checks = [('raw data is not the identity element %s' % _ident_row(g), E.tensor(), I),
                      ('E @ Y != Y for Y=%s' % c['Y'], (E @ Y).tensor(), Y.tensor()),
                      ('Y @ E != Y for Y=%s' % c['Y'], (Y @ E).tensor(), Y.tensor()),
                      ('E.Act(p) != p for p=%s' % c['p'], E.Act(p3), p3),
                      ('E.Act(p) != p for homogeneous p=%s' % p4.tolist(), E.Act(p4), p4),
                      ('E.matrix() is not the unit matrix', E.matrix(), eye.expand(size + eye.shape)),
                      ('E.Inv() != E', E.Inv().tensor(), I)]
            for what, got, exp in checks:
                if tuple(got.shape) != tuple(exp.shape) or not torch.equal(got, exp):
                    return '%s, %s: %s (got %s)' % (where, when, what, got.tolist())
            # in-place history on the element that was returned (it belongs to the caller)
            for hname in c['hist']:
                if form == 'pp.identity_g':
                    E0.tensor().add_(a * (1.0 if hname == 'add_' else 2.0))
                elif hname == 'add_':
                    E0.add_(a)
                elif hname == 'copy_product':
                    E0.copy_(E0 @ Y)
                elif hname == 'setitem':
                    E0.tensor()[..., 0] = 5.0
                else:
                    E0.tensor().mul_(-3.0)
        except Exception as e:
            return '%s, %s: raises %s' % (where, when, repr(e)[:200])
    return None


# ======================================================================= G: histories on restored elements
# One element is updated by @ (both sides, both operators), Inv, the in-place forms and retractions while it is - again and
# again - replaced by a restored copy of itself (deepcopy, pickle, save+load, Parameter, module checkpoint); the other
# factors / increments are restored copies too.  exact=True: Hurwitz-unit / dyadic data and zero increments (Exp(0) is
# the identity, so a retraction by 0 leaves the element as it is): no rounding, every step must EQUAL the textbook
# composition over Fractions.  exact=False: generic increments; after every step the element must be a valid element,
# agree (up to round-off) with the same history on a never-copied element, and Inv must be a two-sided inverse.
EXACT_OPS = ['L', 'R', 'R*', 'Inv', 'L_', 'R_', 'add_', 'Retr', '+']
FLOAT_OPS = ['L', 'R', 'Inv', 'add_', 'add_', 'Retr', '+', 'R_', 'add_']


def twin_history_cases(rng, reps):
    cases = []
    k = 0
    for rep in range(reps):
        for g in GROUPS:
            for o in ORIGINS:
                for exact in (True, False):
                    k += 1
                    nrow = 1 if k % 2 else 2
                    x0 = [unit_elt(rng, g) for _ in range(nrow)]
                    cum = [x[-1] if g in ('RxSO3', 'Sim3') else 1.0 for x in x0]
                    steps = []
                    for j in range(10 if exact else 12):
                        opn = rng.choice(EXACT_OPS if exact else FLOAT_OPS)
                        ys = [unit_elt(rng, g) for _ in range(nrow)]
                        if g in ('RxSO3', 'Sim3'):
                            for r in range(nrow):     # keep the accumulated scale in [1/8, 8]: no rounding in float32 either
                                if opn == 'Inv':
                                    cum[r] = 1.0 / cum[r]
                                elif opn[0] in 'LR':
                                    if not (0.125 <= cum[r] * ys[r][-1] <= 8.0):
                                        ys[r][-1] = 1.0
                                    cum[r] *= ys[r][-1]
                        mag = 0.0 if exact else rng.choice([1.0, 1.0, 1.0, 1e-3, 1e-8, 0.0])
                        a = [[rng.uniform(-0.3, 0.3) * mag for _ in range(ADIM[g])] for _ in range(nrow)]
                        ox = o if j % 4 == 0 else ORIGINS[(k + j) % len(ORIGINS)] if j % 4 == 2 else 'fresh'
                        oy = [o, 'fresh', 'ltype-of-x', ORIGINS[(k + j) % len(ORIGINS)]][(j + k) % 4]
                        steps.append([opn, ys, a, ox, oy])
                    cases.append(dict(kind='restored-history', g=g, dtype='float32' if k % 3 == 0 else 'float64', exact=exact,
                                      scalar=bool(nrow == 1 and k % 4 == 1), x0=x0, steps=steps))
    return cases


def twin_history_check(pp, torch, c):
    """-> None or (key, description)"""
    g, exact = c['g'], c['exact']
    dtype = getattr(torch, c['dtype'])
    eps = torch.finfo(dtype).eps
    d = GDIM[g]
    gtype, atype = getattr(pp, g + '_type'), getattr(pp, ALG[g] + '_type')
    sh = () if c['scalar'] else (len(c['x0']),)
    mkt = lambda rows, w: torch.tensor(rows, dtype=dtype).reshape(sh + (w,))
    Fr = lambda l: [Fraction(v) for v in l]
    X = pp.LieTensor(mkt(c['x0'], d), ltype=gtype)        # the element that is restored again and again
    F = pp.LieTensor(mkt(c['x0'], d), ltype=gtype)        # float mode: the same history without any copy
    ref = [Fr(x) for x in c['x0']]                        # exact mode: textbook composition
    done = []

    def apply(Z, opn, Y, A, a_raw):
        with torch.no_grad():
            if opn == 'L':
                return Y @ Z
            if opn == 'R':
                return Z @ Y
            if opn == 'R*':
                return Z * Y
            if opn == 'Inv':
                return Z.Inv()
            if opn == 'L_':
                return Z.copy_(Y @ Z)
            if opn == 'R_':
                return Z.copy_(Z @ Y)
            if opn == 'add_':
                Z.add_(a_raw)
                return Z
            if opn == 'Retr':
                return Z.Retr(A)
            return Z + A

    for j, (opn, ys, a, ox, oy) in enumerate(c['steps']):
        done.append('%s%s%s' % (opn, '' if ox == 'fresh' else '[X restored via %s]' % ox,
                                '' if oy == 'fresh' or opn == 'Inv' else '[other operand: %s]' % oy))
        where = ('%s %s, batch shape %s, history on one element starting from %s: step %d of %s' %
                 (g, c['dtype'], sh, c['x0'], j + 1, ' -> '.join(done)))
        try:
            if ox != 'fresh':
                X = _twin(pp, torch, X.detach(), ox)
            Yf = pp.LieTensor(mkt(ys, d), ltype=gtype)
            Af = pp.LieTensor(mkt(a, ADIM[g]), ltype=atype)
            Y = pp.LieTensor(mkt(ys, d), ltype=X.ltype) if oy == 'ltype-of-x' else _twin(pp, torch, Yf, oy)
            A = Af if oy == 'ltype-of-x' else _twin(pp, torch, Af, oy)
            X = apply(X, opn, Y, A, mkt(a, ADIM[g]))
            if not exact:
                F = apply(F, opn, Yf, Af, mkt(a, ADIM[g]))
        except Exception as e:
            return ('restored-history-raises', '%s raises %s' % (where, repr(e)[:200]))
        if not _is_group(X, pp, g) or tuple(X.shape) != sh + (d,) or X.dtype != dtype:
            return ('restored-history-type', '%s gives %s shape %s dtype %s, expected a %s element of shape %s' %
                    (where, type(X).__name__ + (':' + type(X.ltype).__name__ if hasattr(X, 'ltype') else ''), tuple(X.shape), X.dtype, g, sh + (d,)))
        raw = X.tensor().detach().to(torch.float64).reshape(-1, d)
        if exact:
            for r in range(len(ref)):
                if opn in ('L', 'L_'):
                    ref[r] = ref_mul(g, Fr(ys[r]), ref[r])
                elif opn in ('R', 'R*', 'R_'):
                    ref[r] = ref_mul(g, ref[r], Fr(ys[r]))
                elif opn == 'Inv':
                    ref[r] = ref_inv(g, ref[r])
                if fr(raw[r]) != [Fraction(v) for v in ref[r]]:
                    return ('restored-history', '%s, item %d: the element is %s, the group law (textbook composition; a zero increment is the '
                            'identity) gives %s' % (where, r, raw[r].tolist(), [float(v) for v in ref[r]]))
            continue
        q = X.rotation().tensor().detach().to(torch.float64).reshape(-1, 4)
        dev = float((q.norm(dim=-1) - 1.0).abs().max())
        sc = float(X.scale().min()) if g in ('RxSO3', 'Sim3') else 1.0
        if not bool(torch.isfinite(raw).all()) or not dev <= 16 * (j + 8) * eps or not sc > 0:
            return ('restored-history-invalid', '%s: not a valid group element any more: | |q|-1 | = %g, scale = %g, data %s' % (where, dev, sc, raw.tolist()))
        fraw = F.tensor().detach().to(torch.float64).reshape(-1, d)
        if not float((raw - fraw).abs().max()) <= 64 * eps * (1.0 + float(fraw.abs().max())):
            return ('restored-history-differs', '%s: the restored element is %s, the same operations on the never-copied element give %s' %
                    (where, raw.tolist(), fraw.tolist()))
    if not exact:
        try:
            Xi = X.Inv()
            both = [('X @ Inv(X)', (X @ Xi)), ('Inv(X) @ X', (Xi @ X))]
        except Exception as e:
            return ('restored-history-raises', '%s; then Inv / @ on the result raises %s' % (where, repr(e)[:200]))
        I = torch.tensor(_ident_row(g), dtype=torch.float64)
        tol = 256 * eps * (1.0 + float(X.tensor().detach().abs().max())) * (1.0 + float(Xi.tensor().detach().abs().max()))
        for name, got in both:
            if not _is_group(got, pp, g):
                return ('restored-history-type', '%s; then %s is not a %s element' % (where, name, g))
            gr = got.tensor().detach().to(torch.float64).reshape(-1, d)
            if not float((gr - I).abs().max()) <= tol:
                return ('restored-history-inverse', '%s; then %s = %s is not the identity (tolerance %g) for X = %s' % (where, name, gr.tolist(), tol, X.tensor().tolist()))
    return None


def laws(pp, torch, g, rng, budget=1):
    """Evaluate the group laws of C03 on the implementation over exactly representable valid
    elements (all 24 Hurwitz units x a few translations / scales), with exact comparison.
    Yields failures as replay dicts."""
    units = [list(q) for q in HURWITZ]
    ts = [[0.0, 0.0, 0.0], [1.0, -2.0, 0.5], [0.25, 3.0, -1.5]]
    ss = [1.0, 2.0, 0.5]
    elts = []
    for q in units:
        for i in range(len(ts)):
            elts.append(join_elt(g, ts[i], q, ss[i]))
            if g == 'SO3':
                break
    pts = [[1.0, 0.0, 0.0], [0.5, -1.5, 2.0], [0.0, 0.0, 0.0]]
    pts4 = [[0.5, -1.5, 2.0, 1.0], [0.5, -1.5, 2.0, 0.0], [1.0, 2.0, 3.0, 2.0]]
    Fr = lambda l: [Fraction(v) for v in l]
    # unary laws
    for x in elts:
        for f in check_laws(pp, torch, g, x, None, None, pts, pts4):
            yield f
    # binary / ternary laws on a subset of pairs
    sub = elts if g == 'SO3' else elts[::3]
    pairs = [(x, y) for x in sub for y in sub]
    rng.shuffle(pairs)
    for (x, y) in pairs[:200 * budget]:
        z = rng.choice(elts)
        for f in check_laws(pp, torch, g, x, y, z, pts[:2], pts4[:2]):
            yield f


def check_laws(pp, torch, g, x, y, z, pts, pts4):
    Fr = lambda l: [Fraction(v) for v in l]
    X = LT(pp, torch, g, x)
    fail = lambda law, what, **kw: dict(kind='law', law=law, g=g, X=x, Y=y, Z=z, what='%s fails for %s X=%s Y=%s Z=%s %s' % (law, g, x, y, z, what), **kw)
    ident = getattr(pp, 'identity_' + g)().to(torch.float64)
    try:
        if y is None:
            I = fr(ident.tensor())
            if fr((X @ X.Inv()).tensor()) != I or fr((X.Inv() @ X).tensor()) != I:
                yield fail('inverse', '')
            if fr((ident @ X).tensor()) != Fr(x) or fr((X @ ident).tensor()) != Fr(x):
                yield fail('identity', '')
            M = fr(X.matrix())
            if M != [Fraction(v) for v in ref_matrix(g, Fr(x))]:
                yield fail('matrix-is-documented-representation', 'matrix()=%s' % [float(v) for v in M])
            t, q, s = split_elt(g, Fr(x))
            if g != 'SO3':
                n = 4
                blocks_ok = True
                R = fr(X.rotation().matrix())
                sc = fr(X.scale())[0] if g in ('RxSO3', 'Sim3') else Fraction(1)
                tr = fr(X.translation()) if g in ('SE3', 'Sim3') else [Fraction(0)] * 3
                for i in range(3):
                    for j in range(3):
                        if M[4 * i + j] != sc * R[3 * i + j]:
                            blocks_ok = False
                    if M[4 * i + 3] != tr[i]:
                        blocks_ok = False
                if not blocks_ok:
                    yield fail('matrix-blocks', '')
            for p in pts:
                got = fr(X.Act(torch.tensor(p, dtype=torch.float64)))
                if got != ref_act(g, Fr(x), Fr(p)):
                    yield fail('act3-is-matrix-times-point', 'p=%s' % p, p=p)
            for p in pts4:
                got = fr(X.Act(torch.tensor(p, dtype=torch.float64)))
                e = ref_act(g, Fr(x), Fr(p[:3]))
                tt = split_elt(g, Fr(x))[0]
                exp = [e[i] - tt[i] + Fraction(p[3]) * tt[i] for i in range(3)] + [Fraction(p[3])]
                if got != exp:
                    yield fail('act4-is-matrix-times-point', 'p=%s' % p, p=p)
        else:
            Y, Z = LT(pp, torch, g, y), LT(pp, torch, g, z)
            if fr(((X @ Y) @ Z).tensor()) != fr((X @ (Y @ Z)).tensor()):
                yield fail('associativity', '')
            if fr((X @ Y).tensor()) != ref_mul(g, Fr(x), Fr(y)):
                yield fail('product-is-composition', '')
            MX, MY, MXY = X.matrix(), Y.matrix(), (X @ Y).matrix()
            if fr(MXY) != fr(MX @ MY):
                yield fail('matrix-homomorphism', '')
            for p in pts:
                P = torch.tensor(p, dtype=torch.float64)
                if fr((X @ Y).Act(P)) != fr(X.Act(Y.Act(P))):
                    yield fail('act-of-product', 'p=%s' % p, p=p)
            for p in pts4:
                P = torch.tensor(p, dtype=torch.float64)
                if fr((X @ Y).Act(P)) != fr(X.Act(Y.Act(P))):
                    yield fail('act4-of-product', 'p=%s' % p, p=p)
    except Exception as e:
        yield fail('raises', repr(e)[:200])


def replay(ctx, c):
    pp = import_pypose()
    import torch
    if c.get('kind') == 'law':
        pts = [c['p']] if 'p' in c and len(c['p']) == 3 else [[0.5, -1.5, 2.0]]
        pts4 = [c['p']] if 'p' in c and len(c['p']) == 4 else [[0.5, -1.5, 2.0, 0.0]]
        for f in check_laws(pp, torch, c['g'], c['X'], c['Y'], c['Z'], pts, pts4):
            if f['law'] == c['law']:
                return f['what']
        return None
    if c.get('kind') == 'protocol':
        f = protocol_check(pp, torch, c)
        return f[1] if f else None
    if c.get('kind') == 'identity':
        return identity_check(pp, torch, c)
    if c.get('kind') == 'restored-history':
        f = twin_history_check(pp, torch, c)
        return f[1] if f else None
    if c.get('kind') == 'float-history':
        import random
        ctx2 = Ctx('C03', 'quick', c['seed'])
        run(ctx2)
        return ctx2.violations[0]['what'] if ctx2.violations else None
    return None
