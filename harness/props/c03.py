"""C03 correspondence: Mul / Inv / Act / Act4 / matrix / identity / rotation / translation / scale /
Adj / AdjT (forward) of all four groups vs Model/LieGroup.v, exact route (bit-for-bit on inputs
for which float64 arithmetic is exact), plus exact and floating histories."""
from ..common import *
from ..lie import *

RULE = ('exact route: inputs are Hurwitz unit quaternions / dyadic numbers so float64 performs no rounding and '
        'implementation == model over Q bit for bit; a case is (group, op, operands), non-trivial when no operand '
        'is the identity; histories: op lists applied to one element, compared after every step')

OPS = {'Mul': 0, 'Inv': 1, 'Act': 2, 'Act4': 3, 'matrix': 4, 'identity': 5, 'rotation': 6, 'translation': 7,
       'scale': 8, 'Adj': 9, 'AdjT': 10}


def call(pp, torch, g, op, args):
    X = LT(pp, torch, g, args[0]) if args else None
    if op == 'Mul':
        return (X @ LT(pp, torch, g, args[1])).tensor()
    if op == 'Inv':
        return X.Inv().tensor()
    if op in ('Act', 'Act4'):
        return X.Act(torch.tensor(args[1], dtype=torch.float64))
    if op == 'matrix':
        return X.matrix()
    if op == 'identity':
        return getattr(pp, 'identity_' + g)().tensor()
    if op == 'rotation':
        return X.rotation().tensor()
    if op == 'translation':
        return X.translation()
    if op == 'scale':
        return X.scale()
    a = pp.LieTensor(torch.tensor(args[1], dtype=torch.float64), ltype=getattr(pp, g.replace('SO', 'so').replace('SE', 'se').replace('Sim', 'sim').replace('Rx', 'rx') + '_type'))
    return (X.Adj(a) if op == 'Adj' else X.AdjT(a)).tensor()


def gen_args(rng, g, op, kind):
    elt = unit_elt if kind == 'unit' else dyadic_elt
    if op == 'identity':
        return []
    x = elt(rng, g)
    if op == 'Mul':
        return [x, elt(rng, g)]
    if op == 'Act':
        return [x, [dy(rng, 5, 2.0) for _ in range(3)]]
    if op == 'Act4':
        w = rng.choice([0.0, 1.0, 1.0, dy(rng, 3, 2.0)])
        return [x, [dy(rng, 5, 2.0) for _ in range(3)] + [w]]
    if op in ('Adj', 'AdjT'):
        return [x, [dy(rng, 5, 1.0) for _ in range(ADIM[g])]]
    return [x]


def run(ctx):
    pp = import_pypose()
    import torch
    import warnings
    warnings.filterwarnings('ignore')
    ctx.rule = RULE
    rng = ctx.rng
    # ---------------------------------------------------------------- A: op-level exact correspondence
    n = ctx.scale(1500, 24000)
    cases, meta = [], []
    combos = [(g, op, kind) for g in GROUPS for op in OPS for kind in ('unit', 'dyadic')]
    k = 0
    while len(meta) < n:
        g, op, kind = combos[k % len(combos)]
        k += 1
        if op == 'identity' and k > 2 * len(combos):
            continue
        if op == 'Inv' and kind == 'dyadic' and g in ('RxSO3', 'Sim3'):
            pass  # 1/s with s a power of two: exact
        args = gen_args(rng, g, op, kind)
        batched = rng.random() < 0.3 and op not in ('identity',)
        try:
            if batched:
                # same-shape batch of 3: the model is applied item by item
                argsb = [args] + [gen_args(rng, g, op, kind) for _ in range(2)]
                stacked = [[a[j] for a in argsb] for j in range(len(args))]
                out = call(pp, torch, g, op, stacked)
                outs = [fr(out[b]) for b in range(3)]
                items = list(zip(argsb, outs))
            else:
                out = call(pp, torch, g, op, args)
                items = [(args, fr(out))]
        except Exception as e:
            ctx.mismatch('op-raises', dict(g=g, op=op, args=args, err=repr(e)[:200]))
            continue
        for a, o in items:
            ctx.case((g, op, tuple(map(tuple, a))), nontrivial=(op != 'identity'), branch='%s-%s-%s' % (g, op, kind),
                     sample=dict(group=g, op=op, args=a, impl_out=[float(v) for v in o]) if len(meta) % 97 == 5 else None)
            meta.append(dict(g=g, op=op, args=a, kind=kind))
            cases.append(lie_case_lit(len(meta) - 1, g, OPS[op], a, o))
    files = []
    for si, sh in enumerate(shard(cases, 400)):
        files.append(('ops_%03d' % si, LIE_HEADER + 'Eval vm_compute in lie_bad %s.\n' % coq_list(sh)))
    # ---------------------------------------------------------------- B: exact histories
    nh = ctx.scale(24, 200)
    hl = ctx.scale(120, 1000)
    hmeta, hcases = [], []
    for h in range(nh):
        g = GROUPS[h % 4]
        x0 = unit_elt(rng, g)
        X = LT(pp, torch, g, x0)
        ops, outs = [], []
        cum = 1.0
        L = rng.randint(hl // 2, hl)
        for _ in range(L):
            o = rng.choice([0, 0, 1, 1, 2])
            y = unit_elt(rng, g)
            if g in ('RxSO3', 'Sim3'):
                # keep the accumulated scale within [1/16,16] so that float64 stays exact
                s = y[-1]
                if not (1 / 16 <= cum * s <= 16):
                    y[-1] = 1.0
            if o == 0:
                X = LT(pp, torch, g, y) @ X
            elif o == 1:
                X = X @ LT(pp, torch, g, y)
            else:
                X = X.Inv()
            if g in ('RxSO3', 'Sim3'):
                cum = float(X.tensor()[-1])
            ops.append((o, y))
            outs.append(fr(X.tensor()))
        ctx.case(('hist', g, h, L), branch='history-' + g)
        ctx.traces += 1
        hmeta.append(dict(g=g, x0=x0, ops=ops))
        lit = '(%d%%nat, %d%%nat, %s, %s, %s)' % (h, GID[g], qlist(x0), coq_list('(%d%%nat, %s)' % (o, qlist(y)) for o, y in ops),
                                                coq_list(qlist(o) for o in outs))
        hcases.append(lit)
    for si, sh in enumerate(shard(hcases, 4)):
        files.append(('hist_%03d' % si, LIE_HEADER + 'Eval vm_compute in hist_bad %s.\n' % coq_list(sh)))
    if hmeta:
        ctx.samples.append(dict(kind='history', group=hmeta[0]['g'], x0=hmeta[0]['x0'], first_ops=hmeta[0]['ops'][:3], length=len(hmeta[0]['ops'])))
    res = run_case_files('C03', files, timeout=900)
    for name, (rc, out) in sorted(res.items()):
        ev = parse_evals(out)
        if rc != 0 or len(ev) != 1:
            ctx.obligation_broken('correspondence-file:' + name, out[-1500:])
            continue
        bad = parse_nat_list(ev[0])
        if name.startswith('ops_'):
            for i in bad:
                m = meta[i]
                ctx.mismatch('op:%s' % m['op'], m)
        else:
            for i in bad:
                ctx.mismatch('history', dict(hmeta[i], ops=hmeta[i]['ops'][:50]))
    # ---------------------------------------------------------------- C: floating histories (drift clause)
    nf = ctx.scale(8, 24)
    fl = ctx.scale(1500, 10000)
    for h in range(nf):
        g = GROUPS[h % 4]
        dtype = torch.float64 if h % 8 < 6 else torch.float32
        eps = torch.finfo(dtype).eps
        X = LT(pp, torch, g, generic_elt(rng, g, torch, dtype), dtype)
        pool = LT(pp, torch, g, [generic_elt(rng, g, torch, dtype) for _ in range(64)], dtype)
        alg = pp.LieTensor(torch.randn(64, ADIM[g], dtype=dtype, generator=torch.Generator().manual_seed(ctx.seed + h)) * 0.3,
                           ltype=getattr(pp, ALGS[GROUPS.index(g)] + '_type'))
        worst = 0.0
        for stepi in range(fl):
            o = rng.randrange(4)
            j = rng.randrange(64)
            if g in ('RxSO3', 'Sim3') and o < 2:
                # keep the random walk of the scale inside the dtype's range (float32 overflows after ~10^3 unsteered
                # products): when the scale has drifted, compose with a pool element that brings it back
                sc_now = float(X.scale().reshape(-1)[0])
                if sc_now > 30.0 or sc_now < 1.0 / 30.0:
                    want_small = sc_now > 1.0
                    for _ in range(64):
                        sj = float(pool[j].scale().reshape(-1)[0])
                        if (sj < 1.0) == want_small:
                            break
                        j = rng.randrange(64)
            if o == 0:
                X = pool[j] @ X
            elif o == 1:
                X = X @ pool[j]
            elif o == 2:
                X = X.Inv()
            else:
                # increments of every size: O(1) as well as the tiny ones of an optimiser close to convergence
                a = pp.LieTensor(alg[j].tensor() * rng.choice([1.0, 1.0, 1e-2, 3e-4, 3e-5, 1e-5, 1e-7, 1e-10, 0.0]), ltype=alg.ltype)
                X = X.Retr(a) if stepi % 2 else X + a
            q = X.rotation().tensor()
            dev = abs(float(q.norm()) - 1.0)
            worst = max(worst, dev)
            sc = float(X.scale().reshape(-1)[0]) if g in ('RxSO3', 'Sim3') else 1.0
            if not (dev <= 16 * (stepi + 8) * eps) or not (sc > 0) or not torch.isfinite(X.tensor()).all():
                ctx.violation('history-invalid', 'after %d mixed @/Inv/Retr/+ operations the element is no longer a valid group element: | |q|-1 | = %g, scale = %g' % (stepi + 1, dev, sc),
                              dict(kind='float-history', g=g, dtype=str(dtype), seed=ctx.seed, h=h, steps=stepi + 1))
                break
        ctx.case(('fhist', g, h), branch='float-history-' + g)
        ctx.notes.append('float history %s %s: %d ops, worst | |q|-1 | = %.3g (bound 16 n eps)' % (g, str(dtype).split('.')[-1], fl, worst))
    # ---------------------------------------------------------------- D: search
    if ctx.mismatches:
        fams = sorted({m['case'].get('g') for m in ctx.mismatches if isinstance(m['case'], dict) and m['case'].get('g')})
        for g in fams or GROUPS:
            for f in laws(pp, torch, g, ctx.rng, budget=ctx.scale(1, 4)):
                for m in ctx.mismatches:
                    if m['case'].get('g') == g:
                        m['explained'] = True
                ctx.violation('law:%s:%s' % (g, f['law']), f['what'], f)
                break
    ctx.exhaustive = False


def laws(pp, torch, g, rng, budget=1):
    """Evaluate the group laws of C03 on the implementation over exactly representable valid
    elements (all 24 Hurwitz units x a few translations / scales), with exact comparison.
    Yields failures as replay dicts."""
    units = [list(q) for q in HURWITZ]
    ts = [[0.0, 0.0, 0.0], [1.0, -2.0, 0.5], [0.25, 3.0, -1.5]]
    ss = [1.0, 2.0, 0.5]
    elts = []
    for q in units:
        for i in range(len(ts)):
            elts.append(join_elt(g, ts[i], q, ss[i]))
            if g == 'SO3':
                break
    pts = [[1.0, 0.0, 0.0], [0.5, -1.5, 2.0], [0.0, 0.0, 0.0]]
    pts4 = [[0.5, -1.5, 2.0, 1.0], [0.5, -1.5, 2.0, 0.0], [1.0, 2.0, 3.0, 2.0]]
    Fr = lambda l: [Fraction(v) for v in l]
    # unary laws
    for x in elts:
        for f in check_laws(pp, torch, g, x, None, None, pts, pts4):
            yield f
    # binary / ternary laws on a subset of pairs
    sub = elts if g == 'SO3' else elts[::3]
    pairs = [(x, y) for x in sub for y in sub]
    rng.shuffle(pairs)
    for (x, y) in pairs[:200 * budget]:
        z = rng.choice(elts)
        for f in check_laws(pp, torch, g, x, y, z, pts[:2], pts4[:2]):
            yield f


def check_laws(pp, torch, g, x, y, z, pts, pts4):
    Fr = lambda l: [Fraction(v) for v in l]
    X = LT(pp, torch, g, x)
    fail = lambda law, what, **kw: dict(kind='law', law=law, g=g, X=x, Y=y, Z=z, what='%s fails for %s X=%s Y=%s Z=%s %s' % (law, g, x, y, z, what), **kw)
    ident = getattr(pp, 'identity_' + g)().to(torch.float64)
    try:
        if y is None:
            I = fr(ident.tensor())
            if fr((X @ X.Inv()).tensor()) != I or fr((X.Inv() @ X).tensor()) != I:
                yield fail('inverse', '')
            if fr((ident @ X).tensor()) != Fr(x) or fr((X @ ident).tensor()) != Fr(x):
                yield fail('identity', '')
            M = fr(X.matrix())
            if M != [Fraction(v) for v in ref_matrix(g, Fr(x))]:
                yield fail('matrix-is-documented-representation', 'matrix()=%s' % [float(v) for v in M])
            t, q, s = split_elt(g, Fr(x))
            if g != 'SO3':
                n = 4
                blocks_ok = True
                R = fr(X.rotation().matrix())
                sc = fr(X.scale())[0] if g in ('RxSO3', 'Sim3') else Fraction(1)
                tr = fr(X.translation()) if g in ('SE3', 'Sim3') else [Fraction(0)] * 3
                for i in range(3):
                    for j in range(3):
                        if M[4 * i + j] != sc * R[3 * i + j]:
                            blocks_ok = False
                    if M[4 * i + 3] != tr[i]:
                        blocks_ok = False
                if not blocks_ok:
                    yield fail('matrix-blocks', '')
            for p in pts:
                got = fr(X.Act(torch.tensor(p, dtype=torch.float64)))
                if got != ref_act(g, Fr(x), Fr(p)):
                    yield fail('act3-is-matrix-times-point', 'p=%s' % p, p=p)
            for p in pts4:
                got = fr(X.Act(torch.tensor(p, dtype=torch.float64)))
                e = ref_act(g, Fr(x), Fr(p[:3]))
                tt = split_elt(g, Fr(x))[0]
                exp = [e[i] - tt[i] + Fraction(p[3]) * tt[i] for i in range(3)] + [Fraction(p[3])]
                if got != exp:
                    yield fail('act4-is-matrix-times-point', 'p=%s' % p, p=p)
        else:
            Y, Z = LT(pp, torch, g, y), LT(pp, torch, g, z)
            if fr(((X @ Y) @ Z).tensor()) != fr((X @ (Y @ Z)).tensor()):
                yield fail('associativity', '')
            if fr((X @ Y).tensor()) != ref_mul(g, Fr(x), Fr(y)):
                yield fail('product-is-composition', '')
            MX, MY, MXY = X.matrix(), Y.matrix(), (X @ Y).matrix()
            if fr(MXY) != fr(MX @ MY):
                yield fail('matrix-homomorphism', '')
            for p in pts:
                P = torch.tensor(p, dtype=torch.float64)
                if fr((X @ Y).Act(P)) != fr(X.Act(Y.Act(P))):
                    yield fail('act-of-product', 'p=%s' % p, p=p)
            for p in pts4:
                P = torch.tensor(p, dtype=torch.float64)
                if fr((X @ Y).Act(P)) != fr(X.Act(Y.Act(P))):
                    yield fail('act4-of-product', 'p=%s' % p, p=p)
    except Exception as e:
        yield fail('raises', repr(e)[:200])


def replay(ctx, c):
    pp = import_pypose()
    import torch
    if c.get('kind') == 'law':
        pts = [c['p']] if 'p' in c and len(c['p']) == 3 else [[0.5, -1.5, 2.0]]
        pts4 = [c['p']] if 'p' in c and len(c['p']) == 4 else [[0.5, -1.5, 2.0, 0.0]]
        for f in check_laws(pp, torch, c['g'], c['X'], c['Y'], c['Z'], pts, pts4):
            if f['law'] == c['law']:
                return f['what']
        return None
    if c.get('kind') == 'float-history':
        import random
        ctx2 = Ctx('C03', 'quick', c['seed'])
        run(ctx2)
        return ctx2.violations[0]['what'] if ctx2.violations else None
    return None
