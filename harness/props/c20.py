"""C20 correspondence: StopOnPlateau / ReduceToBason and the driver loops vs Model/Controller.v.

Exact route.  Transition level: the real object is put into every abstract state of a grid
(steps x patience_count x continual x last) and stepped with every input class (incl. batches whose
members differ in sign / history); traces with resets; recorded loss streams of the real driver loops -
in several call forms on one controller object - are replayed through the model loop."""
import os
import itertools
from ..common import *

RULE = ('transition = (config, controller state, input class) -> next state, compared field by field with the model; '
        'exhaustive over the state grid steps 0..7 x patience_count 0..5 x continual x last in {inf, 4} x input classes '
        '{decrease>=thr, boundary, decrease<thr, equal, increase, below-tol, zero, batched mixes, rejected} x configs (steps 1..6, patience 1..4); '
        'sign / layout classes of batched losses on the boundary states (members of different sign and history, exact plateaus of negative members next to '
        'positive ones above tol, zeros, 2-d batches, float32/float64/python float), each also judged directly with the documented conditions; '
        'non-trivial = every transition (distinct by tuple); traces = random long sequences with resets (batches with negative members, whole-batch plateaus) '
        'and real driver loops in several call forms on one controller (second call on a stopped controller, user loop then driver, forced grid state; '
        'ICP / MPC called twice with a used stepper), each judged directly: no step while continual() is False, loop ends at the first documented cause; '
        'several objects alive at once built with DEFAULT arguments (ReduceToBason(steps), StopOnPlateau(optimizer, steps), MPC / ICP without a stepper, '
        'next to ones with a given stepper), constructions / steps / resets / driver calls interleaved, inner solver real or scripted exact losses reaching '
        'budget / plateau / tol / re-armed patience: every object judged on its own history under the documented default configuration '
        '(patience 5, decreasing 1e-3, tol 1e-5, MPC 10 steps, ICP 200 steps), one inner solve per controller step plus the final one')


def b(x):
    return 'true' if x else 'false'


def olist(l):
    return 'None' if l is None else 'Some ' + qlist(l)


def run(ctx):
    pp = import_pypose()
    import torch
    from pypose.utils.stepper import ReduceToBason
    from pypose.optim.scheduler import StopOnPlateau
    ctx.rule = RULE
    rng = ctx.rng
    files = []
    INF = float('inf')
    # ------------------------------------------------------------------ ReduceToBason transitions
    cfgs = [(s, p, d, 0.125) for s in range(1, 7) for p in range(1, 5) for d in (1.0, 0.25)]
    if not ctx.thorough:
        cfgs = [c for c in cfgs if (c[0] + c[1]) % 2 == 0 or c[0] in (1, 6)]
    losses = [[1.0], [2.0], [3.0], [3.5], [4.0], [6.0], [0.0625], [0.0], [2.0, 6.0], [1.0, 2.0], [0.0625, 0.03125], [0.0625, 3.0], [4.0, 4.0, 4.0]]
    rt_meta, rt_cases, sg_viol = [], [], []
    for cfg in cfgs:
        for steps in range(0, 8):
            for pc in range(0, 6):
                for cont in (True, False):
                    for last in (None, 4.0):
                        for loss in losses:
                            if not ctx.thorough and (steps + pc + len(rt_meta)) % 3 and steps not in (cfg[0] - 1, cfg[0]) and pc not in (cfg[1] - 1, cfg[1]):
                                continue
                            st = ReduceToBason(steps=cfg[0], patience=cfg[1], decreasing=cfg[2], tol=cfg[3])
                            st.steps, st.patience_count, st._continual = steps, pc, cont
                            lastv = None if last is None else [last] * len(loss)
                            st.last = torch.tensor(INF) if last is None else torch.tensor(lastv, dtype=torch.float64)
                            lt = torch.tensor(loss, dtype=torch.float64) if len(loss) > 1 else (loss[0] if rng.random() < 0.5 else torch.tensor(loss[0], dtype=torch.float64))
                            st.step(lt)
                            after = (st.steps, st.patience_count, [float(v) for v in torch.as_tensor(st.last).reshape(-1).tolist()], bool(st.continual()))
                            m = dict(kind='rtb-trans', cfg=cfg, state=(steps, pc, lastv, cont), loss=loss, after=after)
                            ctx.case(('rtb', cfg, steps, pc, cont, last, tuple(loss)), branch='rtb-transition')
                            rt_meta.append(m)
                            rt_cases.append('(%d%%nat, (%d, %d, %s, %s)%%Z, (%d%%Z, %d%%Z, %s, %s), %s, (%d%%Z, %d%%Z, %s, %s))' % (
                                len(rt_meta) - 1, cfg[0], cfg[1], qlit(cfg[2]), qlit(cfg[3]), steps, pc, olist(lastv), b(cont), qlist(loss),
                                after[0], after[1], olist(after[2]), b(after[3])))
    hdr = 'From PV Require Import Base.Num Model.Controller.\nFrom Coq Require Import List ZArith QArith Bool. Import ListNotations.\n'
    for si, sh in enumerate(shard(rt_cases, 500)):
        files.append(('rtbT_%03d' % si, hdr + 'Eval vm_compute in rtb_trans_bad %s.\n' % coq_list(sh)))
    ctx.samples.append(rt_meta[len(rt_meta) // 2])
    # reset from every grid state
    rs_meta, rs_cases = [], []
    for steps in range(0, 8):
        for pc in range(0, 6):
            for cont in (True, False):
                st = ReduceToBason(steps=3, patience=2)
                st.steps, st.patience_count, st._continual, st.last = steps, pc, cont, torch.tensor(4.0)
                st.reset()
                lastv = None if float(st.last) == INF else [float(st.last)]
                rs_meta.append(dict(kind='rtb-reset', state=(steps, pc, [4.0], cont)))
                ctx.case(('rtb-reset', steps, pc, cont), branch='rtb-reset')
                rs_cases.append('(%d%%nat, (%d%%Z, %d%%Z, Some %s, %s), (%d%%Z, %d%%Z, %s, %s))' % (
                    len(rs_meta) - 1, steps, pc, qlist([4.0]), b(cont), st.steps, st.patience_count, olist(lastv), b(st.continual())))
    files.append(('rtbR', hdr + 'Eval vm_compute in rtb_reset_bad %s.\n' % coq_list(rs_cases)))
    # ------------------------------------------------------------------ ReduceToBason: sign / layout classes of batched losses
    # (last, loss) pairs whose members have different signs, different previous values, exact plateaus of negative members next
    # to positive members above tol, zeros, 2-d batches, float32 / float64, python floats; on the boundary states of the grid
    sg_meta, sg_cases = [], []
    for cfg in cfgs:
        sgrid = sorted({0, cfg[0] - 1, cfg[0]} if ctx.thorough else {0, cfg[0] - 1})
        pgrid = sorted({0, cfg[1] - 1, cfg[1]} if ctx.thorough else {0, cfg[1] - 1})
        for steps in sgrid:
            for pc in pgrid:
                for cont in (True, False):
                    for (lastv, loss, shape) in SIGN_PAIRS:
                        dtn = rng.choice(['f32', 'f64'])
                        m = dict(kind='rtb-trans', cfg=cfg, state=(steps, pc, lastv, cont), loss=loss, dtype=dtn, shape=shape,
                                 pyfloat=(len(loss) == 1 and rng.random() < 0.3))
                        after = rtb_apply(torch, ReduceToBason, m)
                        m['after'] = after
                        ctx.case(('rtb-sign', cfg, steps, pc, cont, tuple(lastv or ()), tuple(loss), shape, dtn), branch='rtb-transition-sign')
                        sg_meta.append(m)
                        sg_cases.append('(%d%%nat, (%d, %d, %s, %s)%%Z, (%d%%Z, %d%%Z, %s, %s), %s, (%d%%Z, %d%%Z, %s, %s))' % (
                            len(sg_meta) - 1, cfg[0], cfg[1], qlit(cfg[2]), qlit(cfg[3]), steps, pc, olist(lastv), b(cont), qlist(loss),
                            after[0], after[1], olist(after[2]), b(after[3])))
                        # the documented conditions, directly (exact rationals), on every one of these
                        exp = doc_rtb(cfg, (steps, pc, lastv, cont), loss)
                        if after != exp and len(sg_viol) < 3:
                            sg_viol.append(m)
    for si, sh in enumerate(shard(sg_cases, 500)):
        files.append(('rtbS_%03d' % si, hdr + 'Eval vm_compute in rtb_trans_bad %s.\n' % coq_list(sh)))
    ctx.samples.append(sg_meta[len(sg_meta) // 2])
    for m in sg_viol:
        ctx.violation('controller:rtb-trans', replay(ctx, m) or 'ReduceToBason transition differs from the documented conditions', m)
    # ------------------------------------------------------------------ StopOnPlateau transitions
    class M(torch.nn.Module):
        def __init__(self):
            super().__init__()
            self.p = torch.nn.Parameter(torch.ones(1))

        def forward(self, x):
            return self.p * x
    opt = pp.optim.LM(M())
    so_meta, so_cases = [], []
    scfgs = [(s, p, d) for s in range(1, 7) for p in range(1, 5) for d in (1.0, 0.25)]
    ins = [(4.0, 1.0, 0), (4.0, 3.0, 0), (4.0, 3.75, 0), (4.0, 3.5, 0), (4.0, 4.0, 0), (4.0, 6.0, 0), (4.0, 1.0, 1), (4.0, 4.0, 3), (0.0, 0.0, 0),
           # large-magnitude losses, where `decreasing` is far below one unit in the last place of the loss: an exact plateau,
           # a decrease of exactly one ulp (< decreasing? no: ulp >= 4 > decreasing) and an increase; float32 and float64 tensors
           (2.0 ** 25, 2.0 ** 25, 0, 'f32'), (2.0 ** 25, 2.0 ** 25 - 4.0, 0, 'f32'), (2.0 ** 25, 2.0 ** 25 + 4.0, 0, 'f32'), (32768.0, 32768.0, 0, 'f32'),
           (2.0 ** 55, 2.0 ** 55, 0, 'f64'), (2.0 ** 55, 2.0 ** 55 - 8.0, 0, 'f64'), (2.0 ** 60, 2.0 ** 60, 2, 'f64')]
    ins = [t if len(t) == 4 else t + ('f64',) for t in ins]
    for cfg in scfgs:
        for steps in range(0, 8):
            for pc in range(0, 6):
                for cont in (True, False):
                    for (la, lo, rj, dtn) in ins:
                        dtp = torch.float32 if dtn == 'f32' else torch.float64
                        if not ctx.thorough and (steps + pc + len(so_meta)) % 3 and steps not in (cfg[0] - 1, cfg[0]) and pc not in (cfg[1] - 1, cfg[1]):
                            continue
                        sch = StopOnPlateau(opt, steps=cfg[0], patience=cfg[1], decreasing=cfg[2])
                        sch.steps, sch.patience_count, sch._continual = steps, pc, cont
                        opt.last, opt.loss, opt.reject_count = torch.tensor(la, dtype=dtp), torch.tensor(lo, dtype=dtp), rj
                        sch.step(opt.loss)
                        after = (sch.steps, sch.patience_count, bool(sch.continual()))
                        so_meta.append(dict(kind='sop-trans', cfg=cfg, state=(steps, pc, cont), inp=(la, lo, rj), dtype=dtn, after=after))
                        ctx.case(('sop', cfg, steps, pc, cont, la, lo, rj, dtn), branch='sop-transition')
                        so_cases.append('(%d%%nat, (%d%%Z, %d%%Z, %s), (%d%%Z, %d%%Z, %s), (%s, %s, %d%%nat), (%d%%Z, %d%%Z, %s))' % (
                            len(so_meta) - 1, cfg[0], cfg[1], qlit(cfg[2]), steps, pc, b(cont), qlit(la), qlit(lo), rj, after[0], after[1], b(after[2])))
    for si, sh in enumerate(shard(so_cases, 500)):
        files.append(('sopT_%03d' % si, hdr + 'Eval vm_compute in sop_trans_bad %s.\n' % coq_list(sh)))
    ctx.samples.append(so_meta[len(so_meta) // 3])
    # ------------------------------------------------------------------ traces with resets (random, long)
    ntr = ctx.scale(60, 600)
    tr_meta, tr_cases = [], []
    for t in range(ntr):
        cfg = (rng.randint(1, 40), rng.randint(1, 6), rng.choice([1.0, 0.25, 0.001, 0.5]), rng.choice([0.125, 1e-5, 2.0]))
        st = ReduceToBason(steps=cfg[0], patience=cfg[1], decreasing=cfg[2], tol=cfg[3])
        nb = rng.choice([1, 1, 1, 2, 3])
        # sign of every batch member (fixed along the trace): negative members (costs with linear terms) next to positive ones
        sgn = [1.0] * nb
        if (nb > 1 and t % 2 == 1) or (nb == 1 and rng.random() < 0.15):
            sgn[rng.randrange(nb)] = -1.0
            if nb > 2 and rng.random() < 0.3:
                sgn[rng.randrange(nb)] = -1.0
        cur = [g * rng.choice([8.0, 16.0, 100.0, 2.0, 0.375]) for g in sgn]
        ops, trace = [], []
        for k in range(rng.randint(5, 60)):
            if rng.random() < 0.07:
                st.reset()
                ops.append(None)
            else:
                mode = rng.random()
                if mode < 0.15:
                    pass                                   # exact plateau of the whole batch
                else:
                    cur = [(c * rng.choice([0.5, 0.75, 1.0, 1.0, 1.25, 0.999, 0.03125]) if mode < 0.85 else g * dy_pos(rng)) + 0.0 for c, g in zip(cur, sgn)]
                    cur = [0.0 if c == 0 else c for c in cur]   # no negative zero (x/-0.0 is not modelled)
                loss = list(cur)
                # a python float is turned into a float32 tensor by step(): only pass one when that is exact
                f32_exact = float(torch.tensor(loss[0])) == loss[0]
                st.step(torch.tensor(loss, dtype=torch.float64) if nb > 1 or rng.random() < 0.5 or not f32_exact else loss[0])
                ops.append(loss)
            trace.append((st.steps, st.patience_count, bool(st.continual())))
        ctx.case(('rtb-trace', t, cfg, len(ops)), branch='rtb-trace')
        ctx.traces += 1
        tr_meta.append(dict(kind='rtb-trace', cfg=cfg, ops=ops, trace=trace))
        # the Q value of cfg floats is exact (Fraction(float))
        tr_cases.append('(%d%%nat, (%d%%Z, %d%%Z, %s, %s), %s, %s)' % (
            t, cfg[0], cfg[1], qlit(cfg[2]), qlit(cfg[3]),
            coq_list(('inr tt' if o is None else 'inl ' + qlist(o)) for o in ops),
            coq_list('(%d%%Z, %d%%Z, %s)' % (a, p, b(c)) for a, p, c in trace)))
    reported = set()
    # several ReduceToBason objects alive at once, built with the DEFAULT patience / decreasing / tol, stepped and reset in an
    # interleaved order: every object must follow its own history under the documented defaults (5, 1e-3, 1e-5)
    for t in range(ctx.scale(6, 40)):
        nobj = rng.randint(2, 4)
        c = dict(kind='defaults', driver='rtb', steps=[rng.randint(2, 24) for _ in range(nobj)])
        ops = []
        cur = [rng.choice([1024.0, 64.0, 3.0]) for _ in range(nobj)]
        for k in range(rng.randint(12, 70)):
            i = rng.randrange(nobj)
            if rng.random() < 0.06:
                ops.append((i, None))
            else:
                cur[i] = cur[i] * rng.choice([0.5, 0.75, 1.0, 1.0, 1.0, 1.25, 0.03125])
                ops.append((i, cur[i]))
        c['ops'] = enc_ops(ops)
        per = run_default_rtb(torch, c)
        why = judge_default_rtb(c, per)
        if why and 'defaults-rtb' not in reported:
            reported.add('defaults-rtb')
            ctx.violation('controller:defaults-rtb', why, c)
        for i, (ops, trace) in enumerate(per):
            ctx.case(('defaults-rtb', t, i, c['steps'][i], len(ops)), branch='defaults-rtb')
            ctx.traces += 1
            tr_meta.append(dict(c, obj=i))
            tr_cases.append('(%d%%nat, (%d%%Z, %d%%Z, %s, %s), %s, %s)' % (
                len(tr_meta) - 1, c['steps'][i], DOC_PATIENCE, qlit(DOC_DECREASING), qlit(DOC_TOL),
                coq_list(('inr tt' if o is None else 'inl ' + qlist(o)) for o in ops),
                coq_list('(%d%%Z, %d%%Z, %s)' % (a, p, b(cc)) for a, p, cc in trace)))
    for si, sh in enumerate(shard(tr_cases, 100)):
        files.append(('rtbTr_%03d' % si, hdr + 'Eval vm_compute in rtb_trace_bad %s.\n' % coq_list(sh)))
    ctx.samples.append(dict(tr_meta[0], ops=tr_meta[0]['ops'][:6], trace=tr_meta[0]['trace'][:6]))
    # ------------------------------------------------------------------ real driver loops
    # Every driver is exercised in several call forms on ONE controller object: a single call, a second call on the controller
    # the first call left stopped, a user loop (partly or until the stop) followed by the driver, a controller forced into a
    # grid state (incl. stopped) before the call.  The loss stream seen by the controller over the whole scenario is replayed
    # through the model loop from the same initial state, and judged directly with the documented conditions (judge_*).
    dr_cases_rtb, dr_cases_sop, dr_meta_rtb, dr_meta_sop = [], [], [], []
    nopt = ctx.scale(42, 160)
    for t in range(nopt):
        cfg = (rng.randint(1, 8), rng.randint(1, 4), rng.choice([1e-3, 0.25, 1e-9]))
        init = (0, 0, True)
        phases = OPT_SCENARIOS[t % len(OPT_SCENARIOS)]
        if t % 7 == 6:
            # forced grid state; a stopped one every other time
            init = (rng.randint(0, 7), rng.randint(0, 5), (t // 7) % 2 == 1)
        c = dict(kind='optimize', cfg=cfg, init=init, phases=phases, optim=('GN' if t % 3 == 2 else 'LM'),
                 x0=[rng.uniform(0.5, 3.0), rng.choice([-1, 1]) * rng.uniform(0.25, 2.0)], damping=rng.choice([1e-6, 1e-2, 10.0]), reject=rng.choice([0, 1, 16]))
        try:
            r = run_optimize_case(pp, torch, c)
        except Exception as e:
            ctx.notes.append('optimize scenario %r raised %r' % (c, e))
            continue
        c.update(stream=r['stream'], n=r['n'], final=r['final'])
        why = judge_optimize(c, r)
        if why and 'optimize' not in reported:
            reported.add('optimize')
            ctx.violation('controller:optimize', why, c)
        ctx.case(('optimize', t, cfg, init, tuple(map(tuple, phases)), r['n']), branch='driver-optimize:' + '+'.join(ph[0] for ph in phases))
        ctx.traces += 1
        dr_meta_sop.append(c)
        dr_cases_sop.append('(%d%%nat, (%d%%Z, %d%%Z, %s), (%d%%Z, %d%%Z, %s), %s, (%d%%nat, %d%%Z, %d%%Z))' % (
            len(dr_meta_sop) - 1, cfg[0], cfg[1], qlit(cfg[2]), init[0], init[1], b(init[2]),
            coq_list('(%s, %s, %d%%nat)' % (qlit(a), qlit(l), rj) for a, l, rj in r['stream']), r['n'], r['final'][0], r['final'][1]))
    # several StopOnPlateau objects alive at once (each on its own optimizer), built with the DEFAULT patience / decreasing, user
    # loops and optimize() calls interleaved between the objects: each object is judged on its own stream under the documented
    # defaults (5, 1e-3)
    for t in range(ctx.scale(4, 16)):
        nobj = 4 if t == 0 else rng.randint(2, 4)
        c = dict(kind='defaults', driver='sop', ops=enc_ops(SOP_DEFAULT_OPS if t == 0 else random_sop_ops(rng, nobj)),
                 objs=[dict(steps=rng.randint(1, 14), optim=('GN' if (t + i) % 3 == 2 else 'LM'), x0=[rng.uniform(0.5, 3.0), rng.choice([-1, 1]) * rng.uniform(0.25, 2.0)],
                            damping=rng.choice([1e-6, 1e-2, 10.0]), reject=rng.choice([0, 1, 16])) for i in range(nobj)])
        try:
            per = run_default_sop(pp, torch, c)
        except Exception as e:
            ctx.notes.append('default StopOnPlateau scenario %r raised %r' % (c, e))
            continue
        why = judge_default_sop(c, per)
        if why and 'defaults-sop' not in reported:
            reported.add('defaults-sop')
            ctx.violation('controller:defaults-sop', why, c)
        for i, r in enumerate(per):
            ctx.case(('defaults-sop', t, i, c['objs'][i]['steps'], r['n']), branch='defaults-sop')
            ctx.traces += 1
            dr_meta_sop.append(dict(c, obj=i))
            dr_cases_sop.append('(%d%%nat, (%d%%Z, %d%%Z, %s), (%d%%Z, %d%%Z, %s), %s, (%d%%nat, %d%%Z, %d%%Z))' % (
                len(dr_meta_sop) - 1, c['objs'][i]['steps'], DOC_PATIENCE, qlit(DOC_DECREASING), 0, 0, b(True),
                coq_list('(%s, %s, %d%%nat)' % (qlit(a), qlit(l), rj) for a, l, rj in r['stream']), r['n'], r['final'][0], r['final'][1]))
    files.append(('sopD', hdr + SOP_DRIVE_FROM + 'Eval vm_compute in sop_drive_from_bad %s.\n' % coq_list(dr_cases_sop)))
    if dr_meta_sop:
        ctx.samples.append(dr_meta_sop[1 % len(dr_meta_sop)])
    # ICP and MPC with a recording stepper: two calls per object (the second with other arguments, on the stepper the first call
    # left stopped); the stepper is sometimes handed over in a used / stopped state
    for t in range(ctx.scale(10, 40)):
        c = dict(kind='icp', cfg=(rng.randint(1, 7), rng.randint(1, 4), rng.choice([1e-3, 0.25]), rng.choice([1e-5, 1e-2])),
                 gseed=ctx.seed * 1000 + t, dirty=[None, (5, 3, False, 0.5), (2, 1, True, 4.0)][t % 3])
        try:
            calls = run_icp_case(pp, torch, c)
        except Exception as e:
            ctx.notes.append('ICP raised %r' % (e,))
            continue
        for ci, (stream, n) in enumerate(calls):
            m = dict(c, call=ci, stream=stream, n=n)
            why = judge_rtb_drive(m)
            if why and 'icp' not in reported:
                reported.add('icp')
                ctx.violation('controller:icp', why, m)
            ctx.case(('icp', t, c['cfg'], ci, n), branch='driver-icp:call%d' % ci)
            ctx.traces += 1
            dr_meta_rtb.append(m)
    for t in range(ctx.scale(8, 30)):
        steps = rng.randint(1, 6)
        # the constructor lowered max_steps by one: the model config is mpc_cfg
        c = dict(kind='mpc', cfg=(steps - 1, rng.randint(1, 4), rng.choice([1e-3, 0.25]), 1e-9), steps=steps,
                 gseed=ctx.seed * 77 + t, dirty=[None, (5, 3, False, 0.5), (2, 1, True, 4.0)][(t + 1) % 3])
        try:
            calls = run_mpc_case(pp, torch, c)
        except Exception as e:
            ctx.notes.append('MPC raised %r' % (e,))
            continue
        for ci, (stream, n) in enumerate(calls):
            m = dict(c, call=ci, stream=stream, n=n)
            why = judge_rtb_drive(m)
            if why and 'mpc' not in reported:
                reported.add('mpc')
                ctx.violation('controller:mpc', why, m)
            ctx.case(('mpc', t, c['cfg'], ci, n), branch='driver-mpc:call%d' % ci)
            ctx.traces += 1
            dr_meta_rtb.append(m)
    # several MPC / ICP objects alive at once, most of them built WITHOUT a stepper (the documented default: ReduceToBason with a
    # maximum of 10 / 200 steps and the default patience, decreasing, tol), constructions and calls interleaved; the inner solver
    # is either the real one or replaced by scripted exact losses that reach every documented cause (the budget included); every
    # call is judged on the stream its controller saw, under the documented default configuration
    for drv in ('mpc', 'icp'):
        for t in range(ctx.scale(2, 6) if drv == 'mpc' else ctx.scale(1, 3)):
            c = dict(kind='defaults', driver=drv, gseed=ctx.seed * 131 + t, ops=enc_ops(DRIVER_DEFAULT_OPS if t == 0 else random_driver_ops(rng)))
            try:
                calls = run_default_drivers(pp, torch, c)
            except Exception as e:
                ctx.notes.append('default %s scenario %r raised %r' % (drv, c, e))
                continue
            for m in calls:
                m = dict(c, **m)
                why = judge_default_call(m)
                if why and 'defaults-' + drv not in reported:
                    reported.add('defaults-' + drv)
                    ctx.violation('controller:defaults-' + drv, why, dict(c, call=m['call']))
                ctx.case(('defaults-' + drv, t, m['call'], m['script'], m['n']), branch='defaults-%s:%s' % (drv, m['script']))
                ctx.traces += 1
                dr_meta_rtb.append(m)
    for k, m in enumerate(dr_meta_rtb):
        cfg = m['cfg']
        dr_cases_rtb.append('(%d%%nat, (%d%%Z, %d%%Z, %s, %s), %s, %d%%nat)' % (k, cfg[0], cfg[1], qlit(cfg[2]), qlit(cfg[3]), coq_list(qlist(l) for l in m['stream']), m['n']))
    files.append(('rtbD', hdr + 'Eval vm_compute in rtb_drive_bad %s.\n' % coq_list(dr_cases_rtb)))
    if dr_meta_rtb:
        ctx.samples.append(dr_meta_rtb[0])
    # ------------------------------------------------------------------ the model regenerated from the source text
    # (second tie, harness/translate_controller.py): symbolic execution of the step / reset methods as they are written
    # NOW, and lemmas - compiled here - that the generated functions equal Model/Controller.v for every input
    gen_notes = None
    try:
        from ..translate_controller import translate, Untranslatable, N_LEMMAS
        gen_text, gen_notes = translate(os.environ.get('VERIF_REPO', '/repo'))
        files.append(('ControllerGen', gen_text))
    except Exception as e:   # Untranslatable or a syntax the parser rejects: fail closed
        ctx.obligation_broken('translation:stepper.py/scheduler.py/mpc.py/icp.py -> Coq', '%s: %s' % (type(e).__name__, e))
    # ------------------------------------------------------------------ run Coq
    res = run_case_files('C20', files, timeout=900)
    if 'ControllerGen' in res:
        rc, out = res.pop('ControllerGen')
        closed = out.count('Closed under the global context')
        if rc != 0 or closed != N_LEMMAS:
            ctx.obligation_broken('proof:generated-model = Model/Controller.v (gen_rtb_step_eq, gen_rtb_reset_eq, gen_sop_step_eq, '
                                  'gen_mpc_budget_eq)', out[-2500:])
        else:
            ctx.notes.append('translator tie: gen_rtb_step, gen_rtb_reset, gen_sop_step, gen_mpc_budget regenerated from the working tree '
                             'and proved equal to Model/Controller.v (equality lemmas and the transferred property theorems gen_sop_stops_exactly_when, gen_rtb_stops_exactly_when, gen_rtb_stays_false, gen_reset_restores_initial_state: 10 statements, closed under the global context); driver shapes: ' + '; '.join(gen_notes))
    table = dict(rtbT=rt_meta, rtbS=sg_meta, rtbR=rs_meta, sopT=so_meta, rtbTr=tr_meta, sopD=dr_meta_sop, rtbD=dr_meta_rtb)
    for name, (rc, out) in sorted(res.items()):
        ev = parse_evals(out)
        if rc != 0 or len(ev) != 1:
            ctx.obligation_broken('correspondence-file:' + name, out[-1500:])
            continue
        fam = name.split('_')[0]
        off = int(name.split('_')[1]) * (500 if fam in ('rtbT', 'sopT') else 100) if '_' in name else 0
        for i in parse_nat_list(ev[0]):
            ctx.mismatch(fam, table[fam][i])
    ctx.exhaustive = True
    # ------------------------------------------------------------------ search: the documented conditions, directly
    perfam = {}
    for m in ctx.mismatches:
        perfam.setdefault(m['family'], []).append(m)
    for m in [x for fam in perfam.values() for x in fam[:25]]:
        why = replay(ctx, m['case'])
        if why:
            m['explained'] = True
            c = m['case']
            if c['kind'] == 'defaults':
                if 'defaults-' + c['driver'] not in reported:
                    reported.add('defaults-' + c['driver'])
                    ctx.violation('controller:defaults-' + c['driver'], why, {k: v for k, v in c.items() if k in ('kind', 'driver', 'gseed', 'ops', 'steps', 'objs', 'call', 'obj')})
                continue
            ctx.violation('controller:' + c['kind'], why, c)


def dy_pos(rng):
    return rng.randint(0, 512) / 32.0


def shard(items, n):
    return [items[k:k + n] for k in range(0, len(items), n)]


# ---------------------------------------------------------------------------------------------
# independent statement of the documented behaviour (python, exact rationals), used by search / replay
def doc_rtb(cfg, state, loss):
    steps, pc, last, cont = state
    mx, pat, dec, tol = cfg
    steps += 1
    INF = float('inf')
    fails = []
    for i, x in enumerate(loss):
        l = INF if last is None else last[i]
        if x == 0:
            q = float('nan') if l == 0 else (INF if l > 0 else -INF)
        elif l == INF:
            q = INF if x > 0 else -INF
        else:
            q = Fraction(l) - Fraction(x)
            q = q / Fraction(x)
        fails.append(q < Fraction(dec) if isinstance(q, Fraction) else q < dec)
    failed = all(fails)
    pc = pc + 1 if failed else 0
    stop = all(x < tol for x in loss) or steps >= mx or pc >= pat
    return (steps, pc, list(loss), cont and not stop)


def doc_sop(cfg, state, inp):
    steps, pc, cont = state
    la, lo, rj = inp
    pc2 = pc + 1 if (Fraction(la) - Fraction(lo)) < Fraction(cfg[2]) else 0
    return (steps + 1, pc2, cont and not (steps + 1 >= cfg[0] or pc2 >= cfg[1] or rj > 0))


# (previous losses, losses, tensor shape or None): members of different sign / different history in one batch
SIGN_PAIRS = [
    ([-2.0, 4.0], [-2.0, 4.0], None),            # exact plateau, one negative member, the other above tol
    ([-2.0, 8.0], [-2.0, 4.0], None),            # negative member on a plateau, positive member halves
    ([-2.0, 4.0], [-4.0, 4.0], None),            # negative member moves away from zero
    ([-4.0, 4.0], [-2.0, 4.0], None),            # negative member moves towards zero
    ([-2.0, 4.0], [-2.0, 3.0], None),            # boundary / below threshold decrease of the positive member
    ([4.0, 4.0], [-2.0, 6.0], None),             # sign change of one member
    ([-2.0, 4.0], [1.0, 4.0], None),
    ([0.0, 4.0], [-2.0, 4.0], None),
    ([-2.0, 4.0], [-2.0, 0.0], None),            # a member reaches exactly zero
    ([-2.0, 0.0], [-2.0, 0.0], None),
    (None, [-2.0], None), (None, [-2.0, 4.0], None), (None, [-0.0625, 0.0625], None),
    ([4.0], [-2.0], None), ([-2.0], [-2.0], None), ([-2.0], [-4.0], None), ([-4.0], [-2.0], None), ([-2.0], [3.0], None),
    ([-0.0625, 0.03125], [-0.0625, 0.03125], None),   # plateau with every member below tol
    ([7.0, 4.0, -3.0, 0.5], [7.0, 4.0, -3.0, 0.5], (2, 2)),   # 2-d batches
    ([7.0, 8.0, -3.0, 0.5], [7.0, 4.0, -3.0, 0.5], (2, 2)),
    ([7.0, 8.0, 3.0, 0.5], [7.0, 4.0, 3.0, 0.5], (2, 2)),
    (None, [7.0, 4.0, -3.0, 0.5], (2, 2)),
    ([4.0, 4.0, 4.0], [4.0, 3.0, -1.0], (3, 1)),
]


def rtb_apply(torch, ReduceToBason, m):
    """put a real ReduceToBason into the state of case m, step it once, return the observed state"""
    cfg, (steps, pc, lastv, cont), loss = m['cfg'], m['state'], m['loss']
    dtp = torch.float32 if m.get('dtype') == 'f32' else torch.float64
    shape = tuple(m.get('shape') or (len(loss),))
    st = ReduceToBason(steps=cfg[0], patience=cfg[1], decreasing=cfg[2], tol=cfg[3])
    st.steps, st.patience_count, st._continual = steps, pc, cont
    st.last = torch.tensor(float('inf')) if lastv is None else torch.tensor(lastv, dtype=dtp).reshape(shape)
    arg = loss[0] if m.get('pyfloat') else torch.tensor(loss, dtype=dtp).reshape(shape)
    keep = arg.clone() if torch.is_tensor(arg) else None
    st.step(arg)
    if keep is not None and not torch.equal(keep, arg):
        return ('loss argument mutated',)
    return (st.steps, st.patience_count, [float(v) for v in torch.as_tensor(st.last).reshape(-1).tolist()], bool(st.continual()))


# call forms of scheduler.optimize on one scheduler object
OPT_SCENARIOS = [
    [('optimize',)],
    [('optimize',), ('optimize',)],
    [('loop', None), ('optimize',)],
    [('loop', 1), ('optimize',)],
    [('loop', 2), ('optimize',), ('optimize',)],
    [('optimize',), ('loop', None), ('optimize',)],
]

# model loop from an arbitrary controller state: the recorded stream must be consumed completely, end stopped, in the observed state
SOP_DRIVE_FROM = """Definition sop_drive_from_bad (cs : list (nat * (Z * Z * Q) * (Z * Z * bool) * list (Q * Q * nat) * (nat * Z * Z))) : list nat :=
  map (fun c => match c with (i, _, _, _, _) => i end)
      (filter (fun c => match c with (_, (m, p, d), (s0, pc0, ct0), ins, (n, fs, fpc)) =>
         let '(k, s) := drive_sop {| sop_max := m; sop_patience := p; sop_dec := d |} {| sop_steps := s0; sop_pc := pc0; sop_cont := ct0 |}
                 (map (fun t => match t with (la, lo, rj) => {| in_last := la; in_loss := lo; in_reject := rj |} end) ins) in
         negb (Nat.eqb k n && negb (sop_cont s) && Z.eqb (sop_steps s) fs && Z.eqb (sop_pc s) fpc) end) cs).
"""


def run_optimize_case(pp, torch, c):
    """One scenario of user loops / scheduler.optimize calls on ONE StopOnPlateau; records what the controller saw at every step."""
    from pypose.optim.scheduler import StopOnPlateau

    class Quad(torch.nn.Module):
        def __init__(self, x0):
            super().__init__()
            self.x = torch.nn.Parameter(torch.tensor(x0, dtype=torch.float64))

        def forward(self, inp):
            return (self.x ** 2 - inp)
    model = Quad(list(c['x0']))
    if c['optim'] == 'GN':
        opt = pp.optim.GN(model)
    else:
        opt = pp.optim.LM(model, strategy=pp.optim.strategy.Constant(damping=c['damping']), reject=c['reject'])
    cfg = c['cfg']
    sch = StopOnPlateau(opt, steps=cfg[0], patience=cfg[1], decreasing=cfg[2])
    sch.steps, sch.patience_count, sch._continual = c['init']
    rec, before_opt, before_sch = [], [], []
    ostep, sstep = opt.step, sch.step

    def opt_step(*a, **k):
        before_opt.append(bool(sch.continual()))
        return ostep(*a, **k)

    def sch_step(loss):
        before_sch.append(bool(sch.continual()))
        rec.append((float(opt.last), float(opt.loss), int(getattr(opt, 'reject_count', 0))))
        return sstep(loss)
    opt.step, sch.step = opt_step, sch_step
    inp = torch.tensor([1.0, 2.0], dtype=torch.float64)
    marks = []
    for ph in c['phases']:
        if ph[0] == 'optimize':
            sch.optimize(input=inp)
        else:
            k = 0
            while sch.continual() and (ph[1] is None or k < ph[1]):
                sch.step(opt.step(inp))
                k += 1
        marks.append(len(rec))
    return dict(stream=rec, n=len(rec), opt_calls=len(before_opt), before_opt=before_opt, before_sch=before_sch, marks=marks,
                final=(sch.steps, sch.patience_count, bool(sch.continual())))


def judge_optimize(c, r):
    """the documented behaviour of a driver loop, directly: no optimizer / controller step while continual() is False; the loop
    ends exactly at the first step with a documented cause; at most `steps` controller steps on a fresh scheduler"""
    cfg, head = c['cfg'], 'StopOnPlateau(steps=%s,patience=%s,decreasing=%s) on %s from state (steps,patience_count,continual)=%s, call sequence %s: ' % (
        tuple(c['cfg']) + (c['optim'], tuple(c['init']), [ph[0] if ph[0] == 'optimize' else 'user loop(%s)' % (ph[1],) for ph in c['phases']]))
    if r['opt_calls'] != r['n']:
        return head + '%d optimizer steps but %d controller steps' % (r['opt_calls'], r['n'])
    for i, (bo, bs) in enumerate(zip(r['before_opt'], r['before_sch'])):
        if not bo or not bs:
            return head + 'step %d (of %d; the phases end after %s steps) was taken although continual() was already False' % (i + 1, r['n'], r['marks'])
    state = tuple(c['init'])
    for i, inp in enumerate(r['stream']):
        if not state[2]:
            return head + 'step %d was taken although a documented cause had stopped the controller at step %d (stream %s)' % (i + 1, i, r['stream'][:i + 1])
        state = doc_sop(cfg, state, inp)
    if state[2]:
        return head + 'the loop ended after %d steps although no documented cause held (stream %s)' % (r['n'], r['stream'])
    if tuple(r['final']) != state:
        return head + 'final (steps,patience_count,continual)=%s, documented %s' % (tuple(r['final']), state)
    if tuple(c['init']) == (0, 0, True) and r['n'] > max(1, cfg[0]):
        return head + '%d controller steps exceed the budget' % r['n']
    return None


def _rec_stepper(torch, ReduceToBason, cfg, steps=None):
    class Rec(ReduceToBason):
        def __init__(self, *a, **k):
            super().__init__(*a, **k)
            self.rec, self.pre = [], []

        def step(self, loss):
            self.pre.append(bool(self.continual()))
            self.rec.append([float(v) for v in torch.as_tensor(loss).reshape(-1).tolist()])
            return super().step(loss)
    return Rec(steps=cfg[0] if steps is None else steps, patience=cfg[1], decreasing=cfg[2], tol=cfg[3])


def _dirty(torch, st, dirty):
    if dirty is not None:
        st.steps, st.patience_count, st._continual = dirty[0], dirty[1], dirty[2]
        st.last = torch.tensor(dirty[3], dtype=torch.float64)


def _take(st):
    out = (st.rec, len(st.rec)) if all(st.pre) else (st.rec + [['stepped-while-stopped']], len(st.rec))
    st.rec, st.pre = [], []
    return out


def run_icp_case(pp, torch, c):
    """two ICP calls with one stepper; returns [(stream, n)] per call (the driver resets the stepper at the start of each call)"""
    from pypose.utils.stepper import ReduceToBason
    g = torch.Generator().manual_seed(c['gseed'])
    src = torch.randn(1, 30, 3, generator=g, dtype=torch.float64)
    T = pp.SE3(torch.tensor([[0.05, -0.02, 0.03, 0.0, 0.0, 0.01, 1.0]], dtype=torch.float64))
    tgt = T.unsqueeze(-2).Act(src)
    st = _rec_stepper(torch, ReduceToBason, c['cfg'])
    icp = pp.module.ICP(stepper=st)
    _dirty(torch, st, c.get('dirty'))
    out = []
    icp(src, tgt)
    out.append(_take(st))
    icp(src * 0.75 + 0.0625, tgt)
    out.append(_take(st))
    return out


def run_mpc_case(pp, torch, c):
    from pypose.utils.stepper import ReduceToBason
    n_state, n_ctrl, Th = 2, 1, 3
    g = torch.Generator().manual_seed(c['gseed'])
    A = torch.eye(n_state, dtype=torch.float64) + 0.1 * torch.randn(n_state, n_state, generator=g, dtype=torch.float64)
    B = torch.randn(n_state, n_ctrl, generator=g, dtype=torch.float64)
    C = torch.eye(n_state, dtype=torch.float64)
    D = torch.zeros(n_state, n_ctrl, dtype=torch.float64)
    lti = pp.module.LTI(A, B, C, D)
    Q = torch.tile(torch.eye(n_state + n_ctrl, dtype=torch.float64), (1, Th, 1, 1))
    p = torch.randn(1, Th, n_state + n_ctrl, generator=g, dtype=torch.float64)
    st = _rec_stepper(torch, ReduceToBason, c['cfg'], steps=c['steps'])
    mpc = pp.module.MPC(lti, Q, p, Th, stepper=st)
    _dirty(torch, st, c.get('dirty'))
    x0 = torch.randn(1, n_state, generator=g, dtype=torch.float64)
    x1 = torch.randn(1, n_state, generator=g, dtype=torch.float64)
    out = []
    mpc(1, x0)
    out.append(_take(st))
    mpc(1, x1)
    out.append(_take(st))
    return out


def judge_rtb_drive(m):
    """ICP / MPC reset the stepper and loop: the stream seen in one call must end exactly at the first documented cause"""
    cfg = m['cfg']
    head = m.get('head') or '%s call %d with ReduceToBason(steps=%s,patience=%s,decreasing=%s,tol=%s)%s handed over in state %s: ' % (
        m['kind'].upper(), m['call'] + 1, cfg[0], cfg[1], cfg[2], cfg[3], ' (after MPC.__init__ lowered steps by one)' if m['kind'] == 'mpc' else '', m.get('dirty'))
    state = (0, 0, None, True)
    for i, l in enumerate(m['stream']):
        if l == ['stepped-while-stopped']:
            return head + 'a controller step was taken while continual() was False (stream %s)' % (m['stream'],)
        if not state[3]:
            return head + 'step %d was taken although a documented cause had stopped the loop at step %d (stream %s)' % (i + 1, i, m['stream'][:i + 1])
        state = doc_rtb(cfg, state, l)
    if state[3]:
        return head + 'the loop ended after %d steps although no documented cause held (stream %s)' % (m['n'], m['stream'])
    if m['n'] > max(1, m.get('steps', cfg[0])):
        return head + '%d controller steps exceed the budget' % m['n']
    return None


# ---------------------------------------------------------------------------------------------
# controllers / drivers built with DEFAULT arguments, several objects alive at once
# the documented defaults (docstrings of ReduceToBason, StopOnPlateau, MPC, ICP)
DOC_PATIENCE, DOC_DECREASING, DOC_TOL = 5, 1e-3, 1e-5
DOC_DRIVER_STEPS = dict(mpc=10, icp=200)
SCRIPT_NAMES = ['budget', 'plateau', 'tol', 'rearm']


def script_value(name, k):
    """scripted exact loss of the k-th inner solve (k = 0, 1, ...); every value and every relative decrease is far from the thresholds"""
    if name == 'budget':        # decreases by more than 1e-3 (relative) for 250 steps, far above tol: only the budget can stop the loop
        return 4096.0 * (256 - k) if k < 250 else 4096.0 * 6
    if name == 'plateau':       # one decrease, then an exact plateau: `patience` failed steps
        return 64.0 if k == 0 else 8.0
    if name == 'tol':           # falls below tol at the third step
        return [4.0, 2.0][k] if k < 2 else 2.0 ** -20
    if name == 'rearm':         # patience - 1 failed steps, a decrease (re-arms the count), then a plateau
        return 8.0 if k < 4 else 4.0
    raise ValueError(name)


# ('new', object index, None = no stepper given | k = ReduceToBason(steps=k) given), ('call', object index, script or 'real')
DRIVER_DEFAULT_OPS = [('new', 0, None), ('new', 1, None), ('call', 0, 'budget'), ('call', 1, 'budget'), ('new', 2, None), ('call', 2, 'budget'),
                      ('call', 1, 'plateau'), ('new', 3, 4), ('call', 3, 'budget'), ('call', 0, 'rearm'), ('call', 2, 'tol'), ('call', 1, 'real'),
                      ('call', 0, 'budget'), ('new', 4, None), ('call', 4, 'real'), ('call', 4, 'budget'), ('call', 3, 'plateau'), ('call', 1, 'budget')]


def random_driver_ops(rng):
    ops, n = [], 0
    for _ in range(rng.randint(8, 14)):
        if n < 2 or (n < 5 and rng.random() < 0.3):
            ops.append(('new', n, None if rng.random() < 0.75 else rng.randint(2, 6)))
            n += 1
        else:
            ops.append(('call', rng.randrange(n), rng.choice(SCRIPT_NAMES + ['budget', 'real'])))
    return ops


def _mpc_problem(pp, torch, gseed):
    n_state, n_ctrl, Th = 2, 1, 3
    g = torch.Generator().manual_seed(gseed)
    A = torch.eye(n_state, dtype=torch.float64) + 0.1 * torch.randn(n_state, n_state, generator=g, dtype=torch.float64)
    B = torch.randn(n_state, n_ctrl, generator=g, dtype=torch.float64)
    lti = pp.module.LTI(A, B, torch.eye(n_state, dtype=torch.float64), torch.zeros(n_state, n_ctrl, dtype=torch.float64))
    Q = torch.tile(torch.eye(n_state + n_ctrl, dtype=torch.float64), (1, Th, 1, 1))
    p = torch.randn(1, Th, n_state + n_ctrl, generator=g, dtype=torch.float64)
    xs = [torch.randn(1, n_state, generator=g, dtype=torch.float64) for _ in range(3)]
    return lti, Q, p, Th, xs


def run_default_drivers(pp, torch, c):
    """One scenario of MPC / ICP objects (built without a stepper unless the op says so) and calls on them, in the given order.
    Returns one dict per call: the documented configuration of that object's controller, the loss stream the controller saw,
    the number of controller steps and of inner solver invocations (lqr / svdtf)."""
    import sys
    from pypose.utils.stepper import ReduceToBason
    drv = c['driver']
    log, st = [], dict(script=None, k=0, inner=0)
    orig_step = ReduceToBason.step

    def tap(self, loss):
        log.append((bool(self.continual()), [float(v) for v in torch.as_tensor(loss).detach().reshape(-1).tolist()]))
        return orig_step(self, loss)

    class Inner(torch.nn.Module):
        """MPC's inner solver: counts the invocations; scripted losses instead of the real solve when a script is active"""
        def __init__(self, real):
            super().__init__()
            self.real = real

        def forward(self, x_init, *a, **kw):
            st['inner'] += 1
            if st['script'] is None:
                return self.real(x_init, *a, **kw)
            v = script_value(st['script'], st['k'])
            st['k'] += 1
            return x_init, torch.zeros(1, 3, 1, dtype=torch.float64), torch.tensor([v], dtype=torch.float64)
    objs, out = {}, []
    if drv == 'mpc':
        lti, Q, p, Th, xs = _mpc_problem(pp, torch, c['gseed'])
    else:
        g = torch.Generator().manual_seed(c['gseed'])
        src = torch.randn(1, 32, 3, generator=g, dtype=torch.float64)
        tgt = pp.SE3(torch.tensor([[0.05, -0.02, 0.03, 0.0, 0.0, 0.01, 1.0]], dtype=torch.float64)).unsqueeze(-2).Act(src)
        mod = sys.modules[pp.module.ICP.__module__]
        real_knn, real_svdtf = mod.knn, mod.svdtf

        def knn(*a, **kw):
            res = real_knn(*a, **kw)
            if st['script'] is None:
                return res
            v = script_value(st['script'], st['k'])
            st['k'] += 1
            return torch.full_like(res[0], v), res[1]

        def svdtf(*a, **kw):
            st['inner'] += 1
            return real_svdtf(*a, **kw)
        mod.knn, mod.svdtf = knn, svdtf
    ReduceToBason.step = tap
    try:
        ncall = 0
        for op in dec_ops(c['ops']):
            if op[0] == 'new':
                k = op[2]
                kw = {} if k is None else dict(stepper=ReduceToBason(steps=k))
                steps = DOC_DRIVER_STEPS[drv] if k is None else k
                if drv == 'mpc':
                    o = pp.module.MPC(lti, Q, p, Th, **kw)
                    o.lqr = Inner(o.lqr)
                else:
                    o = pp.module.ICP(**kw)
                # MPC: n-1 loops + 1 loop with gradient
                objs[op[1]] = (o, steps, (steps - 1 if drv == 'mpc' else steps, DOC_PATIENCE, DOC_DECREASING, DOC_TOL), [0])
                continue
            o, steps, cfg, cnt = objs[op[1]]
            st.update(script=None if op[2] == 'real' else op[2], k=0, inner=0)
            del log[:]
            if drv == 'mpc':
                o(1, xs[cnt[0] % len(xs)])
            else:
                o(src * (1.0 - 0.25 * (cnt[0] % 2)) + 0.0625 * (cnt[0] % 3), tgt)
            cnt[0] += 1
            stream = [l for _, l in log]
            if not all(pre for pre, _ in log):
                stream = stream + [['stepped-while-stopped']]
            out.append(dict(call=ncall, obj=op[1], given=objs_given(dec_ops(c['ops']), op[1]), nth=cnt[0], script=op[2], steps=steps, cfg=cfg, stream=stream, n=len(log), inner=st['inner']))
            ncall += 1
    finally:
        ReduceToBason.step = orig_step
        if drv == 'icp':
            mod.knn, mod.svdtf = real_knn, real_svdtf
    return out


def enc_ops(ops):
    """compact text form of an op list (keeps the replay files small): fields joined by ':', None = '-'"""
    return ' '.join(':'.join('-' if x is None else repr(x) if isinstance(x, float) else str(x) for x in op) for op in ops)


def dec_ops(spec):
    if not isinstance(spec, str):
        return [tuple(op) for op in spec]

    def field(x):
        if x == '-':
            return None
        for conv in (int, float):
            try:
                return conv(x)
            except ValueError:
                pass
        return x
    return [tuple(field(x) for x in tok.split(':')) for tok in spec.split()]


def objs_given(ops, i):
    return [op[2] for op in ops if op[0] == 'new' and op[1] == i][0]


def describe_ops(ops):
    return ' '.join(('new#%d(%s)' % (op[1], 'default' if op[2] is None else 'stepper=ReduceToBason(steps=%s)' % op[2])) if op[0] == 'new'
                    else '#%d(%s)' % (op[1], op[2]) for op in ops)


def judge_default_call(m):
    drv = m['driver'].upper()
    # the objects built and the calls made up to and including the judged call (later ones cannot matter)
    upto, seen = [], 0
    for op in dec_ops(m['ops']):
        upto.append(op)
        seen += op[0] == 'call'
        if seen > m['call']:
            break
    head = ('%s objects built / called in the order [%s]; call %d = call %d on object #%d (built %s; documented controller ReduceToBason(steps=%s,patience=%s,'
            'decreasing=%s,tol=%s)%s), inner losses %s: ' % (
                drv, describe_ops(upto), m['call'] + 1, m['nth'], m['obj'], 'without a stepper' if m['given'] is None else 'with ReduceToBason(steps=%s)' % m['given'],
                m['steps'], DOC_PATIENCE, DOC_DECREASING, DOC_TOL, ', one step kept for the loop with gradient' if m['driver'] == 'mpc' else '',
                'of the real solver' if m['script'] == 'real' else 'scripted %r %s...' % (m['script'], [script_value(m['script'], k) for k in range(4)])))
    why = judge_rtb_drive(dict(m, head=head))
    if why:
        return why
    if m['inner'] != m['n'] + 1:
        return head + '%d inner solver invocations (lqr / svdtf) for %d controller steps (documented loop: one per step, one final)' % (m['inner'], m['n'])
    return None


def run_default_rtb(torch, c):
    """ReduceToBason(steps) objects with default patience / decreasing / tol; ops = (object index, loss | None = reset), interleaved.
    Returns per object (its own ops, observed (steps, patience_count, continual) after each op)."""
    from pypose.utils.stepper import ReduceToBason
    sts = [ReduceToBason(s) if i % 2 else ReduceToBason(steps=s) for i, s in enumerate(c['steps'])]
    per = [([], []) for _ in sts]
    for i, v in dec_ops(c['ops']):
        st = sts[i]
        if v is None:
            st.reset()
            per[i][0].append(None)
        else:
            # a python float becomes a float32 tensor inside step(): only pass one when that is exact
            st.step(v if (len(per[i][0]) % 3 == 0 and float(torch.tensor(v)) == v) else torch.tensor(v, dtype=torch.float64))
            per[i][0].append([v])
        per[i][1].append((st.steps, st.patience_count, bool(st.continual())))
    return per


def judge_default_rtb(c, per):
    for i, (ops, trace) in enumerate(per):
        cfg = (c['steps'][i], DOC_PATIENCE, DOC_DECREASING, DOC_TOL)
        state = (0, 0, None, True)
        for k, (o, got) in enumerate(zip(ops, trace)):
            state = (0, 0, None, True) if o is None else doc_rtb(cfg, state, o)
            if (got[0], got[2]) != (state[0], state[3]):
                return ('%d ReduceToBason objects built with steps=%s and default patience / decreasing / tol, stepped in the interleaved order (object, loss | None = reset) %s: '
                        'object #%d after its own history %s has (steps, continual)=%s, documented (defaults %s, %s, %s) %s' % (
                            len(per), c['steps'], c['ops'], i, ops[:k + 1], (got[0], got[2]), DOC_PATIENCE, DOC_DECREASING, DOC_TOL, (state[0], state[3])))
    return None


# ('new', i), ('loop', i, k | None = until the stop), ('optimize', i); every object is driven to its stop at the end
SOP_DEFAULT_OPS = [('new', 0), ('new', 1), ('loop', 0, 2), ('loop', 1, 1), ('new', 2), ('optimize', 2), ('loop', 0, 1), ('optimize', 1), ('new', 3),
                   ('optimize', 0), ('optimize', 2), ('loop', 3, None), ('optimize', 3), ('optimize', 1)]


def random_sop_ops(rng, nobj):
    ops, made = [], 0
    for _ in range(rng.randint(6, 12)):
        if made < nobj and (made < 2 or rng.random() < 0.4):
            ops.append(('new', made))
            made += 1
        else:
            i = rng.randrange(made)
            ops.append(('loop', i, rng.choice([1, 1, 2, 3, None])) if rng.random() < 0.6 else ('optimize', i))
    for i in range(made, nobj):
        ops.append(('new', i))
    order = list(range(nobj))
    rng.shuffle(order)
    return ops + [('optimize', i) if rng.random() < 0.7 else ('loop', i, None) for i in order]


def run_default_sop(pp, torch, c):
    """StopOnPlateau(optimizer, steps) objects with default patience / decreasing, each on its own model and optimizer; user loops
    and optimize() calls interleaved.  Returns per object what run_optimize_case returns."""
    from pypose.optim.scheduler import StopOnPlateau

    class Quad(torch.nn.Module):
        def __init__(self, x0):
            super().__init__()
            self.x = torch.nn.Parameter(torch.tensor(x0, dtype=torch.float64))

        def forward(self, inp):
            return (self.x ** 2 - inp)
    inp = torch.tensor([1.0, 2.0], dtype=torch.float64)
    objs = {}

    def build(i):
        o = c['objs'][i]
        model = Quad(list(o['x0']))
        opt = pp.optim.GN(model) if o['optim'] == 'GN' else pp.optim.LM(model, strategy=pp.optim.strategy.Constant(damping=o['damping']), reject=o['reject'])
        sch = StopOnPlateau(opt, o['steps']) if i % 2 else StopOnPlateau(opt, steps=o['steps'])
        r = dict(stream=[], before_opt=[], before_sch=[], marks=[], phases=[])
        ostep, sstep = opt.step, sch.step

        def opt_step(*a, **k):
            r['before_opt'].append(bool(sch.continual()))
            return ostep(*a, **k)

        def sch_step(loss):
            r['before_sch'].append(bool(sch.continual()))
            r['stream'].append((float(opt.last), float(opt.loss), int(getattr(opt, 'reject_count', 0))))
            return sstep(loss)
        opt.step, sch.step = opt_step, sch_step
        objs[i] = (opt, sch, r)
    for op in dec_ops(c['ops']):
        if op[0] == 'new':
            build(op[1])
            continue
        opt, sch, r = objs[op[1]]
        if op[0] == 'optimize':
            sch.optimize(input=inp)
        else:
            k = 0
            while sch.continual() and (op[2] is None or k < op[2]):
                sch.step(opt.step(inp))
                k += 1
        r['phases'].append(tuple(op[:1]) + tuple(op[2:]))
        r['marks'].append(len(r['stream']))
    out = []
    for i in range(len(c['objs'])):
        opt, sch, r = objs[i]
        r.update(n=len(r['stream']), opt_calls=len(r['before_opt']), final=(sch.steps, sch.patience_count, bool(sch.continual())))
        out.append(r)
    return out


def judge_default_sop(c, per):
    for i, r in enumerate(per):
        o = c['objs'][i]
        why = judge_optimize(dict(cfg=(o['steps'], DOC_PATIENCE, DOC_DECREASING), optim=o['optim'], init=(0, 0, True), phases=r['phases']), r)
        if why:
            return ('%d StopOnPlateau objects built with steps=%s and default patience / decreasing, each on its own optimizer, used in the interleaved order %s; object #%d '
                    '(documented defaults patience=%s, decreasing=%s): %s' % (len(per), [x['steps'] for x in c['objs']], c['ops'], i, DOC_PATIENCE, DOC_DECREASING, why))
    return None


def replay(ctx, c):
    pp = import_pypose()
    import torch
    from pypose.utils.stepper import ReduceToBason
    from pypose.optim.scheduler import StopOnPlateau
    k = c.get('kind')
    if k == 'defaults':
        if c['driver'] == 'rtb':
            return judge_default_rtb(c, run_default_rtb(torch, c))
        if c['driver'] == 'sop':
            return judge_default_sop(c, run_default_sop(pp, torch, c))
        for m in run_default_drivers(pp, torch, c):
            why = judge_default_call(dict(c, **m))
            if why:
                return why
        return None
    if k == 'rtb-trans':
        cfg, (steps, pc, lastv, cont), loss = c['cfg'], c['state'], c['loss']
        got = rtb_apply(torch, ReduceToBason, c)
        exp = doc_rtb(cfg, (steps, pc, lastv, cont), loss)
        if got != exp:
            return 'ReduceToBason(steps=%s,patience=%s,decreasing=%s,tol=%s) in state (steps,patience_count,last,continual)=%s stepped with loss %s (%s, shape %s) gives %s; documented conditions give %s' % (
                tuple(cfg) + ((steps, pc, lastv, cont), loss, c.get('dtype', 'f64'), c.get('shape'), got, exp))
        return None
    if k == 'optimize':
        return judge_optimize(c, run_optimize_case(pp, torch, c))
    if k in ('icp', 'mpc'):
        calls = (run_icp_case if k == 'icp' else run_mpc_case)(pp, torch, c)
        stream, n = calls[c['call']]
        return judge_rtb_drive(dict(c, stream=stream, n=n))
    if k == 'sop-trans':
        cfg, (steps, pc, cont), (la, lo, rj) = c['cfg'], c['state'], c['inp']

        class M(torch.nn.Module):
            def __init__(self):
                super().__init__()
                self.p = torch.nn.Parameter(torch.ones(1))

            def forward(self, x):
                return self.p * x
        opt = pp.optim.LM(M())
        sch = StopOnPlateau(opt, steps=cfg[0], patience=cfg[1], decreasing=cfg[2])
        sch.steps, sch.patience_count, sch._continual = steps, pc, cont
        dtp = torch.float32 if c.get('dtype') == 'f32' else torch.float64
        opt.last, opt.loss, opt.reject_count = torch.tensor(la, dtype=dtp), torch.tensor(lo, dtype=dtp), rj
        sch.step(opt.loss)
        got = (sch.steps, sch.patience_count, bool(sch.continual()))
        pc2 = pc + 1 if (Fraction(la) - Fraction(lo)) < Fraction(cfg[2]) else 0
        exp = (steps + 1, pc2, cont and not (steps + 1 >= cfg[0] or pc2 >= cfg[1] or rj > 0))
        if got != exp:
            return 'StopOnPlateau(steps=%s,patience=%s,decreasing=%s) state %s input (last,loss,reject_count)=%s gives %s; documented conditions give %s' % (cfg + ((steps, pc, cont), (la, lo, rj), got, exp))
        return None
    if k == 'rtb-trace':
        cfg = c['cfg']
        st = ReduceToBason(steps=cfg[0], patience=cfg[1], decreasing=cfg[2], tol=cfg[3])
        state = (0, 0, None, True)
        for i, o in enumerate(c['ops']):
            if o is None:
                st.reset()
                # documented: reset restores the initial state (observable behaviour)
                state = (0, 0, None, True)
                continue
            st.step(torch.tensor(o, dtype=torch.float64))
            state = doc_rtb(cfg, state, o)
            got = (st.steps, bool(st.continual()))
            if got != (state[0], state[3]):
                return 'ReduceToBason%s after %d ops of %s: (steps, continual)=%s, documented %s' % (cfg, i + 1, c['ops'][:i + 1], got, (state[0], state[3]))
        return None
    return None
