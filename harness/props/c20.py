"""C20 correspondence: StopOnPlateau / ReduceToBason and the driver loops vs Model/Controller.v.

Exact route.  Transition level: the real object is put into every abstract state of a grid
(steps x patience_count x continual x last) and stepped with every input class; traces with
resets; recorded loss streams of the real driver loops are replayed through the model loop."""
import itertools
from ..common import *

RULE = ('transition = (config, controller state, input class) -> next state, compared field by field with the model; '
        'exhaustive over the state grid steps 0..7 x patience_count 0..5 x continual x last in {inf, 4} x input classes '
        '{decrease>=thr, boundary, decrease<thr, equal, increase, below-tol, zero, batched mixes, rejected} x configs (steps 1..6, patience 1..4); '
        'non-trivial = every transition (distinct by tuple); traces = random long sequences with resets and real driver loops')


def b(x):
    return 'true' if x else 'false'


def olist(l):
    return 'None' if l is None else 'Some ' + qlist(l)


def run(ctx):
    pp = import_pypose()
    import torch
    from pypose.utils.stepper import ReduceToBason
    from pypose.optim.scheduler import StopOnPlateau
    ctx.rule = RULE
    rng = ctx.rng
    files = []
    INF = float('inf')
    # ------------------------------------------------------------------ ReduceToBason transitions
    cfgs = [(s, p, d, 0.125) for s in range(1, 7) for p in range(1, 5) for d in (1.0, 0.25)]
    if not ctx.thorough:
        cfgs = [c for c in cfgs if (c[0] + c[1]) % 2 == 0 or c[0] in (1, 6)]
    losses = [[1.0], [2.0], [3.0], [3.5], [4.0], [6.0], [0.0625], [0.0], [2.0, 6.0], [1.0, 2.0], [0.0625, 0.03125], [0.0625, 3.0], [4.0, 4.0, 4.0]]
    rt_meta, rt_cases = [], []
    for cfg in cfgs:
        for steps in range(0, 8):
            for pc in range(0, 6):
                for cont in (True, False):
                    for last in (None, 4.0):
                        for loss in losses:
                            if not ctx.thorough and (steps + pc + len(rt_meta)) % 3 and steps not in (cfg[0] - 1, cfg[0]) and pc not in (cfg[1] - 1, cfg[1]):
                                continue
                            st = ReduceToBason(steps=cfg[0], patience=cfg[1], decreasing=cfg[2], tol=cfg[3])
                            st.steps, st.patience_count, st._continual = steps, pc, cont
                            lastv = None if last is None else [last] * len(loss)
                            st.last = torch.tensor(INF) if last is None else torch.tensor(lastv, dtype=torch.float64)
                            lt = torch.tensor(loss, dtype=torch.float64) if len(loss) > 1 else (loss[0] if rng.random() < 0.5 else torch.tensor(loss[0], dtype=torch.float64))
                            st.step(lt)
                            after = (st.steps, st.patience_count, [float(v) for v in torch.as_tensor(st.last).reshape(-1).tolist()], bool(st.continual()))
                            m = dict(kind='rtb-trans', cfg=cfg, state=(steps, pc, lastv, cont), loss=loss, after=after)
                            ctx.case(('rtb', cfg, steps, pc, cont, last, tuple(loss)), branch='rtb-transition')
                            rt_meta.append(m)
                            rt_cases.append('(%d%%nat, (%d, %d, %s, %s)%%Z, (%d%%Z, %d%%Z, %s, %s), %s, (%d%%Z, %d%%Z, %s, %s))' % (
                                len(rt_meta) - 1, cfg[0], cfg[1], qlit(cfg[2]), qlit(cfg[3]), steps, pc, olist(lastv), b(cont), qlist(loss),
                                after[0], after[1], olist(after[2]), b(after[3])))
    hdr = 'From PV Require Import Base.Num Model.Controller.\nFrom Coq Require Import List ZArith QArith Bool. Import ListNotations.\n'
    for si, sh in enumerate(shard(rt_cases, 500)):
        files.append(('rtbT_%03d' % si, hdr + 'Eval vm_compute in rtb_trans_bad %s.\n' % coq_list(sh)))
    ctx.samples.append(rt_meta[len(rt_meta) // 2])
    # reset from every grid state
    rs_meta, rs_cases = [], []
    for steps in range(0, 8):
        for pc in range(0, 6):
            for cont in (True, False):
                st = ReduceToBason(steps=3, patience=2)
                st.steps, st.patience_count, st._continual, st.last = steps, pc, cont, torch.tensor(4.0)
                st.reset()
                lastv = None if float(st.last) == INF else [float(st.last)]
                rs_meta.append(dict(kind='rtb-reset', state=(steps, pc, [4.0], cont)))
                ctx.case(('rtb-reset', steps, pc, cont), branch='rtb-reset')
                rs_cases.append('(%d%%nat, (%d%%Z, %d%%Z, Some %s, %s), (%d%%Z, %d%%Z, %s, %s))' % (
                    len(rs_meta) - 1, steps, pc, qlist([4.0]), b(cont), st.steps, st.patience_count, olist(lastv), b(st.continual())))
    files.append(('rtbR', hdr + 'Eval vm_compute in rtb_reset_bad %s.\n' % coq_list(rs_cases)))
    # ------------------------------------------------------------------ StopOnPlateau transitions
    class M(torch.nn.Module):
        def __init__(self):
            super().__init__()
            self.p = torch.nn.Parameter(torch.ones(1))

        def forward(self, x):
            return self.p * x
    opt = pp.optim.LM(M())
    so_meta, so_cases = [], []
    scfgs = [(s, p, d) for s in range(1, 7) for p in range(1, 5) for d in (1.0, 0.25)]
    ins = [(4.0, 1.0, 0), (4.0, 3.0, 0), (4.0, 3.75, 0), (4.0, 3.5, 0), (4.0, 4.0, 0), (4.0, 6.0, 0), (4.0, 1.0, 1), (4.0, 4.0, 3), (0.0, 0.0, 0),
           # large-magnitude losses, where `decreasing` is far below one unit in the last place of the loss: an exact plateau,
           # a decrease of exactly one ulp (< decreasing? no: ulp >= 4 > decreasing) and an increase; float32 and float64 tensors
           (2.0 ** 25, 2.0 ** 25, 0, 'f32'), (2.0 ** 25, 2.0 ** 25 - 4.0, 0, 'f32'), (2.0 ** 25, 2.0 ** 25 + 4.0, 0, 'f32'), (32768.0, 32768.0, 0, 'f32'),
           (2.0 ** 55, 2.0 ** 55, 0, 'f64'), (2.0 ** 55, 2.0 ** 55 - 8.0, 0, 'f64'), (2.0 ** 60, 2.0 ** 60, 2, 'f64')]
    ins = [t if len(t) == 4 else t + ('f64',) for t in ins]
    for cfg in scfgs:
        for steps in range(0, 8):
            for pc in range(0, 6):
                for cont in (True, False):
                    for (la, lo, rj, dtn) in ins:
                        dtp = torch.float32 if dtn == 'f32' else torch.float64
                        if not ctx.thorough and (steps + pc + len(so_meta)) % 3 and steps not in (cfg[0] - 1, cfg[0]) and pc not in (cfg[1] - 1, cfg[1]):
                            continue
                        sch = StopOnPlateau(opt, steps=cfg[0], patience=cfg[1], decreasing=cfg[2])
                        sch.steps, sch.patience_count, sch._continual = steps, pc, cont
                        opt.last, opt.loss, opt.reject_count = torch.tensor(la, dtype=dtp), torch.tensor(lo, dtype=dtp), rj
                        sch.step(opt.loss)
                        after = (sch.steps, sch.patience_count, bool(sch.continual()))
                        so_meta.append(dict(kind='sop-trans', cfg=cfg, state=(steps, pc, cont), inp=(la, lo, rj), dtype=dtn, after=after))
                        ctx.case(('sop', cfg, steps, pc, cont, la, lo, rj, dtn), branch='sop-transition')
                        so_cases.append('(%d%%nat, (%d%%Z, %d%%Z, %s), (%d%%Z, %d%%Z, %s), (%s, %s, %d%%nat), (%d%%Z, %d%%Z, %s))' % (
                            len(so_meta) - 1, cfg[0], cfg[1], qlit(cfg[2]), steps, pc, b(cont), qlit(la), qlit(lo), rj, after[0], after[1], b(after[2])))
    for si, sh in enumerate(shard(so_cases, 500)):
        files.append(('sopT_%03d' % si, hdr + 'Eval vm_compute in sop_trans_bad %s.\n' % coq_list(sh)))
    ctx.samples.append(so_meta[len(so_meta) // 3])
    # ------------------------------------------------------------------ traces with resets (random, long)
    ntr = ctx.scale(60, 600)
    tr_meta, tr_cases = [], []
    for t in range(ntr):
        cfg = (rng.randint(1, 40), rng.randint(1, 6), rng.choice([1.0, 0.25, 0.001, 0.5]), rng.choice([0.125, 1e-5, 2.0]))
        st = ReduceToBason(steps=cfg[0], patience=cfg[1], decreasing=cfg[2], tol=cfg[3])
        nb = rng.choice([1, 1, 1, 2, 3])
        cur = [rng.choice([8.0, 16.0, 100.0]) for _ in range(nb)]
        ops, trace = [], []
        for k in range(rng.randint(5, 60)):
            if rng.random() < 0.07:
                st.reset()
                ops.append(None)
            else:
                mode = rng.random()
                cur = [max(0.0, c * rng.choice([0.5, 0.75, 1.0, 1.0, 1.25, 0.999, 0.03125]) if mode < 0.8 else dy_pos(rng)) for c in cur]
                loss = list(cur)
                # a python float is turned into a float32 tensor by step(): only pass one when that is exact
                f32_exact = float(torch.tensor(loss[0])) == loss[0]
                st.step(torch.tensor(loss, dtype=torch.float64) if nb > 1 or rng.random() < 0.5 or not f32_exact else loss[0])
                ops.append(loss)
            trace.append((st.steps, st.patience_count, bool(st.continual())))
        ctx.case(('rtb-trace', t, cfg, len(ops)), branch='rtb-trace')
        ctx.traces += 1
        tr_meta.append(dict(kind='rtb-trace', cfg=cfg, ops=ops, trace=trace))
        # the Q value of cfg floats is exact (Fraction(float))
        tr_cases.append('(%d%%nat, (%d%%Z, %d%%Z, %s, %s), %s, %s)' % (
            t, cfg[0], cfg[1], qlit(cfg[2]), qlit(cfg[3]),
            coq_list(('inr tt' if o is None else 'inl ' + qlist(o)) for o in ops),
            coq_list('(%d%%Z, %d%%Z, %s)' % (a, p, b(c)) for a, p, c in trace)))
    for si, sh in enumerate(shard(tr_cases, 100)):
        files.append(('rtbTr_%03d' % si, hdr + 'Eval vm_compute in rtb_trace_bad %s.\n' % coq_list(sh)))
    ctx.samples.append(dict(tr_meta[0], ops=tr_meta[0]['ops'][:6], trace=tr_meta[0]['trace'][:6]))
    # ------------------------------------------------------------------ real driver loops
    dr_cases_rtb, dr_cases_sop, dr_meta_rtb, dr_meta_sop = [], [], [], []
    # scheduler.optimize with a real LM
    class Quad(torch.nn.Module):
        def __init__(self, x0):
            super().__init__()
            self.x = torch.nn.Parameter(torch.tensor(x0, dtype=torch.float64))

        def forward(self, inp):
            return (self.x ** 2 - inp)
    for t in range(ctx.scale(12, 60)):
        cfg = (rng.randint(1, 8), rng.randint(1, 4), rng.choice([1e-3, 0.25, 1e-9]))
        model = Quad([rng.uniform(0.5, 3.0), rng.uniform(-2, 2)])
        opt2 = pp.optim.LM(model, strategy=pp.optim.strategy.Constant(damping=rng.choice([1e-6, 1e-2, 10.0])), reject=rng.choice([0, 1, 16]))
        sch = StopOnPlateau(opt2, steps=cfg[0], patience=cfg[1], decreasing=cfg[2])
        rec = []
        orig = sch.step

        def stepw(loss, sch=sch, orig=orig, rec=rec, opt2=opt2):
            rec.append((float(opt2.last), float(opt2.loss), int(opt2.reject_count)))
            return orig(loss)
        sch.step = stepw
        calls = [0]
        ostep = opt2.step

        def cstep(*a, calls=calls, ostep=ostep, **k):
            calls[0] += 1
            return ostep(*a, **k)
        opt2.step = cstep
        sch.optimize(input=torch.tensor([1.0, 2.0], dtype=torch.float64))
        n = len(rec)
        if calls[0] != n or n > max(1, cfg[0]):
            ctx.violation('optimize-exceeds-budget', 'scheduler.optimize made %d optimizer steps with steps=%d' % (calls[0], cfg[0]), dict(kind='optimize', cfg=cfg))
        ctx.case(('optimize', t, cfg, n), branch='driver-optimize')
        ctx.traces += 1
        dr_meta_sop.append(dict(kind='optimize', cfg=cfg, stream=rec, n=n))
        dr_cases_sop.append('(%d%%nat, (%d%%Z, %d%%Z, %s), %s, %d%%nat)' % (t, cfg[0], cfg[1], qlit(cfg[2]),
                            coq_list('(%s, %s, %d%%nat)' % (qlit(a), qlit(c), r) for a, c, r in rec), n))
    files.append(('sopD', hdr + 'Eval vm_compute in sop_drive_bad %s.\n' % coq_list(dr_cases_sop)))
    # ICP and MPC with a recording stepper
    class Rec(ReduceToBason):
        def __init__(self, *a, **k):
            super().__init__(*a, **k)
            self.rec, self.nsteps = [], 0

        def step(self, loss):
            self.rec.append([float(v) for v in torch.as_tensor(loss).reshape(-1).tolist()])
            self.nsteps += 1
            return super().step(loss)

        def reset(self):
            self.rec, self.nsteps = [], 0
            return super().reset()
    k = 0
    for t in range(ctx.scale(10, 40)):
        steps, pat = rng.randint(1, 7), rng.randint(1, 4)
        dec, tol = rng.choice([1e-3, 0.25]), rng.choice([1e-5, 1e-2])
        g = torch.Generator().manual_seed(ctx.seed * 1000 + t)
        src = torch.randn(1, 30, 3, generator=g, dtype=torch.float64)
        T = pp.randn_SE3(1, sigma=0.05, dtype=torch.float64, generator=g) if False else pp.SE3(torch.tensor([[0.05, -0.02, 0.03, 0.0, 0.0, 0.01, 1.0]], dtype=torch.float64))
        tgt = T.unsqueeze(-2).Act(src)
        st = Rec(steps=steps, patience=pat, decreasing=dec, tol=tol)
        icp = pp.module.ICP(stepper=st)
        try:
            icp(src, tgt)
        except Exception as e:
            ctx.notes.append('ICP raised %r' % (e,))
            continue
        n = st.nsteps
        if n > max(1, steps):
            ctx.violation('icp-exceeds-budget', 'ICP made %d controller steps with steps=%d' % (n, steps), dict(kind='icp', steps=steps, patience=pat, dec=dec, tol=tol, t=t))
        ctx.case(('icp', t, steps, pat, n), branch='driver-icp')
        ctx.traces += 1
        dr_meta_rtb.append(dict(kind='icp', cfg=(steps, pat, dec, tol), stream=st.rec, n=n))
        dr_cases_rtb.append('(%d%%nat, (%d%%Z, %d%%Z, %s, %s), %s, %d%%nat)' % (k, steps, pat, qlit(dec), qlit(tol), coq_list(qlist(l) for l in st.rec), n))
        k += 1
    for t in range(ctx.scale(8, 30)):
        steps, pat = rng.randint(1, 6), rng.randint(1, 4)
        dec, tol = rng.choice([1e-3, 0.25]), 1e-9
        try:
            n_state, n_ctrl, Th = 2, 1, 3
            g = torch.Generator().manual_seed(ctx.seed * 77 + t)
            A = torch.eye(n_state, dtype=torch.float64) + 0.1 * torch.randn(n_state, n_state, generator=g, dtype=torch.float64)
            B = torch.randn(n_state, n_ctrl, generator=g, dtype=torch.float64)
            C = torch.eye(n_state, dtype=torch.float64)
            D = torch.zeros(n_state, n_ctrl, dtype=torch.float64)
            lti = pp.module.LTI(A, B, C, D)
            Q = torch.tile(torch.eye(n_state + n_ctrl, dtype=torch.float64), (1, Th, 1, 1))
            p = torch.randn(1, Th, n_state + n_ctrl, generator=g, dtype=torch.float64)
            st = Rec(steps=steps, patience=pat, decreasing=dec, tol=tol)
            mpc = pp.module.MPC(lti, Q, p, Th, stepper=st)
            x0 = torch.randn(1, n_state, generator=g, dtype=torch.float64)
            mpc(1, x0)
        except Exception as e:
            ctx.notes.append('MPC raised %r' % (e,))
            continue
        n = st.nsteps
        if n > max(1, steps):
            ctx.violation('mpc-exceeds-budget', 'MPC made %d controller steps with steps=%d' % (n, steps), dict(kind='mpc', steps=steps, patience=pat, t=t))
        ctx.case(('mpc', t, steps, pat, n), branch='driver-mpc')
        ctx.traces += 1
        dr_meta_rtb.append(dict(kind='mpc', cfg=(steps - 1, pat, dec, tol), stream=st.rec, n=n))
        # the constructor lowered max_steps by one: the model config is mpc_cfg
        dr_cases_rtb.append('(%d%%nat, (%d%%Z, %d%%Z, %s, %s), %s, %d%%nat)' % (k, steps - 1, pat, qlit(dec), qlit(tol), coq_list(qlist(l) for l in st.rec), n))
        k += 1
    files.append(('rtbD', hdr + 'Eval vm_compute in rtb_drive_bad %s.\n' % coq_list(dr_cases_rtb)))
    if dr_meta_rtb:
        ctx.samples.append(dr_meta_rtb[0])
    # ------------------------------------------------------------------ run Coq
    res = run_case_files('C20', files, timeout=900)
    table = dict(rtbT=rt_meta, rtbR=rs_meta, sopT=so_meta, rtbTr=tr_meta, sopD=dr_meta_sop, rtbD=dr_meta_rtb)
    for name, (rc, out) in sorted(res.items()):
        ev = parse_evals(out)
        if rc != 0 or len(ev) != 1:
            ctx.obligation_broken('correspondence-file:' + name, out[-1500:])
            continue
        fam = name.split('_')[0]
        off = int(name.split('_')[1]) * (500 if fam in ('rtbT', 'sopT') else 100) if '_' in name else 0
        for i in parse_nat_list(ev[0]):
            ctx.mismatch(fam, table[fam][i])
    ctx.exhaustive = True
    # ------------------------------------------------------------------ search: the documented conditions, directly
    perfam = {}
    for m in ctx.mismatches:
        perfam.setdefault(m['family'], []).append(m)
    for m in [x for fam in perfam.values() for x in fam[:25]]:
        why = replay(ctx, m['case'])
        if why:
            m['explained'] = True
            ctx.violation('controller:' + m['case']['kind'], why, m['case'])


def dy_pos(rng):
    return rng.randint(0, 512) / 32.0


def shard(items, n):
    return [items[k:k + n] for k in range(0, len(items), n)]


# ---------------------------------------------------------------------------------------------
# independent statement of the documented behaviour (python, exact rationals), used by search / replay
def doc_rtb(cfg, state, loss):
    steps, pc, last, cont = state
    mx, pat, dec, tol = cfg
    steps += 1
    INF = float('inf')
    fails = []
    for i, x in enumerate(loss):
        l = INF if last is None else last[i]
        if x == 0:
            q = float('nan') if l == 0 else (INF if l > 0 else -INF)
        elif l == INF:
            q = INF if x > 0 else -INF
        else:
            q = Fraction(l) - Fraction(x)
            q = q / Fraction(x)
        fails.append(q < Fraction(dec) if isinstance(q, Fraction) else q < dec)
    failed = all(fails)
    pc = pc + 1 if failed else 0
    stop = all(x < tol for x in loss) or steps >= mx or pc >= pat
    return (steps, pc, list(loss), cont and not stop)


def replay(ctx, c):
    pp = import_pypose()
    import torch
    from pypose.utils.stepper import ReduceToBason
    from pypose.optim.scheduler import StopOnPlateau
    k = c.get('kind')
    if k == 'rtb-trans':
        cfg, (steps, pc, lastv, cont), loss = c['cfg'], c['state'], c['loss']
        st = ReduceToBason(steps=cfg[0], patience=cfg[1], decreasing=cfg[2], tol=cfg[3])
        st.steps, st.patience_count, st._continual = steps, pc, cont
        st.last = torch.tensor(float('inf')) if lastv is None else torch.tensor(lastv, dtype=torch.float64)
        st.step(torch.tensor(loss, dtype=torch.float64))
        got = (st.steps, st.patience_count, [float(v) for v in torch.as_tensor(st.last).reshape(-1).tolist()], bool(st.continual()))
        exp = doc_rtb(cfg, (steps, pc, lastv, cont), loss)
        if got != exp:
            return 'ReduceToBason(steps=%s,patience=%s,decreasing=%s,tol=%s) in state (steps,patience_count,last,continual)=%s stepped with loss %s gives %s; documented conditions give %s' % (cfg + ((steps, pc, lastv, cont), loss, got, exp))
        return None
    if k == 'sop-trans':
        cfg, (steps, pc, cont), (la, lo, rj) = c['cfg'], c['state'], c['inp']

        class M(torch.nn.Module):
            def __init__(self):
                super().__init__()
                self.p = torch.nn.Parameter(torch.ones(1))

            def forward(self, x):
                return self.p * x
        opt = pp.optim.LM(M())
        sch = StopOnPlateau(opt, steps=cfg[0], patience=cfg[1], decreasing=cfg[2])
        sch.steps, sch.patience_count, sch._continual = steps, pc, cont
        dtp = torch.float32 if c.get('dtype') == 'f32' else torch.float64
        opt.last, opt.loss, opt.reject_count = torch.tensor(la, dtype=dtp), torch.tensor(lo, dtype=dtp), rj
        sch.step(opt.loss)
        got = (sch.steps, sch.patience_count, bool(sch.continual()))
        pc2 = pc + 1 if (Fraction(la) - Fraction(lo)) < Fraction(cfg[2]) else 0
        exp = (steps + 1, pc2, cont and not (steps + 1 >= cfg[0] or pc2 >= cfg[1] or rj > 0))
        if got != exp:
            return 'StopOnPlateau(steps=%s,patience=%s,decreasing=%s) state %s input (last,loss,reject_count)=%s gives %s; documented conditions give %s' % (cfg + ((steps, pc, cont), (la, lo, rj), got, exp))
        return None
    if k == 'rtb-trace':
        cfg = c['cfg']
        st = ReduceToBason(steps=cfg[0], patience=cfg[1], decreasing=cfg[2], tol=cfg[3])
        state = (0, 0, None, True)
        for i, o in enumerate(c['ops']):
            if o is None:
                st.reset()
                # documented: reset restores the initial state (observable behaviour)
                state = (0, 0, None, True)
                continue
            st.step(torch.tensor(o, dtype=torch.float64))
            state = doc_rtb(cfg, state, o)
            got = (st.steps, bool(st.continual()))
            if got != (state[0], state[3]):
                return 'ReduceToBason%s after %d ops of %s: (steps, continual)=%s, documented %s' % (cfg, i + 1, c['ops'][:i + 1], got, (state[0], state[3]))
        return None
    return None
