"""C09 correspondence: pypose.optim.kernel / pypose.optim.corrector vs Model/Kernel.v.

(A) exact route (Q, vm_compute): kernels where the arithmetic is rational - Huber on perfect squares
    (below / exactly at / above the threshold, value and autograd's rho', rho''), Scale (negative
    input included), and for all seven kernels the inputs / parameters on which forward / __init__
    raise.  float64 == model over Q, bit for bit.
(B) enclosure route (R, interval; run_enclosure): value, rho', rho'' of all seven kernels over the
    delta / a / b ranges (a/|b| <= 50) and x in {0, tiny, around the Huber threshold, O(delta^2), up to
    1e12}; rho', rho'' are what torch.autograd returns on the real kernel, so the model's
    kernel_d1 / kernel_d2 (proved to be the true derivatives) are tied to autograd.
(C) correctors: the real FastTriggs / Triggs on residual tensors of shape (..., d), d = 1..6, with
    built-in and user kernels (rho'' > 0, = 0, < 0), zero residuals, threshold residuals; every block
    of R', J' is enclosed against fasttriggs_l / triggs_l fed with the g1, g2 that
    Triggs.compute_grads itself returned; g1, g2 are compared with the true derivatives (mpmath).
(D) law checker (independent of the Coq model; exact Fractions + mpmath): both sides of
    J'^T R' = sum rho' J^T R and J'^T J' = sum rho' J^T J + 2 rho'' J^T R R^T J computed from the
    implementation's outputs; kernel clauses (closed form, zero at zero, finite, monotone, rejects
    negative) on the implementation's values.
(E) histories, non-mutation, call forms, memory layouts (the property holds "for any R, J" the caller built, on every
    call): every judged kernel / corrector call is the 2nd or later call on its object after a call with other
    arguments; one kernel object is shared by compute_grads, FastTriggs and Triggs; the SAME pair of tensors (R, J)
    is handed to FastTriggs, Triggs, FastTriggs, Triggs without cloning; every tensor argument (and the base that
    owns the storage of a view) is snapshotted before and compared bit for bit after each call, with shape / stride
    / requires_grad (keys mutation:<function>); the 1st and the 2nd result on the same tensors must be equal
    (keys <function>:reuse); the law checker and the model judge the LATER calls against private copies of the
    data; R, J, x rotate through contiguous / transposed / strided-slice-of-a-larger-base / expand()ed stride-0 /
    empty layouts and the calls through keyword, positional, .forward and torch.no_grad() forms.
(F) ambient grad modes x argument kinds (run_grad_modes): every corrector x kernel (the seven built-in ones, Tolerant with
    a/|b| = 45, user kernels with rho'' > 0, = 0, < 0; zero / threshold / generic blocks in one tensor) and
    Triggs.compute_grads, on objects shared by all modes, under default / torch.no_grad() (context and decorator, as
    GN.step / LM.step call the corrector) / enable_grad / set_grad_enabled(False) / no_grad>enable_grad /
    enable_grad>no_grad, with R, J plain / leaf requiring grad / non-leaf with a graph / inference tensors; the law
    checker judges every distinct output, compute_grads' rho', rho'' are compared with mpmath, arguments compared bit
    for bit and torch.is_grad_enabled() compared after each call; the built-in kernels' forward (values against the
    closed form, rejection of a negative entry) in the same modes.  Ambient torch.inference_mode() is outside the
    property (autograd cannot record there; FastTriggs asserts it).  The repaired-defect witnesses are also tied to
    the model under torch.no_grad().
The witnesses of the defects repaired in /repo (e6f8307 Scale accepted negative input, 298dcfc
Triggs dropped R on masked blocks, af4d69c Triggs raised for constant-slope kernels, 3a06748 Triggs raised for a
column-major J with R of shape (2, 2, 1)) are directed
regression cases of every run.
"""
import math
from ..common import *

K_EPS = 64
EPS = 2.0 ** -52
LAW_TOL = 1e-9
# the two families of case files run concurrently on >= 12 workers (half the workers each), else one after the other
NFILES = max(1, NCPU // 2) if NCPU >= 12 else max(1, NCPU)
KNAMES = ['Huber', 'PseudoHuber', 'Cauchy', 'SoftLOne', 'Arctan', 'Tolerant', 'Scale']
USER = ['Sq', 'Id', 'S1', 'L1', 'P25', 'NegSq', 'Shift']      # user kernels, see user_kernel()
RULE = ('kernels: (kernel, p1, p2, x) with delta log-uniform in [1e-3, 1e3] (Scale: (0,1]), Tolerant a in [1e-2,1e2], a/|b| in [0.01,50]; '
        'x in {0, 1e-12..1e-3, delta^2 (1 +- 1e-6..0.3), delta^2 U(0.01,10), 1e3..1e12}, evaluated inside tensors of mixed entries; exact block: '
        'Huber on perfect squares (below / at / above threshold), Scale, negative inputs, rejected parameters; a case is non-trivial when x != 0; '
        'distinct by value.  correctors: (corrector, kernel, R of shape batch+(d,), J of shape (N d, p)), d in 1..6, p in 1..4, entries = small '
        'dyadics / gaussians / zero blocks / blocks exactly at the Huber threshold; one case per block and corrector, non-trivial when R_i != 0; '
        'every judged call is the 2nd+ call on its object and on the SAME tensors (FastTriggs, Triggs, FastTriggs, Triggs without cloning); arguments and view bases '
        'snapshotted and compared bit for bit after every call; layouts contiguous / transposed / strided / expanded / empty, forms keyword / positional / forward / no_grad rotate; '
        'grad modes: (corrector or compute_grads or kernel, kernel, ambient mode in default / no_grad / no_grad decorator / enable_grad / set_grad_enabled(False) / nested, '
        'R and J plain / leaf / graph / inference tensor), one tensor per kernel with zero, threshold and generic blocks, law checker on every distinct output; '
        'tolerance %d eps relative to the magnitude of the intermediate terms of the coded formula; law tolerance %g relative' % (K_EPS, LAW_TOL))



# ------------------------------------------------------------------ the implementation
def make_kernel(pp, kid, p1, p2):
    K = pp.optim.kernel
    if kid == 5:
        return K.Tolerant(a=p1, b=p2)
    return getattr(K, KNAMES[kid])(delta=p1) if kid != 4 else K.Arctan(delta=p1)


def user_kernel(torch, name):
    class Sq(torch.nn.Module):        # rho'' = 2 > 0
        def forward(self, x):
            return x * x

    class Id(torch.nn.Module):        # rho'' = 0, rho' constant in the graph
        def forward(self, x):
            return x

    class S1(torch.nn.Module):        # rho'' < 0
        def forward(self, x):
            return (1 + x).sqrt()

    class L1(torch.nn.Module):        # rho'' < 0
        def forward(self, x):
            return (1 + x).log()

    class P25(torch.nn.Module):       # rho'' > 0, not constant
        def forward(self, x):
            return x.pow(2.5)

    class NegSq(torch.nn.Module):     # rho' < 0: sqrt(rho') is NaN
        def forward(self, x):
            return -(x * x)

    class Shift(torch.nn.Module):     # rho' = 0 at x = 4 with rho'' > 0
        def forward(self, x):
            return (x - 4) * (x - 4)
    return dict(Sq=Sq, Id=Id, S1=S1, L1=L1, P25=P25, NegSq=NegSq, Shift=Shift)[name]()


def autograd12(torch, kernel, xs):
    """rho'(x), rho''(x) of a kernel by torch.autograd, as Triggs.compute_grads does; g2 = None when
    rho' does not depend on x in the graph"""
    x = torch.tensor(xs, dtype=torch.float64).requires_grad_(True)
    with torch.enable_grad():
        y = kernel(x).sum()
        g1 = torch.autograd.grad(y, x, create_graph=True)[0]
        if g1.requires_grad:
            g2 = torch.autograd.grad(g1.sum(), x)[0].tolist()
        else:
            g2 = None
    return g1.detach().tolist(), g2


# ------------------------------------------------------------------ independent oracle (mpmath)
def mpf(v):
    import mpmath as mp
    f = F(v)
    return mp.mpf(f.numerator) / mp.mpf(f.denominator)


def true_rho(kind, p1, p2, x):
    """(rho, rho', rho'') at x >= 0 from the documented closed forms / the user kernels' formulas;
    written from the property text, 50 digits.  kind = kernel id or user kernel name."""
    import mpmath as mp
    mp.mp.dps = 50
    x = mpf(x)
    if isinstance(kind, str):
        if kind == 'Sq':
            return x * x, 2 * x, mp.mpf(2)
        if kind == 'Id':
            return x, mp.mpf(1), mp.mpf(0)
        if kind == 'S1':
            return mp.sqrt(1 + x), 1 / (2 * mp.sqrt(1 + x)), -1 / (4 * (1 + x) * mp.sqrt(1 + x))
        if kind == 'L1':
            return mp.log(1 + x), 1 / (1 + x), -1 / ((1 + x) ** 2)
        if kind == 'P25':
            return x * x * mp.sqrt(x), mp.mpf(5) / 2 * x * mp.sqrt(x), mp.mpf(15) / 4 * mp.sqrt(x)
        if kind == 'NegSq':
            return -x * x, -2 * x, mp.mpf(-2)
        if kind == 'Shift':
            return (x - 4) ** 2, 2 * (x - 4), mp.mpf(2)
        raise ValueError(kind)
    d = mpf(p1)
    d2 = d * d
    if kind == 0:
        if mp.sqrt(x) < d:
            return x, mp.mpf(1), mp.mpf(0)
        return 2 * d * mp.sqrt(x) - d2, d / mp.sqrt(x), -d / (2 * x * mp.sqrt(x))
    if kind == 1:
        w = 1 + x / d2
        return 2 * d2 * (mp.sqrt(w) - 1), 1 / mp.sqrt(w), -1 / (2 * d2 * w * mp.sqrt(w))
    if kind == 2:
        w = 1 + x / d2
        return d2 * mp.log(w), 1 / w, -1 / (d2 * w * w)
    if kind == 3:
        w = 1 / d2 + x
        return 2 * (d * mp.sqrt(w) - 1), d / mp.sqrt(w), -d / (2 * w * mp.sqrt(w))
    if kind == 4:
        u = x / d2
        return d2 * mp.atan(u), 1 / (1 + u * u), -2 * u / (d2 * (1 + u * u) ** 2)
    if kind == 5:
        a, b = d, mpf(p2)
        e = mp.exp((x - a) / b)
        return b * mp.log(1 + e) - b * mp.log(1 + mp.exp(-a / b)), e / (1 + e), e / (b * (1 + e) ** 2)
    return d * x, d, mp.mpf(0)


def value_scales(kid, p1, p2, x):
    """magnitudes of the intermediate terms of the coded expressions: the value tolerance is
    K_EPS * eps * (|value| + first entry); the slopes are relative with the factors (1 + entry)"""
    d2 = p1 * p1
    if kid == 0:
        return d2 + 2 * p1 * math.sqrt(x) + x, 0.0, 0.0
    if kid == 1:
        return 2 * d2 * math.sqrt(x / d2 + 1), 0.0, 0.0
    if kid == 2:
        return d2 * (1 + abs(math.log1p(x / d2))), 0.0, 0.0
    if kid == 3:
        return 2 * p1 * math.sqrt(1 / d2 + x) + 2, 0.0, 0.0
    if kid == 4:
        return 0.0, 0.0, 0.0
    if kid == 5:
        u = abs((x - p1) / p2)
        s = abs(p2) * (abs(math.log1p(math.exp(min((x - p1) / p2, 700)))) + abs(math.log1p(math.exp(-p1 / p2)))) + abs(x - p1) + p1
        return s, u, u            # the derivative tolerances are relative: factor (1 + u)
    return 0.0, 0.0, 0.0


def kernel_tols(kid, p1, p2, x, y, g1, g2):
    sv, u1, u2 = value_scales(kid, p1, p2, x)
    # Tolerant: autograd forms rho'' as the difference e'/(1+e) - e e'/(1+e)^2 of terms of size rho'/|b|
    c2 = abs(g1 / p2) if kid == 5 else 0.0
    return (K_EPS * EPS * (abs(y) + sv) + 1e-300,
            K_EPS * EPS * abs(g1) * (1 + u1) + 1e-300,
            K_EPS * EPS * (abs(g2) + c2) * (1 + u2) + 1e-300)


def kernel_law(kid, p1, p2, x, y, g1, g2):
    """the implementation's value / autograd slopes against the documented closed form; None = fine"""
    r, r1, r2 = true_rho(kid, p1, p2, x)
    ty, t1, t2 = kernel_tols(kid, p1, p2, x, y, g1, 0.0 if g2 is None else g2)
    bad = []
    if not all(math.isfinite(v) for v in (y, g1, 0.0 if g2 is None else g2)):
        return 'kernel %s(%r,%r)(%r) = %r with autograd slopes %r, %r: not finite' % (KNAMES[kid], p1, p2, x, y, g1, g2)
    if abs(mpf(y) - r) > 2 * ty:
        bad.append('value %r differs from the closed form %s' % (y, r))
    if x == 0 and abs(y) > 2 * ty:
        bad.append('value at zero is %r' % y)
    if abs(mpf(g1) - r1) > 2 * t1 + 2 * K_EPS * EPS * abs(r1):
        bad.append("autograd rho' %r differs from %s" % (g1, r1))
    at_threshold = kid == 0 and F(x) == F(p1) * F(p1)
    if g2 is not None and not at_threshold and abs(mpf(g2) - r2) > 2 * t2 + 2 * K_EPS * EPS * abs(r2):
        bad.append("autograd rho'' %r differs from %s" % (g2, r2))
    return '; '.join(bad) if bad else None



# ------------------------------------------------------------------ (E) layouts, snapshots, call forms
LAYOUTS = ['contig', 'transposed', 'strided', 'expanded']
FORMS = ['kw', 'pos', 'forward', 'kw-nograd', 'pos-nograd']
JUNK = 777.25


def laid_out(torch, vals, shape, lay):
    """(tensor with the given values and shape in memory layout `lay`, the contiguous tensor that owns its
    storage).  'expanded' needs equal rows along dim -2 (else contiguous); 'transposed' needs >= 2 dims."""
    t = torch.tensor(vals, dtype=torch.float64).reshape(shape)
    if lay == 'transposed' and t.dim() >= 2:
        base = t.transpose(-1, -2).contiguous()
        return base.transpose(-1, -2), base
    if lay == 'strided' and t.dim() >= 1 and t.numel() > 0:
        base = torch.full([2 * n + 1 for n in t.shape], JUNK, dtype=torch.float64)
        idx = tuple(slice(1, 2 * n, 2) for n in t.shape)
        base[idx] = t
        return base[idx], base
    if lay == 'expanded' and t.dim() >= 2 and t.shape[-2] >= 2 and bool((t == t[..., :1, :]).all()):
        base = t[..., :1, :].contiguous()
        return base.expand(t.shape), base
    return t, t


def tensor_meta(t):
    return (tuple(t.shape), tuple(t.stride()), t.storage_offset(), bool(t.requires_grad), str(t.dtype), t.grad is None)


def snapshot(named):
    """named = [(name, tensor, base)]"""
    return [(n, t, b, b.detach().clone(), tensor_meta(t)) for n, t, b in named]


def changed(torch, snap):
    """texts, one per argument that is not bit for bit what it was (or whose shape / stride / flags changed)"""
    out = []
    for n, t, b, s, m in snap:
        bd = b.detach()
        if tuple(bd.shape) != tuple(s.shape) or not bd.is_contiguous():
            out.append('%s: the storage was resized / restrided (%s -> %s)' % (n, tuple(s.shape), tuple(bd.shape)))
        elif not torch.equal(bd.view(torch.int64), s.view(torch.int64)):
            w = (bd.view(torch.int64) != s.view(torch.int64)).nonzero()[0].tolist()
            out.append('%s was modified in place: entry %s of its storage was %r and is %r after the call'
                       % (n, w, float(s[tuple(w)]), float(bd[tuple(w)])))
        elif tensor_meta(t) != m:
            out.append('%s: (shape, stride, offset, requires_grad, dtype, grad is None) changed from %s to %s' % (n, m, tensor_meta(t)))
    return out


def call_form(torch, cor, form, R, J):
    import contextlib
    with (torch.no_grad() if form.endswith('nograd') else contextlib.nullcontext()):
        if form.startswith('pos'):
            return cor(R, J)
        if form.startswith('forward'):
            return cor.forward(R, J)
        return cor(R=R, J=J)


def same_bits(torch, a, b):
    a, b = a.detach().contiguous(), b.detach().contiguous()
    return a.shape == b.shape and a.dtype == b.dtype and (a.dtype != torch.float64 or torch.equal(a.view(torch.int64), b.view(torch.int64)))


def kernel_tensor(pp, torch, k, name, xs, shape, lay):
    """the kernel object k on ONE tensor holding xs: warm-up call with other arguments, then two calls on the same
    tensor.  Returns (ys of the 2nd call or None, [(key, text)])."""
    n = len(xs)
    if lay == 'expanded':
        base = torch.tensor(xs, dtype=torch.float64).reshape(1, n)
        xt = base.expand(3, n)
    else:
        xt, base = laid_out(torch, xs, shape, lay)
    finds = []
    try:
        k(torch.tensor([[0.5], [2.0], [0.0]], dtype=torch.float64))
    except Exception:  # noqa  (judged elsewhere)
        pass
    snap = snapshot([('input', xt, base)])
    ys = []
    for rnd in (1, 2):
        try:
            y = k(xt)
        except Exception as e:  # noqa
            finds.append(('kernel:%s:raises' % name, 'call %d on the same %s tensor %r raised %r' % (rnd, lay, xs, e)))
            return None, finds
        ws = changed(torch, snap)
        for w in ws:
            finds.append(('mutation:kernel.%s.forward' % name, 'call %d of %s.forward on a %s tensor holding %r: %s' % (rnd, name, lay, xs, w)))
        if ws:
            snap = snapshot([('input', xt, base)])
        if not hasattr(y, 'shape') or tuple(y.shape) != tuple(xt.shape):
            finds.append(('kernel:%s:shape' % name, '%s.forward returned shape %s for an input of shape %s' % (name, tuple(getattr(y, 'shape', ())), tuple(xt.shape))))
            return None, finds
        ys.append(y.detach().clone())
    if not same_bits(torch, ys[0], ys[1]):
        finds.append(('kernel:%s:reuse' % name, 'two calls of %s.forward on the same %s tensor %r returned %r and %r' % (name, lay, xs, ys[0].reshape(-1).tolist(), ys[1].reshape(-1).tolist())))
    y = ys[1]
    if lay == 'expanded':
        if not (same_bits(torch, y[0], y[1]) and same_bits(torch, y[0], y[2])):
            finds.append(('kernel:%s:layout' % name, '%s.forward on the expand()ed rows %r returned different rows %r' % (name, xs, y.tolist())))
        y = y[2]
    return y.reshape(-1).tolist(), finds


# ------------------------------------------------------------------ (A) exact block
def exact_cases(ctx, pp, torch):
    """[(kid, p1, p2, x)] with rational arithmetic or a raise"""
    rng = ctx.rng
    cs = []
    pw2 = [0.25, 0.5, 1.0, 2.0, 4.0]
    for d in [0.25, 0.5, 1.0, 2.0, 4.0, 1.5, 0.75, 3.0]:
        ss = [0.0] + [d * k / 8 for k in range(1, 8)]                 # below the threshold
        ss += [s for s in pw2 + [8.0, 16.0] if s >= d]                # at (d a power of two) / above
        for s in ss:
            cs.append((0, d, 0.0, s * s))
    for d in [1.0, 0.5, 0.25, 0.75, 2.0 ** -10]:
        for x in [0.0, 1.0, 3.5, 1024.0, -1.0, -0.125, -1e300]:
            cs.append((6, d, 0.0, x))
    for kid in range(6):                                             # negative input is rejected
        for x in [-1.0, -2.0 ** -40, -1e30, -5e-324]:
            p1 = rng.choice([0.5, 1.0, 3.0])
            cs.append((kid, p1, -0.5 if kid == 5 else 0.0, x))
    cs.append((0, 1.0, 0.0, -0.0))                                   # -0.0 >= 0: accepted, value 0
    for (kid, p1, p2) in [(0, 0.0, 0.0), (0, -1.0, 0.0), (1, 0.0, 0.0), (1, -2.0, 0.0), (2, 0.0, 0.0), (2, -0.5, 0.0),
                          (3, 0.0, 0.0), (3, -1.0, 0.0), (5, 0.0, -1.0), (5, -1.0, -1.0), (5, 1.0, 0.0), (5, 1.0, 1.0),
                          (6, 0.0, 0.0), (6, -0.5, 0.0), (6, 1.5, 0.0), (6, 1.0, 0.0)]:
        cs.append((kid, p1, p2, 1.0))                                # __init__ assertions
    return cs


def impl_kernel_point(pp, torch, kid, p1, p2, x):
    """flat result of the real kernel on one element: [1, y, g1, g2] or [0] when it raises"""
    try:
        k = make_kernel(pp, kid, p1, p2)
    except AssertionError:
        return [0.0], 'init-raises'
    try:
        y = k(torch.tensor([x], dtype=torch.float64))
    except AssertionError:
        return [0.0], 'forward-raises'
    try:
        g1, g2 = autograd12(torch, k, [x])
    except Exception as e:  # noqa  (a kernel that returns a value must be differentiable by autograd)
        return [1.0, float(y[0]), float('nan'), float('nan')], 'autograd-raises: %r' % (e,)
    return [1.0, float(y[0]), g1[0], 0.0 if g2 is None else g2[0]], 'value'


def run_exact(ctx, pp, torch):
    cs = exact_cases(ctx, pp, torch)
    lits, meta = [], []
    for i, (kid, p1, p2, x) in enumerate(cs):
        out, how = impl_kernel_point(pp, torch, kid, p1, p2, x)
        if how.startswith('autograd-raises'):
            ctx.violation('kernel:%s:autograd-raises' % KNAMES[kid], '%s(%r,%r)(%r) returns %r but torch.autograd.grad of it raises: %s' % (KNAMES[kid], p1, p2, x, out[1], how),
                          dict(kind='kernel-value', kid=kid, p1=p1, p2=p2, x=x))
            how = 'value'
        br = 'exact:%s:%s' % (KNAMES[kid], how if how != 'value' else ('neg' if x < 0 else 'zero' if x == 0 else
                              ('below' if kid == 0 and x < p1 * p1 else 'at' if kid == 0 and x == p1 * p1 else 'above' if kid == 0 else 'pos')))
        ctx.case(('exact', kid, p1, p2, x), nontrivial=x != 0, branch=br,
                 sample=dict(kernel=KNAMES[kid], p1=p1, p2=p2, x=x, impl=out) if i in (12, 70) else None)
        meta.append(dict(kind='kernel', kid=kid, p1=p1, p2=p2, x=x, impl=out, how=how))
        if not all(math.isfinite(v) for v in out):
            # the model never returns a non-finite number: a disagreement without asking Coq
            ctx.mismatch('kernel-exact', meta[-1])
            if x >= 0:
                ctx.violation('kernel:%s:non-finite' % KNAMES[kid], '%s(%r,%r)(%r) returns %r' % (KNAMES[kid], p1, p2, x, out), dict(kind='kernel-value', kid=kid, p1=p1, p2=p2, x=x))
        else:
            lits.append('(%d%%nat, %d%%nat, %s, %s, %s, %s)' % (i, kid, qlit(p1), qlit(p2), qlit(x), qlist(out)))
        # the property's own clauses, checked on the implementation
        if x < 0 and how == 'value':
            ctx.violation('kernel:%s:negative-input:accepted' % KNAMES[kid],
                          '%s(%r).forward(%r) returns %r instead of rejecting the negative input' % (KNAMES[kid], p1, x, out[1]),
                          dict(kind='kernel-neg', kid=kid, p1=p1, p2=p2, x=x))
        if x >= 0 and how == 'value' and all(math.isfinite(v) for v in out):
            why = kernel_law(kid, p1, p2, x, out[1], out[2], out[3] if kid != 6 else None)
            if why:
                ctx.violation('kernel:%s:closed-form' % KNAMES[kid], why, dict(kind='kernel-value', kid=kid, p1=p1, p2=p2, x=x))
    body = ('From PV Require Import Base.Num Model.Kernel.\nFrom Coq Require Import List ZArith QArith Bool. Import ListNotations.\n'
            'Eval vm_compute in kernel_exact_bad %s.\n' % coq_list(lits))
    res = run_case_files('C09', [('exact', body)], timeout=600)
    rc, out = res['exact']
    ev = parse_evals(out)
    if rc != 0 or len(ev) != 1:
        ctx.obligation_broken('correspondence-file:exact', out[-1500:])
        return
    for i in parse_nat_list(ev[0]):
        ctx.mismatch('kernel-exact', meta[i])
    ctx.traces += len(cs)


# ------------------------------------------------------------------ (B) kernels, enclosure
def gen_params(rng, kid):
    if kid == 5:
        a = 10 ** rng.uniform(-2, 2)
        r = 10 ** rng.uniform(-2, math.log10(50))
        return a, -a / r
    if kid == 6:
        return rng.choice([1.0, 10 ** rng.uniform(-3, 0)]), 0.0
    d = 10 ** rng.uniform(-3, 3)
    if kid == 4 and rng.random() < 0.3:
        d = -d                                   # Arctan asserts nothing about delta
    return d, 0.0


def gen_x(rng, kid, p1, kind, p2=0.0):
    d2 = p1 * p1 if kid != 5 else p1
    if kind == 'zero':
        return 0.0
    if kind == 'tiny':
        return 10 ** rng.uniform(-12, -3)
    if kind in ('thr', 'thr-', 'thr+'):
        sg = {'thr-': -1, 'thr+': 1}.get(kind) or rng.choice([-1, 1])
        return d2 * (1 + sg * 10 ** rng.uniform(-6, -0.5))
    if kind == 'one':
        return d2 * rng.uniform(0.01, 10)
    if kid == 5:                                 # exp((x-a)/b): `interval` is slow beyond |u| ~ 1e6
        return p1 + abs(p2) * 10 ** rng.uniform(1.7, 5)
    return 10 ** rng.uniform(3, 12)


def run_kernel_enclosure(ctx, pp, torch):
    rng = ctx.rng
    ntens = ctx.scale(3, 60)
    kinds = ['zero', 'tiny', 'thr-', 'thr+', 'one', 'one', 'large']
    cases, meta = [], []
    for kid in range(7):
        for t in range(ntens):
            p1, p2 = gen_params(rng, kid)
            if t == 0:
                p1, p2 = {5: (1.0, -1.0)}.get(kid, (1.0, 0.0))           # the defaults
            if t == 1 and kid == 5:
                p1, p2 = 50.0, -1.0                                       # a/|b| = 50
            k = make_kernel(pp, kid, p1, p2)
            ks = list(kinds) if t < (2 if kid == 5 else 1) else [rng.choice(kinds) for _ in range(rng.randint(1, 6))]
            xs = [float(torch.tensor(gen_x(rng, kid, p1, kd, p2), dtype=torch.float64)) for kd in ks]
            xs = [x for x in xs if not (kid == 0 and F(x) == F(p1) ** 2)]     # exact ties: exact route
            if not xs:
                continue
            shape = rng.choice([(len(xs),), (1, len(xs)), (len(xs), 1)])
            lay = LAYOUTS[(t + kid) % len(LAYOUTS)]
            tens = dict(kid=kid, p1=p1, p2=p2, xs=xs, shape=list(shape), lay=lay)
            ys, finds = kernel_tensor(pp, torch, k, KNAMES[kid], xs, shape, lay)      # 2nd call on k, on a tensor it has seen
            ctx.count('kernel-layout:' + lay)
            for key, text in finds:
                ctx.violation(key, text, dict(tens, kind='kernel-tensor', key=key))
            if ys is None:
                continue
            try:
                g1s, g2s = autograd12(torch, k, xs)
            except Exception as e:  # the kernels must return on non-negative input
                ctx.violation('kernel:%s:raises' % KNAMES[kid], '%s(%r,%r) raised %r on %r' % (KNAMES[kid], p1, p2, e, xs),
                              dict(kind='kernel-value', kid=kid, p1=p1, p2=p2, x=xs[0]))
                continue
            prev = None
            for j in sorted((j for j in range(len(xs)) if math.isfinite(ys[j])), key=lambda j: xs[j]):   # monotone on the implementation
                ty = kernel_tols(kid, p1, p2, xs[j], ys[j], 0, 0)[0]
                if prev is not None and ys[j] < prev[1] - 2 * ty - 2 * prev[2]:
                    ctx.violation('kernel:%s:monotone' % KNAMES[kid], '%s(%r,%r): rho(%r)=%r > rho(%r)=%r' % (KNAMES[kid], p1, p2, prev[0], prev[1], xs[j], ys[j]),
                                  dict(kind='kernel-mono', kid=kid, p1=p1, p2=p2, x=prev[0], x2=xs[j]))
                prev = (xs[j], ys[j], ty)
            for j, x in enumerate(xs):
                y, g1 = ys[j], g1s[j]
                g2 = None if g2s is None else g2s[j]
                i = len(meta)
                reg = 'zero' if x == 0 else ('below' if x < p1 * p1 else 'above') if kid == 0 else ('large' if x >= 1e3 else 'pos')
                ctx.case(('kenc', kid, p1, p2, x), nontrivial=x != 0, branch='enclosure:%s:%s' % (KNAMES[kid], reg),
                         sample=dict(kernel=KNAMES[kid], p1=p1, p2=p2, x=x, value=y, d1=g1, d2=g2) if i % 37 == 5 else None)
                m = dict(kind='kernel-value', kid=kid, p1=p1, p2=p2, x=x, y=y, g1=g1, g2=g2, tensor=tens, j=j)
                meta.append(m)
                if not all(math.isfinite(v) for v in (y, g1, 0.0 if g2 is None else g2)):
                    ctx.mismatch('kernel-enclosure', m)
                    ctx.violation('kernel:%s:non-finite' % KNAMES[kid], '%s(%r,%r)(%r) = %r, slopes %r %r' % (KNAMES[kid], p1, p2, x, y, g1, g2), m)
                    continue
                why = kernel_law(kid, p1, p2, x, y, g1, g2)
                if why:
                    ctx.violation('kernel:%s:closed-form' % KNAMES[kid], why, m)
                ty, t1, t2 = kernel_tols(kid, p1, p2, x, y, g1, 0.0 if g2 is None else g2)
                comps = [(0, 1.0, 0.0), (1, y, ty), (2, g1, t1)]
                if g2 is not None:
                    comps.append((3, g2, t2))
                cases.append(dict(idx=i, expr='kernel_l %d %s %s %s' % (kid, rlit(p1), rlit(p2), rlit(x)), comps=comps))
    def coq():
        return run_enclosure('C09', 'Model.Kernel', cases, prec=200, per_file=min(40, max(6, -(-len(cases) // NFILES))), timeout_goal=30, tag='kenc')

    def done(r):
        collect(ctx, r, cases, meta, 'kernel-enclosure')
        ctx.traces += len(r['ok'])
    return coq, done


def collect(ctx, r, cases, meta, family):
    for name, out in r['broken']:
        ctx.obligation_broken('correspondence-file:' + name, out)
    nbad = len(set(i for i, _ in r['bad']))
    ctx.notes.append('%s: %d proved within tolerance, %d proved outside, %d undecided' % (family, len(r['ok']), nbad, len(r['undecided'])))
    ctx.hist[family + ':undecided'] = len(r['undecided'])
    if len(r['undecided']) > max(3, len(cases) // 25):
        ctx.obligation_broken(family + '-undecided', '%d of %d cases could be neither proved nor refuted, e.g. %s'
                              % (len(r['undecided']), len(cases), [meta[i] for i in r['undecided'][:2]]))
    for i in sorted(set(i for i, _ in r['bad'])):
        ctx.mismatch(family, dict(meta[i], components=[c for j, c in r['bad'] if j == i]))


# ------------------------------------------------------------------ (C) correctors
ENC_SHARED = r"""From Coq Require Import Lra.
(* decide the model's comparisons one at a time, each on a goal that contains only that comparison
   (inputs are let-bound, the tolerance conjunction is folded), then bound every component.
   Equalities first: g1 = 0 removes the branch containing 2*x*g2/g1 before anything in it is examined *)
Ltac decide_lazy prec :=
  repeat (match goal with
  | |- context [Req_EM_T ?a ?b] =>
      tryif (first [has_dec a | has_dec b]) then fail else
      (let H := fresh "Hb" in destruct (Req_EM_T a b) as [H|H];
       [ try (exfalso; clear - H; revert H; model_cbv; apply Rlt_not_eq; interval with (i_prec prec));
         try (exfalso; clear - H; revert H; model_cbv; apply Rgt_not_eq; interval with (i_prec prec))
       | try (exfalso; clear - H; apply H; model_cbv; lra) ])
  | |- context [Rle_dec ?a ?b] =>
      tryif (first [has_dec a | has_dec b]) then fail else
      (let H := fresh "Hb" in destruct (Rle_dec a b) as [H|H];
       [ try (exfalso; clear - H; revert H; model_cbv; apply Rlt_not_le; interval with (i_prec prec))
       | try (exfalso; clear - H; apply H; model_cbv; interval with (i_prec prec)) ])
  | |- context [Rlt_dec ?a ?b] =>
      tryif (first [has_dec a | has_dec b]) then fail else
      (let H := fresh "Hb" in destruct (Rlt_dec a b) as [H|H];
       [ try (exfalso; clear - H; revert H; model_cbv; apply Rle_not_lt; interval with (i_prec prec))
       | try (exfalso; clear - H; apply H; model_cbv; interval with (i_prec prec)) ])
  end; cbv iota beta).
Ltac enclose_shared prec :=
  let Pf := fresh "Pf" in intros;
  match goal with r := _ |- _ => pattern r; match goal with |- ?P r => set (Pf := P) end; subst r end;
  unfold triggs_l, fasttriggs_l, triggs_block, fasttriggs_block, block_l, triggs_mask, maxF;
  cbv beta zeta;
  cbn [ltb leb eqb NumR zero one negb orb andb];
  unfold Rltb, Rleb, Reqb;
  decide_lazy prec; unfold Pf; clear Pf; model_cbv;
  repeat match goal with |- _ /\ _ => split end;
  interval with (i_prec prec).
"""


def run_enclosure_shared(pid, imports, cases, prec=200, per_file=12, timeout_goal=120, tag='cenc'):
    """run_enclosure with the model's branches decided once per case (the flat result list is kept
    let-bound until every comparison is decided); same contract as common.run_enclosure"""
    hdr = ENC_HEADER % imports + ENC_SHARED
    byidx = {c['idx']: c for c in cases}

    def goal(c, comps, code, excess):
        if excess:
            i, v, t = comps[0]
            conj = '%s < Rabs (nth %d r 0 - %s)' % (rlit(t), i, rlit(v))
        else:
            conj = ' /\\ '.join('Rabs (nth %d r 0 - %s) <= %s' % (i, rlit(v), rlit(t)) for i, v, t in comps)
        return ('Goal %s let r := %s in %s.\nProof. first [ timeout %d (solve [ enclose_shared %d%%positive ]); idtac "OK" "%d" | idtac "BAD" "%d" ]. Abort.\n'
                % (c['lets'], c['expr'], conj, timeout_goal, prec, code, code))
    nfiles = max(1, -(-len(cases) // per_file))            # round-robin: heavy (large d, masked) cases spread evenly
    files = [('%s1_%03d' % (tag, k), hdr + ''.join(goal(c, c['comps'], c['idx'], False) for c in cases[k::nfiles]))
             for k in range(nfiles)]
    res = run_case_files(pid, files, timeout=per_file * timeout_goal + 300)
    ok, notok, broken = set(), set(), []
    for name, (rc, out) in res.items():
        t = parse_tags(out)
        ok.update(t['OK'])
        notok.update(t['BAD'])
        if rc != 0:
            broken.append((name, out[-800:]))
    notok.update(c['idx'] for c in cases if c['idx'] not in ok | notok)
    bad, undecided = [], []
    if notok:
        goals, enc = [], {}
        for idx in sorted(notok)[:32]:                 # enough to name failing cases; the rest stay undecided
            c = byidx[idx]
            comps = c['comps'] if len(c['comps']) <= 6 else c['comps'][:3] + c['comps'][3::max(1, (len(c['comps']) - 3) // 3)][:3]
            for comp in comps:
                code = idx * 1000 + comp[0]
                enc[code] = (idx, comp[0])
                goals.append(goal(c, [comp], code, True))
        files2 = [('%s2_%03d' % (tag, k), hdr + ''.join(goals[j:j + 6])) for k, j in enumerate(range(0, len(goals), 6))]
        proved = set()
        for name, (rc, out) in run_case_files(pid, files2, timeout=6 * timeout_goal + 300).items():
            proved.update(parse_tags(out)['OK'])
        bad = [enc[code] for code in proved]
        undecided = sorted(notok - set(i for i, _ in bad))
    return dict(ok=sorted(ok), bad=sorted(bad), undecided=undecided, broken=broken)


def dy(rng, hi=4, den=8):
    return rng.randint(-hi * den, hi * den) / den


def gen_block(rng, d, kind, thr=1.0):
    if kind == 'zero':
        return [0.0] * d
    if kind == 'dyadic':
        return [dy(rng) for _ in range(d)]
    if kind == 'axis':                        # |R|^2 = thr^2 exactly (Huber threshold when thr = delta)
        v = [0.0] * d
        v[rng.randrange(d)] = thr * rng.choice([1, -1])
        return v
    if kind == 'two':                         # |R|^2 = 4 exactly (Shift kernel: rho' = 0)
        v = [0.0] * d
        v[rng.randrange(d)] = 2.0
        return v
    if kind == 'big':
        return [rng.gauss(0, 30) for _ in range(d)]
    if kind == 'small':
        return [rng.gauss(0, 1e-3) for _ in range(d)]
    return [rng.gauss(0, 1) for _ in range(d)]


def kernel_spec(rng, which):
    """(label, kind for true_rho, p1, p2, True)"""
    if which in USER:
        return which, which, 0.0, 0.0, True
    if which == 'Tolerant45':                       # a/|b| = 45, inside the property's range a/|b| <= 50
        a = float(2.0 ** rng.randint(2, 5))
        return 'Tolerant', 5, a, -a / 45, True
    kid = KNAMES.index(which)
    p1, p2 = gen_params(rng, kid)
    if kid != 5:
        p1 = abs(p1) if kid != 4 else p1
        p1 = float(2.0 ** round(math.log2(abs(p1)))) * (1 if p1 > 0 else -1)     # threshold blocks representable
        p1 = max(min(p1, 64.0), -64.0) if abs(p1) >= 2.0 ** -6 else 2.0 ** -6
        if kid == 6:
            p1 = min(abs(p1), 1.0)
    return which, kid, p1, p2, True


def build_kernel(pp, torch, spec):
    label, kind, p1, p2, graph = spec
    return user_kernel(torch, label) if isinstance(kind, str) else make_kernel(pp, kind, p1, p2)


def as_blocks(torch, res, Rt, Jt):
    """the corrector's return value as nested lists per block, or ('raises', text) when it is not a pair of
    tensors of the shapes of R and J"""
    d = Rt.shape[-1]
    ok = isinstance(res, (tuple, list)) and len(res) == 2 and all(hasattr(v, 'shape') for v in res)
    if not ok or tuple(res[0].shape) != tuple(Rt.shape) or tuple(res[1].shape) != tuple(Jt.shape):
        return 'raises', 'returned %s for R of shape %s and J of shape %s' % (
            [tuple(v.shape) for v in res] if ok else type(res).__name__, tuple(Rt.shape), tuple(Jt.shape))
    return res[0].detach().reshape(-1, d).tolist(), res[1].detach().reshape(-1, d, Jt.shape[-1]).tolist()


def corrector_history(pp, torch, spec, Rb, Jb, batch, layR='contig', layJ='contig', form='kw'):
    """One history on ONE pair of tensors (R, J) in the given memory layouts, never cloned: one kernel object shared
    by Triggs.compute_grads, FastTriggs and Triggs; each corrector object is first called with other arguments; then
    FastTriggs, Triggs, FastTriggs, Triggs on the same (R, J).  Arguments (and the bases of views) are compared bit
    for bit after every call.  Returns dict(grads=(x, g1, g2|None), first={cname: out}, outs={cname: out of the 2nd
    call}, findings=[(key, text, cname)]); out = (R', J') nested per block or ('raises', text)."""
    nb, d, p = len(Rb), len(Rb[0]), len(Jb[0][0])
    Rt, Rbase = laid_out(torch, Rb, tuple(batch) + (d,), layR)
    Jt, Jbase = laid_out(torch, Jb, (nb * d, p), layJ)
    snap = snapshot([('R', Rt, Rbase), ('J', Jt, Jbase)])
    where = 'R %s %s, J %s, call form %s' % (tuple(Rt.shape), layR, layJ, form)
    finds = []
    k = build_kernel(pp, torch, spec)
    try:
        x, g1, g2 = pp.optim.corrector.Triggs(k).compute_grads(Rt)
        grads = (x.reshape(-1).tolist(), g1.reshape(-1).tolist(), g2.reshape(-1).tolist())
    except Exception as e0:  # noqa
        xs = Rt.detach().square().sum(-1).reshape(-1).tolist()
        try:
            grads = (xs, autograd12(torch, k, xs)[0], None)
        except Exception as e:  # noqa
            grads = (xs, [float('nan')] * len(xs), None)
            finds.append(('kernel:%s:autograd-raises' % spec[0], 'neither Triggs.compute_grads (%r) nor torch.autograd.grad (%r) can differentiate the kernel %s(%r, %r) at x = %r'
                          % (e0, e, spec[0], spec[2], spec[3], xs), 'Triggs'))
    ws = changed(torch, snap)
    for w in ws:
        finds.append(('mutation:Triggs.compute_grads', 'Triggs(%s).compute_grads(R) (%s): %s' % (spec[0], where, w), 'Triggs'))
    if ws:
        snap = snapshot([('R', Rt, Rbase), ('J', Jt, Jbase)])
    cors = {}
    for cname in ('FastTriggs', 'Triggs'):
        cors[cname] = getattr(pp.optim.corrector, cname)(k)
        try:                                              # other problems first: (2 blocks, d = 3), p = 2, and one of the
            call_form(torch, cors[cname], 'kw', torch.tensor([[0.5, -1.0, 2.0], [0.0, 0.0, 0.0]], dtype=torch.float64),   # same shapes, other values
                      torch.tensor([[1.0, 0.0], [0.5, 2.0], [-1.0, 1.0], [3.0, 1.0], [0.0, -2.0], [1.0, 1.0]], dtype=torch.float64))
            call_form(torch, cors[cname], form, Rt.detach().clone() * 0.75 + 0.125, 1.5 - Jt.detach().clone())
        except Exception:  # noqa  (judged on its own tensors elsewhere)
            pass
    rounds = []
    for rnd in (1, 2):
        outs = {}
        for cname in ('FastTriggs', 'Triggs'):
            try:
                outs[cname] = as_blocks(torch, call_form(torch, cors[cname], form, Rt, Jt), Rt, Jt)
            except Exception as e:  # noqa
                outs[cname] = ('raises', ('%s: %s' % (type(e).__name__, e))[:200])
            ws = changed(torch, snap)
            for w in ws:
                finds.append(('mutation:%s.forward' % cname, 'call %d of %s(%s) on the same tensors (%s): %s'
                              % (2 * rnd - (cname == 'FastTriggs'), cname, spec[0], where, w), cname))
            if ws:                                        # blame only the call that changed it
                snap = snapshot([('R', Rt, Rbase), ('J', Jt, Jbase)])
        rounds.append(outs)
    for cname in ('FastTriggs', 'Triggs'):
        if repr(rounds[0][cname]) != repr(rounds[1][cname]):
            u, v = rounds[0][cname], rounds[1][cname]
            if 'raises' in (u[0], v[0]):
                what = 'first %s, then %s' % (u[1] if u[0] == 'raises' else 'returned', v[1] if v[0] == 'raises' else 'returned')
            elif u[0] != v[0]:
                what = "returned R' = %s, then R' = %s" % (u[0], v[0])
            else:
                what = "returned J' = %s, then J' = %s" % (u[1], v[1])
            finds.append(('%s.forward:reuse' % cname, '%s(%s) called twice on the same tensors (%s; in between: the other corrector on the same tensors) %s'
                          % (cname, spec[0], where, what), cname))
    # the caller updates ITS tensors in place (exactly: R/2, -2 J) and calls the same objects again
    with torch.no_grad():
        Rbase.mul_(0.5)
        Jbase.mul_(-2.0)
    Rb3, Jb3 = Rt.detach().reshape(nb, d).tolist(), Jt.detach().reshape(nb, d, p).tolist()
    third = {}
    for cname in ('FastTriggs', 'Triggs'):
        try:
            third[cname] = as_blocks(torch, call_form(torch, cors[cname], form, Rt, Jt), Rt, Jt)
        except Exception as e:  # noqa
            third[cname] = ('raises', ('%s: %s' % (type(e).__name__, e))[:200])
    seen, uniq = set(), []
    for f in finds:                                       # report each key once
        if f[0] not in seen:
            seen.add(f[0])
            uniq.append(f)
    return dict(grads=grads, first=rounds[0], outs=rounds[1], third=third, Rb3=Rb3, Jb3=Jb3, findings=uniq, shapeR=tuple(Rt.shape), contigR=Rt.is_contiguous(),
                layout_class=':non-contiguous-J' if not Jt.is_contiguous() else ':non-contiguous-R' if not Rt.is_contiguous() else '')


def raise_key(cname, h):
    """a raise on a non-contiguous argument is its own class of failure (3a06748: Triggs' view of a column-major J)"""
    return '%s.forward:raises%s' % (cname, h['layout_class'])


def judge_history(pp, torch, spec, Rb, Jb, batch, layR='contig', layJ='contig', form='kw'):
    """corrector_history + the law checker on every call's outputs, against the private data Rb, Jb:
    (history, [(key, text, cname)])"""
    h = corrector_history(pp, torch, spec, Rb, Jb, batch, layR, layJ, form)
    finds = list(h['findings'])
    g2s = h['grads'][2]
    for rnd, outs in ((2, h['outs']), (1, h['first'])):
        for cname in ('FastTriggs', 'Triggs'):
            out = outs[cname]
            if out[0] == 'raises':
                if rnd == 2 or h['outs'][cname][0] != 'raises':
                    finds.append((raise_key(cname, h), "%s(%s) raised / returned no (R', J') on call %d on the same tensors (R %s, J %s, form %s): %s"
                                  % (cname, spec[0], 2 * rnd - (cname == 'FastTriggs'), layR, layJ, form, out[1][:120]), cname))
                continue
            if rnd == 1 and repr(out) == repr(h['outs'][cname]):
                continue                                  # identical to the judged 2nd call
            fast = outs['FastTriggs']
            for key, text in law_check(spec, cname, Rb, Jb, out, fast, g2s):
                finds.append((key, 'call %d on the same tensors (R %s, J %s, form %s): %s' % (2 * rnd - (cname == 'FastTriggs'), layR, layJ, form, text), cname))
    intact = (h['Rb3'] == [[0.5 * v for v in r] for r in Rb] and h['Jb3'] == [[[-2.0 * e for e in row] for row in blk] for blk in Jb])
    if not intact and not any(f[0].startswith('mutation:') for f in finds):
        finds.append(('mutation:corrector.forward', 'after the calls and the in-place update R *= 0.5, J *= -2 the tensors hold R = %s, J = %s' % (h['Rb3'], h['Jb3']), None))
    for cname in ('FastTriggs', 'Triggs'):               # after the in-place update of R, J by the caller
        out = h['third'][cname]
        if h['outs'][cname][0] == 'raises' or not intact:  # (arguments changed by a call: reported above, the data are no longer the caller's)
            continue
        if out[0] == 'raises':
            finds.append((raise_key(cname, h), "%s(%s) raised / returned no (R', J') when called again after the caller's in-place update R *= 0.5, J *= -2 (R %s, J %s, form %s): %s"
                          % (cname, spec[0], layR, layJ, form, out[1][:120]), cname))
            continue
        for key, text in law_check(spec, cname, h['Rb3'], h['Jb3'], out, h['third']['FastTriggs'], None):
            finds.append((key, "call 5/6 on the same objects and tensors after the caller's in-place update R *= 0.5, J *= -2 (R %s, J %s, form %s; now R = %s): %s"
                          % (layR, layJ, form, h['Rb3'], text), cname))
    seen, uniq = set(), []
    for f in finds:
        if (f[0], f[2]) not in seen:
            seen.add((f[0], f[2]))
            uniq.append(f)
    return h, uniq


def law_check(spec, cname, Rb, Jb, out, fast_out=None, g2s=None):
    """The property's identities evaluated on the implementation's outputs, exact Fractions + mpmath.
    Rb[i] = R_i, Jb[i] = J_i (d x p), out = (R', J') per block.  Returns [(key, text)]."""
    import mpmath as mp
    label, kind, p1, p2, graph = spec
    res = []
    Rp, Jp = out
    nb, d, p = len(Rb), len(Rb[0]), len(Jb[0][0])
    xs = [sum(F(v) * F(v) for v in Rb[i]) for i in range(nb)]
    der = [true_rho(kind, p1, p2, xs[i]) for i in range(nb)]
    masked = [cname == 'Triggs' and xs[i] != 0 and der[i][2] > 0 for i in range(nb)]
    # (blocks on which autograd's rho'' is positive rounding noise although the true rho'' is <= 0 - Tolerant with
    # a/|b| >~ 37 - take the masked branch with alpha ~ 1e-16: every clause below still applies within tolerance)
    if any(not math.isfinite(v) for i in range(nb) for v in list(Rp[i]) + [e for row in Jp[i] for e in row]):
        if all(der[i][1] >= 0 for i in range(nb)) and all(der[i][1] > 0 for i in range(nb) if masked[i]):
            res.append(('%s.forward:non-finite' % cname, 'non-finite output for a kernel with non-negative slope'))
        return res
    q = lambda v: mpf(v)
    JtR = [[sum(q(Jb[i][k][l]) * q(Rb[i][k]) for k in range(d)) for l in range(p)] for i in range(nb)]
    absJtR = [[sum(abs(q(Jb[i][k][l]) * q(Rb[i][k])) for k in range(d)) for l in range(p)] for i in range(nb)]
    for l in range(p):
        lhs = sum(q(Jp[i][k][l]) * q(Rp[i][k]) for i in range(nb) for k in range(d))
        rhs = sum(der[i][1] * JtR[i][l] for i in range(nb))
        mag = sum(abs(der[i][1]) * absJtR[i][l] for i in range(nb)) + sum(abs(q(Jp[i][k][l]) * q(Rp[i][k])) for i in range(nb) for k in range(d))
        if abs(lhs - rhs) > LAW_TOL * mag + mp.mpf(10) ** -280:
            res.append(('%s.forward:gradient' % cname, "column %d: J'^T R' = %s but sum rho' J^T R = %s (%s, kernel %s)" % (l, mp.nstr(lhs, 12), mp.nstr(rhs, 12), cname, label)))
            break
    for l in range(p):
        for m in range(l, p):
            lhs = sum(q(Jp[i][k][l]) * q(Jp[i][k][m]) for i in range(nb) for k in range(d))
            rhs = sum(der[i][1] * sum(q(Jb[i][k][l]) * q(Jb[i][k][m]) for k in range(d))
                      + (2 * der[i][2] * JtR[i][l] * JtR[i][m] if masked[i] else 0) for i in range(nb))
            mag = sum(abs(der[i][1]) * sum(abs(q(Jb[i][k][l]) * q(Jb[i][k][m])) for k in range(d))
                      + (2 * abs(der[i][2]) * absJtR[i][l] * absJtR[i][m] if masked[i] else 0) for i in range(nb))
            mag += sum(abs(q(Jp[i][k][l]) * q(Jp[i][k][m])) for i in range(nb) for k in range(d))
            if abs(lhs - rhs) > LAW_TOL * mag + mp.mpf(10) ** -280:
                res.append(('%s.forward:hessian' % cname, "entry (%d,%d): J'^T J' = %s but the %s Hessian is %s (kernel %s)"
                            % (l, m, mp.nstr(lhs, 12), 'Triggs' if any(masked) else 'Gauss-Newton', mp.nstr(rhs, 12), label)))
                return res
    if cname == 'Triggs' and fast_out not in (None, 'raises') and fast_out[0] != 'raises':
        def differs(a, b):
            return any(abs(u - v) > 1e-12 * max(abs(u), abs(v)) for u, v in zip(a, b))
        for i in range(nb):
            if not masked[i] and (differs(Rp[i], fast_out[0][i]) or any(differs(r1, r2) for r1, r2 in zip(Jp[i], fast_out[1][i]))):
                res.append(('Triggs.forward:unmasked-differs-from-FastTriggs', "block %d (rho'' <= 0 or R = 0): Triggs returns %s, FastTriggs %s" % (i, Rp[i], fast_out[0][i])))
                break
    return res


def corrector_tensor(ctx, pp, torch, spec, Rb, Jb, batch, cases, meta, layR='contig', layJ='contig', form='kw'):
    """run the history of both correctors on one pair of tensors, emit model cases per block for the LATER call of
    each corrector, run the law checker"""
    label, kind, p1, p2, graph = spec
    nb, d, p = len(Rb), len(Rb[0]), len(Jb[0][0])
    Rb = torch.tensor(Rb, dtype=torch.float64).reshape(nb, d).tolist()
    base = dict(kind='corrector', spec=list(spec), R=Rb, J=Jb, batch=list(batch), layR=layR, layJ=layJ, form=form)
    h, finds = judge_history(pp, torch, spec, Rb, Jb, batch, layR, layJ, form)
    ctx.count('corrector-layout:R=%s' % ('contig' if h['contigR'] else layR))
    ctx.count('corrector-layout:J=%s' % layJ)
    ctx.count('corrector-form:%s' % form)
    xs, g1s, g2s = h['grads']
    for key, text, cname in finds:
        if key.startswith('mutation:') or key.endswith(':reuse') or key.endswith(':autograd-raises'):
            ctx.violation(key, text, dict(base, corrector=cname, key=key))
    # oracle hypothesis: autograd's g1, g2 are the true derivatives
    true2 = []
    for i in range(nb):
        r, r1, r2 = true_rho(kind, p1, p2, F(xs[i]))
        true2.append(r2)
        thr = kind == 0 and F(xs[i]) == F(p1) ** 2
        t1 = t2 = 0.0
        if not isinstance(kind, str) and math.isfinite(g1s[i]):
            _, t1, t2 = kernel_tols(kind, p1, p2, xs[i], 0.0, g1s[i], 0.0 if g2s is None else g2s[i])
        off1 = not math.isfinite(g1s[i]) or abs(mpf(g1s[i]) - r1) > 1e-9 * abs(r1) + 2 * t1 + 1e-300
        off2 = g2s is not None and not thr and (not math.isfinite(g2s[i]) or abs(mpf(g2s[i]) - r2) > 1e-9 * abs(r2) + 2 * t2 + 1e-300)
        if off1 or off2:
            ctx.violation('autograd-contract:%s' % label, "compute_grads returned rho'=%r rho''=%r at x=%r, true values %s %s" % (g1s[i], None if g2s is None else g2s[i], xs[i], r1, r2), base)
    if not all(math.isfinite(v) for v in g1s + (g2s or [])):
        ctx.mismatch('corrector-grads', base)        # the model's g1, g2 are real numbers
        return
    outs = h['outs']
    for cname in ('FastTriggs', 'Triggs'):
        out = outs[cname]
        ctx.traces += 2
        if out[0] == 'raises':
            ctx.case(('corr', cname, label, repr(Rb)), nontrivial=True, branch='%s:%s:raises' % (cname, label))
            m = dict(base, corrector=cname, error=out[1], key=raise_key(cname, h))
            ctx.mismatch('corrector-raises', m)                     # the model returns for every kernel
            continue
        Rp, Jp = out
        for i in range(nb):
            g1 = g1s[i]
            g2 = 0.0 if g2s is None else g2s[i]
            flat = list(Rp[i]) + [e for row in Jp[i] for e in row]
            finite = all(math.isfinite(v) for v in flat)
            x = sum(F(v) * F(v) for v in Rb[i])
            masked = cname == 'Triggs' and x != 0 and g2 > 0
            br = '%s:%s' % (cname, 'none' if not finite else ('masked' if true2[i] > 0 else 'masked-by-rounding-noise') if masked else 'zero-residual' if x == 0 else
                            'constant-slope' if cname == 'Triggs' and label in ('Id', 'Scale') else 'unmasked')
            idx = len(meta)
            ctx.case(('corr', cname, label, p1, p2, tuple(Rb[i]), repr(Jb[i])), nontrivial=x != 0, branch=br + ':d=%d' % d,
                     sample=dict(corrector=cname, kernel=label, p1=p1, p2=p2, R_i=Rb[i], J_i=Jb[i], g1=g1, g2=g2, R_out=Rp[i], J_out=Jp[i]) if idx % 41 == 9 else None)
            ctx.count('kernel:' + label)
            meta.append(dict(base, corrector=cname, block=i, g1=g1, g2=g2))
            Jl = '[' + '; '.join(rlist(row) for row in Jb[i]) + ']'
            lets = 'let g1 := %s in let g2 := %s in let Rv := %s in let Jv := %s in' % (rlit(g1), rlit(g2), rlist(Rb[i]), Jl)
            expr = 'fasttriggs_l g1 Rv Jv' if cname == 'FastTriggs' else 'triggs_l g1 g2 Rv Jv'
            if not finite:
                comps = [(0, 0.0, 0.0)]
            else:
                se = math.sqrt(max(g1, 0.0))
                alpha = 1 - math.sqrt(max(0.0, 1 + 2 * float(x) * g2 / g1)) if masked and g1 > 0 else 0.0
                sR = max([abs(v) for v in Rp[i]] + [se * abs(v) for v in Rb[i]])
                sJ = se * max(abs(e) for row in Jb[i] for e in row) * (1 + abs(alpha) * d) + max(abs(e) for row in Jp[i] for e in row)
                comps = [(0, 1.0, 0.0)] + [(1 + k, Rp[i][k], K_EPS * EPS * sR + 1e-300) for k in range(d)]
                comps += [(1 + d + k * p + l, Jp[i][k][l], K_EPS * EPS * sJ + 1e-300) for k in range(d) for l in range(p)]
            cases.append(dict(idx=idx, lets=lets, expr=expr, comps=comps))
    for key, text, cname in finds:
        if not (key.startswith('mutation:') or key.endswith(':reuse') or key.endswith(':autograd-raises')):
            ctx.violation(key, text, dict(base, corrector=cname, key=key))


def empty_and_alias_checks(ctx, pp, torch):
    """tensors of shape (0, d) / (0,): kernels and correctors return empty tensors of the same shapes"""
    for cname, kname, d, p in [('FastTriggs', 'Huber', 2, 3), ('Triggs', 'Huber', 3, 1), ('Triggs', 'Sq', 2, 2), ('FastTriggs', 'Cauchy', 1, 1), ('Triggs', 'Scale', 4, 2)]:
        c = dict(kind='empty', corrector=cname, kernel=kname, d=d, p=p)
        ctx.case(('empty', cname, kname, d, p), nontrivial=False, branch='%s:empty' % cname)
        why = replay(ctx, c)
        if why:
            ctx.violation('%s.forward:empty' % cname, why, c)
    for kid in range(7):
        c = dict(kind='empty', kid=kid)
        ctx.case(('empty', kid), nontrivial=False, branch='kernel-layout:empty')
        why = replay(ctx, c)
        if why:
            ctx.violation('kernel:%s:empty' % KNAMES[kid], why, c)


# ------------------------------------------------------------------ (F) ambient grad modes x arguments with / without a graph
# The property holds for any R, J on every call: also when the caller has switched autograd off around the call (GN.step /
# LM.step are decorated with torch.no_grad()), switched it on again inside, or hands over tensors that require grad, are
# part of a graph, or were created under torch.inference_mode().  Ambient torch.inference_mode() itself is outside: autograd
# cannot record there at all (FastTriggs documents and asserts it).
GRAD_MODES = ['default', 'no_grad', 'enable_grad', 'set_grad_enabled(False)', 'no_grad>enable_grad', 'enable_grad>no_grad', 'no_grad-decorator']
ARG_KINDS = [('plain', 'plain'), ('leaf', 'plain'), ('graph', 'plain'), ('inference', 'plain'), ('plain', 'leaf'), ('graph', 'graph'), ('leaf', 'inference')]
GRAD_KERNELS = ['Sq', 'P25', 'Id', 'S1', 'L1', 'Shift', 'Tolerant45'] + KNAMES


def in_grad_mode(torch, mode, fn):
    """fn() under the ambient grad mode `mode`: (result, grad mode seen before fn, grad mode seen after fn, both inside the context)"""
    import contextlib
    if mode == 'no_grad-decorator':                     # exactly how GaussNewton.step / LevenbergMarquardt.step reach the corrector
        box = []

        @torch.no_grad()
        def step():
            box.append(torch.is_grad_enabled())
            r = fn()
            box.append(torch.is_grad_enabled())
            return r
        with torch.enable_grad():
            r = step()
        return r, box[0], box[1]
    with contextlib.ExitStack() as st:
        st.enter_context(torch.enable_grad())
        for part in mode.split('>'):
            if part == 'no_grad':
                st.enter_context(torch.no_grad())
            elif part == 'enable_grad':
                st.enter_context(torch.enable_grad())
            elif part == 'set_grad_enabled(False)':
                st.enter_context(torch.set_grad_enabled(False))
        before = torch.is_grad_enabled()
        r = fn()
        return r, before, torch.is_grad_enabled()


def grad_arg(torch, vals, shape, kind):
    """a tensor holding exactly `vals`: plain / leaf requiring grad / non-leaf with a graph behind it / inference tensor"""
    t = torch.tensor(vals, dtype=torch.float64).reshape(shape)
    if kind == 'leaf':
        return t.requires_grad_(True)
    if kind == 'graph':
        with torch.enable_grad():
            a = (t * 0.5).requires_grad_(True)
            return a * 2.0                               # exact
    if kind == 'inference':
        with torch.inference_mode():
            return t.clone()
    return t


def grads_off(kind, p1, p2, x, g1, g2):
    """the oracle hypothesis on (rho', rho'') as autograd / compute_grads returned them at x: text when one is not the true derivative"""
    r, r1, r2 = true_rho(kind, p1, p2, F(x))
    thr = kind == 0 and F(x) == F(p1) ** 2
    t1 = t2 = 0.0
    if not isinstance(kind, str) and math.isfinite(g1):
        _, t1, t2 = kernel_tols(kind, p1, p2, x, 0.0, g1, 0.0 if g2 is None else g2)
    off1 = not math.isfinite(g1) or abs(mpf(g1) - r1) > 1e-9 * abs(r1) + 2 * t1 + 1e-300
    off2 = g2 is not None and not thr and (not math.isfinite(g2) or abs(mpf(g2) - r2) > 1e-9 * abs(r2) + 2 * t2 + 1e-300)
    if off1 or off2:
        return "compute_grads returned rho'=%r rho''=%r at x=%r, true values %s %s" % (g1, g2, x, r1, r2)
    return None


def grad_mode_call(pp, torch, spec, k, cors, Rb, Jb, batch, mode, rk, jk):
    """compute_grads, FastTriggs, Triggs (objects `cors`, kernel object k: used before, in other modes) on fresh tensors of
    kinds (rk, jk) holding Rb, Jb, under the ambient grad mode: dict(outs={cname: out}, grads, finds=[(key, text, cname)])"""
    nb, d, p = len(Rb), len(Rb[0]), len(Jb[0][0])
    where = 'ambient grad mode %s, R %s %s, J %s' % (mode, tuple(batch) + (d,), rk, jk)
    finds, outs = [], {}
    for cname in ('grads', 'FastTriggs', 'Triggs'):
        Rt, Jt = grad_arg(torch, Rb, tuple(batch) + (d,), rk), grad_arg(torch, Jb, (nb * d, p), jk)
        keep = (Rt.detach().clone(), Jt.detach().clone(), Rt.requires_grad, Jt.requires_grad)
        fname = 'Triggs.compute_grads' if cname == 'grads' else cname + '.forward'
        try:
            if cname == 'grads':
                (x, g1, g2), m0, m1 = in_grad_mode(torch, mode, lambda: cors['Triggs'].compute_grads(Rt))
                outs[cname] = (x.reshape(-1).tolist(), g1.reshape(-1).tolist(), g2.reshape(-1).tolist())
            else:
                res, m0, m1 = in_grad_mode(torch, mode, lambda: cors[cname](R=Rt, J=Jt))
                outs[cname] = as_blocks(torch, res, Rt, Jt)
            if m0 != m1:
                finds.append(('mutation:grad-mode:' + fname, '%s(%s) (%s) left torch.is_grad_enabled() = %r, it was %r before the call' % (fname, spec[0], where, m1, m0), cname))
        except Exception as e:  # noqa
            outs[cname] = ('raises', ('%s: %s' % (type(e).__name__, e))[:200])
        if not (same_bits(torch, Rt, keep[0]) and same_bits(torch, Jt, keep[1]) and (Rt.requires_grad, Jt.requires_grad) == keep[2:]):
            finds.append(('mutation:' + fname, '%s(%s) (%s) changed its arguments: R = %s (requires_grad %r), J = %s (requires_grad %r) after the call'
                          % (fname, spec[0], where, Rt.detach().tolist(), Rt.requires_grad, Jt.detach().tolist(), Jt.requires_grad), cname))
    return dict(outs=outs, finds=finds, where=where)


def grad_mode_judge(spec, Rb, Jb, res, cache):
    """the law checker on the outputs of one grad_mode_call; equal outputs are judged once (cache)"""
    label, kind, p1, p2, _ = spec
    finds = list(res['finds'])
    outs, where = res['outs'], res['where']
    g = outs['grads']
    if g[0] == 'raises':
        finds.append(('Triggs.compute_grads:raises:grad-mode', 'Triggs(%s).compute_grads raised (%s): %s' % (label, where, g[1][:120]), 'grads'))
    else:
        ck = ('grads', repr(g))
        if ck not in cache:
            xs = [float(sum(F(v) * F(v) for v in r)) for r in Rb]
            near = len(g[0]) == len(xs) and all(abs(a - b) <= 8 * EPS * b for a, b in zip(g[0], xs))
            bad = None if near else 'compute_grads returned x = %r for |R_i|^2 = %r' % (g[0], xs)
            for i in range(len(Rb)):
                bad = bad or grads_off(kind, p1, p2, g[0][i], g[1][i], g[2][i])
            cache[ck] = bad
        if cache[ck]:
            finds.append(('autograd-contract:%s:grad-mode' % label, '%s: %s' % (where, cache[ck]), 'grads'))
    for cname in ('FastTriggs', 'Triggs'):
        out = outs[cname]
        if out[0] == 'raises':
            finds.append(('%s.forward:raises:grad-mode' % cname, "%s(%s) raised / returned no (R', J') (%s): %s" % (cname, label, where, out[1][:120]), cname))
            continue
        ck = (cname, repr(out), repr(outs['FastTriggs']) if cname == 'Triggs' else '')
        if ck not in cache:
            cache[ck] = law_check(spec, cname, Rb, Jb, out, outs['FastTriggs'], None)
        for key, text in cache[ck]:
            finds.append((key, '%s, R = %s, J = %s: %s' % (where, Rb, Jb, text), cname))
    return finds


def kernel_mode_call(pp, torch, kid, k, xs, mode, xk):
    """the kernel object k on a fresh tensor of kind xk holding xs under the ambient grad mode: list of values or ('raises', text)"""
    xt = grad_arg(torch, xs, (len(xs),), xk)
    keep = xt.detach().clone()
    finds = []
    try:
        y, m0, m1 = in_grad_mode(torch, mode, lambda: k(xt))
        out = y.detach().reshape(-1).tolist() if hasattr(y, 'shape') and tuple(y.shape) == (len(xs),) else ('raises', 'returned %r' % (getattr(y, 'shape', y),))
        if m0 != m1:
            finds.append(('mutation:grad-mode:kernel.%s.forward' % KNAMES[kid], 'left torch.is_grad_enabled() = %r, it was %r before the call' % (m1, m0)))
    except Exception as e:  # noqa
        out = ('raises', ('%s: %s' % (type(e).__name__, e))[:200])
    if not same_bits(torch, xt, keep):
        finds.append(('mutation:kernel.%s.forward' % KNAMES[kid], 'changed its input to %r' % (xt.detach().tolist(),)))
    return out, finds


def kernel_mode_judge(kid, p1, p2, xs, neg, out, finds, where, cache):
    """closed form of the values (mpmath) / rejection of the negative entry; equal outputs are judged once"""
    res = [(key, '%s(%r,%r).forward(%r) (%s) %s' % (KNAMES[kid], p1, p2, xs, where, text)) for key, text in finds]
    if neg:
        if out[0] != 'raises':
            res.append(('kernel:%s:negative-input:accepted' % KNAMES[kid], '%s(%r,%r).forward(%r) (%s) returns %r instead of rejecting the negative entry' % (KNAMES[kid], p1, p2, xs, where, out)))
        return res
    if out[0] == 'raises':
        res.append(('kernel:%s:raises' % KNAMES[kid], '%s(%r,%r).forward(%r) (%s): %s' % (KNAMES[kid], p1, p2, xs, where, out[1][:120])))
        return res
    ck = repr(out)
    if ck not in cache:
        bad = []
        for x, y in zip(xs, out):
            r = true_rho(kid, p1, p2, x)[0]
            if not math.isfinite(y) or abs(mpf(y) - r) > 2 * kernel_tols(kid, p1, p2, x, y, 0.0, 0.0)[0]:
                bad.append('rho(%r) = %r, closed form %s' % (x, y, r))
        cache[ck] = '; '.join(bad[:3])
    if cache[ck]:
        res.append(('kernel:%s:closed-form' % KNAMES[kid], '%s(%r,%r) (%s): %s' % (KNAMES[kid], p1, p2, where, cache[ck])))
    return res


def run_grad_modes(ctx, pp, torch):
    """every corrector x kernel (built-in and user, rho'' > 0, = 0, < 0, zero / threshold / generic blocks in one tensor) and
    every built-in kernel under every ambient grad mode x argument kind; the objects are shared by all modes (each judged call
    is a later call on its object, after calls in OTHER modes)"""
    rng = ctx.rng
    for n, which in enumerate(GRAD_KERNELS):
        spec = kernel_spec(rng, which)
        d, p = 1 + n % 3, 1 + (n // 2) % 2
        thr = abs(spec[2]) if which == 'Huber' else 1.0
        kinds = ['two', 'big', 'zero'] if which == 'Shift' else ['gauss', 'zero', 'axis', 'dyadic'] if n % 2 else ['dyadic', 'gauss', 'zero']
        batch = (2, 2) if len(kinds) == 4 else (3,)
        Rb = torch.tensor([gen_block(rng, d, kd, thr) for kd in kinds], dtype=torch.float64).tolist()
        Jb = [[[dy(rng, 3, 4) if rng.random() < 0.5 else rng.gauss(0, 2) for _ in range(p)] for _ in range(d)] for _ in kinds]
        k = build_kernel(pp, torch, spec)
        cors = dict((cname, getattr(pp.optim.corrector, cname)(k)) for cname in ('FastTriggs', 'Triggs'))
        cache, seen = {}, set()
        base = dict(kind='grad-mode', spec=list(spec), R=Rb, J=Jb, batch=list(batch))
        for mode in GRAD_MODES:
            for rk, jk in ARG_KINDS:
                res = grad_mode_call(pp, torch, spec, k, cors, Rb, Jb, batch, mode, rk, jk)
                ctx.case(('grad-mode', which, mode, rk, jk, repr(Rb)), nontrivial=True, branch='grad-mode:%s' % mode)
                ctx.count('grad-mode-args:R=%s,J=%s' % (rk, jk))
                ctx.traces += 1
                for key, text, cname in grad_mode_judge(spec, Rb, Jb, res, cache):
                    if (key, cname) not in seen:
                        seen.add((key, cname))
                        ctx.violation(key, text, dict(base, mode=mode, rk=rk, jk=jk, corrector=cname, key=key))
    for kid in range(7):
        p1, p2 = gen_params(rng, kid)
        k = make_kernel(pp, kid, p1, p2)
        xs = [float(torch.tensor(gen_x(rng, kid, p1, kd, p2), dtype=torch.float64)) for kd in ['zero', 'tiny', 'thr-', 'thr+', 'one', 'large']]
        cache, seen = {}, set()
        for mode in GRAD_MODES:
            for xk in ('plain', 'leaf', 'graph', 'inference'):
                for neg in (False, True):
                    vals = xs[:3] + [-xs[4]] + xs[3:] if neg else xs
                    out, finds = kernel_mode_call(pp, torch, kid, k, vals, mode, xk)
                    where = 'ambient grad mode %s, input %s' % (mode, xk)
                    ctx.case(('grad-mode-kernel', kid, p1, p2, mode, xk, neg), nontrivial=True, branch='grad-mode-kernel:%s' % mode)
                    for key, text in kernel_mode_judge(kid, p1, p2, vals, neg, out, finds, where, cache):
                        if key not in seen:
                            seen.add(key)
                            ctx.violation(key, text, dict(kind='grad-mode-kernel', kid=kid, p1=p1, p2=p2, xs=vals, neg=neg, mode=mode, xk=xk, key=key))


def run_correctors(ctx, pp, torch):
    rng = ctx.rng
    cases, meta = [], []
    plan = []
    # directed: every branch of the model, every d, every kernel
    plan.append(('Sq', 1, 1, (1,), ['dyadic']))                                  # the refutation witness shape
    plan.append(('Sq', 2, 3, (3,), ['dyadic', 'gauss', 'zero']))                 # masked + zero residual
    plan.append(('P25', 3, 2, (2, 2), ['gauss', 'zero', 'dyadic', 'big']))
    plan.append(('Id', 2, 2, (2,), ['dyadic', 'zero']))                          # rho'' = 0: Triggs raises
    plan.append(('S1', 4, 2, (2,), ['gauss', 'zero']))
    plan.append(('L1', 5, 1, (1, 2), ['gauss', 'big']))
    plan.append(('NegSq', 2, 2, (2,), ['dyadic', 'zero']))                       # sqrt of a negative slope
    plan.append(('Shift', 2, 2, (3,), ['two', 'big', 'zero']))                   # rho' = 0 on a masked block
    plan.append(('Huber', 6, 2, (3,), ['axis', 'small', 'big']))                 # exactly at the threshold
    plan.append(('Huber', 1, 1, (2,), ['axis', 'zero']))
    plan.append(('Tolerant45', 2, 1, (6,), ['small', 'small', 'gauss', 'gauss', 'dyadic', 'zero']))   # autograd rho'' = noise of either sign
    for j, name in enumerate(KNAMES):
        plan.append((name, 1 + (j % 6), 1 + (j % 3), (2,) if j < 3 else (1,), ['gauss', 'zero'] if j < 3 else ['gauss']))
    nrand = ctx.scale(6, 300)
    pool = KNAMES + ['Sq', 'Sq', 'P25', 'P25', 'Id', 'S1', 'L1']
    for _ in range(nrand):
        d = rng.randint(1, 6)
        batch = rng.choice([(), (1,), (2,), (3,), (2, 2), (1, 3)])
        nb = 1
        for s in batch:
            nb *= s
        kinds = [rng.choice(['gauss', 'gauss', 'dyadic', 'zero', 'axis', 'big', 'small']) for _ in range(nb)]
        plan.append((rng.choice(pool), d, rng.randint(1, 4 if d <= 3 else 2), batch, kinds))
    for n, (which, d, p, batch, kinds) in enumerate(plan):
        spec = kernel_spec(rng, which)
        thr = abs(spec[2]) if which == 'Huber' else 1.0
        Rb = [gen_block(rng, d, kd, thr) for kd in kinds]
        Jb = [[[dy(rng, 3, 4) if rng.random() < 0.5 else rng.gauss(0, 2) for _ in range(p)] for _ in range(d)] for _ in kinds]
        # memory layouts and call forms rotate: all 16 (R layout, J layout) pairs within the first 16 tensors
        layJ, layR, form = LAYOUTS[n % 4], LAYOUTS[(n // 4) % 4], FORMS[n % len(FORMS)]
        if layJ == 'expanded':                   # one row, expand()ed to all N d rows (stride 0)
            Jb = [[list(Jb[0][0]) for _ in range(d)] for _ in kinds]
        if layR == 'expanded' and len(Rb) >= 2 and len(batch) >= 1:
            nz = [r for r in Rb if any(r)] or Rb
            Rb = [list(nz[0]) for _ in kinds]
        corrector_tensor(ctx, pp, torch, spec, Rb, Jb, batch, cases, meta, layR, layJ, form)
    empty_and_alias_checks(ctx, pp, torch)
    # regression: the witnesses of the repaired defects 298dcfc (R dropped; also reached through rounding noise with
    # the built-in Tolerant kernel) and af4d69c (constant slope)
    for spec, Rw, Jw in WITNESSES:
        corrector_tensor(ctx, pp, torch, spec, Rw, Jw, (1,), cases, meta)
    # the masked branch (rho'' > 0) and the constant-slope kernels also reached the way GN / LM reach them: under torch.no_grad()
    for (spec, Rw, Jw), form in zip(WITNESSES, ('kw-nograd', 'pos-nograd', 'kw-nograd', 'pos-nograd')):
        corrector_tensor(ctx, pp, torch, spec, [[2.0 * v for v in r] for r in Rw], Jw, (1,), cases, meta, 'contig', 'contig', form)
    # 3a06748: Triggs raised (view of a tensor with permuted strides) for a column-major J with R of shape (2, 2, 1)
    for form in ('kw', 'pos-nograd'):
        corrector_tensor(ctx, pp, torch, ('Cauchy', 2, 1.0, 0.0, True), [[1.0], [2.0], [0.5], [-1.0]],
                         [[[1.0, 2.0]], [[3.0, 4.0]], [[5.0, 6.0]], [[7.0, 8.0]]], (2, 2), cases, meta, 'contig', 'transposed', form)

    def coq():
        return run_enclosure_shared('C09', 'Model.Kernel', cases, prec=200, per_file=min(30, max(4, -(-len(cases) // NFILES))), timeout_goal=60)

    def done(r):
        collect(ctx, r, cases, meta, 'corrector-enclosure')
    return coq, done


# ------------------------------------------------------------------ replay / search
def replay(ctx, c):
    pp = import_pypose()
    import torch
    kind = c.get('kind')
    if kind == 'kernel-neg':
        out, how = impl_kernel_point(pp, torch, c['kid'], c['p1'], c['p2'], c['x'])
        return ('%s(%r)(%r) returned %r' % (KNAMES[c['kid']], c['p1'], c['x'], out[1])) if how == 'value' else None
    if kind == 'kernel-tensor' or (kind == 'kernel-value' and c.get('tensor')):
        t = c.get('tensor') or c
        kid = t['kid']
        k = make_kernel(pp, kid, t['p1'], t['p2'])
        ys, finds = kernel_tensor(pp, torch, k, KNAMES[kid], t['xs'], tuple(t['shape']), t['lay'])
        bad = [text for key, text in finds if c.get('key') in (None, key)]
        if ys is not None and c.get('key') is None:
            g1s, g2s = autograd12(torch, k, t['xs'])
            for j in ([c['j']] if 'j' in c else range(len(ys))):
                if not all(math.isfinite(v) for v in (ys[j], g1s[j], 0.0 if g2s is None else g2s[j])):
                    bad.append('%s(%r,%r)(%r) = %r, slopes %r %r: not finite' % (KNAMES[kid], t['p1'], t['p2'], t['xs'][j], ys[j], g1s[j], None if g2s is None else g2s[j]))
                    continue
                why = kernel_law(kid, t['p1'], t['p2'], t['xs'][j], ys[j], g1s[j], None if g2s is None else g2s[j])
                if why:
                    bad.append(why)
        return '; '.join(bad) if bad else None
    if kind == 'empty':
        if 'kid' in c:
            kid = c['kid']
            k = make_kernel(pp, kid, 1.0, -1.0 if kid == 5 else 0.0)
            try:
                y = k(torch.zeros(0, dtype=torch.float64))
                return None if tuple(y.shape) == (0,) else '%s.forward on an empty tensor returned shape %s' % (KNAMES[kid], tuple(y.shape))
            except Exception as e:  # noqa
                return '%s.forward on an empty tensor raised %r' % (KNAMES[kid], e)
        k = user_kernel(torch, c['kernel']) if c['kernel'] in USER else make_kernel(pp, KNAMES.index(c['kernel']), 1.0 if c['kernel'] != 'Scale' else 0.5, 0.0)
        R, J = torch.zeros(0, c['d'], dtype=torch.float64), torch.zeros(0, c['p'], dtype=torch.float64)
        try:
            out = as_blocks(torch, getattr(pp.optim.corrector, c['corrector'])(k)(R=R, J=J), R, J)
        except Exception as e:  # noqa
            out = ('raises', repr(e))
        return '%s(%s) on R of shape (0, %d), J of shape (0, %d): %s' % (c['corrector'], c['kernel'], c['d'], c['p'], out[1]) if out[0] == 'raises' else None
    if kind == 'kernel-value':
        out, how = impl_kernel_point(pp, torch, c['kid'], c['p1'], c['p2'], c['x'])
        if how.startswith('autograd-raises'):
            return 'the kernel returns %r but is not differentiable: %s' % (out[1], how)
        if how != 'value':
            return 'kernel raised (%s) on valid parameters / non-negative input' % how if c['x'] >= 0 else None
        return kernel_law(c['kid'], c['p1'], c['p2'], c['x'], out[1], out[2], out[3] if c['kid'] != 6 else None)
    if kind == 'kernel-mono':
        k = make_kernel(pp, c['kid'], c['p1'], c['p2'])
        y = k(torch.tensor([c['x'], c['x2']], dtype=torch.float64)).tolist()
        ty = kernel_tols(c['kid'], c['p1'], c['p2'], c['x2'], y[1], 0, 0)[0]
        return 'rho(%r)=%r > rho(%r)=%r' % (c['x'], y[0], c['x2'], y[1]) if y[1] < y[0] - 4 * ty else None
    if kind == 'grad-mode':
        spec = tuple(c['spec'])
        k = build_kernel(pp, torch, spec)
        cors = dict((cname, getattr(pp.optim.corrector, cname)(k)) for cname in ('FastTriggs', 'Triggs'))
        grad_mode_call(pp, torch, spec, k, cors, c['R'], c['J'], tuple(c['batch']), 'default', 'plain', 'plain')     # the objects have been used before
        res = grad_mode_call(pp, torch, spec, k, cors, c['R'], c['J'], tuple(c['batch']), c['mode'], c['rk'], c['jk'])
        bad = [text for key, text, cname in grad_mode_judge(spec, c['R'], c['J'], res, {}) if c.get('key') in (None, key) and c.get('corrector') in (None, cname)]
        return '; '.join(bad) if bad else None
    if kind == 'grad-mode-kernel':
        k = make_kernel(pp, c['kid'], c['p1'], c['p2'])
        try:
            k(torch.tensor([[0.5], [2.0], [0.0]], dtype=torch.float64))
        except Exception:  # noqa
            pass
        out, finds = kernel_mode_call(pp, torch, c['kid'], k, c['xs'], c['mode'], c['xk'])
        bad = [text for key, text in kernel_mode_judge(c['kid'], c['p1'], c['p2'], c['xs'], c['neg'], out, finds, 'ambient grad mode %s, input %s' % (c['mode'], c['xk']), {})
               if c.get('key') in (None, key)]
        return '; '.join(bad) if bad else None
    if kind == 'corrector':
        spec = tuple(c['spec'])
        h, finds = judge_history(pp, torch, spec, c['R'], c['J'], tuple(c['batch']), c.get('layR', 'contig'), c.get('layJ', 'contig'), c.get('form', 'kw'))
        # a replay names one clause (key) and one corrector: other, separately recorded, failures do not count
        bad = [text for key, text, cname in finds if c.get('key') in (None, key) and c.get('corrector') in (None, cname)]
        return '; '.join(bad) if bad else None
    return None


WITNESSES = [
    (('Sq', 'Sq', 0.0, 0.0, True), [[2.0]], [[[1.0]]]),
    (('Scale', 6, 0.5, 0.0, True), [[1.0, 2.0]], [[[1.0], [3.0]]]),
    (('Id', 'Id', 0.0, 0.0, True), [[1.0, 2.0]], [[[1.0], [3.0]]]),
    (('Tolerant', 5, 23.86093216690147, -0.5283749781623098, True), [[-0.27971224654684035, -1.4516636976935604]], [[[1.0], [2.0]]]),
]


def search(ctx, pp, torch):
    """model != implementation: evaluate the property's own clauses on the implementation at the
    mismatching input"""
    for m in ctx.mismatches[:40]:
        c = m['case']
        if c.get('kind') == 'kernel':
            c = dict(c, kind='kernel-neg' if c['x'] < 0 else 'kernel-value')
        try:
            why = replay(ctx, dict((k, v) for k, v in c.items() if k != 'key'))
        except Exception as e:  # noqa
            why = 'replay raised %r' % (e,)
        if not why:
            continue
        if c['kind'] == 'kernel-neg':
            key = 'kernel:%s:negative-input:accepted' % KNAMES[c['kid']]
        elif c['kind'].startswith('kernel'):
            key = 'kernel:%s:closed-form' % KNAMES[c['kid']]
        else:
            key = c.get('key') or '%s.forward:identities' % c.get('corrector', 'corrector')
        m['explained'] = True
        ctx.violation(key, 'model and implementation disagree (%s) and the property fails here: %s' % (m['family'], why), c)


def run(ctx):
    pp = import_pypose()
    import torch
    ctx.rule = RULE
    import time
    t0 = time.time()
    run_exact(ctx, pp, torch)
    # inputs are generated and the implementation is run sequentially (one PRNG); the two families of
    # Coq case files are then checked concurrently
    jobs = [run_kernel_enclosure(ctx, pp, torch), run_correctors(ctx, pp, torch)]
    tg = time.time()
    run_grad_modes(ctx, pp, torch)              # (after the generators above: their PRNG stream is unchanged)
    t1 = time.time()
    ctx.notes.append('ambient grad modes x argument kinds: %.1f s' % (t1 - tg))
    with ThreadPoolExecutor(max_workers=2 if NCPU >= 12 else 1) as ex:
        futs = [ex.submit(coq) for coq, _ in jobs]
        results = [f.result() for f in futs]
    for (_, done), r in zip(jobs, results):
        done(r)
    search(ctx, pp, torch)
    ctx.notes.append('implementation + oracles %.1f s, Coq case files %.1f s' % (t1 - t0, time.time() - t1))
    ctx.assumptions = ["torch.autograd returns rho'(x), rho''(x) (contract of the Section variables g1, g2; checked against mpmath on every corrector case)",
                       'float64 only; IEEE rounding not modelled (tolerance %d eps of the intermediate magnitudes)' % K_EPS,
                       'tensor shapes / broadcasting of J not modelled']
