"""Shared helpers for the Lie-group properties: exactly representable elements, calling pypose."""
from fractions import Fraction
import itertools, math
from .common import *

GROUPS = ['SO3', 'SE3', 'RxSO3', 'Sim3']
ALGS = ['so3', 'se3', 'rxso3', 'sim3']
GID = {g: i for i, g in enumerate(GROUPS)}
GDIM = {'SO3': 4, 'SE3': 7, 'RxSO3': 5, 'Sim3': 8}
ADIM = {'SO3': 3, 'SE3': 6, 'RxSO3': 4, 'Sim3': 7}

# the 24 Hurwitz unit quaternions (binary tetrahedral group): exactly representable, unit norm,
# non-commutative
HURWITZ = []
for i in range(4):
    for s in (1.0, -1.0):
        q = [0.0] * 4
        q[i] = s
        HURWITZ.append(tuple(q))
for sg in itertools.product((0.5, -0.5), repeat=4):
    HURWITZ.append(tuple(sg))


def dy(rng, bits=6, lim=1.0):
    """a multiple of 2^-bits in [-lim, lim]"""
    n = int(lim * (1 << bits))
    return rng.randint(-n, n) / float(1 << bits)


def unit_elt(rng, g):
    """exactly representable valid group element (unit quaternion, power-of-two scale)"""
    q = list(rng.choice(HURWITZ))
    t = [dy(rng, 4, 4.0) for _ in range(3)]
    s = [rng.choice([0.25, 0.5, 1.0, 2.0, 4.0])]
    return {'SO3': q, 'SE3': t + q, 'RxSO3': q + s, 'Sim3': t + q + s}[g]


def dyadic_elt(rng, g):
    """dyadic, not necessarily unit (the model is polynomial: the tie does not need validity)"""
    q = [dy(rng) for _ in range(4)]
    t = [dy(rng) for _ in range(3)]
    s = [rng.choice([0.25, 0.5, 1.0, 2.0, 4.0, -0.5])]
    return {'SO3': q, 'SE3': t + q, 'RxSO3': q + s, 'Sim3': t + q + s}[g]


def generic_elt(rng, g, torch, dtype):
    """generic valid element (unit quaternion up to rounding)"""
    v = [rng.gauss(0, 1) for _ in range(4)]
    n = math.sqrt(sum(x * x for x in v))
    q = [x / n for x in v]
    t = [rng.uniform(-3, 3) for _ in range(3)]
    s = [math.exp(rng.uniform(-1, 1))]
    return {'SO3': q, 'SE3': t + q, 'RxSO3': q + s, 'Sim3': t + q + s}[g]


def LT(pp, torch, g, data, dtype=None):
    dtype = dtype or torch.float64
    return pp.LieTensor(torch.tensor(data, dtype=dtype), ltype=getattr(pp, g + '_type'))


def fr(t):
    """tensor -> list of Fractions (flattened)"""
    return [Fraction(v) for v in t.detach().reshape(-1).tolist()]


def lie_case_lit(i, g, op, args, out):
    return '(%d%%nat, %d%%nat, %d%%nat, %s, %s)' % (i, GID[g], op, coq_list(qlist(a) for a in args), qlist(out))


LIE_HEADER = ('From PV Require Import Base.Num Model.LieGroup.\n'
              'From Coq Require Import List ZArith QArith Bool. Import ListNotations.\n')


def shard(items, n):
    return [items[k:k + n] for k in range(0, len(items), n)]


# ---- textbook reference over Fractions (independent of the Coq model; used by searches)
def q_mul(a, b):
    ax, ay, az, aw = a
    bx, by, bz, bw = b
    return [aw * bx + ax * bw + ay * bz - az * by,
            aw * by - ax * bz + ay * bw + az * bx,
            aw * bz + ax * by - ay * bx + az * bw,
            aw * bw - ax * bx - ay * by - az * bz]


def q_conj(a):
    return [-a[0], -a[1], -a[2], a[3]]


def q_rot(q, p):
    """q p q^* for unit q"""
    r = q_mul(q_mul(q, list(p) + [0]), q_conj(q))
    return r[:3]


def split_elt(g, x):
    """-> (t, q, s)"""
    x = list(x)
    if g == 'SO3':
        return [0, 0, 0], x, 1
    if g == 'SE3':
        return x[:3], x[3:], 1
    if g == 'RxSO3':
        return [0, 0, 0], x[:4], x[4]
    return x[:3], x[3:7], x[7]


def join_elt(g, t, q, s):
    return {'SO3': list(q), 'SE3': list(t) + list(q), 'RxSO3': list(q) + [s], 'Sim3': list(t) + list(q) + [s]}[g]


def ref_act(g, x, p):
    t, q, s = split_elt(g, x)
    r = q_rot(q, p)
    return [s * r[i] + t[i] for i in range(3)]


def ref_mul(g, x, y):
    t1, q1, s1 = split_elt(g, x)
    t2, q2, s2 = split_elt(g, y)
    r = q_rot(q1, t2)
    return join_elt(g, [t1[i] + s1 * r[i] for i in range(3)], q_mul(q1, q2), s1 * s2)


def ref_inv(g, x):
    t, q, s = split_elt(g, x)
    qi = q_conj(q)
    r = q_rot(qi, t)
    return join_elt(g, [-r[i] / s for i in range(3)], qi, Fraction(1) / s)


def ref_matrix(g, x):
    """documented representation: [[sR, t],[0,1]] (3x3 R for SO3), row-major"""
    t, q, s = split_elt(g, x)
    cols = [q_rot(q, e) for e in ([1, 0, 0], [0, 1, 0], [0, 0, 1])]
    R = [[s * cols[j][i] for j in range(3)] for i in range(3)]
    if g == 'SO3':
        return [v for row in R for v in row]
    M = [R[i] + [t[i]] for i in range(3)] + [[0, 0, 0, 1]]
    return [v for row in M for v in row]
