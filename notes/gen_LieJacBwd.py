# generate the "backward = transpose of L" lemmas for all four groups
G = {
 0: dict(name='SO3', gd=4, k=3, lX='l_q', la='l_v3', out='v3_l', Adj='SO3_AdjXa', AdjT='SO3_AdjTXa', ad='vcross', neg='vneg',
         actX=lambda o,d: f'mvmul (skew (vneg {o})) {d}', sR=lambda X: f'SO3_Adj {X}',
         act4X=lambda o,w,d: f'mvmul (skew (vneg {o})) {d}', tr=lambda X: 'vzero'),
 1: dict(name='SE3', gd=7, k=6, lX='l_SE3', la='l_pair3', out='v6_l', Adj='SE3_AdjXa', AdjT='SE3_AdjTXa', ad='se3_ad', neg='v6neg',
         actX=lambda o,d: f'vadd (fst {d}) (mvmul (skew (vneg {o})) (snd {d}))', sR=lambda X: f'SO3_Adj (snd {X})',
         act4X=lambda o,w,d: f'vadd (vscale {w} (fst {d})) (mvmul (skew (vneg {o})) (snd {d}))', tr=lambda X: f'fst {X}'),
 2: dict(name='RxSO3', gd=5, k=4, lX='l_RxSO3', la='l_v4a', out='v4_l', Adj='RxSO3_AdjXa', AdjT='RxSO3_AdjTXa', ad='rxso3_ad', neg='v4neg',
         actX=lambda o,d: f'vadd (mvmul (skew (vneg {o})) (fst {d})) (vscale (snd {d}) {o})', sR=lambda X: f'mscale3 (snd {X}) (SO3_Adj (fst {X}))',
         act4X=lambda o,w,d: f'vadd (mvmul (skew (vneg {o})) (fst {d})) (vscale (snd {d}) {o})', tr=lambda X: 'vzero'),
 3: dict(name='Sim3', gd=8, k=7, lX='l_Sim3', la='l_v7', out='v7_l', Adj='Sim3_AdjXa', AdjT='Sim3_AdjTXa', ad='sim3_ad', neg='v7neg',
         actX=lambda o,d: f'vadd (vadd (fst (fst {d})) (mvmul (skew (vneg {o})) (snd (fst {d})))) (vscale (snd {d}) {o})', sR=lambda X: f'mscale3 (snd (snd {X})) (SO3_Adj (fst (snd {X})))',
         act4X=lambda o,w,d: f'vadd (vadd (vscale {w} (fst (fst {d}))) (mvmul (skew (vneg {o})) (snd (fst {d})))) (vscale (snd {d}) {o})', tr=lambda X: f'fst {X}'),
}
def destr(v, n, pre):
    names = ' '.join(f'[|{pre}{i}' for i in range(1, n+1))
    return f"  destruct {v} as {names} [|? ?]" + ']'*n + "; try discriminate.\n"
def lemma(name, vars_, stmt, unf=''):
    # vars_: list of (var, len, prefix)
    s = f"Lemma {name} ({' '.join(v for v,_,_ in vars_)} : list R) : " + ' -> '.join(f'length {v} = {n}%nat' for v,n,_ in vars_) + " ->\n  " + stmt + ".\nProof.\n  intros " + ' '.join('H'+v for v,_,_ in vars_) + ".\n"
    for v,n,p in vars_: s += destr(v, n, p)
    s += f"  {unf}bwd_unfold. lie_unfold. ring.\nQed.\n"
    return s
def gen(g, only=None):
    d = G[g]; n=d['name']; k=d['k']; gd=d['gd']; X=f"({d['lX']} X)"; la=d['la']; out=d['out']
    L = []
    L.append(lemma(f'mul_bwd_{n}_X', [('X',gd,'x'),('gz',gd,'g'),('d',k,'d')],
      f"ldot (firstn {k} (fst (mul_bwd {g} X gz))) d = ldot (firstn {k} gz) d"))
    L.append(lemma(f'mul_bwd_{n}_Y', [('X',gd,'x'),('gz',gd,'g'),('d',k,'d')],
      f"ldot (firstn {k} (snd (mul_bwd {g} X gz))) d = ldot (firstn {k} gz) ({out} ({d['Adj']} {X} ({la} d)))"))
    L.append(lemma(f'inv_bwd_{n}', [('X',gd,'x'),('gz',gd,'g'),('d',k,'d')],
      f"ldot (firstn {k} (inv_bwd {g} X gz)) d = ldot (firstn {k} gz) ({out} ({d['neg']} ({d['Adj']} {X} ({la} d))))"))
    L.append(lemma(f'act_bwd_{n}_X', [('X',gd,'x'),('o',3,'o'),('gp',3,'g'),('d',k,'d')],
      f"ldot (firstn {k} (fst (act_bwd {g} X o gp))) d = ldot gp (v3_l ({d['actX']('(l_v3 o)', f'({la} d)')}))"))
    L.append(lemma(f'act_bwd_{n}_p', [('X',gd,'x'),('o',3,'o'),('gp',3,'g'),('d',3,'d')],
      f"ldot (snd (act_bwd {g} X o gp)) d = ldot gp (v3_l (mvmul ({d['sR'](X)}) (l_v3 d)))"))
    L.append(lemma(f'act4_bwd_{n}_X', [('X',gd,'x'),('o',4,'o'),('gp',4,'g'),('d',k,'d')],
      f"ldot (firstn {k} (fst (act4_bwd {g} X o gp))) d = ldot gp (v3_l ({d['act4X']('(l_v3 o)', '(nth 3 o 0)', f'({la} d)')}) ++ [0])"))
    L.append(lemma(f'act4_bwd_{n}_p', [('X',gd,'x'),('o',4,'o'),('gp',4,'g'),('d',4,'d')],
      f"ldot (snd (act4_bwd {g} X o gp)) d = ldot gp (v3_l (vadd (mvmul ({d['sR'](X)}) (l_v3 d)) (vscale (nth 3 d 0) ({d['tr'](X)}))) ++ [nth 3 d 0])"))
    L.append(lemma(f'adj_bwd_{n}_X', [('X',gd,'x'),('o',k,'o'),('gz',k,'g'),('d',k,'d')],
      f"ldot (firstn {k} (fst (adj_bwd {g} X o gz))) d = ldot gz ({out} ({d['neg']} ({d['ad']} ({la} o) ({la} d))))"))
    L.append(lemma(f'adj_bwd_{n}_a', [('X',gd,'x'),('o',k,'o'),('gz',k,'g'),('d',k,'d')],
      f"ldot (snd (adj_bwd {g} X o gz)) d = ldot gz ({out} ({d['Adj']} {X} ({la} d)))"))
    L.append(lemma(f'adjT_bwd_{n}_X', [('X',gd,'x'),('a',k,'a'),('gz',k,'g'),('d',k,'d')],
      f"ldot (firstn {k} (fst (adjT_bwd {g} X a gz))) d = ldot gz ({out} ({d['AdjT']} {X} ({d['ad']} ({la} a) ({la} d))))"))
    L.append(lemma(f'adjT_bwd_{n}_a', [('X',gd,'x'),('a',k,'a'),('gz',k,'g'),('d',k,'d')],
      f"ldot (snd (adjT_bwd {g} X a gz)) d = ldot gz ({out} ({d['AdjT']} {X} ({la} d)))"))
    return L
hdr = '''(* C04: every modelled backward of Model/LieJac.v (mul_bwd, inv_bwd, act_bwd, act4_bwd, adj_bwd, adjT_bwd; all four groups) is the
   TRANSPOSE of the map L of the derivative statements of Proofs/LieJac.v, LieJac2.v, LieJac3.v:
       <backward(cotangent), d> = <cotangent, L d>      for all lists of the right lengths
   (ldot = dot product of lists; the zero slot of group-typed gradients is cut off by firstn).  These are polynomial
   identities (no unit-norm hypothesis); generated file, one lemma per op / argument / group. *)
From Coq Require Import Reals Lra List Lia.
Import ListNotations.
From PV Require Import Base.Num Base.RTac Model.LieGroup Model.LieExp Model.LieJac Proofs.LieGroup Proofs.LieExp Proofs.LieJac
  Proofs.LieJac2 Proofs.LieJac3 Proofs.LieJacPair2.
Local Open Scope R_scope.
#[local] Remove Hints NumQ NumZ : typeclass_instances.
Ltac bwd_unfold :=
  cbv [adjT_bwd adjT_bwd_old adj_bwd mul_bwd inv_bwd act_bwd act4_bwd act4_jac matrix4x4 lmscale t_of g_translation zslot lneg lvm ladd lsub lscale lzip lmv ldot map AdjM adjM
       SO3_AdjM SE3_AdjM RxSO3_AdjM Sim3_AdjM so3_adjM se3_adjM rxso3_adjM sim3_adjM act_jac hcat m3rows lzm lzeros lid colv
       g_inv SE3_l q_l l_SE3 l_q l_RxSO3 RxSO3_l l_Sim3 Sim3_l se3_ad rxso3_ad sim3_ad v6neg v4neg v7neg
       seq Nat.eqb app firstn skipn nth l_v3 v3_l l_pair3 l_v4a l_v7 adim sR_of v6_l v4_l v7_l].
'''
import sys
if __name__ == '__main__':
    gs = [int(a) for a in sys.argv[1:]] or [0,1,2,3]
    body = ''
    for g in gs:
        body += f"\n(* ---------- {G[g]['name']} *)\n" + ''.join(gen(g))
    print(hdr + body)
