(* Feasibility probe for C08: the LevenbergMarquardt.step accept/reject loop as a state machine
   over an abstract parameter space.  Throw-away; not framework code. *)
From Coq Require Import Reals Lra List Arith Lia.
Import ListNotations.
Open Scope R_scope.

Section LM.
Variable Theta Delta : Type.
Variable loss : Theta -> R.
Variable retract : Theta -> Delta -> Theta.
Variable negd : Delta -> Delta.
Hypothesis retract_undo : forall th d, retract (retract th d) (negd d) = th.

(* strategy state is abstract: upd s last loss d = new strategy state *)
Variable SState : Type.
Variable upd : SState -> R -> R -> Delta -> SState.
(* solver oracle: may depend on the trial number within the call and on the strategy state
   (damping); None = the solver raised *)
Variable solve : Theta -> SState -> nat -> option Delta.

Record st := { th : Theta; cached : R; last : R; rej : nat; ss : SState; solves : nat }.

(* one iteration of the while-loop body; returns (state, continue?) *)
Definition body (reject : nat) (s : st) : st * bool :=
  match solve (th s) (ss s) (solves s) with
  | None => (s, false)                                     (* except: ...; break *)
  | Some d =>
    let th1 := retract (th s) d in
    let l1 := loss th1 in
    let ss1 := upd (ss s) (last s) l1 d in
    if Rlt_dec (last s) l1 then
      if Nat.ltb (rej s) reject then
        ({| th := retract th1 (negd d); cached := last s; last := last s;
            rej := S (rej s); ss := ss1; solves := S (solves s) |}, true)
      else ({| th := th1; cached := l1; last := last s; rej := rej s; ss := ss1;
               solves := S (solves s) |}, false)
    else ({| th := th1; cached := l1; last := last s; rej := rej s; ss := ss1;
             solves := S (solves s) |}, false)
  end.

(* while self.last <= self.loss: body  -- with fuel *)
Fixpoint loop (reject fuel : nat) (s : st) : option st :=
  match fuel with
  | O => None
  | S f => if Rle_dec (last s) (cached s)
           then let '(s', cont) := body reject s in
                if cont then loop reject f s' else Some s'
           else Some s
  end.

Definition step (reject : nat) (s : st) : option st :=
  loop reject (S (S reject))
       {| th := th s; cached := cached s; last := cached s; rej := 0; ss := ss s; solves := 0 |}.

(* invariant of the loop *)
Definition Inv (reject : nat) (l0 : R) (th0 : Theta) (s : st) : Prop :=
  cached s = loss (th s) /\ last s = l0 /\ (rej s <= reject)%nat /\ solves s = rej s /\
  (th s = th0 /\ cached s = l0).

Lemma loop_spec reject l0 th0 : forall fuel s,
  Inv reject l0 th0 s -> (reject - rej s < fuel)%nat ->
  exists s', loop reject fuel s = Some s' /\
     cached s' = loss (th s') /\                       (* reports the true loss *)
     (cached s' <= l0 \/ rej s' = reject) /\           (* never worse unless exhausted *)
     (solves s' <= S reject)%nat /\                   (* at most reject+1 trials *)
     (solves s' = rej s' -> th s' = th0 /\ cached s' = l0).  (* all trials rejected/raised: restored *)
Proof.
  induction fuel as [|f IH]; intros s (Hc & Hl & Hr & Hs & Hth & Hc0) Hf; [lia|].
  cbn [loop]. destruct (Rle_dec (last s) (cached s)) as [Hle|Hn].
  2:{ exists s. repeat split; auto; try lia; try (left; lra). }
  unfold body. destruct (solve (th s) (ss s) (solves s)) as [d|].
  2:{ exists s. repeat split; auto; try lia; try (left; lra). }
  set (th1 := retract (th s) d). set (l1 := loss th1).
  destruct (Rlt_dec (last s) l1) as [Hworse|Hok].
  - destruct (Nat.ltb (rej s) reject) eqn:E.
    + apply Nat.ltb_lt in E.
      apply IH.
      * unfold Inv; cbn. unfold th1. rewrite retract_undo. repeat split; auto; try lia; congruence.
      * cbn. lia.
    + apply Nat.ltb_ge in E. eexists; split; [reflexivity|]. cbn.
      repeat split; auto; try lia; try (right; lia).
  - eexists; split; [reflexivity|]. cbn. repeat split; auto; try lia; try (left; lra).
Qed.

Theorem step_spec reject s : cached s = loss (th s) ->
  exists s', step reject s = Some s' /\ cached s' = loss (th s') /\
     (cached s' <= cached s \/ rej s' = reject) /\ (solves s' <= S reject)%nat /\
     (solves s' = rej s' -> th s' = th s /\ cached s' = cached s).
Proof.
  intros H. unfold step. apply loop_spec with (l0 := cached s) (th0 := th s).
  - unfold Inv; cbn. repeat split; auto; lia.
  - cbn. lia.
Qed.
End LM.
Print Assumptions step_spec.
