(* Feasibility probe for C12: Hillis-Steele scan = sequential fold, for every length,
   any associative (non-commutative) operation.  Throw-away; not framework code. *)
From Coq Require Import List Arith Lia PeanoNat.
Import ListNotations.

Section Scan.
Variable A : Type.
Variable op : A -> A -> A.
Hypothesis op_assoc : forall a b c, op (op a b) c = op a (op b c).
Variable d : A.

(* one pass with stride s: v[i] := op v[i-s] v[i] for i >= s, all reads before writes *)
Definition pass (s : nat) (v : list A) : list A :=
  map (fun i => if s <=? i then op (nth (i - s) v d) (nth i v d) else nth i v d)
      (seq 0 (length v)).

Definition scan (strides : list nat) (v : list A) : list A :=
  fold_left (fun v s => pass s v) strides v.

(* product of x[lo .. lo+len] (len+1 items), left to right *)
Fixpoint seg (x : list A) (lo len : nat) : A :=
  match len with
  | O => nth lo x d
  | S l => op (seg x lo l) (nth (lo + S l) x d)
  end.

Lemma seg_split x lo l1 l2 :
  seg x lo (l1 + S l2) = op (seg x lo l1) (seg x (lo + S l1) l2).
Proof.
  induction l2 as [|l2 IH].
  - replace (l1 + 1) with (S l1) by lia. cbn [seg]. f_equal. 
  - replace (l1 + S (S l2)) with (S (l1 + S l2)) by lia. cbn [seg].
    rewrite IH, op_assoc. do 2 f_equal. f_equal. lia.
Qed.

Lemma pass_length s v : length (pass s v) = length v.
Proof. unfold pass. now rewrite map_length, seq_length. Qed.

Lemma pass_nth s v i : i < length v ->
  nth i (pass s v) d = if s <=? i then op (nth (i - s) v d) (nth i v d) else nth i v d.
Proof.
  intros Hi. unfold pass.
  rewrite nth_indep with (d' := (fun i => if s <=? i then op (nth (i - s) v d) (nth i v d) else nth i v d) 0)
    by now rewrite map_length, seq_length.
  rewrite map_nth with (f := fun i => if s <=? i then op (nth (i - s) v d) (nth i v d) else nth i v d).
  rewrite seq_nth by assumption. reflexivity.
Qed.

(* invariant: window w: v[i] = product of the last min(i+1,w) inputs ending at i *)
Definition Inv (x v : list A) (w : nat) : Prop :=
  length v = length x /\
  forall i, i < length x -> nth i v d = seg x (i + 1 - Nat.min (i + 1) w) (Nat.min (i + 1) w - 1).

Lemma inv_init x : Inv x x 1.
Proof.
  split; [reflexivity|]. intros i Hi.
  replace (Nat.min (i + 1) 1) with 1 by lia. replace (i + 1 - 1) with i by lia. reflexivity.
Qed.

Lemma inv_pass x v w : 0 < w -> Inv x v w -> Inv x (pass w v) (2 * w).
Proof.
  intros Hw [Hlen Hv]. split; [now rewrite pass_length|].
  intros i Hi. rewrite pass_nth by lia.
  destruct (w <=? i) eqn:E.
  - apply Nat.leb_le in E.
    rewrite (Hv (i - w)) by lia. rewrite (Hv i) by lia.
    replace (Nat.min (i + 1) w) with w by lia.
    set (m := Nat.min (i - w + 1) w).
    assert (Hm : 1 <= m <= w) by (unfold m; lia).
    replace (Nat.min (i + 1) (2 * w)) with (m + w) by (unfold m; lia).
    replace (m + w - 1) with ((m - 1) + S (w - 1)) by lia.
    rewrite seg_split.
    f_equal.
    + f_equal; lia.
    + f_equal; lia.
  - apply Nat.leb_gt in E. rewrite (Hv i) by lia.
    f_equal; lia.
Qed.

(* strides 1,2,4,...,2^(k-1) *)
Fixpoint pows (k : nat) (s : nat) : list nat :=
  match k with O => [] | S k' => s :: pows k' (2 * s) end.

Lemma inv_scan x : forall k v w, 0 < w -> Inv x v w -> Inv x (scan (pows k w) v) (2 ^ k * w).
Proof.
  induction k as [|k IH]; intros v w Hw HI; cbn [pows scan fold_left].
  - now rewrite Nat.pow_0_r, Nat.mul_1_l.
  - specialize (IH (pass w v) (2 * w)). 
    replace (2 ^ S k * w) with (2 ^ k * (2 * w)) by (cbn [Nat.pow]; lia).
    apply IH; [lia | now apply inv_pass].
Qed.

(* prefix product x[0..i] *)
Definition prefix (x : list A) (i : nat) := seg x 0 i.

Theorem scan_correct (x : list A) (k : nat) :
  length x <= 2 ^ k ->
  forall i, i < length x -> nth i (scan (pows k 1) x) d = prefix x i.
Proof.
  intros Hk i Hi.
  destruct (inv_scan x k x 1 ltac:(lia) (inv_init x)) as [_ H].
  rewrite H by assumption. rewrite Nat.mul_1_r.
  replace (Nat.min (i + 1) (2 ^ k)) with (i + 1) by lia.
  unfold prefix. f_equal; lia.
Qed.
End Scan.
Print Assumptions scan_correct.
