From Coq Require Import Reals Lra Psatz Nsatz.
Open Scope R_scope.
Section A.
Variables x1 x2 x3 d1 d2 d3 T s c sT cT : R.
Hypothesis Tpos : 0 < T.
Hypothesis TT : T*T = x1*x1+x2*x2+x3*x3.
Hypothesis sc : s*s + c*c = 1.
Hypothesis HsT : sT = 2*s*c.         (* sin T *)
Hypothesis HcT : cT = 1 - 2*s*s.     (* cos T *)
Let xd := x1*d1+x2*d2+x3*d3.
Let f := s / T.
Let f' := (xd/T) * ((c * T / 2 - s) / (T*T)).
(* derivative of q = Exp(x+e dl) at 0 *)
Let dq1 := f' * x1 + f * d1.
Let dq2 := f' * x2 + f * d2.
Let dq3 := f' * x3 + f * d3.
Let dqw := - s / 2 * (xd / T).
(* conj(Exp x) = (-f x, c) ; product (dq) (x) conj *)
Let b1 := - f * x1. Let b2 := - f * x2. Let b3 := - f * x3. Let bw := c.
Let r1 := dqw*b1 + dq1*bw + (dq2*b3 - dq3*b2).
Let rw := dqw*bw - (dq1*b1+dq2*b2+dq3*b3).
Let c1 := (1 - cT) / (T*T).
Let c2 := (T - sT) / (T*T*T).
Let k1 := x2*d3 - x3*d2.
Let J1 := d1 + c1*k1 + c2*(x1*xd - T*T*d1).
Lemma r1_ok : r1 = /2 * J1.
Proof.
  unfold r1, J1, c1, c2, k1, dq1, dq2, dq3, dqw, b1, b2, b3, bw, f, f', xd.
  subst sT cT. assert (Tn : T <> 0) by lra.
  field_simplify_eq; [|assumption]. cbn [Rpow_def.pow]. clear - sc. Time nsatz.
Qed.
Lemma rw_ok : rw = 0.
Proof.
  unfold rw, dq1, dq2, dq3, dqw, b1, b2, b3, bw, f, f', xd.
  assert (Tn : T <> 0) by lra.
  field_simplify_eq; [|assumption]. cbn [Rpow_def.pow]. clear - TT. Time nsatz.
Qed.
End A.
