From Coq Require Import Reals Lra Psatz.
From Interval Require Import Tactic.
Open Scope R_scope.
Definition qmul (a b : R*R*R*R) : R*R*R*R :=
  let '(ax,ay,az,aw) := a in let '(bx,by_,bz,bw) := b in
  (aw*bx + ax*bw + (ay*bz - az*by_),
   aw*by_ + ay*bw + (az*bx - ax*bz),
   aw*bz + az*bw + (ax*by_ - ay*bx),
   aw*bw - (ax*bx+ay*by_+az*bz)).
Lemma pair_eq4 (a b c d a' b' c' d':R) : a=a'->b=b'->c=c'->d=d'->(a,b,c,d)=(a',b',c',d').
Proof. intros;subst;reflexivity. Qed.
Lemma qmul_assoc a b c : qmul (qmul a b) c = qmul a (qmul b c).
Proof. destruct a as [[[ax ay] az] aw], b as [[[bx by_] bz] bw], c as [[[cx cy] cz] cw].
 unfold qmul. apply pair_eq4; ring. Qed.

Goal forall t, 0 <= t <= 1/4503599627370496 ->
  Rabs ((1/2 - t*t/48 + t*t*t*t/3840) * t - sin (t/2)) <= 1e-100.
Proof. intros t H. Time interval with (i_taylor t, i_degree 8, i_prec 400). Qed.
(* relative version: divide by t problematic at 0; state multiplied *)
Goal forall t, 0 <= t <= 1/4503599627370496 ->
  Rabs ((1 - t*t/8 + t*t*t*t/384) - cos (t/2)) <= 1e-90.
Proof. intros t H. Time interval with (i_taylor t, i_degree 8, i_prec 400). Qed.
