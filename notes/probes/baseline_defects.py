import torch, pypose as pp
torch.set_default_dtype(torch.float64)
# (a) frozen param
class M(torch.nn.Module):
    def __init__(s):
        super().__init__()
        s.a=torch.nn.Parameter(torch.tensor([1.0,2.0]), requires_grad=False)
        s.b=torch.nn.Parameter(torch.tensor([3.0]))
    def forward(s,x): return torch.cat([s.a*x, s.b*x])
m=M(); opt=pp.optim.GN(m)
try:
    l=opt.step(torch.tensor([1.0])); print('GN frozen: loss',float(l),'a',m.a.data.tolist(),'b',m.b.data.tolist())
except Exception as e: print('GN frozen ERR',type(e).__name__,str(e)[:100])
class M2(torch.nn.Module):
    def __init__(s):
        super().__init__()
        s.b=torch.nn.Parameter(torch.tensor([3.0]))
        s.a=torch.nn.Parameter(torch.tensor([1.0,2.0]), requires_grad=False)
    def forward(s,x): return torch.cat([s.a*x, s.b*x])
m=M2(); opt=pp.optim.GN(m)
try:
    l=opt.step(torch.tensor([1.0])); print('GN frozen2: loss',float(l),'a',m.a.data.tolist(),'b',m.b.data.tolist())
except Exception as e: print('GN frozen2 ERR',type(e).__name__,str(e)[:100])
# (b) CG x mutation
from pypose.optim.solver import CG
A=torch.tensor([[4.,1],[1,3]]); b=torch.tensor([[1.],[2]]); x0=torch.tensor([[1.],[1.]]); x0c=x0.clone()
x=CG()(A,b,x0); print('CG x0 mutated:', not torch.equal(x0,x0c), x0.flatten().tolist())
# (e) AdjT backward SE3 vs finite diff
X=pp.randn_SE3(requires_grad=True); a=pp.randn_se3()
def f(X): return X.AdjT(a).tensor()
J=torch.autograd.functional.jacobian(lambda t: f(pp.SE3(t)), X.tensor())
eps=1e-6; Jn=torch.zeros(6,6)
for i in range(6):
    d=torch.zeros(6); d[i]=eps
    Jn[:,i]=(f(pp.se3(d).Exp()@X.detach())-f(pp.se3(-d).Exp()@X.detach()))/(2*eps)
print('AdjT SE3 jac err', (J[:,:6]-Jn).abs().max().item())
X=pp.randn_SO3(requires_grad=True); a=pp.randn_so3()
f=lambda X: X.AdjT(a).tensor()
J=torch.autograd.functional.jacobian(lambda t: f(pp.SO3(t)), X.tensor()); Jn=torch.zeros(3,3)
for i in range(3):
    d=torch.zeros(3); d[i]=eps
    Jn[:,i]=(f(pp.so3(d).Exp()@X.detach())-f(pp.so3(-d).Exp()@X.detach()))/(2*eps)
print('AdjT SO3 jac err', (J[:,:3]-Jn).abs().max().item())
