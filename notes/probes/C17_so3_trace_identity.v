From Coq Require Import Reals Lra Psatz Nsatz.
Open Scope R_scope.
Section S.
Variables a b c d e f g h i : R.
(* R = [[a b c],[d e f],[g h i]] orthogonal with det 1 *)
Hypothesis O11 : a*a+b*b+c*c = 1.
Hypothesis O22 : d*d+e*e+f*f = 1.
Hypothesis O33 : g*g+h*h+i*i = 1.
Hypothesis O12 : a*d+b*e+c*f = 0.
Hypothesis O13 : a*g+b*h+c*i = 0.
Hypothesis O23 : d*g+e*h+f*i = 0.
Hypothesis Det : a*(e*i-f*h) - b*(d*i-f*g) + c*(d*h-e*g) = 1.
Lemma trace_id : (1 + (a+e+i)) * (3 - (a+e+i)) = (b-d)*(b-d) + (c-g)*(c-g) + (f-h)*(f-h).
Proof. Time nsatz. Qed.
End S.
