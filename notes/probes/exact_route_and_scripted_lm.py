import torch, pypose as pp, random
from fractions import Fraction as Fr
torch.set_default_dtype(torch.float64)
rnd = random.Random(1)
def dy(): return rnd.randint(-64,64)/64.0
def qmul(a,b):
    ax,ay,az,aw=a; bx,by,bz,bw=b
    return (aw*bx+ax*bw+(ay*bz-az*by), aw*by+ay*bw+(az*bx-ax*bz), aw*bz+az*bw+(ax*by-ay*bx), aw*bw-(ax*bx+ay*by+az*bz))
def act(q,p):
    x,y,z,w=q; px,py,pz=p
    uv=(2*(y*pz-z*py),2*(z*px-x*pz),2*(x*py-y*px))
    return (px+w*uv[0]+(y*uv[2]-z*uv[1]), py+w*uv[1]+(z*uv[0]-x*uv[2]), pz+w*uv[2]+(x*uv[1]-y*uv[0]))
bad=0
for _ in range(2000):
    a=[dy() for _ in range(4)]; b=[dy() for _ in range(4)]; p=[dy() for _ in range(3)]
    z=(pp.SO3(torch.tensor(a))@pp.SO3(torch.tensor(b))).tensor().tolist()
    ze=qmul([Fr(v) for v in a],[Fr(v) for v in b])
    if [Fr(v) for v in z]!=list(ze): bad+=1
    y=(pp.SO3(torch.tensor(a))@torch.tensor(p)).tolist()
    ye=act([Fr(v) for v in a],[Fr(v) for v in p])
    if [Fr(v) for v in y]!=list(ye): bad+=1
    # SE3 matrix
    X=pp.SE3(torch.tensor([dy(),dy(),dy()]+a)); m=X.matrix()
print('bad',bad)

# LM scripted solver
class M(torch.nn.Module):
    def __init__(s): super().__init__(); s.t=torch.nn.Parameter(torch.tensor([4.0]))
    def forward(s,x): return s.t*x
script=[-8.0, 1.0, -2.0, -1.0]  # deltas
calls=[]
class Solver(torch.nn.Module):
    def forward(s,A,b):
        calls.append((A.clone(),b.clone()));
        d=script[len(calls)-1]
        if d is None: raise RuntimeError('boom')
        return torch.tensor([[d]])
class Strat(pp.optim.strategy.Adaptive):
    def update(s,pg,last,loss,J,D,R,*a,**k):
        print('  strat', float(last), float(loss), pg['damping']); super().update(pg,last,loss,J,D,R)
m=M(); opt=pp.optim.LM(m,solver=Solver(),strategy=Strat(damping=0.5),reject=3)
for i in range(2):
    l=opt.step(torch.tensor([1.0])); print('step',i,'ret',float(l),'theta',m.t.item(),'rej',opt.reject_count,'damp',opt.param_groups[0]['damping'], 'A',[float(c[0]) for c in calls])
