From Coq Require Import Reals Lra Psatz Nsatz.
From Coquelicot Require Import Coquelicot.
Open Scope R_scope.
Section S.
(* curve in quaternion space *)
Variables qx qy qz qw : R -> R.
Variables dx dy dz : R.   (* tangent direction d *)
Variables px py pz : R.
Hypothesis Dx : ex_derive qx 0. Hypothesis Dy : ex_derive qy 0.
Hypothesis Dz : ex_derive qz 0. Hypothesis Dw : ex_derive qw 0.
Let x := qx 0. Let y := qy 0. Let z := qz 0. Let w := qw 0.
Hypothesis U : x*x+y*y+z*z+w*w = 1.
(* gamma'(0) = T_X d = 1/2 (d,0) (x) X  : v' = 1/2 (w d + d x v), w' = -1/2 d.v *)
Hypothesis Tx : Derive qx 0 = /2 * (w*dx + (dy*z - dz*y)).
Hypothesis Ty : Derive qy 0 = /2 * (w*dy + (dz*x - dx*z)).
Hypothesis Tz : Derive qz 0 = /2 * (w*dz + (dx*y - dy*x)).
Hypothesis Tw : Derive qw 0 = - /2 * (dx*x+dy*y+dz*z).
Definition actx (x y z w : R) :=
  px + w*(2*(y*pz - z*py)) + (y*(2*(x*py - y*px)) - z*(2*(z*px - x*pz))).
Definition acty (x y z w : R) :=
  py + w*(2*(z*px - x*pz)) + (z*(2*(y*pz - z*py)) - x*(2*(x*py - y*px))).
Definition actz (x y z w : R) :=
  pz + w*(2*(x*py - y*px)) + (x*(2*(z*px - x*pz)) - y*(2*(y*pz - z*py))).
(* claim: d/de Act(gamma e) p = d x out  (i.e. -[out]x d) , x-component: dy*outz - dz*outy *)
Lemma act_dX_x : is_derive (fun e => actx (qx e) (qy e) (qz e) (qw e)) 0
   (dy * actz x y z w - dz * acty x y z w).
Proof.
  unfold actx. auto_derive. repeat split; auto.
  change (fun x0 : R => qx x0) with qx; change (fun x0 : R => qy x0) with qy; change (fun x0 : R => qz x0) with qz; change (fun x0 : R => qw x0) with qw.
  rewrite Tx, Ty, Tz, Tw. fold x y z w. unfold actz, acty.
  clear - U. field_simplify_eq. cbn [Rpow_def.pow]. Time nsatz.
Qed.
End S.
