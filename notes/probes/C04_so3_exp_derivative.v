(* Feasibility probe for C04.2: d/de Exp(x + e*dl) (x) conj(Exp x) |_0 = (1/2 Jl(x) dl, 0) on the
   closed-form branch of so3 Exp.  Throw-away; not framework code. *)
From Coq Require Import Reals Lra Psatz Nsatz.
From Coquelicot Require Import Coquelicot.
Open Scope R_scope.

Section S.
Variables x1 x2 x3 d1 d2 d3 : R.
Let n2 (e:R) := (x1+e*d1)*(x1+e*d1) + (x2+e*d2)*(x2+e*d2) + (x3+e*d3)*(x3+e*d3).
Let th (e:R) := sqrt (n2 e).
Hypothesis Hpos : 0 < n2 0.
(* quaternion of Exp(x + e dl), closed-form branch *)
Definition qv1 e := sin (th e / 2) / th e * (x1 + e*d1).
Definition qv2 e := sin (th e / 2) / th e * (x2 + e*d2).
Definition qv3 e := sin (th e / 2) / th e * (x3 + e*d3).
Definition qw  e := cos (th e / 2).

Let T := th 0.
Let s := sin (T/2). Let c := cos (T/2).
Let xd := x1*d1+x2*d2+x3*d3.
(* Jl = I + c1 K + c2 K^2 *)
Let c1 := (1 - cos T) / (T*T).
Let c2 := (T - sin T) / (T*T*T).
(* K dl = x cross dl ; K^2 dl = x (x.dl) - T^2 dl *)
Let k1 := x2*d3 - x3*d2. Let k2 := x3*d1 - x1*d3. Let k3 := x1*d2 - x2*d1.
Let J1 := d1 + c1*k1 + c2*(x1*xd - T*T*d1).

Lemma Tpos : 0 < T. Proof. unfold T, th. apply sqrt_lt_R0. exact Hpos. Qed.
Lemma TT : T*T = x1*x1+x2*x2+x3*x3.
Proof. unfold T, th. rewrite sqrt_sqrt. unfold n2. ring. left; exact Hpos. Qed.

(* derivatives of the four components at 0 *)
Lemma dqv1 : is_derive qv1 0
  ( (xd/T) * ((c * T / 2 - s) / (T*T)) * x1 + s / T * d1 ).
Proof.
  unfold qv1, th, n2. auto_derive.
  - repeat match goal with |- context [sqrt ?r] => progress change r with (n2 0) end.
    fold (th 0). fold T.
    repeat split; auto; try (unfold n2 in Hpos; exact Hpos).
    apply Rgt_not_eq, Tpos.
  - repeat match goal with |- context [sqrt ?r] => progress change r with (n2 0) end.
    fold (th 0). fold T. unfold s, c, xd, Rdiv.
    set (S := sin (T * / 2)). set (C := cos (T * / 2)).
    pose proof Tpos. field. lra.
Qed.
End S.
