From Coq Require Import Reals QArith Qreals Lra List.
From Interval Require Import Tactic.
Import ListNotations.
Class Num (F:Type) := { zero : F; one : F; add : F->F->F; sub : F->F->F; mul : F->F->F; div : F->F->F; opp : F->F;
  ofZ : Z -> F; ltb : F -> F -> bool }.
Class Trans (F:Type) := { tsqrt : F->F; tsin : F->F; tcos : F->F; tatan : F->F; texp : F->F; tln : F->F }.
#[export] Instance NumR : Num R := {| zero:=0%R; one:=1%R; add:=Rplus; sub:=Rminus; mul:=Rmult; div:=Rdiv; opp:=Ropp;
  ofZ := IZR; ltb := fun a b => if Rlt_dec a b then true else false |}.
#[export] Instance TransR : Trans R := {| tsqrt:=sqrt; tsin:=sin; tcos:=cos; tatan:=atan; texp:=exp; tln:=ln |}.
Section M.
Context {F} `{Num F} `{Trans F}.
Infix "+" := add. Infix "*" := mul. Infix "-" := sub. Infix "/" := div.
Definition c (a b:Z) : F := ofZ a / ofZ b.
Definition absF (x:F) := if ltb x zero then opp x else x.
Definition andb3 := andb.
(* returns A,B,C *)
Definition ws_coef (eps:F) (x y z sg : F) : F*F*F :=
  let th := tsqrt (x*x+y*y+z*z) in
  let sl := ltb eps (absF sg) in let tl := ltb eps th in
  let sc := texp sg in let sg2 := sg*sg in let th2 := th*th in
  let C := if sl then (sc - one)/sg else one in
  let A := if sl then (if tl then
              let a := sc * tsin th in let b := sc * tcos th in let cc := th2 + sg2 in
              (a*sg + (one - b)*th) / (th*cc)
            else (one + (sg - one)*sc)/sg2)
           else (if tl then (one - tcos th) * (one/th2) else c 1 2) in
  let B := if sl then (if tl then
              let a := sc * tsin th in let b := sc * tcos th in let cc := th2 + sg2 in
              (C - ((b - one)*sg + a*th)/cc) * (one/th2)
            else (c 1 2 * sg2*sc + sc - one - sg2*sc)/(sg2*sg))
           else (if tl then (th - tsin th)/(th2*th) else c 1 6) in
  (A,B,C).
Definition ws_t (eps:F) (tx ty tz x y z sg : F) : F*F*F :=
  let '(A,B,C) := ws_coef eps x y z sg in
  (* W t = C t + A (phi x t) + B (phi x (phi x t)) *)
  let kx := y*tz - z*ty in let ky := z*tx - x*tz in let kz := x*ty - y*tx in
  let kkx := y*kz - z*ky in let kky := z*kx - x*kz in let kkz := x*ky - y*kx in
  (C*tx + A*kx + B*kkx, C*ty + A*ky + B*kky, C*tz + A*kz + B*kkz).
End M.
Ltac has_dec t := match t with context [Rlt_dec _ _] => idtac end.
Ltac eval_branches :=
  repeat match goal with
  | |- context [Rlt_dec ?a ?b] =>
        tryif (first [has_dec a | has_dec b]) then fail else
        (let H := fresh "H" in destruct (Rlt_dec a b) as [H|H];
        [ try (exfalso; revert H; apply Rle_not_lt; interval) | try (exfalso; apply H; interval) ])
  end.
Open Scope R_scope.
Goal let '(a,b,cc) := ws_t (F:=R) (1/4503599627370496) (1) (2) (3) (3/10) (-1/5) (7/10) (1/4) in
   Rabs (a - 0.5) <= 5 /\ Rabs (b - 0.5) <= 5/\ Rabs (cc - 0.5) <= 5.
Proof.
  Time cbv [ws_t ws_coef absF c add sub mul div ofZ ltb tsqrt tsin tcos texp opp NumR TransR one zero].
  Time eval_branches.
  Time (repeat split; interval).

Qed.
