(* C09 — Kernels match closed forms; correctors preserve the robust gradient and Hessian.
   Statements only (over R); proofs in Proofs/Kernel.v, model in Model/Kernel.v.

   Vocabulary.  kernel k p1 p2 x : option R  is one element of forward (None = assert / raise);
   kernel_params k p1 p2 = the parameters the constructors accept (Arctan additionally delta <> 0,
   where its closed form x / delta^2 is defined).  A residual tensor is a list of blocks
   (R_i : list R of any length d, J_i : d rows of any width p); wf_block p = shapes agree.
   JtR b l = (J_i^T R_i)_l,  JtJ b l m = (J_i^T J_i)_{lm},  bsum = sum over the blocks of the
   corrected tensor, robust_grad rho' bs l = sum_i rho'(|R_i|^2) (J_i^T R_i)_l.
   fasttriggs rho1 bs / triggs rho1 rho2 bs : rho1, rho2 = what autograd returns for rho', rho''.
   The model follows the repaired source (e6f8307, 298dcfc, af4d69c); kernel_old / triggs_old are the
   previous behaviour, used only by the C09_old_..._refuted history theorems.

   Second part (Proofs/Kernel2-5.v).  mapM f xs = forward on a whole (flattened) tensor: Some iff every
   element is accepted.  path_at path t = a residual block moving with a scalar parameter t (one
   function per component); tangent_to l b path = it passes through R_i at t = 0 with velocity column l
   of J_i (any differentiable residual function, not only the linear one lin_path R c = R + t c);
   robust_loss rho Rs = sum_i rho(|R_i|^2) = RobustModel.loss; loss_along rho paths t = that loss along
   the paths.  shift_block m s (R, J) = (R + s J e_m, J) (the linearised model moved along parameter m),
   full_hess rho1 rho2 bs l m = sum_i rho1 (J_i^T J_i)_lm + 2 rho2 (J_i^T R_i)_l (J_i^T R_i)_m,
   lin2_loss rho bs l m t s = sum_i rho(|R_i + s J_i e_m + t J_i e_l|^2),
   triggs_alpha g1 g2 x = 1 - sqrt(1 + 2 x g2 / g1) (Triggs' alpha on a masked block). *)
From Coq Require Import Reals List.
From Coquelicot Require Import Coquelicot.
From PV Require Import Base.Num Model.Kernel Proofs.Kernel Proofs.Kernel2 Proofs.Kernel3 Proofs.Kernel4
  Proofs.Kernel5 Proofs.Kernel6.
Import ListNotations.
Local Open Scope R_scope.
#[local] Remove Hints NumQ NumZ : typeclass_instances.

(* ------------------------------------------------------------------ kernels *)
(* every kernel, every accepted parameter, every x >= 0: forward returns (is finite) and equals the
   documented closed form; no sqrt / log / division in it leaves its domain *)
Theorem C09_kernel_closed_form_finite : forall k p1 p2 x, kernel_params k p1 p2 -> 0 <= x ->
  kernel k p1 p2 x = Some (documented_form k p1 p2 x) /\ kernel_side_conditions k p1 p2 x.
Proof. exact kernel_closed_form. Qed.

Theorem C09_kernel_value_at_0 : forall k p1 p2, kernel_params k p1 p2 -> kernel k p1 p2 0 = Some 0.
Proof. exact kernel_value_at_0. Qed.

Theorem C09_kernel_nondecreasing : forall k p1 p2 x y a b, kernel_params k p1 p2 -> 0 <= x -> x <= y ->
  kernel k p1 p2 x = Some a -> kernel k p1 p2 y = Some b -> a <= b.
Proof. exact kernel_nondecreasing. Qed.

(* Huber is C^1 at its threshold x = delta^2: the two expressions agree there, the function is
   differentiable at every x (threshold included) with the modelled slope, the slope is 1 from both
   sides, and the slope function is continuous at the threshold *)
Theorem C09_huber_C1_at_threshold : forall d p2, 0 < d ->
  2 * d * sqrt (d * d) - d * d = d * d /\
  (forall x, is_derive (fun t => kernel_f KHuber d p2 t) x (kernel_d1 KHuber d p2 x)) /\
  kernel_d1 KHuber d p2 (d * d) = 1 /\ d / sqrt (d * d) = 1 /\
  continuous (kernel_d1 KHuber d p2) (d * d).
Proof. exact huber_C1. Qed.

(* negative input is rejected by all seven kernels, for all parameters *)
Theorem C09_kernel_rejects_negative : forall k p1 p2 x, x < 0 -> kernel k p1 p2 x = None.
Proof. exact kernel_rejects_negative. Qed.
(* history (before e6f8307): Scale.forward had no assertion and accepted it *)
Theorem C09_old_scale_rejects_negative_refuted :
  exists d x y, kernel_params KScale d 0 /\ x < 0 /\ kernel_old KScale d 0 x = Some y.
Proof. exact scale_old_rejects_negative_refuted. Qed.

(* the modelled rho', rho'' (what autograd is assumed to return for the built-in kernels) are the
   true derivatives of the closed forms on x >= 0 (Huber's rho'' away from the threshold, where it
   does not exist); rho' >= 0 and rho'' <= 0 *)
Theorem C09_kernel_derivatives : forall k p1 p2 x, kernel_params k p1 p2 -> 0 <= x ->
  is_derive (fun t => kernel_f k p1 p2 t) x (kernel_d1 k p1 p2 x) /\
  ((k = KHuber -> x <> p1 * p1) -> is_derive (fun t => kernel_d1 k p1 p2 t) x (kernel_d2 k p1 p2 x)) /\
  0 <= kernel_d1 k p1 p2 x /\ kernel_d2 k p1 p2 x <= 0.
Proof. exact kernel_derivatives. Qed.

(* ------------------------------------------------------------------ FastTriggs *)
(* any rho' >= 0, any number of blocks, any d, any Jacobian width: FastTriggs returns, and
   J'^T R' = sum_i rho'(|R_i|^2) J_i^T R_i,  J'^T J' = sum_i rho' J_i^T J_i   (every column l, m) *)
Theorem C09_fasttriggs_defined : forall (rho1 : R -> R) (bs : list (@block R)),
  (forall b, In b bs -> 0 <= rho1 (sqnorm b)) -> exists bs', fasttriggs rho1 bs = Some bs'.
Proof. exact fasttriggs_defined. Qed.
Theorem C09_fasttriggs_grad : forall (rho1 : R -> R) (bs bs' : list (@block R)),
  fasttriggs rho1 bs = Some bs' ->
  forall l, bsum (fun b => JtR b l) bs' = robust_grad rho1 bs l.
Proof. exact fasttriggs_grad. Qed.
Theorem C09_fasttriggs_hess : forall (rho1 : R -> R) (bs bs' : list (@block R)),
  fasttriggs rho1 bs = Some bs' ->
  forall l m, bsum (fun b => JtJ b l m) bs' = gn_hess rho1 bs l m.
Proof. exact fasttriggs_hess. Qed.
(* with the autograd contract explicit: if rho1 is the derivative of rho on [0, oo), the corrected
   system's gradient is the gradient of the robust loss sum_i rho(|R_i|^2) *)
Theorem C09_fasttriggs_grad_of_robust_loss : forall (rho rho1 : R -> R) (bs bs' : list (@block R)),
  (forall x, 0 <= x -> is_derive rho x (rho1 x)) -> fasttriggs rho1 bs = Some bs' ->
  forall l, bsum (fun b => JtR b l) bs' = robust_grad (Derive rho) bs l.
Proof. exact fasttriggs_grad_derive. Qed.
(* the seven built-in kernels: FastTriggs always returns, with the true robust gradient *)
Theorem C09_fasttriggs_builtin_kernels : forall k p1 p2 (bs : list (@block R)), kernel_params k p1 p2 ->
  exists bs', fasttriggs_kernel k p1 p2 bs = Some bs' /\
    forall l, bsum (fun b => JtR b l) bs' = robust_grad (Derive (fun t => kernel_f k p1 p2 t)) bs l.
Proof. exact fasttriggs_kernel_grad. Qed.

(* ------------------------------------------------------------------ Triggs *)
(* returns whenever rho' >= 0, and rho' > 0 on the masked blocks *)
Theorem C09_triggs_defined : forall (rho1 rho2 : R -> R) (bs : list (@block R)),
  (forall b, In b bs -> 0 <= rho1 (sqnorm b)) ->
  (forall b, In b bs -> triggs_mask (sqnorm b) (rho2 (sqnorm b)) = true -> 0 < rho1 (sqnorm b)) ->
  exists bs', triggs rho1 rho2 bs = Some bs'.
Proof. exact triggs_defined. Qed.

(* gradient identity for EVERY kernel (rho'' > 0, = 0, < 0), all blocks, any d and width p:
   J'^T R' = sum_i rho'(|R_i|^2) J_i^T R_i *)
Theorem C09_triggs_grad : forall (rho1 rho2 : R -> R) (p : nat) (bs bs' : list (@block R)),
  triggs rho1 rho2 bs = Some bs' -> Forall (wf_block p) bs ->
  forall l, (l < p)%nat -> bsum (fun b => JtR b l) bs' = robust_grad rho1 bs l.
Proof. exact triggs_grad. Qed.
Theorem C09_triggs_grad_of_robust_loss : forall (rho rho1 rho2 : R -> R) (p : nat) (bs bs' : list (@block R)),
  (forall x, 0 <= x -> is_derive rho x (rho1 x)) -> triggs rho1 rho2 bs = Some bs' ->
  Forall (wf_block p) bs -> forall l, (l < p)%nat ->
  bsum (fun b => JtR b l) bs' = robust_grad (Derive rho) bs l.
Proof. exact triggs_grad_derive. Qed.

(* Hessian identity, all blocks, any d and width p:
   J'^T J' = sum_i rho' J_i^T J_i + [rho'' > 0 and R_i <> 0] 2 rho'' (J_i^T R_i)(J_i^T R_i)^T *)
Theorem C09_triggs_hess : forall (rho1 rho2 : R -> R) (p : nat) (bs bs' : list (@block R)),
  triggs rho1 rho2 bs = Some bs' -> Forall (wf_block p) bs ->
  forall l m, (l < p)%nat -> (m < p)%nat ->
  bsum (fun b => JtJ b l m) bs' = triggs_hess_rhs rho1 rho2 bs l m.
Proof. exact triggs_hess. Qed.
Theorem C09_triggs_mask_meaning : forall x g2 : R, triggs_mask x g2 = true <-> x <> 0 /\ 0 < g2.
Proof. exact triggs_mask_true. Qed.

(* off the mask (rho'' <= 0 or R_i = 0) Triggs coincides with FastTriggs, block by block and on
   tensors without masked blocks *)
Theorem C09_triggs_eq_fasttriggs_off_mask : forall (g1 g2 : R) Rv J,
  triggs_mask (dot Rv Rv) g2 = false -> triggs_block g1 g2 Rv J = fasttriggs_block g1 Rv J.
Proof. exact triggs_block_off_mask. Qed.
Theorem C09_triggs_eq_fasttriggs_unmasked_tensor : forall (rho1 rho2 : R -> R) (bs : list (@block R)),
  (forall b, In b bs -> triggs_mask (sqnorm b) (rho2 (sqnorm b)) = false) ->
  triggs rho1 rho2 bs = fasttriggs rho1 bs.
Proof. exact triggs_eq_fasttriggs. Qed.

(* all seven built-in kernels (Scale and its constant slope included): rho'' <= 0, so Triggs returns,
   equals FastTriggs, and its gradient is the gradient of the robust loss *)
Theorem C09_triggs_builtin_kernels : forall k p1 p2 (bs : list (@block R)), kernel_params k p1 p2 ->
  exists bs', triggs_kernel k p1 p2 bs = Some bs' /\ fasttriggs_kernel k p1 p2 bs = Some bs' /\
    forall l, bsum (fun b => JtR b l) bs' = robust_grad (Derive (fun t => kernel_f k p1 p2 t)) bs l.
Proof. exact triggs_kernel_grad. Qed.

(* history (before 298dcfc, sR[M] = se[M] / (1 - alpha) dropped R): the gradient identity failed on
   masked blocks; on the repaired code the same witness gives 16 *)
Theorem C09_old_triggs_grad_refuted :
  exists (rho rho1 rho2 : R -> R) (bs bs' : list (@block R)) (l : nat),
    (forall x, is_derive rho x (rho1 x) /\ is_derive rho1 x (rho2 x)) /\
    Forall (wf_block 1) bs /\ (l < 1)%nat /\
    (forall b, In b bs -> triggs_mask (sqnorm b) (rho2 (sqnorm b)) = true) /\
    triggs_old true rho1 rho2 bs = Some bs' /\
    bsum (fun b => JtR b l) bs' = 8 /\ robust_grad rho1 bs l = 16.
Proof. exact triggs_old_grad_refuted. Qed.
Theorem C09_triggs_grad_witness_now : forall bs' : list (@block R),
  triggs sq_rho1 sq_rho2 refute_blocks = Some bs' -> bsum (fun b => JtR b 0%nat) bs' = 16.
Proof. exact refute_witness_now. Qed.
(* history (before af4d69c): compute_grads raised for Scale while FastTriggs returned *)
Theorem C09_old_triggs_returns_refuted :
  exists (d : R) (bs : list (@block R)), kernel_params KScale d 0 /\ Forall (wf_block 1) bs /\
    (exists bs', fasttriggs_kernel KScale d 0 bs = Some bs') /\ triggs_kernel_old KScale d 0 bs = None.
Proof. exact triggs_old_scale_refuted. Qed.

(* hypotheses are satisfiable *)
Example C09_params_satisfiable :
  kernel_params KHuber 1 0 /\ kernel_params KPseudoHuber 2 0 /\ kernel_params KCauchy (1/2) 0 /\
  kernel_params KSoftLOne 1 0 /\ kernel_params KArctan 1 0 /\ kernel_params KTolerant 1 (-1) /\
  kernel_params KScale (1/2) 0 /\ wf_block 2 ([1; 0; 2], [[1; 2]; [3; 4]; [5; 6]]).
Proof. exact params_satisfiable. Qed.


(* ================================================================== second part: strengthened clauses *)
(* ------------------------------------------------------------------ kernels, whole tensors *)
(* forward on a tensor of any shape (flattened): `assert torch.all(input >= 0)`, then the documented
   closed form elementwise; accepted iff every element is >= 0; one negative element rejects the tensor *)
Theorem C09_kernel_tensor_elementwise : forall k p1 p2 (xs : list R), kernel_params k p1 p2 ->
  Forall (fun x => 0 <= x) xs -> mapM (kernel k p1 p2) xs = Some (map (documented_form k p1 p2) xs).
Proof. exact kernel_tensor_closed_form. Qed.
Theorem C09_kernel_tensor_accepts_iff : forall k p1 p2 (xs : list R), kernel_params k p1 p2 ->
  (exists ys, mapM (kernel k p1 p2) xs = Some ys) <-> Forall (fun x => 0 <= x) xs.
Proof. exact kernel_tensor_accepts_iff. Qed.
Theorem C09_kernel_tensor_rejects_negative : forall k p1 p2 (xs : list R),
  Exists (fun x => x < 0) xs -> mapM (kernel k p1 p2) xs = None.
Proof. exact kernel_tensor_rejects_negative. Qed.

(* parameters outside the documented range are rejected (constructor assertion); Arctan's constructor
   asserts nothing and delta = 0 makes forward divide by zero *)
Theorem C09_kernel_rejects_bad_params : forall k p1 p2 x, k <> KArctan -> ~ kernel_params k p1 p2 ->
  kernel k p1 p2 x = None.
Proof. exact kernel_rejects_bad_params. Qed.
Theorem C09_arctan_delta0_undefined : forall p2 x : R, kernel KArctan 0 p2 x = None.
Proof. exact arctan_delta0_undefined. Qed.

(* rho' > 0 (strictly) for every built-in kernel on x >= 0, and its value at a zero residual *)
Theorem C09_kernel_slope_positive : forall k p1 p2 x, kernel_params k p1 p2 -> 0 <= x ->
  0 < kernel_d1 k p1 p2 x.
Proof. exact kernel_d1_pos. Qed.
Theorem C09_kernel_slope_at_0 : forall k p1 p2, kernel_params k p1 p2 ->
  kernel_d1 k p1 p2 0 =
  match k with
  | KHuber | KPseudoHuber | KCauchy | KArctan => 1
  | KSoftLOne => p1 * p1
  | KTolerant => exp (- p1 / p2) / (1 + exp (- p1 / p2))
  | KScale => p1
  end.
Proof. exact kernel_d1_at_0. Qed.

(* Huber: continuous everywhere; at the threshold x = delta^2 the slope function rho' is 1 on the left
   and delta / sqrt x from the threshold on, autograd's rho'' there (- 1 / (2 delta^2)) is the
   derivative of the right-hand piece, the left-hand piece has derivative 0, and the two-sided second
   derivative does NOT exist (which is why C09_kernel_derivatives excludes that point) *)
Theorem C09_huber_continuous : forall d p2 x, 0 < d -> continuous (fun t => kernel_f KHuber d p2 t) x.
Proof. exact huber_continuous. Qed.
Theorem C09_huber_second_derivative_at_threshold : forall d p2, 0 < d ->
  (forall t, t < d * d -> kernel_d1 KHuber d p2 t = 1) /\
  (forall t, d * d <= t -> kernel_d1 KHuber d p2 t = d / sqrt t) /\
  kernel_d2 KHuber d p2 (d * d) = - (1 / (2 * (d * d))) /\
  is_derive (fun t => d / sqrt t) (d * d) (kernel_d2 KHuber d p2 (d * d)) /\
  is_derive (fun _ : R => 1) (d * d) 0 /\
  ~ ex_derive (kernel_d1 KHuber d p2) (d * d).
Proof.
  intros d p2 Hd. destruct (huber_d1_pieces d p2 Hd) as [HL HR].
  split; [exact HL|]. split; [exact HR|]. split; [now apply huber_d2_threshold_value|].
  split; [now apply huber_d2_right_piece|]. split; [apply huber_d2_left_piece|now apply huber_d2_not_derivable].
Qed.

(* ------------------------------------------------------------------ correctors: when they return, shapes *)
(* exact characterisation: FastTriggs returns iff rho' >= 0 on every block; Triggs iff moreover
   rho' > 0 on the masked blocks (otherwise the float code produces NaN) *)
Theorem C09_fasttriggs_defined_iff : forall (rho1 : R -> R) (bs : list (@block R)),
  (exists bs', fasttriggs rho1 bs = Some bs') <-> (forall b, In b bs -> 0 <= rho1 (sqnorm b)).
Proof. exact fasttriggs_defined_iff. Qed.
Theorem C09_triggs_defined_iff : forall (rho1 rho2 : R -> R) (bs : list (@block R)),
  (exists bs', triggs rho1 rho2 bs = Some bs') <->
  (forall b, In b bs -> 0 <= rho1 (sqnorm b) /\
                        (triggs_mask (sqnorm b) (rho2 (sqnorm b)) = true -> 0 < rho1 (sqnorm b))).
Proof. exact triggs_defined_iff. Qed.
(* the corrected tensor has the shape of the input (same number of blocks, d rows of width p each),
   so the sums J'^T R', J'^T J' above run over complete columns (no truncation by [dot] / [nth]) *)
Theorem C09_fasttriggs_preserves_shape : forall (rho1 : R -> R) (p : nat) (bs bs' : list (@block R)),
  fasttriggs rho1 bs = Some bs' -> Forall (wf_block p) bs ->
  length bs' = length bs /\ Forall (wf_block p) bs'.
Proof. exact fasttriggs_preserves_shape. Qed.
Theorem C09_triggs_preserves_shape : forall (rho1 rho2 : R -> R) (p : nat) (bs bs' : list (@block R)),
  triggs rho1 rho2 bs = Some bs' -> Forall (wf_block p) bs ->
  length bs' = length bs /\ Forall (wf_block p) bs'.
Proof. exact triggs_preserves_shape. Qed.

(* ------------------------------------------------------------------ residual exactly zero *)
(* R_i = 0 (any d, any rho'' - Triggs' mask is off at x = 0): both correctors return R' = 0 and
   J' = sqrt(rho'(0)) J; with a built-in kernel sqrt(rho'(0)) > 0, and = 1 (J unchanged) for Huber,
   PseudoHuber, Cauchy, Arctan *)
Theorem C09_correctors_at_zero_residual : forall (g1 g2 : R) Rv J, 0 <= g1 ->
  Forall (fun r => r = 0) Rv ->
  fasttriggs_block g1 Rv J = Some (Rv, map (scale_vec (sqrt g1)) J) /\
  triggs_block g1 g2 Rv J = Some (Rv, map (scale_vec (sqrt g1)) J).
Proof. exact correctors_zero_residual_block. Qed.
Theorem C09_correctors_at_zero_residual_builtin : forall k p1 p2 Rv J, kernel_params k p1 p2 ->
  Forall (fun r => r = 0) Rv ->
  let s := sqrt (kernel_d1 k p1 p2 0) in
  0 < s /\
  fasttriggs_kernel k p1 p2 [(Rv, J)] = Some [(Rv, map (scale_vec s) J)] /\
  triggs_kernel k p1 p2 [(Rv, J)] = Some [(Rv, map (scale_vec s) J)].
Proof. exact correctors_zero_residual_kernel. Qed.
Theorem C09_correctors_at_zero_residual_unit_slope : forall k p1 p2 Rv J, kernel_params k p1 p2 ->
  k = KHuber \/ k = KPseudoHuber \/ k = KCauchy \/ k = KArctan ->
  Forall (fun r => r = 0) Rv ->
  fasttriggs_kernel k p1 p2 [(Rv, J)] = Some [(Rv, J)] /\ triggs_kernel k p1 p2 [(Rv, J)] = Some [(Rv, J)].
Proof. exact correctors_zero_residual_unit_slope. Qed.
(* any residual, built-in kernel: both correctors scale R_i and J_i by the same s = sqrt(rho') > 0 *)
Theorem C09_correctors_builtin_block : forall (k : kname) p1 p2 Rv J, kernel_params k p1 p2 ->
  let s := sqrt (kernel_d1 k p1 p2 (dot Rv Rv)) in
  0 < s /\ fasttriggs_kernel k p1 p2 [(Rv, J)] = Some [(scale_vec s Rv, map (scale_vec s) J)]
        /\ triggs_kernel k p1 p2 [(Rv, J)] = Some [(scale_vec s Rv, map (scale_vec s) J)].
Proof. exact fasttriggs_kernel_block. Qed.

(* ------------------------------------------------------------------ Triggs: documented closed form *)
(* alpha is the non-positive root of the documented quadratic alpha^2/2 - alpha - (rho''/rho')|R|^2 = 0,
   1 - alpha <> 0, and - x rho''/rho' <= alpha <= 0 *)
Theorem C09_triggs_alpha_root : forall g1 g2 x : R, 0 < g1 -> 0 < g2 -> 0 <= x ->
  / 2 * (triggs_alpha g1 g2 x * triggs_alpha g1 g2 x) - triggs_alpha g1 g2 x - g2 / g1 * x = 0 /\
  triggs_alpha g1 g2 x <= 0 /\ 1 - triggs_alpha g1 g2 x <> 0.
Proof. exact triggs_alpha_root. Qed.
Theorem C09_triggs_alpha_bound : forall g1 g2 x : R, 0 < g1 -> 0 < g2 -> 0 <= x ->
  - (x * g2 / g1) <= triggs_alpha g1 g2 x <= 0.
Proof. exact triggs_alpha_bound. Qed.
(* on a masked block (rho'' > 0, R_i <> 0, rho' > 0), any d and p, entry by entry:
   R'_k = sqrt(rho') / (1 - alpha) R_k,   J'_kl = sqrt(rho') (J_kl - alpha R_k (R^T J)_l / |R|^2) *)
Theorem C09_triggs_documented_form : forall (g1 g2 : R) Rv J p, 0 < g1 -> wf_block p (Rv, J) ->
  triggs_mask (dot Rv Rv) g2 = true ->
  exists R' J', triggs_block g1 g2 Rv J = Some (R', J') /\
    length R' = length Rv /\ length J' = length Rv /\
    let alpha := triggs_alpha g1 g2 (dot Rv Rv) in
    (forall k, nth k R' 0 = sqrt g1 / (1 - alpha) * nth k Rv 0) /\
    (forall k l, (k < length Rv)%nat -> (l < p)%nat ->
       nth l (nth k J' []) 0
       = sqrt g1 * (nth l (nth k J []) 0 - alpha * nth k Rv 0 * dot Rv (col J l) / dot Rv Rv)).
Proof. exact triggs_masked_entries. Qed.
(* on a masked block with (J^T R)_l <> 0 Triggs does differ from FastTriggs *)
Theorem C09_triggs_differs_from_fasttriggs_on_mask : forall (g1 g2 : R) Rv J bT bF p l,
  wf_block p (Rv, J) -> (l < p)%nat -> triggs_mask (dot Rv Rv) g2 = true -> JtR (Rv, J) l <> 0 ->
  triggs_block g1 g2 Rv J = Some bT -> fasttriggs_block g1 Rv J = Some bF -> bT <> bF.
Proof. exact triggs_differs_on_mask. Qed.

(* second-order clause in one formula for EVERY tensor (rows in mixed regimes, any d, p): Triggs keeps
   exactly the positive part of the curvature (R_i = 0 contributes nothing since J_i^T R_i = 0) *)
Theorem C09_triggs_hess_positive_part : forall (rho1 rho2 : R -> R) (p : nat) (bs bs' : list (@block R)),
  triggs rho1 rho2 bs = Some bs' -> Forall (wf_block p) bs ->
  forall l m, (l < p)%nat -> (m < p)%nat ->
  bsum (fun b => JtJ b l m) bs' = full_hess rho1 (fun x => Rmax 0 (rho2 x)) bs l m.
Proof. exact triggs_hess_positive_part. Qed.

(* ------------------------------------------------------------------ the preserved quantities ARE derivatives *)
(* "the optimiser's descent direction is the gradient of the robust loss it reports": for ANY
   differentiable residual function whose value / Jacobian column l at the current parameters are
   R_i / J_i e_l, the derivative of sum_i rho(|R_i|^2) along parameter l is 2 (J'^T R')_l *)
Theorem C09_fasttriggs_descent_is_loss_gradient : forall (rho rho1 : R -> R) (l : nat)
    (bs bs' : list (@block R)) (paths : list (list (R -> R))),
  (forall x, 0 <= x -> is_derive rho x (rho1 x)) -> fasttriggs rho1 bs = Some bs' ->
  Forall2 (tangent_to l) bs paths ->
  is_derive (loss_along rho paths) 0 (2 * bsum (fun b => JtR b l) bs').
Proof. exact fasttriggs_descent_is_loss_gradient. Qed.
Theorem C09_triggs_descent_is_loss_gradient : forall (rho rho1 rho2 : R -> R) (p l : nat)
    (bs bs' : list (@block R)) (paths : list (list (R -> R))),
  (forall x, 0 <= x -> is_derive rho x (rho1 x)) -> triggs rho1 rho2 bs = Some bs' ->
  Forall (wf_block p) bs -> (l < p)%nat -> Forall2 (tangent_to l) bs paths ->
  is_derive (loss_along rho paths) 0 (2 * bsum (fun b => JtR b l) bs').
Proof. exact triggs_descent_is_loss_gradient. Qed.
(* the seven built-in kernels: both correctors return the same tensor and 2 (J'^T R')_l is the
   derivative of the reported loss sum_i kernel(|R_i|^2), zero / threshold residuals included *)
Theorem C09_builtin_descent_is_loss_gradient : forall k p1 p2 (l : nat) (bs : list (@block R))
    (paths : list (list (R -> R))),
  kernel_params k p1 p2 -> Forall2 (tangent_to l) bs paths ->
  exists bs', fasttriggs_kernel k p1 p2 bs = Some bs' /\ triggs_kernel k p1 p2 bs = Some bs' /\
    is_derive (loss_along (fun x => kernel_f k p1 p2 x) paths) 0 (2 * bsum (fun b => JtR b l) bs').
Proof. exact builtin_descent_is_loss_gradient. Qed.
(* such paths exist for every well-shaped tensor (the linearised residual R + t J e_l) *)
Theorem C09_tangent_paths_exist : forall (p l : nat) (bs : list (@block R)), Forall (wf_block p) bs ->
  Forall2 (tangent_to l) bs (map (fun b => lin_path (fst b) (col (snd b) l)) bs).
Proof. exact tangent_paths_exist. Qed.

(* second order: where rho'' >= 0 on every block, Triggs' J'^T J' is the derivative (along parameter m)
   of the robust gradient of the linearised problem; with the loss itself:
   d/dt L(0,0) = 2 (J'^T R')_l  and  d/ds d/dt L(0,0) = 2 (J'^T J')_lm, so the normal equations
   J'^T J' step = - J'^T R' are Newton's method on the linearised robust loss *)
Theorem C09_triggs_hess_is_gradient_derivative : forall (rho1 rho2 : R -> R) (p : nat)
    (bs bs' : list (@block R)),
  triggs rho1 rho2 bs = Some bs' -> Forall (wf_block p) bs ->
  (forall b, In b bs -> 0 <= rho2 (sqnorm b)) ->
  (forall b, In b bs -> is_derive rho1 (sqnorm b) (rho2 (sqnorm b))) ->
  forall l m, (l < p)%nat -> (m < p)%nat ->
  is_derive (fun s => robust_grad rho1 (map (shift_block m s) bs) l) 0 (bsum (fun b => JtJ b l m) bs').
Proof. exact triggs_hess_is_gradient_derivative. Qed.
Theorem C09_triggs_is_newton_on_linearised_loss : forall (rho rho1 rho2 : R -> R) (p : nat)
    (bs bs' : list (@block R)),
  (forall x, 0 <= x -> is_derive rho x (rho1 x)) ->
  triggs rho1 rho2 bs = Some bs' -> Forall (wf_block p) bs ->
  (forall b, In b bs -> 0 <= rho2 (sqnorm b)) ->
  (forall b, In b bs -> is_derive rho1 (sqnorm b) (rho2 (sqnorm b))) ->
  forall l m, (l < p)%nat -> (m < p)%nat ->
  is_derive (fun t => lin2_loss rho bs l m t 0) 0 (2 * bsum (fun b => JtR b l) bs') /\
  is_derive (fun s => Derive (fun t => lin2_loss rho bs l m t s) 0) 0 (2 * bsum (fun b => JtJ b l m) bs').
Proof. exact triggs_is_newton_on_linearised_loss. Qed.

(* ------------------------------------------------------------------ batch shapes, residual groups *)
(* a leading batch dimension can be flattened: the corrector of the flattened tensor is the flattening
   of the correctors of the sub-batches (None iff one of them is None) - by iteration, any batch shape
   (..., d) reduces to the list of blocks of the theorems above *)
Theorem C09_fasttriggs_batch_flatten : forall (rho1 : R -> R) (bss : list (list (@block R))),
  fasttriggs rho1 (concat bss) = option_map (@concat (@block R)) (mapM (fasttriggs rho1) bss).
Proof. exact fasttriggs_concat. Qed.
Theorem C09_triggs_batch_flatten : forall (rho1 rho2 : R -> R) (bss : list (list (@block R))),
  triggs rho1 rho2 (concat bss) = option_map (@concat (@block R)) (mapM (triggs rho1 rho2) bss).
Proof. exact triggs_concat. Qed.
Theorem C09_fasttriggs_grad_nested_batch : forall (rho1 : R -> R) (bss bss' : list (list (@block R))),
  mapM (fasttriggs rho1) bss = Some bss' ->
  fasttriggs rho1 (concat bss) = Some (concat bss') /\
  forall l, bsum (fun b => JtR b l) (concat bss')
            = fold_right (fun bs acc => robust_grad rho1 bs l + acc) 0 bss.
Proof. exact fasttriggs_grad_nested. Qed.
Theorem C09_triggs_grad_nested_batch : forall (rho1 rho2 : R -> R) (p : nat) (bss bss' : list (list (@block R))),
  mapM (triggs rho1 rho2) bss = Some bss' -> Forall (Forall (wf_block p)) bss ->
  triggs rho1 rho2 (concat bss) = Some (concat bss') /\
  forall l, (l < p)%nat ->
    bsum (fun b => JtR b l) (concat bss') = fold_right (fun bs acc => robust_grad rho1 bs l + acc) 0 bss.
Proof. exact triggs_grad_nested. Qed.
(* several residual groups, each with its own kernel (additivity only; which kernel / corrector goes
   with which residual is decided in the optimizer's constructor and is covered by the tie) *)
Theorem C09_fasttriggs_groups_grad : forall (groups : list ((R -> R) * list (@block R)))
    (outs : list (list (@block R))),
  mapM (fun g => fasttriggs (fst g) (snd g)) groups = Some outs ->
  forall l, bsum (fun b => JtR b l) (concat outs)
            = fold_right (fun g acc => robust_grad (fst g) (snd g) l + acc) 0 groups.
Proof. exact fasttriggs_groups_grad. Qed.

(* ------------------------------------------------------------------ non-vacuity witnesses *)
(* a masked block (rho = x^2, R = [2], J = [[1]]): Triggs returns, J'^T R' = 16, J'^T J' = 24 = 8 + 16,
   FastTriggs gives 8 *)
Example C09_masked_witness :
  exists bs', triggs sq_rho1 sq_rho2 refute_blocks = Some bs' /\
    (forall b, In b refute_blocks -> triggs_mask (sqnorm b) (sq_rho2 (sqnorm b)) = true) /\
    bsum (fun b => JtR b 0%nat) bs' = 16 /\ bsum (fun b => JtJ b 0%nat 0%nat) bs' = 24 /\
    (forall bF, fasttriggs sq_rho1 refute_blocks = Some bF -> bsum (fun b => JtJ b 0%nat 0%nat) bF = 8).
Proof. exact masked_witness. Qed.
(* one tensor (d = 2, p = 2) with a block in each regime - R = 0, rho'' < 0, rho'' = 0, rho'' > 0 - for
   the user kernel rho = x^3/6 - x^2/2 + x: Triggs returns a tensor of the same shape, only the last
   block is masked, the gradient identity holds, J'^T J' = Gauss-Newton part + 2 in every entry, and
   Triggs <> FastTriggs on it *)
Example C09_mixed_regime_witness :
  exists bs', triggs mix_rho1 mix_rho2 mix_blocks = Some bs' /\
    map (fun b => triggs_mask (sqnorm b) (mix_rho2 (sqnorm b))) mix_blocks = [false; false; false; true] /\
    length bs' = 4%nat /\ Forall (wf_block 2) bs' /\
    (forall l, (l < 2)%nat -> bsum (fun b => JtR b l) bs' = robust_grad mix_rho1 mix_blocks l) /\
    (forall l m, (l < 2)%nat -> (m < 2)%nat ->
       bsum (fun b => JtJ b l m) bs' = gn_hess mix_rho1 mix_blocks l m + 2) /\
    triggs mix_rho1 mix_rho2 mix_blocks <> fasttriggs mix_rho1 mix_blocks.
Proof. exact mixed_regime_witness. Qed.
Example C09_mixed_regime_kernel : forall x : R,
  is_derive mix_rho x (mix_rho1 x) /\ is_derive mix_rho1 x (mix_rho2 x) /\ 0 < mix_rho1 x.
Proof. intros x. destruct (mix_rho_derivs x). split; [|split]; auto. apply mix_rho1_pos. Qed.
Example C09_newton_hypotheses_witness :
  (forall x, 0 <= x -> is_derive sq_rho x (sq_rho1 x)) /\
  (forall b, In b refute_blocks -> 0 <= sq_rho2 (sqnorm b)) /\
  (forall b, In b refute_blocks -> is_derive sq_rho1 (sqnorm b) (sq_rho2 (sqnorm b))) /\
  Forall2 (tangent_to 0) refute_blocks (map (fun b => lin_path (fst b) (col (snd b) 0)) refute_blocks).
Proof. exact newton_hypotheses_witness. Qed.

Print Assumptions C09_kernel_closed_form_finite. Print Assumptions C09_kernel_value_at_0.
Print Assumptions C09_kernel_nondecreasing. Print Assumptions C09_huber_C1_at_threshold.
Print Assumptions C09_kernel_rejects_negative. Print Assumptions C09_old_scale_rejects_negative_refuted.
Print Assumptions C09_kernel_derivatives.
Print Assumptions C09_fasttriggs_defined. Print Assumptions C09_fasttriggs_grad.
Print Assumptions C09_fasttriggs_hess. Print Assumptions C09_fasttriggs_grad_of_robust_loss.
Print Assumptions C09_fasttriggs_builtin_kernels.
Print Assumptions C09_triggs_defined. Print Assumptions C09_triggs_grad.
Print Assumptions C09_triggs_grad_of_robust_loss. Print Assumptions C09_triggs_hess.
Print Assumptions C09_triggs_mask_meaning. Print Assumptions C09_triggs_eq_fasttriggs_off_mask.
Print Assumptions C09_triggs_eq_fasttriggs_unmasked_tensor. Print Assumptions C09_triggs_builtin_kernels.
Print Assumptions C09_old_triggs_grad_refuted. Print Assumptions C09_triggs_grad_witness_now.
Print Assumptions C09_old_triggs_returns_refuted.
Print Assumptions C09_kernel_tensor_elementwise.
Print Assumptions C09_kernel_tensor_accepts_iff.
Print Assumptions C09_kernel_tensor_rejects_negative.
Print Assumptions C09_kernel_rejects_bad_params.
Print Assumptions C09_arctan_delta0_undefined.
Print Assumptions C09_kernel_slope_positive.
Print Assumptions C09_kernel_slope_at_0.
Print Assumptions C09_huber_continuous.
Print Assumptions C09_huber_second_derivative_at_threshold.
Print Assumptions C09_fasttriggs_defined_iff.
Print Assumptions C09_triggs_defined_iff.
Print Assumptions C09_fasttriggs_preserves_shape.
Print Assumptions C09_triggs_preserves_shape.
Print Assumptions C09_correctors_at_zero_residual.
Print Assumptions C09_correctors_at_zero_residual_builtin.
Print Assumptions C09_correctors_at_zero_residual_unit_slope.
Print Assumptions C09_correctors_builtin_block.
Print Assumptions C09_triggs_alpha_root.
Print Assumptions C09_triggs_alpha_bound.
Print Assumptions C09_triggs_documented_form.
Print Assumptions C09_triggs_differs_from_fasttriggs_on_mask.
Print Assumptions C09_triggs_hess_positive_part.
Print Assumptions C09_fasttriggs_descent_is_loss_gradient.
Print Assumptions C09_triggs_descent_is_loss_gradient.
Print Assumptions C09_tangent_paths_exist.
Print Assumptions C09_triggs_hess_is_gradient_derivative.
Print Assumptions C09_triggs_is_newton_on_linearised_loss.
Print Assumptions C09_fasttriggs_batch_flatten.
Print Assumptions C09_triggs_batch_flatten.
Print Assumptions C09_fasttriggs_grad_nested_batch.
Print Assumptions C09_triggs_grad_nested_batch.
Print Assumptions C09_fasttriggs_groups_grad.
Print Assumptions C09_masked_witness.
Print Assumptions C09_mixed_regime_witness.
Print Assumptions C09_mixed_regime_kernel.
Print Assumptions C09_newton_hypotheses_witness.
Print Assumptions C09_builtin_descent_is_loss_gradient.
Print Assumptions C09_params_satisfiable.
