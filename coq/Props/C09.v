(* C09 — Kernels match closed forms; correctors preserve the robust gradient and Hessian.
   Statements only (over R); proofs in Proofs/Kernel.v, model in Model/Kernel.v.

   Vocabulary.  kernel k p1 p2 x : option R  is one element of forward (None = assert / raise);
   kernel_params k p1 p2 = the parameters the constructors accept (Arctan additionally delta <> 0,
   where its closed form x / delta^2 is defined).  A residual tensor is a list of blocks
   (R_i : list R of any length d, J_i : d rows of any width p); wf_block p = shapes agree.
   JtR b l = (J_i^T R_i)_l,  JtJ b l m = (J_i^T J_i)_{lm},  bsum = sum over the blocks of the
   corrected tensor, robust_grad rho' bs l = sum_i rho'(|R_i|^2) (J_i^T R_i)_l.
   fasttriggs rho1 bs / triggs rho1 rho2 bs : rho1, rho2 = what autograd returns for rho', rho''.
   The model follows the repaired source (e6f8307, 298dcfc, af4d69c); kernel_old / triggs_old are the
   previous behaviour, used only by the C09_old_..._refuted history theorems. *)
From Coq Require Import Reals List.
From Coquelicot Require Import Coquelicot.
From PV Require Import Base.Num Model.Kernel Proofs.Kernel.
Import ListNotations.
Local Open Scope R_scope.
#[local] Remove Hints NumQ NumZ : typeclass_instances.

(* ------------------------------------------------------------------ kernels *)
(* every kernel, every accepted parameter, every x >= 0: forward returns (is finite) and equals the
   documented closed form; no sqrt / log / division in it leaves its domain *)
Theorem C09_kernel_closed_form_finite : forall k p1 p2 x, kernel_params k p1 p2 -> 0 <= x ->
  kernel k p1 p2 x = Some (documented_form k p1 p2 x) /\ kernel_side_conditions k p1 p2 x.
Proof. exact kernel_closed_form. Qed.

Theorem C09_kernel_value_at_0 : forall k p1 p2, kernel_params k p1 p2 -> kernel k p1 p2 0 = Some 0.
Proof. exact kernel_value_at_0. Qed.

Theorem C09_kernel_nondecreasing : forall k p1 p2 x y a b, kernel_params k p1 p2 -> 0 <= x -> x <= y ->
  kernel k p1 p2 x = Some a -> kernel k p1 p2 y = Some b -> a <= b.
Proof. exact kernel_nondecreasing. Qed.

(* Huber is C^1 at its threshold x = delta^2: the two expressions agree there, the function is
   differentiable at every x (threshold included) with the modelled slope, the slope is 1 from both
   sides, and the slope function is continuous at the threshold *)
Theorem C09_huber_C1_at_threshold : forall d p2, 0 < d ->
  2 * d * sqrt (d * d) - d * d = d * d /\
  (forall x, is_derive (fun t => kernel_f KHuber d p2 t) x (kernel_d1 KHuber d p2 x)) /\
  kernel_d1 KHuber d p2 (d * d) = 1 /\ d / sqrt (d * d) = 1 /\
  continuous (kernel_d1 KHuber d p2) (d * d).
Proof. exact huber_C1. Qed.

(* negative input is rejected by all seven kernels, for all parameters *)
Theorem C09_kernel_rejects_negative : forall k p1 p2 x, x < 0 -> kernel k p1 p2 x = None.
Proof. exact kernel_rejects_negative. Qed.
(* history (before e6f8307): Scale.forward had no assertion and accepted it *)
Theorem C09_old_scale_rejects_negative_refuted :
  exists d x y, kernel_params KScale d 0 /\ x < 0 /\ kernel_old KScale d 0 x = Some y.
Proof. exact scale_old_rejects_negative_refuted. Qed.

(* the modelled rho', rho'' (what autograd is assumed to return for the built-in kernels) are the
   true derivatives of the closed forms on x >= 0 (Huber's rho'' away from the threshold, where it
   does not exist); rho' >= 0 and rho'' <= 0 *)
Theorem C09_kernel_derivatives : forall k p1 p2 x, kernel_params k p1 p2 -> 0 <= x ->
  is_derive (fun t => kernel_f k p1 p2 t) x (kernel_d1 k p1 p2 x) /\
  ((k = KHuber -> x <> p1 * p1) -> is_derive (fun t => kernel_d1 k p1 p2 t) x (kernel_d2 k p1 p2 x)) /\
  0 <= kernel_d1 k p1 p2 x /\ kernel_d2 k p1 p2 x <= 0.
Proof. exact kernel_derivatives. Qed.

(* ------------------------------------------------------------------ FastTriggs *)
(* any rho' >= 0, any number of blocks, any d, any Jacobian width: FastTriggs returns, and
   J'^T R' = sum_i rho'(|R_i|^2) J_i^T R_i,  J'^T J' = sum_i rho' J_i^T J_i   (every column l, m) *)
Theorem C09_fasttriggs_defined : forall (rho1 : R -> R) (bs : list (@block R)),
  (forall b, In b bs -> 0 <= rho1 (sqnorm b)) -> exists bs', fasttriggs rho1 bs = Some bs'.
Proof. exact fasttriggs_defined. Qed.
Theorem C09_fasttriggs_grad : forall (rho1 : R -> R) (bs bs' : list (@block R)),
  fasttriggs rho1 bs = Some bs' ->
  forall l, bsum (fun b => JtR b l) bs' = robust_grad rho1 bs l.
Proof. exact fasttriggs_grad. Qed.
Theorem C09_fasttriggs_hess : forall (rho1 : R -> R) (bs bs' : list (@block R)),
  fasttriggs rho1 bs = Some bs' ->
  forall l m, bsum (fun b => JtJ b l m) bs' = gn_hess rho1 bs l m.
Proof. exact fasttriggs_hess. Qed.
(* with the autograd contract explicit: if rho1 is the derivative of rho on [0, oo), the corrected
   system's gradient is the gradient of the robust loss sum_i rho(|R_i|^2) *)
Theorem C09_fasttriggs_grad_of_robust_loss : forall (rho rho1 : R -> R) (bs bs' : list (@block R)),
  (forall x, 0 <= x -> is_derive rho x (rho1 x)) -> fasttriggs rho1 bs = Some bs' ->
  forall l, bsum (fun b => JtR b l) bs' = robust_grad (Derive rho) bs l.
Proof. exact fasttriggs_grad_derive. Qed.
(* the seven built-in kernels: FastTriggs always returns, with the true robust gradient *)
Theorem C09_fasttriggs_builtin_kernels : forall k p1 p2 (bs : list (@block R)), kernel_params k p1 p2 ->
  exists bs', fasttriggs_kernel k p1 p2 bs = Some bs' /\
    forall l, bsum (fun b => JtR b l) bs' = robust_grad (Derive (fun t => kernel_f k p1 p2 t)) bs l.
Proof. exact fasttriggs_kernel_grad. Qed.

(* ------------------------------------------------------------------ Triggs *)
(* returns whenever rho' >= 0, and rho' > 0 on the masked blocks *)
Theorem C09_triggs_defined : forall (rho1 rho2 : R -> R) (bs : list (@block R)),
  (forall b, In b bs -> 0 <= rho1 (sqnorm b)) ->
  (forall b, In b bs -> triggs_mask (sqnorm b) (rho2 (sqnorm b)) = true -> 0 < rho1 (sqnorm b)) ->
  exists bs', triggs rho1 rho2 bs = Some bs'.
Proof. exact triggs_defined. Qed.

(* gradient identity for EVERY kernel (rho'' > 0, = 0, < 0), all blocks, any d and width p:
   J'^T R' = sum_i rho'(|R_i|^2) J_i^T R_i *)
Theorem C09_triggs_grad : forall (rho1 rho2 : R -> R) (p : nat) (bs bs' : list (@block R)),
  triggs rho1 rho2 bs = Some bs' -> Forall (wf_block p) bs ->
  forall l, (l < p)%nat -> bsum (fun b => JtR b l) bs' = robust_grad rho1 bs l.
Proof. exact triggs_grad. Qed.
Theorem C09_triggs_grad_of_robust_loss : forall (rho rho1 rho2 : R -> R) (p : nat) (bs bs' : list (@block R)),
  (forall x, 0 <= x -> is_derive rho x (rho1 x)) -> triggs rho1 rho2 bs = Some bs' ->
  Forall (wf_block p) bs -> forall l, (l < p)%nat ->
  bsum (fun b => JtR b l) bs' = robust_grad (Derive rho) bs l.
Proof. exact triggs_grad_derive. Qed.

(* Hessian identity, all blocks, any d and width p:
   J'^T J' = sum_i rho' J_i^T J_i + [rho'' > 0 and R_i <> 0] 2 rho'' (J_i^T R_i)(J_i^T R_i)^T *)
Theorem C09_triggs_hess : forall (rho1 rho2 : R -> R) (p : nat) (bs bs' : list (@block R)),
  triggs rho1 rho2 bs = Some bs' -> Forall (wf_block p) bs ->
  forall l m, (l < p)%nat -> (m < p)%nat ->
  bsum (fun b => JtJ b l m) bs' = triggs_hess_rhs rho1 rho2 bs l m.
Proof. exact triggs_hess. Qed.
Theorem C09_triggs_mask_meaning : forall x g2 : R, triggs_mask x g2 = true <-> x <> 0 /\ 0 < g2.
Proof. exact triggs_mask_true. Qed.

(* off the mask (rho'' <= 0 or R_i = 0) Triggs coincides with FastTriggs, block by block and on
   tensors without masked blocks *)
Theorem C09_triggs_eq_fasttriggs_off_mask : forall (g1 g2 : R) Rv J,
  triggs_mask (dot Rv Rv) g2 = false -> triggs_block g1 g2 Rv J = fasttriggs_block g1 Rv J.
Proof. exact triggs_block_off_mask. Qed.
Theorem C09_triggs_eq_fasttriggs_unmasked_tensor : forall (rho1 rho2 : R -> R) (bs : list (@block R)),
  (forall b, In b bs -> triggs_mask (sqnorm b) (rho2 (sqnorm b)) = false) ->
  triggs rho1 rho2 bs = fasttriggs rho1 bs.
Proof. exact triggs_eq_fasttriggs. Qed.

(* all seven built-in kernels (Scale and its constant slope included): rho'' <= 0, so Triggs returns,
   equals FastTriggs, and its gradient is the gradient of the robust loss *)
Theorem C09_triggs_builtin_kernels : forall k p1 p2 (bs : list (@block R)), kernel_params k p1 p2 ->
  exists bs', triggs_kernel k p1 p2 bs = Some bs' /\ fasttriggs_kernel k p1 p2 bs = Some bs' /\
    forall l, bsum (fun b => JtR b l) bs' = robust_grad (Derive (fun t => kernel_f k p1 p2 t)) bs l.
Proof. exact triggs_kernel_grad. Qed.

(* history (before 298dcfc, sR[M] = se[M] / (1 - alpha) dropped R): the gradient identity failed on
   masked blocks; on the repaired code the same witness gives 16 *)
Theorem C09_old_triggs_grad_refuted :
  exists (rho rho1 rho2 : R -> R) (bs bs' : list (@block R)) (l : nat),
    (forall x, is_derive rho x (rho1 x) /\ is_derive rho1 x (rho2 x)) /\
    Forall (wf_block 1) bs /\ (l < 1)%nat /\
    (forall b, In b bs -> triggs_mask (sqnorm b) (rho2 (sqnorm b)) = true) /\
    triggs_old true rho1 rho2 bs = Some bs' /\
    bsum (fun b => JtR b l) bs' = 8 /\ robust_grad rho1 bs l = 16.
Proof. exact triggs_old_grad_refuted. Qed.
Theorem C09_triggs_grad_witness_now : forall bs' : list (@block R),
  triggs sq_rho1 sq_rho2 refute_blocks = Some bs' -> bsum (fun b => JtR b 0%nat) bs' = 16.
Proof. exact refute_witness_now. Qed.
(* history (before af4d69c): compute_grads raised for Scale while FastTriggs returned *)
Theorem C09_old_triggs_returns_refuted :
  exists (d : R) (bs : list (@block R)), kernel_params KScale d 0 /\ Forall (wf_block 1) bs /\
    (exists bs', fasttriggs_kernel KScale d 0 bs = Some bs') /\ triggs_kernel_old KScale d 0 bs = None.
Proof. exact triggs_old_scale_refuted. Qed.

(* hypotheses are satisfiable *)
Example C09_params_satisfiable :
  kernel_params KHuber 1 0 /\ kernel_params KPseudoHuber 2 0 /\ kernel_params KCauchy (1/2) 0 /\
  kernel_params KSoftLOne 1 0 /\ kernel_params KArctan 1 0 /\ kernel_params KTolerant 1 (-1) /\
  kernel_params KScale (1/2) 0 /\ wf_block 2 ([1; 0; 2], [[1; 2]; [3; 4]; [5; 6]]).
Proof. exact params_satisfiable. Qed.

Print Assumptions C09_kernel_closed_form_finite. Print Assumptions C09_kernel_value_at_0.
Print Assumptions C09_kernel_nondecreasing. Print Assumptions C09_huber_C1_at_threshold.
Print Assumptions C09_kernel_rejects_negative. Print Assumptions C09_old_scale_rejects_negative_refuted.
Print Assumptions C09_kernel_derivatives.
Print Assumptions C09_fasttriggs_defined. Print Assumptions C09_fasttriggs_grad.
Print Assumptions C09_fasttriggs_hess. Print Assumptions C09_fasttriggs_grad_of_robust_loss.
Print Assumptions C09_fasttriggs_builtin_kernels.
Print Assumptions C09_triggs_defined. Print Assumptions C09_triggs_grad.
Print Assumptions C09_triggs_grad_of_robust_loss. Print Assumptions C09_triggs_hess.
Print Assumptions C09_triggs_mask_meaning. Print Assumptions C09_triggs_eq_fasttriggs_off_mask.
Print Assumptions C09_triggs_eq_fasttriggs_unmasked_tensor. Print Assumptions C09_triggs_builtin_kernels.
Print Assumptions C09_old_triggs_grad_refuted. Print Assumptions C09_triggs_grad_witness_now.
Print Assumptions C09_old_triggs_returns_refuted.
