(* C02 — Log is the principal inverse of Exp.  Statements only (over R); proofs in Proofs/LieLog.v,
   Proofs/LieLog2.v, Proofs/LieLog3.v.
   [eps] is the dtype's machine epsilon (any eps >= 0).  Regimes of SO3_Log: 1 = |v|>eps, |w|>eps;
   2 = |v|>eps, |w|<=eps (angle pi); 3 = |v|<=eps (near identity).
   Part 3 (Proofs/LieLog4.v) covers the regimes where the model is not an exact inverse (near identity, near pi)
   with explicit error bounds in exact real arithmetic, so that the SO3 / SE3 / RxSO3 / Sim3 statements
   C02_exp_log_*_every_element and C02_log_exp_so3_all_angles hold for EVERY valid element resp. every |x| < pi.
   Still tie-only: Log(Exp x) for se3 / sim3 translations outside regime 1 (theta <= eps, or within O(eps) of pi),
   Log(Inv X) = -Log X for SE3/Sim3 outside regime 1, and all float round-off. *)
From Coq Require Import Reals List Lra.
From PV Require Import Base.Num Model.LieGroup Model.LieExp Model.LieLog Proofs.LieGroup Proofs.LieExp Proofs.LieLog
  Proofs.LieLog2 Proofs.LieLog3 Proofs.LieLog4.
Local Open Scope R_scope.
#[local] Remove Hints NumQ NumZ : typeclass_instances.

(* the rotation part of Log has norm < pi in regime 1 and exactly pi in regime 2 *)
Theorem C02_log_norm_below_pi : forall (eps : R) (q : quatR),
  eps < vnorm (qv q) -> eps < Rabs (qw q) -> 0 <= eps -> vnorm (SO3_log eps q) < PI.
Proof. exact SO3_log_norm_regime1. Qed.
Theorem C02_log_norm_at_pi : forall (eps : R) (q : quatR),
  eps < vnorm (qv q) -> Rabs (qw q) <= eps -> 0 <= eps -> vnorm (SO3_log eps q) = PI.
Proof. exact SO3_log_norm_regime2. Qed.

(* away from angle pi, q and -q have the same Log *)
Theorem C02_log_of_negated_quaternion : forall (eps : R) (q : quatR),
  eps < vnorm (qv q) -> eps < Rabs (qw q) -> 0 <= eps -> SO3_log eps (qneg q) = SO3_log eps q.
Proof. exact SO3_log_neg. Qed.

(* Log(Inv X) = -Log X : SO3 in every regime, RxSO3 for positive scale *)
Theorem C02_log_inv_SO3 : forall (eps : R) (q : quatR), SO3_log eps (SO3_inv q) = vneg (SO3_log eps q).
Proof. exact SO3_log_inv. Qed.
Theorem C02_log_inv_RxSO3 : forall (eps : R) (X : rxso3R), 0 < snd X ->
  RxSO3_log eps (RxSO3_inv X) = (vneg (fst (RxSO3_log eps X)), - snd (RxSO3_log eps X)).
Proof. exact RxSO3_log_inv. Qed.

(* Exp(Log q) is q or -q, i.e. the same rotation, for every unit quaternion in regime 1
   (all angles strictly between the identity regime and pi, both hemispheres) *)
Theorem C02_exp_log_same_rotation : forall (eps : R) (q : quatR),
  0 <= eps -> eps < vnorm (qv q) -> eps < Rabs (qw q) -> unitq q ->
  SO3_matrix (so3_exp_cf (SO3_log eps q)) = SO3_matrix q.
Proof.
  intros eps q He Hv Hw Hu. destruct (Rle_or_lt 0 (qw q)) as [Hp|Hn].
  - rewrite exp_log_pos; auto. rewrite Rabs_pos_eq in Hw; auto.
  - rewrite exp_log_neg; auto; [apply qneg_same_rotation|]. rewrite Rabs_left in Hw; lra.
Qed.
(* the model's Exp is that closed form whenever the angle exceeds eps *)
Theorem C02_exp_closed_form : forall (eps : R) (x : vec3R), eps < vnorm x -> so3_exp eps x = so3_exp_cf x.
Proof. exact so3_exp_is_cf. Qed.

(* Log(Exp x) = x whenever the rotation angle is below pi (and both sides are on closed-form branches) *)
Theorem C02_log_exp_so3 : forall (eps : R) (x : vec3R), 0 <= eps -> eps < vnorm x -> vnorm x < PI ->
  eps < vnorm (qv (so3_exp_cf x)) -> eps < cos (vnorm x / 2) -> SO3_log eps (so3_exp_cf x) = x.
Proof. exact log_exp_so3. Qed.
Theorem C02_Jl_inv_is_inverse : forall (eps : R) (x : vec3R), 0 <= eps -> eps < vnorm x -> vnorm x < 2 * PI ->
  mmul3 (so3_Jl_inv eps x) (so3_Jl eps x) = mid3.
Proof. exact so3_Jl_inv_Jl. Qed.
Theorem C02_log_exp_se3 : forall (eps : R) (x : vec3R * vec3R), 0 <= eps -> eps < vnorm (snd x) -> vnorm (snd x) < PI ->
  eps < vnorm (qv (so3_exp_cf (snd x))) -> eps < cos (vnorm (snd x) / 2) -> SE3_log eps (se3_exp eps x) = x.
Proof. exact log_exp_se3. Qed.

Print Assumptions C02_log_norm_below_pi. Print Assumptions C02_log_norm_at_pi. Print Assumptions C02_log_of_negated_quaternion.
Print Assumptions C02_log_inv_SO3. Print Assumptions C02_log_inv_RxSO3. Print Assumptions C02_exp_log_same_rotation.
Print Assumptions C02_exp_closed_form. Print Assumptions C02_log_exp_so3. Print Assumptions C02_Jl_inv_is_inverse. Print Assumptions C02_log_exp_se3.

(* ======================= part 2 (Proofs/LieLog2.v, Proofs/LieLog3.v) ======================= *)

(* ---- Log (Exp x) = x with the model's Exp, closed-form branches: eps < theta < pi and the quaternion of
   Exp x in regime 1 of SO3_Log (its |v| = sin(theta/2) and w = cos(theta/2) both exceed eps) *)
Theorem C02_log_exp_so3_model : forall (eps : R) (x : vec3R), 0 <= eps -> eps < vnorm x -> vnorm x < PI ->
  eps < sin (vnorm x / 2) -> eps < cos (vnorm x / 2) -> SO3_log eps (so3_exp eps x) = x.
Proof. exact log_exp_so3_model. Qed.
Theorem C02_log_exp_rxso3 : forall (eps : R) (x : vec3R * R), 0 <= eps -> eps < vnorm (fst x) -> vnorm (fst x) < PI ->
  eps < sin (vnorm (fst x) / 2) -> eps < cos (vnorm (fst x) / 2) -> RxSO3_log eps (rxso3_exp eps x) = x.
Proof. exact log_exp_rxso3. Qed.
(* sim3: every sigma (both regimes |sigma| > eps and |sigma| <= eps of rxso3_Ws) and every translation *)
Theorem C02_log_exp_sim3 : forall (eps : R) (x : vec3R * (vec3R * R)), 0 <= eps ->
  eps < vnorm (fst (snd x)) -> vnorm (fst (snd x)) < PI ->
  eps < sin (vnorm (fst (snd x)) / 2) -> eps < cos (vnorm (fst (snd x)) / 2) ->
  Sim3_log eps (sim3_exp eps x) = x.
Proof. exact log_exp_sim3. Qed.
(* the 3x3 inverse used by Sim3_Log really inverts rxso3_Ws (det <> 0) for eps < theta < 2 pi, every sigma *)
Theorem C02_Ws_det_nonzero : forall (eps : R) (phi : vec3R) (sg : R), 0 <= eps -> eps < vnorm phi -> vnorm phi < 2 * PI ->
  mdet3 (rxso3_Ws eps (phi, sg)) <> 0.
Proof. exact rxso3_Ws_det. Qed.
Theorem C02_Ws_inverse : forall (eps : R) (phi : vec3R) (sg : R), 0 <= eps -> eps < vnorm phi -> vnorm phi < 2 * PI ->
  mmul3 (minv3 (rxso3_Ws eps (phi, sg))) (rxso3_Ws eps (phi, sg)) = mid3 /\
  mmul3 (rxso3_Ws eps (phi, sg)) (minv3 (rxso3_Ws eps (phi, sg))) = mid3.
Proof. exact Ws_inv_Ws. Qed.

(* ---- Exp (Log X) = X with the model's Exp: unit quaternion in regime 1.  w > eps: X itself;
   w < -eps: the element with the negated quaternion; in both hemispheres the same transformation (matrix) *)
Theorem C02_exp_log_SO3 : forall (eps : R) (q : quatR), 0 <= eps -> eps < vnorm (qv q) -> eps < qw q -> unitq q ->
  so3_exp eps (SO3_log eps q) = q.
Proof. exact exp_log_pos_model. Qed.
Theorem C02_exp_log_SO3_lower_hemisphere : forall (eps : R) (q : quatR),
  0 <= eps -> eps < vnorm (qv q) -> qw q < - eps -> unitq q -> so3_exp eps (SO3_log eps q) = qneg q.
Proof. exact exp_log_neg_model. Qed.
Theorem C02_exp_log_SO3_same_rotation : forall (eps : R) (q : quatR),
  0 <= eps -> eps < vnorm (qv q) -> eps < Rabs (qw q) -> unitq q ->
  SO3_matrix (so3_exp eps (SO3_log eps q)) = SO3_matrix q.
Proof. exact exp_log_same_rotation_model. Qed.
(* the rotation angle of Log q is above eps, so Exp is on its closed-form branch there *)
Theorem C02_log_norm_above_eps : forall (eps : R) (q : quatR),
  0 <= eps -> eps < vnorm (qv q) -> eps < Rabs (qw q) -> unitq q -> eps < vnorm (SO3_log eps q).
Proof. exact SO3_log_norm_gt_eps. Qed.

Theorem C02_exp_log_SE3 : forall (eps : R) (X : se3R), 0 <= eps -> eps < vnorm (qv (snd X)) -> eps < qw (snd X) ->
  unitq (snd X) -> se3_exp eps (SE3_log eps X) = X.
Proof. exact exp_log_SE3_pos. Qed.
Theorem C02_exp_log_SE3_same_transformation : forall (eps : R) (X : se3R),
  0 <= eps -> eps < vnorm (qv (snd X)) -> eps < Rabs (qw (snd X)) -> unitq (snd X) ->
  se3_exp eps (SE3_log eps X) = (fst X, so3_exp eps (SO3_log eps (snd X))) /\
  matrix4 SE3_act4 (se3_exp eps (SE3_log eps X)) = matrix4 SE3_act4 X.
Proof. intros; split; [now apply exp_log_SE3_gen | now apply exp_log_SE3_matrix]. Qed.

(* RxSO3: the scale is restored for every positive scale, whatever the regime of the rotation *)
Theorem C02_exp_log_RxSO3_scale : forall (eps : R) (X : rxso3R), 0 < snd X ->
  rxso3_exp eps (RxSO3_log eps X) = (so3_exp eps (SO3_log eps (fst X)), snd X).
Proof. exact exp_log_RxSO3_gen. Qed.
Theorem C02_exp_log_RxSO3 : forall (eps : R) (X : rxso3R), 0 <= eps -> eps < vnorm (qv (fst X)) -> eps < qw (fst X) ->
  unitq (fst X) -> 0 < snd X -> rxso3_exp eps (RxSO3_log eps X) = X.
Proof. exact exp_log_RxSO3_pos. Qed.
Theorem C02_exp_log_RxSO3_same_transformation : forall (eps : R) (X : rxso3R),
  0 <= eps -> eps < vnorm (qv (fst X)) -> eps < Rabs (qw (fst X)) -> unitq (fst X) -> 0 < snd X ->
  matrix4 RxSO3_act4 (rxso3_exp eps (RxSO3_log eps X)) = matrix4 RxSO3_act4 X.
Proof. exact exp_log_RxSO3_matrix. Qed.

Theorem C02_exp_log_Sim3 : forall (eps : R) (X : sim3R), 0 <= eps -> eps < vnorm (qv (fst (snd X))) ->
  eps < qw (fst (snd X)) -> unitq (fst (snd X)) -> 0 < snd (snd X) -> sim3_exp eps (Sim3_log eps X) = X.
Proof. exact exp_log_Sim3_pos. Qed.
Theorem C02_exp_log_Sim3_same_transformation : forall (eps : R) (X : sim3R),
  0 <= eps -> eps < vnorm (qv (fst (snd X))) -> eps < Rabs (qw (fst (snd X))) -> unitq (fst (snd X)) -> 0 < snd (snd X) ->
  sim3_exp eps (Sim3_log eps X) = (fst X, (so3_exp eps (SO3_log eps (fst (snd X))), snd (snd X))) /\
  matrix4 Sim3_act4 (sim3_exp eps (Sim3_log eps X)) = matrix4 Sim3_act4 X.
Proof. intros; split; [now apply exp_log_Sim3_gen | now apply exp_log_Sim3_matrix]. Qed.

(* ---- Log of the identity is exactly zero on every type, for every eps; Exp 0 is the identity *)
Theorem C02_log_identity : forall eps : R,
  SO3_log eps SO3_id = vzero /\ SE3_log eps SE3_id = (vzero, vzero) /\
  RxSO3_log eps RxSO3_id = (vzero, 0) /\ Sim3_log eps Sim3_id = (vzero, (vzero, 0)).
Proof.
  intros eps. split; [apply SO3_log_id|]. split; [apply SE3_log_id|]. split; [apply RxSO3_log_id|apply Sim3_log_id].
Qed.
Theorem C02_exp_log_identity : forall eps : R, 0 <= eps -> so3_exp eps (SO3_log eps SO3_id) = SO3_id.
Proof. intros eps He. rewrite SO3_log_id. now apply so3_exp_zero. Qed.

(* ---- range of Log: EVERY unit quaternion (all three regimes), any eps in [0, 1/2]; the rotation part of
   Log on SE3 / RxSO3 / Sim3 is SO3_log of the quaternion, so the same bound holds there *)
Theorem C02_log_norm_le_pi : forall (eps : R) (q : quatR), 0 <= eps -> eps <= 1 / 2 -> unitq q ->
  vnorm (SO3_log eps q) <= PI.
Proof. exact SO3_log_norm_le_pi. Qed.
Theorem C02_log_norm_le_pi_all_groups : forall (eps : R), 0 <= eps -> eps <= 1 / 2 ->
  (forall X : se3R, unitq (snd X) -> vnorm (snd (SE3_log eps X)) <= PI) /\
  (forall X : rxso3R, unitq (fst X) -> vnorm (fst (RxSO3_log eps X)) <= PI) /\
  (forall X : sim3R, unitq (fst (snd X)) -> vnorm (fst (snd (Sim3_log eps X))) <= PI).
Proof.
  intros eps He He2. split; [|split]; intros X Hu; now apply SO3_log_norm_le_pi.
Qed.

(* ---- rotation angle pi.  Regime 2 (|w| <= eps): Exp (Log q) = (pm(w) v / |v|, 0); exactly pi (w = 0):
   Exp (Log q) = q and |Log q| = pi; |w| <= eps: within sqrt(2) eps (quaternion distance) of q resp. -q
   (qscale 1 q = q, qscale (-1) q = qneg q) *)
Theorem C02_exp_log_regime2 : forall (eps : R) (q : quatR), 0 <= eps -> eps < PI -> eps < vnorm (qv q) -> Rabs (qw q) <= eps ->
  so3_exp eps (SO3_log eps q) = (vscale (pm (qw q) / vnorm (qv q)) (qv q), 0).
Proof. exact exp_log_regime2. Qed.
Theorem C02_exp_log_at_pi : forall (eps : R) (q : quatR), 0 <= eps -> eps < 1 -> unitq q -> qw q = 0 ->
  so3_exp eps (SO3_log eps q) = q /\ vnorm (SO3_log eps q) = PI.
Proof. exact exp_log_at_pi. Qed.
Theorem C02_exp_log_near_pi : forall (eps : R) (q : quatR),
  0 <= eps -> eps < 1 / 2 -> unitq q -> eps < vnorm (qv q) -> Rabs (qw q) <= eps ->
  qdist2 (so3_exp eps (SO3_log eps q)) (qscale (pm (qw q)) q) <= 2 * (eps * eps).
Proof. exact exp_log_near_pi. Qed.

(* ---- Log (Inv X) = - Log X for SE3 and Sim3 (regime 1, unit quaternion); Sim3 needs |ln s| > eps or s = 1:
   for 0 < |ln s| <= eps the model's rxso3_Ws ignores sigma while Inv scales the translation by 1/s *)
Theorem C02_log_inv_SE3 : forall (eps : R) (X : se3R), 0 <= eps -> eps < vnorm (qv (snd X)) -> eps < Rabs (qw (snd X)) ->
  unitq (snd X) -> SE3_log eps (SE3_inv X) = (vneg (fst (SE3_log eps X)), vneg (snd (SE3_log eps X))).
Proof. exact SE3_log_inv. Qed.
Theorem C02_log_inv_Sim3 : forall (eps : R) (X : sim3R), 0 <= eps ->
  eps < vnorm (qv (fst (snd X))) -> eps < Rabs (qw (fst (snd X))) -> unitq (fst (snd X)) ->
  0 < snd (snd X) -> eps < Rabs (ln (snd (snd X))) \/ snd (snd X) = 1 ->
  Sim3_log eps (Sim3_inv X) =
  (vneg (fst (Sim3_log eps X)), (vneg (fst (snd (Sim3_log eps X))), - snd (snd (Sim3_log eps X)))).
Proof. exact Sim3_log_inv. Qed.

(* ---- X and the element with the negated quaternion have the same Log: SE3, RxSO3, Sim3 *)
Theorem C02_log_of_negated_quaternion_all_groups : forall (eps : R), 0 <= eps ->
  (forall X : se3R, eps < vnorm (qv (snd X)) -> eps < Rabs (qw (snd X)) ->
     SE3_log eps (fst X, qneg (snd X)) = SE3_log eps X) /\
  (forall X : rxso3R, eps < vnorm (qv (fst X)) -> eps < Rabs (qw (fst X)) ->
     RxSO3_log eps (qneg (fst X), snd X) = RxSO3_log eps X) /\
  (forall X : sim3R, eps < vnorm (qv (fst (snd X))) -> eps < Rabs (qw (fst (snd X))) ->
     Sim3_log eps (fst X, (qneg (fst (snd X)), snd (snd X))) = Sim3_log eps X).
Proof.
  intros eps He. split; [|split]; intros X Hv Hw;
  [now apply SE3_log_neg | now apply RxSO3_log_neg | now apply Sim3_log_neg].
Qed.

(* ---- the hypotheses above are satisfiable (float64 eps = 2^-52) *)
Example C02_hyps_log_exp_satisfiable : let x : vec3R := (1, 0, 0) in
  0 <= eps64 /\ eps64 < vnorm x /\ vnorm x < PI /\ eps64 < sin (vnorm x / 2) /\ eps64 < cos (vnorm x / 2).
Proof. exact hyps_log_exp_ok. Qed.
Example C02_hyps_exp_log_satisfiable : forall sgn : R, sgn = 1 \/ sgn = -1 ->
  let q : quatR := ((3 / 5, 0, 0), sgn * (4 / 5)) in
  0 <= eps64 /\ eps64 < vnorm (qv q) /\ eps64 < Rabs (qw q) /\ unitq q.
Proof. exact hyps_exp_log_ok. Qed.
Example C02_hyps_at_pi_satisfiable : let q : quatR := ((1, 0, 0), 0) in
  0 <= eps64 /\ eps64 < 1 / 2 /\ unitq q /\ qw q = 0.
Proof. exact hyps_at_pi_ok. Qed.
Example C02_hyps_scale_satisfiable : 0 < 2 /\ eps64 < Rabs (ln 2).
Proof. exact hyps_scale_ok. Qed.

Print Assumptions C02_log_exp_so3_model. Print Assumptions C02_log_exp_rxso3. Print Assumptions C02_log_exp_sim3.
Print Assumptions C02_Ws_det_nonzero. Print Assumptions C02_Ws_inverse.
Print Assumptions C02_exp_log_SO3. Print Assumptions C02_exp_log_SO3_lower_hemisphere.
Print Assumptions C02_exp_log_SO3_same_rotation. Print Assumptions C02_log_norm_above_eps.
Print Assumptions C02_exp_log_SE3. Print Assumptions C02_exp_log_SE3_same_transformation.
Print Assumptions C02_exp_log_RxSO3_scale. Print Assumptions C02_exp_log_RxSO3. Print Assumptions C02_exp_log_RxSO3_same_transformation.
Print Assumptions C02_exp_log_Sim3. Print Assumptions C02_exp_log_Sim3_same_transformation.
Print Assumptions C02_log_identity. Print Assumptions C02_exp_log_identity.
Print Assumptions C02_log_norm_le_pi. Print Assumptions C02_log_norm_le_pi_all_groups.
Print Assumptions C02_exp_log_regime2. Print Assumptions C02_exp_log_at_pi. Print Assumptions C02_exp_log_near_pi.
Print Assumptions C02_log_inv_SE3. Print Assumptions C02_log_inv_Sim3. Print Assumptions C02_log_of_negated_quaternion_all_groups.

(* ======================= part 3 (Proofs/LieLog4.v): every element, with error bounds ======================= *)
(* quaternion distance: qdist2 p q = |p - q|^2 (4 components); qscale 1 q = q, qscale (-1) q = qneg q;
   pm w = 1 for w >= 0 and -1 for w < 0 (pypose.pm) *)

(* ---- Exp (Log q) for EVERY unit quaternion (all three regimes, both hemispheres), eps <= 2^-10:
   within sqrt 2 eps of q (w >= 0) resp. -q (w < 0), i.e. of the same rotation *)
Theorem C02_exp_log_SO3_every_element : forall (eps : R) (q : quatR), 0 <= eps -> eps <= 1 / 1024 -> unitq q ->
  qdist2 (so3_exp eps (SO3_log eps q)) (qscale (pm (qw q)) q) <= 2 * (eps * eps).
Proof. exact exp_log_SO3_all. Qed.
(* regime 3 (|v| <= eps): the distance is at most sqrt 5 |v|^5 *)
Theorem C02_exp_log_regime3 : forall (eps : R) (q : quatR), 0 <= eps -> eps <= 1 / 1024 -> unitq q -> vnorm (qv q) <= eps ->
  qdist2 (so3_exp eps (SO3_log eps q)) (qscale (pm (qw q)) q) <= 5 * vnorm (qv q) ^ 10.
Proof. exact exp_log_regime3. Qed.
(* SE3: additionally the translation is within eps^4/316 |t| of t (exactly t when the angle of Log q exceeds eps) *)
Theorem C02_exp_log_SE3_every_element : forall (eps : R) (X : se3R), 0 <= eps -> eps <= 1 / 1024 -> unitq (snd X) ->
  let Y := se3_exp eps (SE3_log eps X) in
  let d := vsub (fst Y) (fst X) in
  vdot d d <= eps ^ 8 / 100000 * vdot (fst X) (fst X) /\
  qdist2 (snd Y) (qscale (pm (qw (snd X))) (snd X)) <= 2 * (eps * eps).
Proof. exact exp_log_SE3_all. Qed.
Theorem C02_exp_log_SE3_translation_exact : forall (eps : R) (X : se3R), 0 <= eps ->
  eps < vnorm (SO3_log eps (snd X)) -> vnorm (SO3_log eps (snd X)) < 2 * PI ->
  se3_exp eps (SE3_log eps X) = (fst X, so3_exp eps (SO3_log eps (snd X))).
Proof. exact exp_log_SE3_transl. Qed.
Theorem C02_exp_log_RxSO3_every_element : forall (eps : R) (X : rxso3R),
  0 <= eps -> eps <= 1 / 1024 -> unitq (fst X) -> 0 < snd X ->
  snd (rxso3_exp eps (RxSO3_log eps X)) = snd X /\
  qdist2 (fst (rxso3_exp eps (RxSO3_log eps X))) (qscale (pm (qw (fst X))) (fst X)) <= 2 * (eps * eps).
Proof. exact exp_log_RxSO3_all. Qed.
(* Sim3: translation and scale restored exactly in every regime (det rxso3_Ws <> 0 on all four branches) *)
Theorem C02_exp_log_Sim3_every_element : forall (eps : R) (X : sim3R),
  0 <= eps -> eps <= 1 / 1024 -> unitq (fst (snd X)) -> 0 < snd (snd X) ->
  fst (sim3_exp eps (Sim3_log eps X)) = fst X /\ snd (snd (sim3_exp eps (Sim3_log eps X))) = snd (snd X) /\
  qdist2 (fst (snd (sim3_exp eps (Sim3_log eps X)))) (qscale (pm (qw (fst (snd X)))) (fst (snd X))) <= 2 * (eps * eps).
Proof. exact exp_log_Sim3_all. Qed.
Theorem C02_Ws_det_nonzero_all_branches : forall (eps : R) (phi : vec3R) (sg : R), 0 <= eps -> vnorm phi < 2 * PI ->
  mdet3 (rxso3_Ws eps (phi, sg)) <> 0.
Proof. exact rxso3_Ws_det_all. Qed.

(* ---- Log (Exp x) for EVERY x with |x| < pi, eps <= 2^-10: x scaled by 1 + r, |r| <= 2 eps (r = 0 in regime 1) *)
Theorem C02_log_exp_so3_all_angles : forall (eps : R) (x : vec3R), 0 <= eps -> eps <= 1 / 1024 -> vnorm x < PI ->
  exists r, SO3_log eps (so3_exp eps x) = vscale (1 + r) x /\ Rabs r <= 2 * eps.
Proof. exact log_exp_so3_all. Qed.
Theorem C02_log_exp_rxso3_all_angles : forall (eps : R) (x : vec3R * R), 0 <= eps -> eps <= 1 / 1024 -> vnorm (fst x) < PI ->
  exists r, RxSO3_log eps (rxso3_exp eps x) = (vscale (1 + r) (fst x), snd x) /\ Rabs r <= 2 * eps.
Proof. exact log_exp_rxso3_all. Qed.
(* Taylor branch of Exp (theta <= eps): the factor is an explicit rational function, |r| <= theta^4 / 64 *)
Theorem C02_log_exp_so3_taylor : forall (eps : R) (x : vec3R), 0 <= eps -> eps <= 1 / 1024 -> vnorm x <= eps ->
  SO3_log eps (so3_exp eps x) = vscale (1 + rlog_taylor (vnorm x)) x /\ Rabs (rlog_taylor (vnorm x)) <= vnorm x ^ 4 / 64.
Proof.
  intros eps x He He2 Hx. split; [now apply log_exp_so3_taylor|].
  apply rlog_taylor_bound. pose proof (vnorm_nonneg x). lra.
Qed.
(* within 4 eps of pi (cos(theta/2) <= eps) Log reports the angle pi exactly: Log (Exp x) = (pi/theta) x *)
Theorem C02_log_exp_so3_near_pi : forall (eps : R) (x : vec3R), 0 <= eps -> eps <= 1 / 1024 -> eps < vnorm x -> vnorm x < PI ->
  cos (vnorm x / 2) <= eps ->
  SO3_log eps (so3_exp eps x) = vscale (PI / vnorm x) x /\ 0 < PI - vnorm x <= 4 * eps.
Proof. exact log_exp_so3_near_pi. Qed.

(* ---- q and -q: same Log also in regime 3 and in regime 2 with w <> 0; at w = 0 exactly (angle pi) the two
   logarithms are opposite (both are logarithms of the same half-turn) *)
Theorem C02_log_of_negated_quaternion_regime3 : forall (eps : R) (q : quatR), vnorm (qv q) <= eps -> qw q <> 0 ->
  SO3_log eps (qneg q) = SO3_log eps q.
Proof. exact SO3_log_neg_regime3. Qed.
Theorem C02_log_of_negated_quaternion_regime2 : forall (eps : R) (q : quatR),
  eps < vnorm (qv q) -> Rabs (qw q) <= eps -> qw q <> 0 -> SO3_log eps (qneg q) = SO3_log eps q.
Proof. exact SO3_log_neg_regime2. Qed.
Theorem C02_log_of_negated_quaternion_at_pi : forall (eps : R) (q : quatR), 0 <= eps -> eps < vnorm (qv q) -> qw q = 0 ->
  SO3_log eps (qneg q) = vneg (SO3_log eps q).
Proof. exact SO3_log_neg_at_pi. Qed.

(* ---- "principal": beyond pi Log (Exp x) is not x but the rotation vector of the same rotation with angle
   2 pi - theta < pi about the opposite axis *)
Theorem C02_log_exp_so3_beyond_pi : forall (eps : R) (x : vec3R),
  0 <= eps -> eps < vnorm x -> PI < vnorm x -> vnorm x < 2 * PI ->
  eps < sin (vnorm x / 2) -> eps < - cos (vnorm x / 2) ->
  SO3_log eps (so3_exp eps x) = vscale ((vnorm x - 2 * PI) / vnorm x) x /\
  vnorm (SO3_log eps (so3_exp eps x)) = 2 * PI - vnorm x.
Proof. exact log_exp_so3_beyond_pi. Qed.
Example C02_hyps_beyond_pi_satisfiable : let x : vec3R := (4, 0, 0) in
  0 <= eps64 /\ eps64 < vnorm x /\ PI < vnorm x /\ vnorm x < 2 * PI /\ eps64 < sin (vnorm x / 2) /\ eps64 < - cos (vnorm x / 2).
Proof. exact hyps_beyond_pi_ok. Qed.

Print Assumptions C02_exp_log_SO3_every_element. Print Assumptions C02_exp_log_regime3.
Print Assumptions C02_exp_log_SE3_every_element. Print Assumptions C02_exp_log_SE3_translation_exact.
Print Assumptions C02_exp_log_RxSO3_every_element. Print Assumptions C02_exp_log_Sim3_every_element.
Print Assumptions C02_Ws_det_nonzero_all_branches.
Print Assumptions C02_log_exp_so3_all_angles. Print Assumptions C02_log_exp_rxso3_all_angles.
Print Assumptions C02_log_exp_so3_taylor. Print Assumptions C02_log_exp_so3_near_pi.
Print Assumptions C02_log_of_negated_quaternion_regime3. Print Assumptions C02_log_of_negated_quaternion_regime2.
Print Assumptions C02_log_of_negated_quaternion_at_pi.
Print Assumptions C02_log_exp_so3_beyond_pi.
