(* C02 — Log is the principal inverse of Exp.  Statements only (over R); proofs in Proofs/LieLog.v.
   [eps] is the dtype's machine epsilon (any eps >= 0).  Regimes of SO3_Log: 1 = |v|>eps, |w|>eps;
   2 = |v|>eps, |w|<=eps (angle pi); 3 = |v|<=eps (near identity). *)
From Coq Require Import Reals List Lra.
From PV Require Import Base.Num Model.LieGroup Model.LieExp Model.LieLog Proofs.LieGroup Proofs.LieExp Proofs.LieLog.
Local Open Scope R_scope.
#[local] Remove Hints NumQ NumZ : typeclass_instances.

(* the rotation part of Log has norm < pi in regime 1 and exactly pi in regime 2 *)
Theorem C02_log_norm_below_pi : forall (eps : R) (q : quatR),
  eps < vnorm (qv q) -> eps < Rabs (qw q) -> 0 <= eps -> vnorm (SO3_log eps q) < PI.
Proof. exact SO3_log_norm_regime1. Qed.
Theorem C02_log_norm_at_pi : forall (eps : R) (q : quatR),
  eps < vnorm (qv q) -> Rabs (qw q) <= eps -> 0 <= eps -> vnorm (SO3_log eps q) = PI.
Proof. exact SO3_log_norm_regime2. Qed.

(* away from angle pi, q and -q have the same Log *)
Theorem C02_log_of_negated_quaternion : forall (eps : R) (q : quatR),
  eps < vnorm (qv q) -> eps < Rabs (qw q) -> 0 <= eps -> SO3_log eps (qneg q) = SO3_log eps q.
Proof. exact SO3_log_neg. Qed.

(* Log(Inv X) = -Log X : SO3 in every regime, RxSO3 for positive scale *)
Theorem C02_log_inv_SO3 : forall (eps : R) (q : quatR), SO3_log eps (SO3_inv q) = vneg (SO3_log eps q).
Proof. exact SO3_log_inv. Qed.
Theorem C02_log_inv_RxSO3 : forall (eps : R) (X : rxso3R), 0 < snd X ->
  RxSO3_log eps (RxSO3_inv X) = (vneg (fst (RxSO3_log eps X)), - snd (RxSO3_log eps X)).
Proof. exact RxSO3_log_inv. Qed.

(* Exp(Log q) is q or -q, i.e. the same rotation, for every unit quaternion in regime 1
   (all angles strictly between the identity regime and pi, both hemispheres) *)
Theorem C02_exp_log_same_rotation : forall (eps : R) (q : quatR),
  0 <= eps -> eps < vnorm (qv q) -> eps < Rabs (qw q) -> unitq q ->
  SO3_matrix (so3_exp_cf (SO3_log eps q)) = SO3_matrix q.
Proof.
  intros eps q He Hv Hw Hu. destruct (Rle_or_lt 0 (qw q)) as [Hp|Hn].
  - rewrite exp_log_pos; auto. rewrite Rabs_pos_eq in Hw; auto.
  - rewrite exp_log_neg; auto; [apply qneg_same_rotation|]. rewrite Rabs_left in Hw; lra.
Qed.
(* the model's Exp is that closed form whenever the angle exceeds eps *)
Theorem C02_exp_closed_form : forall (eps : R) (x : vec3R), eps < vnorm x -> so3_exp eps x = so3_exp_cf x.
Proof. exact so3_exp_is_cf. Qed.

(* Log(Exp x) = x whenever the rotation angle is below pi (and both sides are on closed-form branches) *)
Theorem C02_log_exp_so3 : forall (eps : R) (x : vec3R), 0 <= eps -> eps < vnorm x -> vnorm x < PI ->
  eps < vnorm (qv (so3_exp_cf x)) -> eps < cos (vnorm x / 2) -> SO3_log eps (so3_exp_cf x) = x.
Proof. exact log_exp_so3. Qed.
Theorem C02_Jl_inv_is_inverse : forall (eps : R) (x : vec3R), 0 <= eps -> eps < vnorm x -> vnorm x < 2 * PI ->
  mmul3 (so3_Jl_inv eps x) (so3_Jl eps x) = mid3.
Proof. exact so3_Jl_inv_Jl. Qed.
Theorem C02_log_exp_se3 : forall (eps : R) (x : vec3R * vec3R), 0 <= eps -> eps < vnorm (snd x) -> vnorm (snd x) < PI ->
  eps < vnorm (qv (so3_exp_cf (snd x))) -> eps < cos (vnorm (snd x) / 2) -> SE3_log eps (se3_exp eps x) = x.
Proof. exact log_exp_se3. Qed.

Print Assumptions C02_log_norm_below_pi. Print Assumptions C02_log_norm_at_pi. Print Assumptions C02_log_of_negated_quaternion.
Print Assumptions C02_log_inv_SO3. Print Assumptions C02_log_inv_RxSO3. Print Assumptions C02_exp_log_same_rotation.
Print Assumptions C02_exp_closed_form. Print Assumptions C02_log_exp_so3. Print Assumptions C02_Jl_inv_is_inverse. Print Assumptions C02_log_exp_se3.
