(* C20 — stopping controllers stop exactly on their documented conditions, within budget.
   Statements only; proofs in Proofs/Controller.v.  [F] is any number type (Q for execution, R). *)
From Coq Require Import ZArith List Bool Reals.
Import ListNotations.
From PV Require Import Base.Num Model.Controller Proofs.Controller Proofs.Controller2.

(* StopOnPlateau: continual() after a history is true iff no documented cause (budget reached,
   `patience` consecutive steps that failed to decrease by `decreasing`, rejection in the last
   optimizer step) held at any step so far — for every sequence of (last, loss, reject_count). *)
Theorem C20_sop_stops_exactly_when : forall (F : Type) (NF : Num F) (c : sop_cfg) (ins : list sop_in),
  sop_cont (sop_run c ins) = forallb (fun k => negb (sop_cause c (firstn k ins))) (seq 1 (length ins)).
Proof. intros F NF. exact sop_cont_iff. Qed.
Theorem C20_sop_stays_false : forall (F : Type) (NF : Num F) (c : sop_cfg) ins more,
  sop_cont (sop_run c ins) = false -> sop_cont (sop_run c (ins ++ more)) = false.
Proof. intros F NF. exact sop_stays_false. Qed.

(* ReduceToBason: same, with causes: all losses below tol, budget, patience *)
Theorem C20_rtb_stops_exactly_when : forall (F : Type) (NF : Num F) (c : rtb_cfg) ls l,
  rtb_cont (rtb_run c (ls ++ [l])) = rtb_cont (rtb_run c ls) && negb (rtb_cause c (ls ++ [l])).
Proof. intros F NF. exact rtb_cont_spec. Qed.
Theorem C20_rtb_stays_false : forall (F : Type) (NF : Num F) (c : rtb_cfg) ls more,
  rtb_cont (rtb_run c ls) = false -> rtb_cont (rtb_run c (ls ++ more)) = false.
Proof. intros F NF. exact rtb_stays_false. Qed.

(* reset restores the initial state: after reset() the controller IS a fresh one (state equality), hence every later
   observation equals a fresh controller's, for every history before and every loss sequence after *)
Theorem C20_rtb_reset_restores_initial_state : forall (F : Type) (NF : Num F) (s : rtb_state (F:=F)), rtb_reset s = rtb_init.
Proof. intros F NF. exact rtb_reset_is_init. Qed.
Theorem C20_rtb_reset_equiv_fresh : forall (F : Type) (NF : Num F) (c : rtb_cfg (F:=F)) (s : rtb_state) ls,
  rtb_run_from c (rtb_reset s) ls = rtb_run_from c rtb_init ls.
Proof. intros F NF. exact rtb_reset_equiv_fresh. Qed.
(* history: reset() before the repair kept the patience counter; it behaved like a fresh controller only when the
   first loss after the reset was non-negative (see C20_rtb_reset_old_negative_loss_refuted below) *)
Theorem C20_rtb_reset_old_equiv_fresh : forall (c : rtb_cfg (F:=R)) (s : rtb_state) (l : list R) more,
  l <> [] -> Forall (fun x => (0 <= x)%R) l ->
  rtb_run_from c (rtb_reset_old s) (l :: more) = rtb_run_from c rtb_init (l :: more).
Proof.
  intros c s l more Hne Hpos. apply rtb_reset_old_equiv_fresh. now apply rtb_first_not_fail_R.
Qed.
Theorem C20_rtb_reset_observable : forall (F : Type) (NF : Num F) (s : rtb_state (F:=F)),
  rtb_cont (rtb_reset s) = true /\ rtb_steps (rtb_reset s) = 0%Z /\ rtb_last (rtb_reset s) = None.
Proof. intros F NF. exact rtb_reset_observable. Qed.

(* driver loops (while continual(): body; step(loss)) end after at most max(1, steps) controller steps *)
Theorem C20_optimize_bound : forall (F : Type) (NF : Num F) (c : sop_cfg) ins,
  (Z.of_nat (fst (drive_sop c sop_init ins)) <= Z.max 1 (sop_max c))%Z.
Proof. intros F NF. exact sop_driver_bound. Qed.
Theorem C20_icp_bound : forall (F : Type) (NF : Num F) (c : rtb_cfg) (s : rtb_state) ls,
  (Z.of_nat (fst (drive_rtb c (rtb_reset s) ls)) <= Z.max 1 (rtb_max c))%Z.
Proof. intros F NF. exact rtb_driver_bound. Qed.
Theorem C20_mpc_bound : forall (F : Type) (NF : Num F) (c : rtb_cfg) (s : rtb_state) ls, (1 <= rtb_max c)%Z ->
  (Z.of_nat (fst (drive_rtb (mpc_cfg c) (rtb_reset s) ls)) <= rtb_max c)%Z.
Proof. intros F NF. exact mpc_driver_bound. Qed.


(* ================= strengthening round (Proofs/Controller2.v) ================= *)

(* ReduceToBason, iff form over the whole history: continual() is true iff no documented cause (all losses below
   tol, budget, `patience` consecutive failures) held at ANY step so far *)
Theorem C20_rtb_stops_exactly_when_history : forall (F : Type) (NF : Num F) (c : rtb_cfg) (ls : list (list F)),
  rtb_cont (rtb_run c ls) = forallb (fun k => negb (rtb_cause c (firstn k ls))) (seq 1 (length ls)).
Proof. intros F NF. exact rtb_cont_iff. Qed.

(* driver loops make EXACTLY n controller steps, n = the first step at which a documented cause holds (no cause
   at steps 1..n-1, a cause at step n unless the loss stream ended first), and end in the state of that prefix *)
Theorem C20_optimize_stops_exactly : forall (F : Type) (NF : Num F) (c : sop_cfg) (ins : list sop_in),
  let n := fst (drive_sop c sop_init ins) in
  snd (drive_sop c sop_init ins) = sop_run c (firstn n ins) /\ n <= length ins /\
  (forall k, 1 <= k < n -> sop_cause c (firstn k ins) = false) /\
  (n < length ins -> 1 <= n /\ sop_cause c (firstn n ins) = true).
Proof. intros F NF. exact sop_driver_exact. Qed.
Theorem C20_stepper_loop_stops_exactly : forall (F : Type) (NF : Num F) (c : rtb_cfg) (ls : list (list F)),
  let n := fst (drive_rtb c rtb_init ls) in
  snd (drive_rtb c rtb_init ls) = rtb_run c (firstn n ls) /\ n <= length ls /\
  (forall k, 1 <= k < n -> rtb_cause c (firstn k ls) = false) /\
  (n < length ls -> 1 <= n /\ rtb_cause c (firstn n ls) = true).
Proof. intros F NF. exact rtb_driver_exact. Qed.

(* history, reset() before the repair (rtb_reset_old): the state equals the initial one iff the patience counter happened to be 0; the first step after a
   reset keeps counting from the stale value exactly when the loss counts as a failure against last = +inf *)
Theorem C20_rtb_reset_old_is_initial_iff : forall (F : Type) (NF : Num F) (s : rtb_state (F:=F)),
  rtb_reset_old s = rtb_init <-> rtb_pc s = 0%Z.
Proof. intros F NF. exact rtb_reset_is_init_iff. Qed.
Theorem C20_rtb_first_step_after_reset_old : forall (F : Type) (NF : Num F) (c : rtb_cfg) (s : rtb_state (F:=F)) l,
  rtb_pc (rtb_step c (rtb_reset_old s) l) = (if all_rel None l (rtb_dec c) then rtb_pc s + 1 else 0)%Z.
Proof. intros F NF. exact rtb_first_step_after_reset. Qed.
(* the clause "reset restores the initial state" was FALSE of ReduceToBason before the repair for negative losses (e.g. an MPC cost
   with a linear term): the stale patience_count survives the reset, so a used controller whose count is
   >= patience - 1 stops at its first step, where a fresh controller continues *)
Theorem C20_rtb_reset_old_negative_loss_refuted :
  (forall (c : rtb_cfg (F:=R)) (s : rtb_state) (l : list R),
     Forall (fun x => (x < 0)%R) l -> (rtb_patience c <= rtb_pc s + 1)%Z ->
     rtb_pc (rtb_step c (rtb_reset_old s) l) = (rtb_pc s + 1)%Z /\ rtb_cont (rtb_step c (rtb_reset_old s) l) = false) /\
  (forall (c : rtb_cfg (F:=R)) (x : R), (x < 0)%R -> (rtb_tol c <= x)%R -> (1 < rtb_max c)%Z -> (1 < rtb_patience c)%Z ->
     rtb_cont (rtb_step c rtb_init [x]) = true) /\
  (* a reachable instance: steps=100, patience=2, decreasing=1, tol=-100; losses 5,5,5 stop on patience; reset; loss -4 *)
  (let c : rtb_cfg (F:=Z) := {| rtb_max := 100; rtb_patience := 2; rtb_dec := 1%Z; rtb_tol := (-100)%Z |} in
   let used := rtb_reset_old (rtb_run c [[5]; [5]; [5]]%Z) in
   rtb_cont (rtb_run c [[5]; [5]; [5]]%Z) = false /\ rtb_cont used = true /\
   rtb_cont (rtb_step c used [(-4)%Z]) = false /\ rtb_cont (rtb_step c rtb_init [(-4)%Z]) = true).
Proof.
  split; [exact rtb_reset_negative_loss_stops | split; [exact rtb_fresh_negative_loss_continues | exact rtb_reset_witness]].
Qed.

Print Assumptions C20_sop_stops_exactly_when. Print Assumptions C20_sop_stays_false.
Print Assumptions C20_rtb_stops_exactly_when. Print Assumptions C20_rtb_stays_false.
Print Assumptions C20_rtb_reset_equiv_fresh. Print Assumptions C20_rtb_reset_restores_initial_state. Print Assumptions C20_rtb_reset_old_equiv_fresh. Print Assumptions C20_rtb_reset_observable.
Print Assumptions C20_optimize_bound. Print Assumptions C20_icp_bound. Print Assumptions C20_mpc_bound.
Print Assumptions C20_rtb_stops_exactly_when_history. Print Assumptions C20_optimize_stops_exactly.
Print Assumptions C20_stepper_loop_stops_exactly. Print Assumptions C20_rtb_reset_old_is_initial_iff.
Print Assumptions C20_rtb_first_step_after_reset_old. Print Assumptions C20_rtb_reset_old_negative_loss_refuted.
