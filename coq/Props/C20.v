(* C20 — stopping controllers stop exactly on their documented conditions, within budget.
   Statements only; proofs in Proofs/Controller.v.  [F] is any number type (Q for execution, R). *)
From Coq Require Import ZArith List Bool Reals.
Import ListNotations.
From PV Require Import Base.Num Model.Controller Proofs.Controller.

(* StopOnPlateau: continual() after a history is true iff no documented cause (budget reached,
   `patience` consecutive steps that failed to decrease by `decreasing`, rejection in the last
   optimizer step) held at any step so far — for every sequence of (last, loss, reject_count). *)
Theorem C20_sop_stops_exactly_when : forall (F : Type) (NF : Num F) (c : sop_cfg) (ins : list sop_in),
  sop_cont (sop_run c ins) = forallb (fun k => negb (sop_cause c (firstn k ins))) (seq 1 (length ins)).
Proof. intros F NF. exact sop_cont_iff. Qed.
Theorem C20_sop_stays_false : forall (F : Type) (NF : Num F) (c : sop_cfg) ins more,
  sop_cont (sop_run c ins) = false -> sop_cont (sop_run c (ins ++ more)) = false.
Proof. intros F NF. exact sop_stays_false. Qed.

(* ReduceToBason: same, with causes: all losses below tol, budget, patience *)
Theorem C20_rtb_stops_exactly_when : forall (F : Type) (NF : Num F) (c : rtb_cfg) ls l,
  rtb_cont (rtb_run c (ls ++ [l])) = rtb_cont (rtb_run c ls) && negb (rtb_cause c (ls ++ [l])).
Proof. intros F NF. exact rtb_cont_spec. Qed.
Theorem C20_rtb_stays_false : forall (F : Type) (NF : Num F) (c : rtb_cfg) ls more,
  rtb_cont (rtb_run c ls) = false -> rtb_cont (rtb_run c (ls ++ more)) = false.
Proof. intros F NF. exact rtb_stays_false. Qed.

(* reset restores the initial behaviour: after reset, for every future loss sequence whose first
   (batched) loss is non-negative, every later state equals a fresh controller's (the stale
   patience counter is overwritten by the first step because last = +inf) *)
Theorem C20_rtb_reset_equiv_fresh : forall (c : rtb_cfg (F:=R)) (s : rtb_state) (l : list R) more,
  l <> [] -> Forall (fun x => (0 <= x)%R) l ->
  rtb_run_from c (rtb_reset s) (l :: more) = rtb_run_from c rtb_init (l :: more).
Proof.
  intros c s l more Hne Hpos. apply rtb_reset_equiv_fresh. now apply rtb_first_not_fail_R.
Qed.
Theorem C20_rtb_reset_observable : forall (F : Type) (NF : Num F) (s : rtb_state (F:=F)),
  rtb_cont (rtb_reset s) = true /\ rtb_steps (rtb_reset s) = 0%Z /\ rtb_last (rtb_reset s) = None.
Proof. intros F NF. exact rtb_reset_observable. Qed.

(* driver loops (while continual(): body; step(loss)) end after at most max(1, steps) controller steps *)
Theorem C20_optimize_bound : forall (F : Type) (NF : Num F) (c : sop_cfg) ins,
  (Z.of_nat (fst (drive_sop c sop_init ins)) <= Z.max 1 (sop_max c))%Z.
Proof. intros F NF. exact sop_driver_bound. Qed.
Theorem C20_icp_bound : forall (F : Type) (NF : Num F) (c : rtb_cfg) (s : rtb_state) ls,
  (Z.of_nat (fst (drive_rtb c (rtb_reset s) ls)) <= Z.max 1 (rtb_max c))%Z.
Proof. intros F NF. exact rtb_driver_bound. Qed.
Theorem C20_mpc_bound : forall (F : Type) (NF : Num F) (c : rtb_cfg) (s : rtb_state) ls, (1 <= rtb_max c)%Z ->
  (Z.of_nat (fst (drive_rtb (mpc_cfg c) (rtb_reset s) ls)) <= rtb_max c)%Z.
Proof. intros F NF. exact mpc_driver_bound. Qed.

Print Assumptions C20_sop_stops_exactly_when. Print Assumptions C20_sop_stays_false.
Print Assumptions C20_rtb_stops_exactly_when. Print Assumptions C20_rtb_stays_false.
Print Assumptions C20_rtb_reset_equiv_fresh. Print Assumptions C20_rtb_reset_observable.
Print Assumptions C20_optimize_bound. Print Assumptions C20_icp_bound. Print Assumptions C20_mpc_bound.
