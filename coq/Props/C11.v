(* C11 — Matrix and Euler conversions are exact inverses of matrix() / each other.
   Statements only (over R); proofs in Proofs/Convert.v; model in Model/Convert.v.

   Reading guide.  A batch is the list of its items (any number, any shape; [B] = batch shape occurs
   only in the history theorems about the code before its repair).  [Value out]: the call returns,
   item i of the result is [out_i] ([None] = non-finite entries); [Raises e]: the call raises.
   [lay_in l M] is the 4x4 matrix M handed over as 3x3 block / first three rows / whole (L33 / L34 /
   L44); [lay_t l t] is the translation that layout carries (zero for L33).
   [so3_rt q o] : o = Some q' with q' = q or q' = -q;  [se3_rt], [sim3_rt], [rxso3_rt] likewise with the
   translation of the layout and the SAME scale.  rtol, atol are the tolerances of the call (defaults
   1e-5): the theorems hold for every 0 <= rtol, 0 <= atol < 1. *)
From Coq Require Import Reals List Lra.
Import ListNotations.
From PV Require Import Base.Num Model.LieGroup Model.Convert Proofs.LieGroup Proofs.Convert.
Local Open Scope R_scope.
#[local] Remove Hints NumQ NumZ : typeclass_instances.

(* ---- mat2SO3: every unit quaternion, every batch size, check on or off ---- *)
Theorem C11_mat2SO3_roundtrip : forall (rtol atol : R) (check : bool) (qs : list quatR),
  0 <= rtol -> 0 <= atol < 1 -> Forall unitq qs ->
  exists out, mat2SO3 rtol atol check (map (fun q => Some (SO3_matrix q)) qs) = Value out /\
              Forall2 so3_rt qs out.
Proof. exact mat2SO3_roundtrip. Qed.
(* ... hence a unit quaternion with the same matrix *)
Theorem C11_roundtrip_same_rotation : forall (q : quatR) (o : option quatR), unitq q -> so3_rt q o ->
  exists q', o = Some q' /\ unitq q' /\ SO3_matrix q' = SO3_matrix q.
Proof. exact so3_rt_same. Qed.
(* why angle pi and axis-aligned rotations are not special: in each of the four regions the selected
   radicand t_k (= 4x^2, 4y^2, 4z^2, 4w^2) is at least 1 - |atol| *)
Theorem C11_mat2SO3_discriminant_bound : forall (atol : R) (q : quatR), unitq q ->
  1 - Rabs atol <= mat2SO3_disc atol (SO3_matrix q).
Proof. exact disc_bound. Qed.
(* one item, explicit sign: the result is s*q with s = +-1 *)
Theorem C11_mat2SO3_item : forall (atol : R) (q : quatR), -1 < atol < 1 -> unitq q ->
  exists s, (s = 1 \/ s = -1) /\ mat2SO3_core atol (SO3_matrix q) = Some (qsc s q).
Proof. exact core_roundtrip. Qed.

(* ---- mat2SE3 / mat2Sim3 / mat2RxSO3 in the accepted layouts ---- *)
Theorem C11_mat2SE3_roundtrip : forall (rtol atol : R) (check : bool) (l : layout) (Xs : list se3R),
  0 <= rtol -> 0 <= atol < 1 -> Forall valid_SE3 Xs ->
  exists out, mat2SE3 rtol atol check (map (fun X => lay_in l (matrix4 SE3_act4 X)) Xs) = Value out /\
              Forall2 (se3_rt l) Xs out.
Proof. exact mat2SE3_roundtrip. Qed.
(* scale s > 0, every batch (the model no longer looks at the batch shape; the empty batch returns the
   empty batch); the rank test needs one item with s > atol in a non-empty batch *)
Theorem C11_mat2Sim3_roundtrip : forall (rtol atol : R) (check : bool) (l : layout) (Xs : list sim3R),
  0 <= rtol -> 0 <= atol < 1 -> Forall valid_Sim3 Xs ->
  (Xs = [] \/ exists X, In X Xs /\ atol < snd (snd X)) ->
  exists out, mat2Sim3 rtol atol check (map (fun X => lay_in l (matrix4 Sim3_act4 X)) Xs) = Value out /\
              Forall2 (sim3_rt l) Xs out.
Proof. exact mat2Sim3_roundtrip. Qed.
Theorem C11_mat2RxSO3_roundtrip : forall (rtol atol : R) (check : bool) (l : layout) (Xs : list rxso3R),
  0 <= rtol -> 0 <= atol < 1 -> Forall valid_RxSO3 Xs ->
  (Xs = [] \/ exists X, In X Xs /\ atol < snd X) ->
  exists out, mat2RxSO3 rtol atol check (map (fun X => lay_in l (matrix4 RxSO3_act4 X)) Xs) = Value out /\
              Forall2 rxso3_rt Xs out.
Proof. exact mat2RxSO3_roundtrip. Qed.
(* same matrix (with the translation of the layout), valid element, same scale *)
Theorem C11_SE3_same_matrix : forall l (X : se3R) o, valid_SE3 X -> se3_rt l X o ->
  exists X', o = Some X' /\ valid_SE3 X' /\ matrix4 SE3_act4 X' = block4 (SO3_matrix (snd X)) (lay_t l (fst X)).
Proof. exact se3_rt_same. Qed.
Theorem C11_Sim3_same_matrix : forall l (X : sim3R) o, valid_Sim3 X -> sim3_rt l X o ->
  exists X', o = Some X' /\ valid_Sim3 X' /\ snd (snd X') = snd (snd X) /\
             matrix4 Sim3_act4 X' = block4 (mscale3 (snd (snd X)) (SO3_matrix (fst (snd X)))) (lay_t l (fst X)).
Proof. exact sim3_rt_same. Qed.
Theorem C11_RxSO3_same_matrix : forall (X : rxso3R) o, valid_RxSO3 X -> rxso3_rt X o ->
  exists X', o = Some X' /\ valid_RxSO3 X' /\ snd X' = snd X /\ matrix4 RxSO3_act4 X' = matrix4 RxSO3_act4 X.
Proof. exact rxso3_rt_same. Qed.
Theorem C11_full_layouts_keep_translation : forall l (t : vec3R), l <> L33 -> lay_t l t = t.
Proof. exact lay_t_full. Qed.

(* History.  Before /repo 988caf7 the rank test was allclose(s, zeros(shape[:-2])), comparing shapes
   B+(1,) and B ([mat2Sim3_old], [mat2RxSO3_old] in Model/Convert.v): on that code the "all batch
   shapes" clause was REFUTED - every batch shape for which the two do not broadcast raised RuntimeError
   whatever the (valid) items, e.g. lshape (2,3), and the empty batch raised "not full rank".  The
   repaired code is the model above; where the old test was well-formed the two agree. *)
Theorem C11_mat2Sim3_old_shape_raises : forall (rtol atol : R) (check : bool) (B : list nat) (Ms : list (@matin R)),
  broadcastable (B ++ [1%nat]) B = false -> mat2Sim3_old rtol atol check B Ms = Raises RuntimeError.
Proof. exact mat2Sim3_old_shape. Qed.
Theorem C11_mat2RxSO3_old_shape_raises : forall (rtol atol : R) (check : bool) (B : list nat) (Ms : list (@matin R)),
  broadcastable (B ++ [1%nat]) B = false -> mat2RxSO3_old rtol atol check B Ms = Raises RuntimeError.
Proof. exact mat2RxSO3_old_shape. Qed.
Theorem C11_mat2Sim3_old_batch_shape_refuted : forall (rtol atol : R) (check : bool) (l : layout),
  exists (B : list nat) (Xs : list sim3R),
    length Xs = fold_right Nat.mul 1%nat B /\ Forall valid_Sim3 Xs /\ (forall X, In X Xs -> snd (snd X) = 2) /\
    mat2Sim3_old rtol atol check B (map (fun X => lay_in l (matrix4 Sim3_act4 X)) Xs) = Raises RuntimeError.
Proof. exact mat2Sim3_old_batch_shape_refuted. Qed.
Theorem C11_mat2RxSO3_old_batch_shape_refuted : forall (rtol atol : R) (check : bool) (l : layout),
  exists (B : list nat) (Xs : list rxso3R),
    length Xs = fold_right Nat.mul 1%nat B /\ Forall valid_RxSO3 Xs /\ (forall X, In X Xs -> snd X = 2) /\
    mat2RxSO3_old rtol atol check B (map (fun X => lay_in l (matrix4 RxSO3_act4 X)) Xs) = Raises RuntimeError.
Proof. exact mat2RxSO3_old_batch_shape_refuted. Qed.
Theorem C11_old_empty_batch_refuted : forall (rtol atol : R) (check : bool),
  mat2Sim3_old rtol atol check [0%nat] [] = Raises (ValueError E_rank) /\
  mat2RxSO3_old rtol atol check [0%nat] [] = Raises (ValueError E_rank).
Proof. intros. split; [apply mat2Sim3_old_empty | apply mat2RxSO3_old_empty]. Qed.
Theorem C11_empty_batch_returns : forall (rtol atol : R) (check : bool),
  mat2Sim3 rtol atol check [] = Value [] /\ mat2RxSO3 rtol atol check [] = Value [].
Proof. intros. split; [apply mat2Sim3_empty | apply mat2RxSO3_empty]. Qed.
Theorem C11_old_rank_test_agrees_where_well_formed : forall (rtol atol : R) (B : list nat) (Ms : list (@matin R)),
  broadcastable (B ++ [1%nat]) B = true -> Ms <> [] -> scale_stage_old rtol atol B Ms = scale_stage rtol atol Ms.
Proof. exact scale_stage_old_agrees. Qed.

(* ---- check=True ---- *)
(* valid inputs never raise: the matrix of a unit quaternion is within every tolerance >= 0 *)
Theorem C11_check_accepts_valid : forall (rtol atol : R) (q : quatR),
  0 <= rtol -> 0 <= atol -> unitq q -> within_tol rtol atol (SO3_matrix q).
Proof. exact rotation_within_tol. Qed.
(* "beyond the stated tolerances" = some entry of M M^T farther than atol + rtol |I_ij| from I_ij, or
   |det M - 1| > atol + rtol ([within_tol]); the call raises exactly when some item is beyond them *)
Theorem C11_check_rejects : forall (rtol atol : R) (Ms : list (option (@mat3 R))),
  (exists e, mat2SO3 rtol atol true Ms = Raises e) <-> exists M, In M Ms /\ ~ item_within rtol atol M.
Proof. exact mat2SO3_check_raises. Qed.
(* ... and what it raises is a ValueError: the orthogonality message if some item fails that test,
   else the determinant message *)
Theorem C11_check_raises_ValueError : forall (rtol atol : R) (Ms : list (option (@mat3 R))) (e : exn),
  mat2SO3 rtol atol true Ms = Raises e ->
  (e = ValueError E_orth /\ exists M, In M Ms /\ lift (orth_ok rtol atol) M = false) \/
  (e = ValueError E_det /\ (forall M, In M Ms -> lift (orth_ok rtol atol) M = true) /\
                           exists M, In M Ms /\ lift (det_ok rtol atol) M = false).
Proof. exact mat2SO3_check_message. Qed.
Theorem C11_within_tol_is_the_coded_test : forall (rtol atol : R) (M : @mat3 R),
  (orth_ok rtol atol M = true <-> orthP rtol atol M) /\ (det_ok rtol atol M = true <-> detP rtol atol M).
Proof. intros. split; [apply orth_ok_true | apply det_ok_true]. Qed.

(* ---- from_matrix: accepted layouts and dispatch ---- *)
Theorem C11_accepted_layouts : forall rows cols : nat,
  accepted rows cols = true <-> (rows, cols) = (3, 3)%nat \/ (rows, cols) = (3, 4)%nat \/ (rows, cols) = (4, 4)%nat.
Proof. exact accepted_spec. Qed.
Theorem C11_from_matrix_rejects_shape : forall (rtol atol : R) ltype check rows cols (data : list (list R)),
  accepted rows cols = false -> from_matrix_l rtol atol ltype check rows cols data = Raises (ValueError E_size).
Proof. exact from_matrix_rejects_shape. Qed.
Theorem C11_from_matrix_rejects_ltype : forall (rtol atol : R) ltype check rows cols (data : list (list R)),
  accepted rows cols = true -> (3 < ltype)%nat ->
  from_matrix_l rtol atol ltype check rows cols data = Raises (ValueError E_ltype).
Proof. exact from_matrix_rejects_ltype. Qed.
(* on the entry lists of X.matrix() from_matrix is mat2X on the corresponding layout *)
Theorem C11_from_matrix_SO3 : forall (rtol atol : R) check (qs : list quatR),
  from_matrix_l rtol atol 0 check 3 3 (map (fun q => m3_l (SO3_matrix q)) qs) =
  lmap q_l (mat2SO3 rtol atol check (map (fun q => Some (SO3_matrix q)) qs)).
Proof. exact from_matrix_SO3. Qed.
Theorem C11_from_matrix_SE3 : forall (rtol atol : R) check l (Xs : list se3R),
  from_matrix_l rtol atol 1 check (lay_rows l) (lay_cols l) (map (fun X => lay_l l (matrix4 SE3_act4 X)) Xs) =
  lmap SE3_l (mat2SE3 rtol atol check (map (fun X => lay_in l (matrix4 SE3_act4 X)) Xs)).
Proof. exact from_matrix_SE3. Qed.
Theorem C11_from_matrix_RxSO3 : forall (rtol atol : R) check l (Xs : list rxso3R),
  from_matrix_l rtol atol 2 check (lay_rows l) (lay_cols l) (map (fun X => lay_l l (matrix4 RxSO3_act4 X)) Xs) =
  lmap RxSO3_l (mat2RxSO3 rtol atol check (map (fun X => lay_in l (matrix4 RxSO3_act4 X)) Xs)).
Proof. exact from_matrix_RxSO3. Qed.
Theorem C11_from_matrix_Sim3 : forall (rtol atol : R) check l (Xs : list sim3R),
  from_matrix_l rtol atol 3 check (lay_rows l) (lay_cols l) (map (fun X => lay_l l (matrix4 Sim3_act4 X)) Xs) =
  lmap Sim3_l (mat2Sim3 rtol atol check (map (fun X => lay_in l (matrix4 Sim3_act4 X)) Xs)).
Proof. exact from_matrix_Sim3. Qed.

(* ---- Euler angles ---- *)
Theorem C11_euler2SO3_is_zyx : forall r p y : R,
  SO3_matrix (euler2SO3 (r, p, y)) = mmul3 (Rz y) (mmul3 (Ry p) (Rx r)).
Proof. exact euler2SO3_is_zyx. Qed.
Theorem C11_euler2SO3_unit : forall e : vec3R, unitq (euler2SO3 e).
Proof. exact euler2SO3_unit. Qed.
(* |sin pitch| = |2 (w y - z x)| < 1 - eps: same rotation, angles in their principal ranges *)
Theorem C11_euler_roundtrip : forall (eps : R) (q : quatR), 0 <= eps -> unitq q ->
  Rabs (2 * (qw q * vy (qv q) - vz (qv q) * vx (qv q))) < 1 - eps ->
  exists r p y, euler eps q = Some (r, p, y) /\
    SO3_matrix (euler2SO3 (r, p, y)) = SO3_matrix q /\
    (- PI < r <= PI) /\ (- (PI / 2) < p < PI / 2) /\ (- PI < y <= PI).
Proof. exact euler_roundtrip. Qed.

(* hypotheses are satisfiable: a valid Sim3 element with scale 2; rotation by exactly pi about x *)
Example C11_valid_example : valid_Sim3 ((1, 2, 3), (((3/5, 0, 0), 4/5), 2)).
Proof. exact valid_example. Qed.
Example C11_pi_about_x : mat2SO3_core (1 / 100000) (SO3_matrix ((1, 0, 0), 0)) = Some ((1, 0, 0), 0).
Proof. exact mat2SO3_pi_about_x. Qed.

Print Assumptions C11_mat2SO3_roundtrip. Print Assumptions C11_roundtrip_same_rotation.
Print Assumptions C11_mat2SO3_discriminant_bound. Print Assumptions C11_mat2SO3_item.
Print Assumptions C11_mat2SE3_roundtrip. Print Assumptions C11_mat2Sim3_roundtrip. Print Assumptions C11_mat2RxSO3_roundtrip.
Print Assumptions C11_SE3_same_matrix. Print Assumptions C11_Sim3_same_matrix. Print Assumptions C11_RxSO3_same_matrix.
Print Assumptions C11_full_layouts_keep_translation.
Print Assumptions C11_mat2Sim3_old_shape_raises. Print Assumptions C11_mat2RxSO3_old_shape_raises.
Print Assumptions C11_mat2Sim3_old_batch_shape_refuted. Print Assumptions C11_mat2RxSO3_old_batch_shape_refuted.
Print Assumptions C11_old_empty_batch_refuted. Print Assumptions C11_empty_batch_returns. Print Assumptions C11_old_rank_test_agrees_where_well_formed.
Print Assumptions C11_check_accepts_valid. Print Assumptions C11_check_rejects. Print Assumptions C11_check_raises_ValueError.
Print Assumptions C11_within_tol_is_the_coded_test.
Print Assumptions C11_accepted_layouts. Print Assumptions C11_from_matrix_rejects_shape. Print Assumptions C11_from_matrix_rejects_ltype.
Print Assumptions C11_from_matrix_SO3. Print Assumptions C11_from_matrix_SE3. Print Assumptions C11_from_matrix_RxSO3.
Print Assumptions C11_from_matrix_Sim3.
Print Assumptions C11_euler2SO3_is_zyx. Print Assumptions C11_euler2SO3_unit. Print Assumptions C11_euler_roundtrip.
