(* C11 — Matrix and Euler conversions are exact inverses of matrix() / each other.
   Statements only (over R); proofs in Proofs/Convert.v, Convert2.v (every proper rotation matrix),
   Convert3.v (Euler both directions and gimbal branch, rejection by the scaled variants, kinds of
   exception, totality); model in Model/Convert.v.

   Reading guide.  A batch is the list of its items (any number, any shape; [B] = batch shape occurs
   only in the history theorems about the code before its repair).  [Value out]: the call returns,
   item i of the result is [out_i] ([None] = non-finite entries); [Raises e]: the call raises.
   [lay_in l M] is the 4x4 matrix M handed over as 3x3 block / first three rows / whole (L33 / L34 /
   L44); [lay_t l t] is the translation that layout carries (zero for L33).
   [so3_rt q o] : o = Some q' with q' = q or q' = -q;  [se3_rt], [sim3_rt], [rxso3_rt] likewise with the
   translation of the layout and the SAME scale.  rtol, atol are the tolerances of the call (defaults
   1e-5): the theorems hold for every 0 <= rtol, 0 <= atol < 1.
   Second half (matrix -> element -> matrix, no quaternion presupposed):
   [rotation M] : M M^T = I and det M = 1.  [so3_of M o] : o = Some q, q a unit quaternion with matrix M;
   [se3_of l (M, t) o], [sim3_of l (M, t, s) o], [rxso3_of (M, t, s) o] : o = Some X with X valid, the
   SAME scale s, and X.matrix() = [[s M, t'], [0, 1]] (t' = the translation the layout carries; zero for
   RxSO3).  [sc_item m] = cube root of det of the 3x3 block, [div_item m] = block / that scale,
   [rank_small rtol atol s] = allclose(s, 0), [all_rank_small] = non-empty batch with all scales so;
   [is_VE codes e] : e = ValueError k for some k of [codes]. *)
From Coq Require Import Reals List Lra.
Import ListNotations.
From PV Require Import Base.Num Model.LieGroup Model.Convert Proofs.LieGroup Proofs.Convert Proofs.Convert2 Proofs.Convert3.
Local Open Scope R_scope.
#[local] Remove Hints NumQ NumZ : typeclass_instances.

(* ---- mat2SO3: every unit quaternion, every batch size, check on or off ---- *)
Theorem C11_mat2SO3_roundtrip : forall (rtol atol : R) (check : bool) (qs : list quatR),
  0 <= rtol -> 0 <= atol < 1 -> Forall unitq qs ->
  exists out, mat2SO3 rtol atol check (map (fun q => Some (SO3_matrix q)) qs) = Value out /\
              Forall2 so3_rt qs out.
Proof. exact mat2SO3_roundtrip. Qed.
(* ... hence a unit quaternion with the same matrix *)
Theorem C11_roundtrip_same_rotation : forall (q : quatR) (o : option quatR), unitq q -> so3_rt q o ->
  exists q', o = Some q' /\ unitq q' /\ SO3_matrix q' = SO3_matrix q.
Proof. exact so3_rt_same. Qed.
(* why angle pi and axis-aligned rotations are not special: in each of the four regions the selected
   radicand t_k (= 4x^2, 4y^2, 4z^2, 4w^2) is at least 1 - |atol| *)
Theorem C11_mat2SO3_discriminant_bound : forall (atol : R) (q : quatR), unitq q ->
  1 - Rabs atol <= mat2SO3_disc atol (SO3_matrix q).
Proof. exact disc_bound. Qed.
(* one item, explicit sign: the result is s*q with s = +-1 *)
Theorem C11_mat2SO3_item : forall (atol : R) (q : quatR), -1 < atol < 1 -> unitq q ->
  exists s, (s = 1 \/ s = -1) /\ mat2SO3_core atol (SO3_matrix q) = Some (qsc s q).
Proof. exact core_roundtrip. Qed.

(* ---- mat2SE3 / mat2Sim3 / mat2RxSO3 in the accepted layouts ---- *)
Theorem C11_mat2SE3_roundtrip : forall (rtol atol : R) (check : bool) (l : layout) (Xs : list se3R),
  0 <= rtol -> 0 <= atol < 1 -> Forall valid_SE3 Xs ->
  exists out, mat2SE3 rtol atol check (map (fun X => lay_in l (matrix4 SE3_act4 X)) Xs) = Value out /\
              Forall2 (se3_rt l) Xs out.
Proof. exact mat2SE3_roundtrip. Qed.
(* scale s > 0, every batch (the model no longer looks at the batch shape; the empty batch returns the
   empty batch); the rank test needs one item with s > atol in a non-empty batch *)
Theorem C11_mat2Sim3_roundtrip : forall (rtol atol : R) (check : bool) (l : layout) (Xs : list sim3R),
  0 <= rtol -> 0 <= atol < 1 -> Forall valid_Sim3 Xs ->
  (Xs = [] \/ exists X, In X Xs /\ atol < snd (snd X)) ->
  exists out, mat2Sim3 rtol atol check (map (fun X => lay_in l (matrix4 Sim3_act4 X)) Xs) = Value out /\
              Forall2 (sim3_rt l) Xs out.
Proof. exact mat2Sim3_roundtrip. Qed.
Theorem C11_mat2RxSO3_roundtrip : forall (rtol atol : R) (check : bool) (l : layout) (Xs : list rxso3R),
  0 <= rtol -> 0 <= atol < 1 -> Forall valid_RxSO3 Xs ->
  (Xs = [] \/ exists X, In X Xs /\ atol < snd X) ->
  exists out, mat2RxSO3 rtol atol check (map (fun X => lay_in l (matrix4 RxSO3_act4 X)) Xs) = Value out /\
              Forall2 rxso3_rt Xs out.
Proof. exact mat2RxSO3_roundtrip. Qed.
(* same matrix (with the translation of the layout), valid element, same scale *)
Theorem C11_SE3_same_matrix : forall l (X : se3R) o, valid_SE3 X -> se3_rt l X o ->
  exists X', o = Some X' /\ valid_SE3 X' /\ matrix4 SE3_act4 X' = block4 (SO3_matrix (snd X)) (lay_t l (fst X)).
Proof. exact se3_rt_same. Qed.
Theorem C11_Sim3_same_matrix : forall l (X : sim3R) o, valid_Sim3 X -> sim3_rt l X o ->
  exists X', o = Some X' /\ valid_Sim3 X' /\ snd (snd X') = snd (snd X) /\
             matrix4 Sim3_act4 X' = block4 (mscale3 (snd (snd X)) (SO3_matrix (fst (snd X)))) (lay_t l (fst X)).
Proof. exact sim3_rt_same. Qed.
Theorem C11_RxSO3_same_matrix : forall (X : rxso3R) o, valid_RxSO3 X -> rxso3_rt X o ->
  exists X', o = Some X' /\ valid_RxSO3 X' /\ snd X' = snd X /\ matrix4 RxSO3_act4 X' = matrix4 RxSO3_act4 X.
Proof. exact rxso3_rt_same. Qed.
Theorem C11_full_layouts_keep_translation : forall l (t : vec3R), l <> L33 -> lay_t l t = t.
Proof. exact lay_t_full. Qed.

(* History.  Before /repo 988caf7 the rank test was allclose(s, zeros(shape[:-2])), comparing shapes
   B+(1,) and B ([mat2Sim3_old], [mat2RxSO3_old] in Model/Convert.v): on that code the "all batch
   shapes" clause was REFUTED - every batch shape for which the two do not broadcast raised RuntimeError
   whatever the (valid) items, e.g. lshape (2,3), and the empty batch raised "not full rank".  The
   repaired code is the model above; where the old test was well-formed the two agree. *)
Theorem C11_mat2Sim3_old_shape_raises : forall (rtol atol : R) (check : bool) (B : list nat) (Ms : list (@matin R)),
  broadcastable (B ++ [1%nat]) B = false -> mat2Sim3_old rtol atol check B Ms = Raises RuntimeError.
Proof. exact mat2Sim3_old_shape. Qed.
Theorem C11_mat2RxSO3_old_shape_raises : forall (rtol atol : R) (check : bool) (B : list nat) (Ms : list (@matin R)),
  broadcastable (B ++ [1%nat]) B = false -> mat2RxSO3_old rtol atol check B Ms = Raises RuntimeError.
Proof. exact mat2RxSO3_old_shape. Qed.
Theorem C11_mat2Sim3_old_batch_shape_refuted : forall (rtol atol : R) (check : bool) (l : layout),
  exists (B : list nat) (Xs : list sim3R),
    length Xs = fold_right Nat.mul 1%nat B /\ Forall valid_Sim3 Xs /\ (forall X, In X Xs -> snd (snd X) = 2) /\
    mat2Sim3_old rtol atol check B (map (fun X => lay_in l (matrix4 Sim3_act4 X)) Xs) = Raises RuntimeError.
Proof. exact mat2Sim3_old_batch_shape_refuted. Qed.
Theorem C11_mat2RxSO3_old_batch_shape_refuted : forall (rtol atol : R) (check : bool) (l : layout),
  exists (B : list nat) (Xs : list rxso3R),
    length Xs = fold_right Nat.mul 1%nat B /\ Forall valid_RxSO3 Xs /\ (forall X, In X Xs -> snd X = 2) /\
    mat2RxSO3_old rtol atol check B (map (fun X => lay_in l (matrix4 RxSO3_act4 X)) Xs) = Raises RuntimeError.
Proof. exact mat2RxSO3_old_batch_shape_refuted. Qed.
Theorem C11_old_empty_batch_refuted : forall (rtol atol : R) (check : bool),
  mat2Sim3_old rtol atol check [0%nat] [] = Raises (ValueError E_rank) /\
  mat2RxSO3_old rtol atol check [0%nat] [] = Raises (ValueError E_rank).
Proof. intros. split; [apply mat2Sim3_old_empty | apply mat2RxSO3_old_empty]. Qed.
Theorem C11_empty_batch_returns : forall (rtol atol : R) (check : bool),
  mat2Sim3 rtol atol check [] = Value [] /\ mat2RxSO3 rtol atol check [] = Value [].
Proof. intros. split; [apply mat2Sim3_empty | apply mat2RxSO3_empty]. Qed.
Theorem C11_old_rank_test_agrees_where_well_formed : forall (rtol atol : R) (B : list nat) (Ms : list (@matin R)),
  broadcastable (B ++ [1%nat]) B = true -> Ms <> [] -> scale_stage_old rtol atol B Ms = scale_stage rtol atol Ms.
Proof. exact scale_stage_old_agrees. Qed.

(* ---- check=True ---- *)
(* valid inputs never raise: the matrix of a unit quaternion is within every tolerance >= 0 *)
Theorem C11_check_accepts_valid : forall (rtol atol : R) (q : quatR),
  0 <= rtol -> 0 <= atol -> unitq q -> within_tol rtol atol (SO3_matrix q).
Proof. exact rotation_within_tol. Qed.
(* "beyond the stated tolerances" = some entry of M M^T farther than atol + rtol |I_ij| from I_ij, or
   |det M - 1| > atol + rtol ([within_tol]); the call raises exactly when some item is beyond them *)
Theorem C11_check_rejects : forall (rtol atol : R) (Ms : list (option (@mat3 R))),
  (exists e, mat2SO3 rtol atol true Ms = Raises e) <-> exists M, In M Ms /\ ~ item_within rtol atol M.
Proof. exact mat2SO3_check_raises. Qed.
(* ... and what it raises is a ValueError: the orthogonality message if some item fails that test,
   else the determinant message *)
Theorem C11_check_raises_ValueError : forall (rtol atol : R) (Ms : list (option (@mat3 R))) (e : exn),
  mat2SO3 rtol atol true Ms = Raises e ->
  (e = ValueError E_orth /\ exists M, In M Ms /\ lift (orth_ok rtol atol) M = false) \/
  (e = ValueError E_det /\ (forall M, In M Ms -> lift (orth_ok rtol atol) M = true) /\
                           exists M, In M Ms /\ lift (det_ok rtol atol) M = false).
Proof. exact mat2SO3_check_message. Qed.
Theorem C11_within_tol_is_the_coded_test : forall (rtol atol : R) (M : @mat3 R),
  (orth_ok rtol atol M = true <-> orthP rtol atol M) /\ (det_ok rtol atol M = true <-> detP rtol atol M).
Proof. intros. split; [apply orth_ok_true | apply det_ok_true]. Qed.

(* ---- from_matrix: accepted layouts and dispatch ---- *)
Theorem C11_accepted_layouts : forall rows cols : nat,
  accepted rows cols = true <-> (rows, cols) = (3, 3)%nat \/ (rows, cols) = (3, 4)%nat \/ (rows, cols) = (4, 4)%nat.
Proof. exact accepted_spec. Qed.
Theorem C11_from_matrix_rejects_shape : forall (rtol atol : R) ltype check rows cols (data : list (list R)),
  accepted rows cols = false -> from_matrix_l rtol atol ltype check rows cols data = Raises (ValueError E_size).
Proof. exact from_matrix_rejects_shape. Qed.
Theorem C11_from_matrix_rejects_ltype : forall (rtol atol : R) ltype check rows cols (data : list (list R)),
  accepted rows cols = true -> (3 < ltype)%nat ->
  from_matrix_l rtol atol ltype check rows cols data = Raises (ValueError E_ltype).
Proof. exact from_matrix_rejects_ltype. Qed.
(* on the entry lists of X.matrix() from_matrix is mat2X on the corresponding layout *)
Theorem C11_from_matrix_SO3 : forall (rtol atol : R) check (qs : list quatR),
  from_matrix_l rtol atol 0 check 3 3 (map (fun q => m3_l (SO3_matrix q)) qs) =
  lmap q_l (mat2SO3 rtol atol check (map (fun q => Some (SO3_matrix q)) qs)).
Proof. exact from_matrix_SO3. Qed.
Theorem C11_from_matrix_SE3 : forall (rtol atol : R) check l (Xs : list se3R),
  from_matrix_l rtol atol 1 check (lay_rows l) (lay_cols l) (map (fun X => lay_l l (matrix4 SE3_act4 X)) Xs) =
  lmap SE3_l (mat2SE3 rtol atol check (map (fun X => lay_in l (matrix4 SE3_act4 X)) Xs)).
Proof. exact from_matrix_SE3. Qed.
Theorem C11_from_matrix_RxSO3 : forall (rtol atol : R) check l (Xs : list rxso3R),
  from_matrix_l rtol atol 2 check (lay_rows l) (lay_cols l) (map (fun X => lay_l l (matrix4 RxSO3_act4 X)) Xs) =
  lmap RxSO3_l (mat2RxSO3 rtol atol check (map (fun X => lay_in l (matrix4 RxSO3_act4 X)) Xs)).
Proof. exact from_matrix_RxSO3. Qed.
Theorem C11_from_matrix_Sim3 : forall (rtol atol : R) check l (Xs : list sim3R),
  from_matrix_l rtol atol 3 check (lay_rows l) (lay_cols l) (map (fun X => lay_l l (matrix4 Sim3_act4 X)) Xs) =
  lmap Sim3_l (mat2Sim3 rtol atol check (map (fun X => lay_in l (matrix4 Sim3_act4 X)) Xs)).
Proof. exact from_matrix_Sim3. Qed.

(* ---- Euler angles ---- *)
Theorem C11_euler2SO3_is_zyx : forall r p y : R,
  SO3_matrix (euler2SO3 (r, p, y)) = mmul3 (Rz y) (mmul3 (Ry p) (Rx r)).
Proof. exact euler2SO3_is_zyx. Qed.
Theorem C11_euler2SO3_unit : forall e : vec3R, unitq (euler2SO3 e).
Proof. exact euler2SO3_unit. Qed.
(* |sin pitch| = |2 (w y - z x)| < 1 - eps: same rotation, angles in their principal ranges *)
Theorem C11_euler_roundtrip : forall (eps : R) (q : quatR), 0 <= eps -> unitq q ->
  Rabs (2 * (qw q * vy (qv q) - vz (qv q) * vx (qv q))) < 1 - eps ->
  exists r p y, euler eps q = Some (r, p, y) /\
    SO3_matrix (euler2SO3 (r, p, y)) = SO3_matrix q /\
    (- PI < r <= PI) /\ (- (PI / 2) < p < PI / 2) /\ (- PI < y <= PI).
Proof. exact euler_roundtrip. Qed.

(* ==================== matrix -> element -> matrix, for EVERY proper rotation matrix ==================== *)
(* proper rotations = matrices of unit quaternions (both inclusions), two unit quaternions with the same
   matrix differ by sign only *)
Theorem C11_rotation_is_quaternion_matrix : forall M : @mat3 R, rotation M -> exists q, unitq q /\ SO3_matrix q = M.
Proof. exact rotation_has_quaternion. Qed.
Theorem C11_quaternion_matrix_is_rotation : forall q : quatR, unitq q -> rotation (SO3_matrix q).
Proof. exact quaternion_matrix_rotation. Qed.
Theorem C11_same_matrix_same_quaternion_up_to_sign : forall q1 q2 : quatR,
  unitq q1 -> unitq q2 -> SO3_matrix q1 = SO3_matrix q2 -> q2 = q1 \/ q2 = qnegate q1.
Proof. exact same_matrix_qsame. Qed.
(* mat2SO3 of every batch of proper rotation matrices (any of the four branches, angle pi included):
   unit quaternions with exactly these matrices; check on or off *)
Theorem C11_mat2SO3_every_rotation : forall (rtol atol : R) (check : bool) (Ms : list (@mat3 R)),
  0 <= rtol -> 0 <= atol < 1 -> Forall rotation Ms ->
  exists out, mat2SO3 rtol atol check (map Some Ms) = Value out /\ Forall2 so3_of Ms out.
Proof. exact mat2SO3_rotation. Qed.
Theorem C11_mat2SO3_item_every_rotation : forall (atol : R) (M : @mat3 R), -1 < atol < 1 -> rotation M ->
  exists q, mat2SO3_core atol M = Some q /\ unitq q /\ SO3_matrix q = M.
Proof. exact core_rotation. Qed.
(* every rigid transformation matrix [[R, t], [0, 1]] and every similarity [[s R, t], [0, 1]], s > 0, in
   every accepted layout: a valid element with the same matrix and the same scale *)
Theorem C11_mat2SE3_every_matrix : forall (rtol atol : R) (check : bool) (l : layout) (Ts : list (@mat3 R * vec3R)),
  0 <= rtol -> 0 <= atol < 1 -> Forall (fun T => rotation (fst T)) Ts ->
  exists out, mat2SE3 rtol atol check (map (fun T => lay_in l (block4 (fst T) (snd T))) Ts) = Value out /\
              Forall2 (se3_of l) Ts out.
Proof. exact mat2SE3_rotation. Qed.
Theorem C11_mat2Sim3_every_matrix : forall (rtol atol : R) (check : bool) (l : layout) (Ts : list (@mat3 R * vec3R * R)),
  0 <= rtol -> 0 <= atol < 1 -> Forall (fun T => rotation (fst (fst T)) /\ 0 < snd T) Ts ->
  (Ts = [] \/ exists T, In T Ts /\ atol < snd T) ->
  exists out, mat2Sim3 rtol atol check
                (map (fun T => lay_in l (block4 (mscale3 (snd T) (fst (fst T))) (snd (fst T)))) Ts) = Value out /\
              Forall2 (sim3_of l) Ts out.
Proof. exact mat2Sim3_rotation. Qed.
(* mat2RxSO3 drops the translation column *)
Theorem C11_mat2RxSO3_every_matrix : forall (rtol atol : R) (check : bool) (l : layout) (Ts : list (@mat3 R * vec3R * R)),
  0 <= rtol -> 0 <= atol < 1 -> Forall (fun T => rotation (fst (fst T)) /\ 0 < snd T) Ts ->
  (Ts = [] \/ exists T, In T Ts /\ atol < snd T) ->
  exists out, mat2RxSO3 rtol atol check
                (map (fun T => lay_in l (block4 (mscale3 (snd T) (fst (fst T))) (snd (fst T)))) Ts) = Value out /\
              Forall2 rxso3_of Ts out.
Proof. exact mat2RxSO3_rotation. Qed.
(* what the *_of relations say, spelled out for one of them *)
Theorem C11_sim3_of_meaning : forall (l : layout) (T : @mat3 R * vec3R * R) (o : option sim3R),
  sim3_of l T o <-> exists X, o = Some X /\ valid_Sim3 X /\ snd (snd X) = snd T /\
                     matrix4 Sim3_act4 X = block4 (mscale3 (snd T) (fst (fst T))) (lay_t l (snd (fst T))).
Proof. intros. reflexivity. Qed.
(* from_matrix on ANY batch of 4x4 matrices in layout l is the mat2X of its ltype (0 SO3, 1 SE3, 2 RxSO3,
   3 Sim3); ltype SO3 accepts all three layouts and reads the 3x3 block *)
Theorem C11_from_matrix_dispatch : forall (rtol atol : R) (check : bool) (l : layout) (Ms : list (@mat4 R)),
  from_matrix_l rtol atol 0 check (lay_rows l) (lay_cols l) (map (lay_l l) Ms) =
    lmap q_l (mat2SO3 rtol atol check (map (fun M => Some (in_rot (lay_in l M))) Ms)) /\
  from_matrix_l rtol atol 1 check (lay_rows l) (lay_cols l) (map (lay_l l) Ms) =
    lmap SE3_l (mat2SE3 rtol atol check (map (lay_in l) Ms)) /\
  from_matrix_l rtol atol 2 check (lay_rows l) (lay_cols l) (map (lay_l l) Ms) =
    lmap RxSO3_l (mat2RxSO3 rtol atol check (map (lay_in l) Ms)) /\
  from_matrix_l rtol atol 3 check (lay_rows l) (lay_cols l) (map (lay_l l) Ms) =
    lmap Sim3_l (mat2Sim3 rtol atol check (map (lay_in l) Ms)).
Proof. exact from_matrix_dispatch. Qed.
(* end to end: from_matrix of the entry lists *)
Theorem C11_from_matrix_SO3_every_matrix : forall (rtol atol : R) (check : bool) (l : layout) (Ts : list (@mat3 R * vec3R)),
  0 <= rtol -> 0 <= atol < 1 -> Forall (fun T => rotation (fst T)) Ts ->
  exists out, from_matrix_l rtol atol 0 check (lay_rows l) (lay_cols l) (map (fun T => lay_l l (block4 (fst T) (snd T))) Ts) =
                Value (map (option_map q_l) out) /\
              Forall2 (fun T o => so3_of (fst T) o) Ts out.
Proof. exact from_matrix_SO3_rotation. Qed.
Theorem C11_from_matrix_SE3_every_matrix : forall (rtol atol : R) (check : bool) (l : layout) (Ts : list (@mat3 R * vec3R)),
  0 <= rtol -> 0 <= atol < 1 -> Forall (fun T => rotation (fst T)) Ts ->
  exists out, from_matrix_l rtol atol 1 check (lay_rows l) (lay_cols l) (map (fun T => lay_l l (block4 (fst T) (snd T))) Ts) =
                Value (map (option_map SE3_l) out) /\
              Forall2 (se3_of l) Ts out.
Proof. exact from_matrix_SE3_rotation. Qed.
Theorem C11_from_matrix_Sim3_every_matrix : forall (rtol atol : R) (check : bool) (l : layout) (Ts : list (@mat3 R * vec3R * R)),
  0 <= rtol -> 0 <= atol < 1 -> Forall (fun T => rotation (fst (fst T)) /\ 0 < snd T) Ts ->
  (Ts = [] \/ exists T, In T Ts /\ atol < snd T) ->
  exists out, from_matrix_l rtol atol 3 check (lay_rows l) (lay_cols l)
                (map (fun T => lay_l l (block4 (mscale3 (snd T) (fst (fst T))) (snd (fst T)))) Ts) =
                Value (map (option_map Sim3_l) out) /\
              Forall2 (sim3_of l) Ts out.
Proof. exact from_matrix_Sim3_rotation. Qed.
Theorem C11_from_matrix_RxSO3_every_matrix : forall (rtol atol : R) (check : bool) (l : layout) (Ts : list (@mat3 R * vec3R * R)),
  0 <= rtol -> 0 <= atol < 1 -> Forall (fun T => rotation (fst (fst T)) /\ 0 < snd T) Ts ->
  (Ts = [] \/ exists T, In T Ts /\ atol < snd T) ->
  exists out, from_matrix_l rtol atol 2 check (lay_rows l) (lay_cols l)
                (map (fun T => lay_l l (block4 (mscale3 (snd T) (fst (fst T))) (snd (fst T)))) Ts) =
                Value (map (option_map RxSO3_l) out) /\
              Forall2 rxso3_of Ts out.
Proof. exact from_matrix_RxSO3_rotation. Qed.
(* the last row of a 4x4 input is never read (the code only warns about it) *)
Theorem C11_last_row_ignored : forall (rtol atol : R) (check : bool) (Rs : list (@mat3 R * vec3R)) (last last' : vec4R),
  let f (b : vec4R) := map (fun Rt : @mat3 R * vec3R => In44 (fst Rt) (snd Rt) b) Rs in
  mat2SE3 rtol atol check (f last) = mat2SE3 rtol atol check (f last') /\
  mat2Sim3 rtol atol check (f last) = mat2Sim3 rtol atol check (f last') /\
  mat2RxSO3 rtol atol check (f last) = mat2RxSO3 rtol atol check (f last').
Proof. exact last_row_ignored. Qed.

(* ---- totality: for EVERY 3x3 matrix (rotation or not) the selected radicand is >= 1 - |atol| (the branch
   conditions alone imply it), so for -1 < atol < 1 no item of a returned batch is non-finite ---- *)
Theorem C11_radicand_bound_every_matrix : forall (atol : R) (M : @mat3 R), 1 - Rabs atol <= mat2SO3_disc atol M.
Proof. exact disc_bound_any. Qed.
Theorem C11_mat2SO3_item_finite : forall (atol : R) (M : @mat3 R), -1 < atol < 1 -> exists q, mat2SO3_core atol M = Some q.
Proof. exact core_finite. Qed.
Theorem C11_mat2SO3_nocheck_finite : forall (rtol atol : R) (Ms : list (@mat3 R)), -1 < atol < 1 ->
  exists qs, mat2SO3 rtol atol false (map Some Ms) = Value (map Some qs) /\ length qs = length Ms.
Proof. exact mat2SO3_nocheck_finite. Qed.
(* the hypothesis atol < 1 is needed: the tolerance doubles as the threshold of the first mask, and for
   atol > 1 the identity matrix selects the branch with radicand 0 (0/0: a NaN quaternion, no exception;
   replayed on the implementation: pp.mat2SO3(torch.eye(3), atol=1.5) = [nan, nan, nan, nan]) *)
Theorem C11_large_atol_identity_nonfinite : forall atol : R, 1 < atol -> mat2SO3_core atol (@mid3 R _) = None.
Proof. exact core_large_atol_identity. Qed.

(* ---- check=True, the other three conversions; kinds of exception ---- *)
Theorem C11_mat2SE3_check_rejects : forall (rtol atol : R) (Ms : list (@matin R)),
  (exists e, mat2SE3 rtol atol true Ms = Raises e) <-> exists m, In m Ms /\ ~ within_tol rtol atol (in_rot m).
Proof. exact mat2SE3_check_raises. Qed.
(* the scaled variants raise exactly when the rank test fires (non-empty batch, every scale within the
   tolerance of 0) or some block divided by its scale is beyond the tolerances (or not finite) *)
Theorem C11_mat2Sim3_check_rejects : forall (rtol atol : R) (Ms : list (@matin R)),
  (exists e, mat2Sim3 rtol atol true Ms = Raises e) <->
  all_rank_small rtol atol Ms \/ exists m, In m Ms /\ ~ item_within rtol atol (div_item m).
Proof. exact mat2Sim3_check_raises_iff. Qed.
Theorem C11_mat2RxSO3_check_rejects : forall (rtol atol : R) (Ms : list (@matin R)),
  (exists e, mat2RxSO3 rtol atol true Ms = Raises e) <->
  all_rank_small rtol atol Ms \/ exists m, In m Ms /\ ~ item_within rtol atol (div_item m).
Proof. exact mat2RxSO3_check_raises_iff. Qed.
Theorem C11_rank_test_meaning : forall (rtol atol : R) (Ms : list (@matin R)),
  all_rank_small rtol atol Ms <->
  Ms <> [] /\ forall m, In m Ms -> lift (fun v => close rtol atol v 0) (cbrt (mdet3 (in_rot m))) = true.
Proof. intros. reflexivity. Qed.
(* two classes of inputs that are rejected whatever else the batch holds: a reflection (det = -1) as soon
   as atol + rtol < 2, and a rotation scaled by s with |s^2 - 1| > atol + rtol *)
Theorem C11_rejects_reflection_and_scaled : forall (rtol atol : R) (Ms : list (option (@mat3 R))) (M : @mat3 R),
  In (Some M) Ms ->
  (atol + rtol < 2 /\ mdet3 M = -1) \/ (exists s R0, M = mscale3 s R0 /\ rotation R0 /\ atol + rtol < Rabs (s * s - 1)) ->
  exists k, mat2SO3 rtol atol true Ms = Raises (ValueError k) /\ (k = E_orth \/ k = E_det).
Proof. exact mat2SO3_rejects. Qed.
(* whatever is raised is a ValueError with a documented message; never a RuntimeError (cf. History) *)
Theorem C11_raises_only_ValueError : forall (rtol atol : R) (ltype : nat) (check : bool) (rows cols : nat) (data : list (list R)) (e : exn),
  from_matrix_l rtol atol ltype check rows cols data = Raises e -> is_VE [E_size; E_orth; E_det; E_rank; E_ltype] e.
Proof. exact from_matrix_raises_VE. Qed.
Theorem C11_mat2X_raise_kinds : forall (rtol atol : R) (check : bool) (e : exn),
  (forall Ms, mat2SO3 rtol atol check Ms = Raises e -> check = true /\ is_VE [E_orth; E_det] e) /\
  (forall Ms, mat2SE3 rtol atol check Ms = Raises e -> check = true /\ is_VE [E_orth; E_det] e) /\
  (forall Ms, mat2Sim3 rtol atol check Ms = Raises e -> is_VE [E_rank; E_orth; E_det] e /\ (check = false -> e = ValueError E_rank)) /\
  (forall Ms, mat2RxSO3 rtol atol check Ms = Raises e -> is_VE [E_rank; E_orth; E_det] e /\ (check = false -> e = ValueError E_rank)).
Proof.
  intros. split; [intros; eapply mat2SO3_raises_VE; eassumption|]. split; [intros; eapply mat2SE3_raises_VE; eassumption|].
  split; [intros; eapply mat2Sim3_raises_VE; eassumption | intros; eapply mat2RxSO3_raises_VE; eassumption].
Qed.

(* ---- the rank test on VALID inputs: where "every positive scale" ends ----
   a non-empty batch of valid elements whose scales are all <= atol is rejected as "not full rank" (by
   design: allclose(s, 0)); so a valid non-empty batch converts iff some scale exceeds atol.  With the
   default atol = 1e-5 the property's range of scales [1e-3, 1e3] is inside. *)
Theorem C11_mat2Sim3_tiny_scales_raise : forall (rtol atol : R) (check : bool) (l : layout) (Xs : list sim3R),
  Xs <> [] -> Forall valid_Sim3 Xs -> (forall X, In X Xs -> snd (snd X) <= atol) ->
  mat2Sim3 rtol atol check (map (fun X => lay_in l (matrix4 Sim3_act4 X)) Xs) = Raises (ValueError E_rank).
Proof. exact mat2Sim3_tiny_scales_raise. Qed.
Theorem C11_mat2RxSO3_tiny_scales_raise : forall (rtol atol : R) (check : bool) (l : layout) (Xs : list rxso3R),
  Xs <> [] -> Forall valid_RxSO3 Xs -> (forall X, In X Xs -> snd X <= atol) ->
  mat2RxSO3 rtol atol check (map (fun X => lay_in l (matrix4 RxSO3_act4 X)) Xs) = Raises (ValueError E_rank).
Proof. exact mat2RxSO3_tiny_scales_raise. Qed.
Theorem C11_mat2Sim3_returns_iff : forall (rtol atol : R) (check : bool) (l : layout) (Xs : list sim3R),
  0 <= rtol -> 0 <= atol < 1 -> Xs <> [] -> Forall valid_Sim3 Xs ->
  ((exists out, mat2Sim3 rtol atol check (map (fun X => lay_in l (matrix4 Sim3_act4 X)) Xs) = Value out) <->
   exists X, In X Xs /\ atol < snd (snd X)).
Proof. exact mat2Sim3_returns_iff. Qed.

(* ==================== Euler angles, the other direction and the gimbal branch ==================== *)
(* euler (euler2SO3 (roll, pitch, yaw)) = (roll, pitch, yaw) for angles in the principal ranges, off the
   gimbal branch: the two conversions are inverses of each other in both directions *)
Theorem C11_euler_of_euler2SO3 : forall eps r p y : R, 0 <= eps ->
  - PI < r <= PI -> - (PI / 2) <= p <= PI / 2 -> - PI < y <= PI -> Rabs (sin p) < 1 - eps ->
  euler eps (euler2SO3 (r, p, y)) = Some (r, p, y).
Proof. exact euler_of_euler2SO3. Qed.
(* ... and euler2SO3 (euler q) is q itself up to sign *)
Theorem C11_euler_roundtrip_quaternion : forall (eps : R) (q : quatR), 0 <= eps -> unitq q ->
  Rabs (2 * (qw q * vy (qv q) - vz (qv q) * vx (qv q))) < 1 - eps ->
  exists e, euler eps q = Some e /\ (euler2SO3 e = q \/ euler2SO3 e = qnegate q).
Proof. exact euler_roundtrip_quat. Qed.
(* exactly AT the gimbal lock (|sin pitch| = 1) the quaternion is reproduced exactly: roll = 0, pitch = +-pi/2 *)
Theorem C11_euler_gimbal_lock_exact : forall (eps : R) (q : quatR), 0 <= eps -> unitq q ->
  Rabs (2 * (qw q * vy (qv q) - vz (qv q) * vx (qv q))) = 1 ->
  exists e, euler eps q = Some e /\ euler2SO3 e = q /\ vx e = 0 /\ Rabs (vy e) = PI / 2.
Proof. exact euler_gimbal_exact. Qed.
(* on the whole gimbal branch 1 - eps <= |sin pitch|: roll = 0, pitch in [-pi/2, pi/2], yaw in [-2pi, 2pi];
   the rebuilt rotation can equal the original only if y z + x w = 0 (no roll component) *)
Theorem C11_euler_gimbal_ranges : forall (eps : R) (q : quatR) (e : vec3R), unitq q ->
  1 - eps <= Rabs (2 * (qw q * vy (qv q) - vz (qv q) * vx (qv q))) -> euler eps q = Some e ->
  vx e = 0 /\ - (PI / 2) <= vy e <= PI / 2 /\ - (2 * PI) <= vz e <= 2 * PI.
Proof. exact euler_gimbal_ranges. Qed.
Theorem C11_euler_gimbal_same_only_if : forall (eps : R) (q : quatR) (e : vec3R), unitq q ->
  1 - eps <= Rabs (2 * (qw q * vy (qv q) - vz (qv q) * vx (qv q))) ->
  euler eps q = Some e -> SO3_matrix (euler2SO3 e) = SO3_matrix q ->
  vy (qv q) * vz (qv q) + vx (qv q) * qw q = 0.
Proof. exact euler_gimbal_same_only_if. Qed.
(* so the hypothesis |sin pitch| < 1 - eps of the round trip cannot be dropped: inside the band
   1 - eps <= |sin pitch| < 1 (eps = 2e-4, the default) the round trip is NOT the same rotation, e.g. for
   q = (1, 70, 0, 70)/99 (outside the property's claim; replayed on the implementation: entries off by 1.4e-2) *)
Theorem C11_euler_gimbal_band_not_inverse : exists q : quatR, unitq q /\
  1 - 1 / 5000 <= Rabs (2 * (qw q * vy (qv q) - vz (qv q) * vx (qv q))) < 1 /\
  forall e, euler (1 / 5000) q = Some e -> SO3_matrix (euler2SO3 e) <> SO3_matrix q.
Proof. exact euler_gimbal_band_refuted. Qed.
(* and "angles in their principal ranges" is FALSE on the gimbal branch: at the gimbal lock
   q = (1, -1, -1, -1)/2 the returned yaw is -3 pi/2 (for every eps >= 0; the property is read as claiming
   the ranges on the main branch only; replayed on the implementation: [0, 1.5708, -4.7124]) *)
Theorem C11_euler_gimbal_yaw_range_refuted : forall eps : R, 0 <= eps ->
  euler eps ((1 / 2, - (1 / 2), - (1 / 2)), - (1 / 2)) = Some (0, PI / 2, - (3 * PI / 2)).
Proof. exact euler_gimbal_yaw_not_principal. Qed.

(* hypotheses are satisfiable: a valid Sim3 element with scale 2; rotation by exactly pi about x *)
Example C11_valid_example : valid_Sim3 ((1, 2, 3), (((3/5, 0, 0), 4/5), 2)).
Proof. exact valid_example. Qed.
Example C11_pi_about_x : mat2SO3_core (1 / 100000) (SO3_matrix ((1, 0, 0), 0)) = Some ((1, 0, 0), 0).
Proof. exact mat2SO3_pi_about_x. Qed.

(* a proper rotation without zero entries; the rotation by exactly pi about y; rejected inputs exist;
   the hypotheses of the Euler theorems hold for non-trivial quaternions / angles (default eps = 2e-4) *)
Example C11_rotation_example : rotation ((2/3, -(1/3), 2/3), (2/3, 2/3, -(1/3)), (-(1/3), 2/3, 2/3)).
Proof. exact rotation_example. Qed.
Example C11_rotation_pi_about_y : rotation ((-1, 0, 0), (0, 1, 0), (0, 0, -1)).
Proof. exact rotation_pi_about_y. Qed.
Example C11_reflection_example : mdet3 ((1, 0, 0), (0, 1, 0), (0, 0, -1)) = -1 /\ 1 / 100000 + 1 / 100000 < 2.
Proof. exact reflection_example. Qed.
Example C11_scaled_example : 1 / 100000 + 1 / 100000 < Rabs (2 * 2 - 1).
Proof. exact scaled_example. Qed.
Example C11_euler_hyp_example : unitq ((1/5, 2/5, 2/5), 4/5) /\ Rabs (2 * (4/5 * (2/5) - 2/5 * (1/5))) < 1 - 1 / 5000.
Proof. exact euler_hyp_example. Qed.
Example C11_tiny_scale_example : valid_Sim3 ((1, 2, 3), (((3/5, 0, 0), 4/5), 1 / 200000)) /\ 1 / 200000 <= 1 / 100000.
Proof. exact tiny_scale_example. Qed.
Example C11_gimbal_lock_example : unitq ((1 / 2, - (1 / 2), - (1 / 2)), - (1 / 2)) /\
  Rabs (2 * (- (1 / 2) * - (1 / 2) - - (1 / 2) * (1 / 2))) = 1.
Proof. exact gimbal_lock_example. Qed.
Example C11_euler_angles_example : - PI < PI / 4 <= PI /\ - (PI / 2) <= PI / 6 <= PI / 2 /\ - PI < - (PI / 3) <= PI /\
  Rabs (sin (PI / 6)) < 1 - 1 / 5000.
Proof. exact euler_angles_example. Qed.

Print Assumptions C11_mat2SO3_roundtrip. Print Assumptions C11_roundtrip_same_rotation.
Print Assumptions C11_mat2SO3_discriminant_bound. Print Assumptions C11_mat2SO3_item.
Print Assumptions C11_mat2SE3_roundtrip. Print Assumptions C11_mat2Sim3_roundtrip. Print Assumptions C11_mat2RxSO3_roundtrip.
Print Assumptions C11_SE3_same_matrix. Print Assumptions C11_Sim3_same_matrix. Print Assumptions C11_RxSO3_same_matrix.
Print Assumptions C11_full_layouts_keep_translation.
Print Assumptions C11_mat2Sim3_old_shape_raises. Print Assumptions C11_mat2RxSO3_old_shape_raises.
Print Assumptions C11_mat2Sim3_old_batch_shape_refuted. Print Assumptions C11_mat2RxSO3_old_batch_shape_refuted.
Print Assumptions C11_old_empty_batch_refuted. Print Assumptions C11_empty_batch_returns. Print Assumptions C11_old_rank_test_agrees_where_well_formed.
Print Assumptions C11_check_accepts_valid. Print Assumptions C11_check_rejects. Print Assumptions C11_check_raises_ValueError.
Print Assumptions C11_within_tol_is_the_coded_test.
Print Assumptions C11_accepted_layouts. Print Assumptions C11_from_matrix_rejects_shape. Print Assumptions C11_from_matrix_rejects_ltype.
Print Assumptions C11_from_matrix_SO3. Print Assumptions C11_from_matrix_SE3. Print Assumptions C11_from_matrix_RxSO3.
Print Assumptions C11_from_matrix_Sim3.
Print Assumptions C11_euler2SO3_is_zyx. Print Assumptions C11_euler2SO3_unit. Print Assumptions C11_euler_roundtrip.
Print Assumptions C11_rotation_is_quaternion_matrix. Print Assumptions C11_quaternion_matrix_is_rotation.
Print Assumptions C11_same_matrix_same_quaternion_up_to_sign. Print Assumptions C11_mat2SO3_every_rotation.
Print Assumptions C11_mat2SO3_item_every_rotation. Print Assumptions C11_mat2SE3_every_matrix.
Print Assumptions C11_mat2Sim3_every_matrix. Print Assumptions C11_mat2RxSO3_every_matrix.
Print Assumptions C11_sim3_of_meaning. Print Assumptions C11_from_matrix_dispatch.
Print Assumptions C11_from_matrix_SO3_every_matrix. Print Assumptions C11_from_matrix_SE3_every_matrix.
Print Assumptions C11_from_matrix_Sim3_every_matrix. Print Assumptions C11_from_matrix_RxSO3_every_matrix.
Print Assumptions C11_last_row_ignored. Print Assumptions C11_radicand_bound_every_matrix.
Print Assumptions C11_mat2SO3_item_finite. Print Assumptions C11_mat2SO3_nocheck_finite.
Print Assumptions C11_large_atol_identity_nonfinite. Print Assumptions C11_mat2SE3_check_rejects.
Print Assumptions C11_mat2Sim3_check_rejects. Print Assumptions C11_mat2RxSO3_check_rejects.
Print Assumptions C11_rank_test_meaning. Print Assumptions C11_rejects_reflection_and_scaled.
Print Assumptions C11_raises_only_ValueError. Print Assumptions C11_mat2X_raise_kinds.
Print Assumptions C11_mat2Sim3_tiny_scales_raise. Print Assumptions C11_mat2RxSO3_tiny_scales_raise.
Print Assumptions C11_mat2Sim3_returns_iff. Print Assumptions C11_euler_of_euler2SO3.
Print Assumptions C11_euler_roundtrip_quaternion. Print Assumptions C11_euler_gimbal_lock_exact.
Print Assumptions C11_euler_gimbal_ranges. Print Assumptions C11_euler_gimbal_same_only_if.
Print Assumptions C11_euler_gimbal_band_not_inverse. Print Assumptions C11_euler_gimbal_yaw_range_refuted.
