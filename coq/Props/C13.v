(* C13 -- EKF / UKF = Kalman filter on linear-Gaussian systems; covariances valid.
   Statements only (over R, every dimension); proofs in Proofs/Filter.v, model in Model/Filter.v,
   matrix algebra in Base/Mat.v.

   Oracles and their contracts (hypotheses, never axioms):
     pinv_ok m pinv       torch.linalg.pinv is the inverse on symmetric positive definite m x m input
     cholesky_ok n msqrt  UKF.msqrt (default torch.linalg.cholesky): lower triangular, positive
                          diagonal, L L^T = M on SPD input       (refutations only)
     msqrt_shape n msqrt  msqrt returns an n x n matrix          (covariance theorems)
   The user's system is an arbitrary record (f, h, Jacobians A, C at the reference point).

   Outcome on the faithful model:
     REFUTED  EKF = KF on linear systems            (innovation taken at the pre-transition state)
     REFUTED  EKF = its documented recursion        (same defect; covariance part does hold)
     REFUTED  UKF = KF on linear systems            (1-dimensional witness: Pxy pairs deviations of
                                                     two different sigma sets)
     REFUTED  UKF predicted covariance = A P A^T + Q (2-dimensional non-diagonal witness: rows instead
                                                     of columns of the lower Cholesky factor)
     PROVED   the documented EKF recursion is the Kalman filter on every linear system
     PROVED   EKF / UKF (non-negative centre weight) / PF covariances are symmetric PSD, every
              dimension, every (nonlinear) system, every run length
     PROVED   a run is the fold of the one-step map
     PROVED   the UKF with both repairs (columns of the factor; Pxy from the second sigma set:
              ukf_forward_gen true true) IS the Kalman filter on every linear system, every
              dimension, every k > -n, any factor L L^T = M *)
From Coq Require Import Reals List ZArith.
From PV Require Import Base.Num Base.Mat Model.Filter Proofs.Filter.
Import ListNotations.
Local Open Scope R_scope.
#[local] Remove Hints NumQ NumZ : typeclass_instances.

(* ------------------------------------------------------------------ EKF vs Kalman filter *)
(* the clause, at full strength (Definition ekf_linear_is_kf in Proofs/Filter.v):
   forall n m p pinv A B C D c1 c2 Q R x y u P, contracts and shapes, SPD Q R P ->
     ekf_forward pinv (lin_system A B C D c1 c2) Q R x y u P = kf_step pinv A B C D c1 c2 Q R x y u P *)
Theorem C13_ekf_linear_is_kf_refuted : ~ ekf_linear_is_kf.
Proof. exact ekf_linear_is_kf_refuted. Qed.

(* the witness, for EVERY pinv satisfying the contract: n = 2, m = 1,
   A = [[1,1],[0,1]], B = [[0],[1]], C = [[1,0]], D = [[0]], c = 0, Q = [[1,1/2],[1/2,1]], R = [[1]],
   P = [[2,1],[1,2]], x = (1,1), u = (0), y = (0):  code (9/8, 9/16), Kalman filter (1/4, 1/8) *)
Theorem C13_ekf_linear_witness :
  wf 2 2 AW /\ wf 2 1 BW /\ wf 1 2 CW /\ wf 1 1 DW /\ SPD 2 QW /\ SPD 1 RW /\ SPD 2 PW /\
  forall pinv, pinv_ok 1 pinv ->
    fst (ekf_forward pinv (lin_system AW BW CW DW c1W c2W) QW RW xW yW uW PW) = [9/8; 9/16] /\
    fst (kf_step pinv AW BW CW DW c1W c2W QW RW xW yW uW PW) = [1/4; 1/8].
Proof. exact ekf_linear_witness. Qed.

(* the recursion the documentation states (innovation at the predicted state) IS the Kalman filter *)
Theorem C13_ekf_documented_recursion_linear_is_kf :
  forall (pinv : matR -> matR) A B C D c1 c2 Q Rm x y u (P : matR) n,
  wf n n A -> wf n n P ->
  ekf_forward_gen pinv true (lin_system A B C D c1 c2) Q Rm x y u P = kf_step pinv A B C D c1 c2 Q Rm x y u P.
Proof. exact ekf_documented_linear_is_kf. Qed.

(* nonlinear systems: the code is NOT its documented recursion ... *)
Theorem C13_ekf_nonlinear_is_documented_recursion_refuted : ~ ekf_is_documented_recursion.
Proof. exact ekf_is_documented_recursion_refuted. Qed.
(* ... but its covariance is *)
Theorem C13_ekf_covariance_is_documented_recursion :
  forall (pinv : matR -> matR) (s : @system R) Q Rm x y u P,
  snd (ekf_forward pinv s Q Rm x y u P) = snd (ekf_forward_gen pinv true s Q Rm x y u P).
Proof. exact ekf_covariance_is_documented. Qed.

(* covariance validity: every dimension, every system (A, C arbitrary well-formed matrices) *)
Theorem C13_ekf_cov_symmetric_psd :
  forall (pinv : matR -> matR) (n m : nat) (s : @system R) (Q Rm : matR) (x y u : list R) (P : matR) (at_pred : bool),
  pinv_ok m pinv ->
  wf n n (sA s x u) -> wf m n (sC s x u) ->
  wf n n P -> wf n n Q -> wf m m Rm -> msym P -> msym Q -> msym Rm -> PSD n P -> PSD n Q -> PD m Rm ->
  let P' := snd (ekf_forward_gen pinv at_pred s Q Rm x y u P) in
  wf n n P' /\ msym P' /\ PSD n P'.
Proof. exact ekf_cov_symmetric_psd. Qed.

(* ------------------------------------------------------------------ UKF vs Kalman filter *)
Theorem C13_ukf_linear_is_kf_refuted : ~ ukf_linear_is_kf.
Proof. exact ukf_linear_is_kf_refuted. Qed.

(* witness 1 (n = m = 1, so rows = columns: isolates the mixed sigma sets), for EVERY pinv / Cholesky
   oracle: A = C = 1, B = D = 0, Q = 3, R = 1, P = 1, x = 0, u = 0, y = 1, k = 3:
   code (2/5, 16/5), Kalman filter (4/5, 4/5) *)
Theorem C13_ukf_linear_witness :
  forall pinv msqrt, pinv_ok 1 pinv -> cholesky_ok 1 msqrt ->
  ukf_forward pinv msqrt (lin_system A1 B1 A1 B1 z1 z1) Q1 R1 z1 y1 z1 P1 3 = Some ([2/5], [[16/5]]) /\
  kf_step pinv A1 B1 A1 B1 z1 z1 Q1 R1 z1 y1 z1 P1 = ([4/5], [[4/5]]).
Proof. exact ukf_witness1_values. Qed.

(* witness 2 (n = 2, non-diagonal P: rows of the lower Cholesky factor), for EVERY Cholesky oracle:
   A = I, B = 0, Q = [[1,1/2],[1/2,1]], P = [[1,1/2],[1/2,1/2]], k = 2:
   predicted covariance of the code [[9/4,3/4],[3/4,5/4]], Kalman filter P + Q = [[2,1],[1,3/2]] *)
Theorem C13_ukf_sigma_points_witness :
  forall msqrt, cholesky_ok 2 msqrt ->
  ukf_predict msqrt (lin_system I2 B2 I2 B2 z2 z2) Q2 z2 [0] P2 2 = Some ([0; 0], [[9/4; 3/4]; [3/4; 5/4]]) /\
  kf_predict I2 B2 z2 Q2 z2 [0] P2 = ([0; 0], [[2; 1]; [1; 3/2]]).
Proof. exact ukf_witness2_values. Qed.
Theorem C13_ukf_predict_linear_is_kf_predict_refuted : ~ ukf_predict_linear_is_kf_predict.
Proof. exact ukf_predict_linear_is_kf_predict_refuted. Qed.

(* with both repairs -- sigma points = mean +- COLUMNS of the factor, Pxy built from the deviations of
   the second sigma set -- the UKF step is the Kalman step: every dimension, every k > -n, every
   factor oracle with L L^T = M (lower Cholesky included: cholesky_ok_factor_ok) *)
Theorem C13_ukf_repaired_linear_is_kf :
  forall (n m p : nat) (pinv msqrt : matR -> matR) (A B C D : matR) (c1 c2 : list R)
         (Q Rm : matR) (x y u : list R) (P : matR) (k : R),
  pinv_ok m pinv -> factor_ok n msqrt ->
  wf n n A -> wf n p B -> wf m n C -> wf m p D -> length c1 = n -> length c2 = m ->
  SPD n Q -> SPD m Rm -> SPD n P -> length x = n -> length u = p ->
  0 < IZR (Z.of_nat n) + k ->
  ukf_forward_gen pinv msqrt true true (lin_system A B C D c1 c2) Q Rm x y u P k =
  Some (kf_step pinv A B C D c1 c2 Q Rm x y u P).
Proof. exact ukf_repaired_linear_is_kf. Qed.

(* covariance validity whenever the centre weight k/(n+k) is non-negative: every dimension, every
   system, rows or columns; the call returns (no assert fails) *)
Theorem C13_ukf_cov_symmetric_psd :
  forall (pinv msqrt : matR -> matR) (n m : nat),
  pinv_ok m pinv -> msqrt_shape n msqrt -> (0 < n)%nat -> (0 < m)%nat ->
  forall (s : @system R) (u : list R),
  (forall p, length p = n -> length (sf s p u) = n) -> (forall p, length p = n -> length (sh s p u) = m) ->
  forall Q Rm : matR, wf n n Q -> wf m m Rm -> msym Q -> msym Rm -> PSD n Q -> PD m Rm ->
  forall (by_cols : bool) (x y : list R) (P : matR) (k : R),
  wf n n P -> length x = n -> 0 <= k -> 0 < IZR (Z.of_nat n) + k ->
  exists x' P', ukf_forward_gen pinv msqrt by_cols false s Q Rm x y u P k = Some (x', P') /\
                length x' = n /\ wf n n P' /\ msym P' /\ PSD n P'.
Proof. exact ukf_cov_symmetric_psd. Qed.

(* ------------------------------------------------------------------ PF *)
Theorem C13_pf_cov_symmetric_psd :
  forall n (q : list R) (xs : matR) (r : list R) (Q : matR) x' P',
  (forall p, In p xs -> length p = n) -> (0 < n)%nat -> r <> [] ->
  wf n n Q -> msym Q -> PSD n Q ->
  pf_estimate q xs r Q = Some (x', P') -> wf n n P' /\ msym P' /\ PSD n P'.
Proof. exact pf_estimate_cov_valid. Qed.

(* importance weights: positive, sum to one, independent of the normalising constant of log_prob *)
Theorem C13_pf_weights_normalised :
  forall l : list R, l <> [] ->
  (forall a, In a (softmax l) -> 0 < a) /\ fold_left add (softmax l) zero = 1.
Proof. exact softmax_positive_sums_to_one. Qed.
Theorem C13_pf_lognorm_irrelevant :
  forall (pinv msqrt : matR -> matR) (ln1 ln2 : matR -> R) (s : @system R) Q Rm x y u P eps r,
  pf_forward pinv msqrt ln1 s Q Rm x y u P eps r = pf_forward pinv msqrt ln2 s Q Rm x y u P eps r.
Proof. exact pf_forward_lognorm_irrelevant. Qed.

(* ------------------------------------------------------------------ runs *)
Theorem C13_run_is_fold :
  (forall (pinv : matR -> matR) (s : @system R) Q Rm st l1 l2,
     ekf_run pinv s Q Rm st (l1 ++ l2) = ekf_run pinv s Q Rm (ekf_run pinv s Q Rm st l1) l2) /\
  (forall (pinv : matR -> matR) (s : @system R) Q Rm st yu l,
     ekf_run pinv s Q Rm st (yu :: l) =
     ekf_run pinv s Q Rm (ekf_forward pinv s Q Rm (fst st) (fst yu) (snd yu) (snd st)) l) /\
  (forall (pinv msqrt : matR -> matR) (s : @system R) Q Rm k st l1 l2,
     ukf_run pinv msqrt s Q Rm k st (l1 ++ l2) = ukf_run pinv msqrt s Q Rm k (ukf_run pinv msqrt s Q Rm k st l1) l2).
Proof. split; [exact ekf_run_app | split; [exact ekf_run_cons | exact ukf_run_app]]. Qed.

Theorem C13_ekf_run_cov_valid :
  forall (pinv : matR -> matR) n m (s : @system R) Q Rm,
  pinv_ok m pinv ->
  (forall x u, wf n n (sA s x u)) -> (forall x u, wf m n (sC s x u)) ->
  wf n n Q -> wf m m Rm -> msym Q -> msym Rm -> PSD n Q -> PD m Rm ->
  forall steps x P, wf n n P -> msym P -> PSD n P ->
  let P' := snd (ekf_run pinv s Q Rm (x, P) steps) in wf n n P' /\ msym P' /\ PSD n P'.
Proof. exact ekf_run_cov_valid. Qed.

Theorem C13_ukf_run_cov_valid :
  forall (pinv msqrt : matR -> matR) n m (s : @system R) Q Rm k,
  pinv_ok m pinv -> msqrt_shape n msqrt -> (0 < n)%nat -> (0 < m)%nat ->
  (forall p u, length p = n -> length (sf s p u) = n) -> (forall p u, length p = n -> length (sh s p u) = m) ->
  wf n n Q -> wf m m Rm -> msym Q -> msym Rm -> PSD n Q -> PD m Rm ->
  0 <= k -> 0 < IZR (Z.of_nat n) + k ->
  forall steps x P, wf n n P -> length x = n ->
  exists x' P', ukf_run pinv msqrt s Q Rm k (Some (x, P)) steps = Some (x', P') /\
                length x' = n /\ wf n n P' /\ (steps <> [] -> msym P' /\ PSD n P').
Proof. exact ukf_run_cov_valid. Qed.

(* ------------------------------------------------------------------ the contracts are satisfiable *)
Example C13_pinv_contract_satisfiable : pinv_ok 1 (fun M => [[1 / mget M 0 0]]).
Proof. exact pinv_ok_1_satisfiable. Qed.
Example C13_cholesky_contract_satisfiable :
  cholesky_ok 1 (fun M => [[sqrt (mget M 0 0)]]) /\ cholesky_ok 2 chol2.
Proof. split; [exact cholesky_ok_1_satisfiable | exact cholesky_ok_2_satisfiable]. Qed.

Print Assumptions C13_ekf_linear_is_kf_refuted.
Print Assumptions C13_ekf_linear_witness.
Print Assumptions C13_ekf_documented_recursion_linear_is_kf.
Print Assumptions C13_ekf_nonlinear_is_documented_recursion_refuted.
Print Assumptions C13_ekf_covariance_is_documented_recursion.
Print Assumptions C13_ekf_cov_symmetric_psd.
Print Assumptions C13_ukf_linear_is_kf_refuted.
Print Assumptions C13_ukf_linear_witness.
Print Assumptions C13_ukf_sigma_points_witness.
Print Assumptions C13_ukf_predict_linear_is_kf_predict_refuted.
Print Assumptions C13_ukf_repaired_linear_is_kf.
Print Assumptions C13_ukf_cov_symmetric_psd.
Print Assumptions C13_pf_cov_symmetric_psd.
Print Assumptions C13_pf_weights_normalised.
Print Assumptions C13_pf_lognorm_irrelevant.
Print Assumptions C13_run_is_fold.
Print Assumptions C13_ekf_run_cov_valid.
Print Assumptions C13_ukf_run_cov_valid.
Print Assumptions C13_pinv_contract_satisfiable.
Print Assumptions C13_cholesky_contract_satisfiable.
